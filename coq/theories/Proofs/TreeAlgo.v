(* Proofs/TreeAlgo.v — C13, deepening: the mirror of Trick's leaf-elimination loop (Model/TreeAlgo.v)
   terminates, is sound and is complete, for every admissible way of iterating the two Python sets. *)
From Coq Require Import List NArith Bool Arith Lia Permutation.
From PrefVerif Require Import Lib.Val Model.Tree Model.TreeAlgo Proofs.Tree.
Import ListNotations.

(* ------------------------------------------------------------------------------------------------ *)
(** * Lists: restrict, drop, before, last *)

Lemma restrict_in C v x : In x (restrict C v) <-> In x v /\ In x C.
Proof. unfold restrict. rewrite filter_In, memb_iff. tauto. Qed.

Lemma drop_in a C x : In x (drop a C) <-> In x C /\ x <> a.
Proof. unfold drop. rewrite filter_In, negb_true_iff, N.eqb_neq. tauto. Qed.

Lemma memb_drop a C x : memb x (drop a C) = memb x C && negb (N.eqb x a).
Proof.
  apply bool_eq_iff. rewrite andb_true_iff, !memb_iff, drop_in, negb_true_iff, N.eqb_neq. tauto.
Qed.

Lemma filter_filter_and {A} (f g : A -> bool) l :
  filter f (filter g l) = filter (fun x => g x && f x) l.
Proof.
  induction l as [|x l IH]; cbn; [reflexivity|].
  destruct (g x); cbn; [destruct (f x); rewrite IH; reflexivity|exact IH].
Qed.

Lemma restrict_drop a C v : restrict (drop a C) v = drop a (restrict C v).
Proof.
  unfold restrict, drop at 2. rewrite filter_filter_and. apply filter_ext. intros x. apply memb_drop.
Qed.

Lemma drop_cons a x l : drop a (x :: l) = if N.eqb x a then drop a l else x :: drop a l.
Proof. unfold drop. cbn. destruct (N.eqb x a); reflexivity. Qed.

Lemma drop_notin a l : ~ In a l -> drop a l = l.
Proof.
  induction l as [|x l IH]; intros H; [reflexivity|]. rewrite drop_cons.
  destruct (N.eqb_spec x a) as [->|Hn].
  - exfalso. apply H. left; reflexivity.
  - rewrite IH; [reflexivity|]. intros Hin. apply H. right; exact Hin.
Qed.

Lemma drop_length a C : NoDup C -> In a C -> length C = S (length (drop a C)).
Proof.
  induction 1 as [|x C Hx Hnd IH]; intros Hin; [destruct Hin|]. rewrite drop_cons.
  destruct (N.eqb_spec x a) as [->|Hn]; cbn [length].
  - rewrite drop_notin by exact Hx. reflexivity.
  - destruct Hin as [->|Hin]; [contradiction|]. rewrite <- IH by exact Hin. reflexivity.
Qed.

Lemma filter_len_le {A} (f : A -> bool) l : length (filter f l) <= length l.
Proof. induction l as [|x l IH]; cbn; [lia|]. destruct (f x); cbn; lia. Qed.

Lemma filter_shorter {A} (f : A -> bool) l a : In a l -> f a = false -> length (filter f l) < length l.
Proof.
  induction l as [|x l IH]; intros Hin Hf; [destruct Hin|]. cbn.
  pose proof (filter_len_le f l) as Hle.
  destruct Hin as [->|Hin].
  - rewrite Hf. lia.
  - specialize (IH Hin Hf). destruct (f x); cbn; lia.
Qed.

Lemma restrict_all C v : incl v C -> restrict C v = v.
Proof.
  induction v as [|x v IH]; intros Hi; [reflexivity|].
  assert (Hx : memb x C = true) by (apply memb_iff; apply Hi; left; reflexivity).
  unfold restrict in *. cbn [filter]. rewrite Hx, IH; [reflexivity|]. intros y Hy. apply Hi. right; exact Hy.
Qed.

Lemma firstn_In' {A} k (l : list A) x : In x (firstn k l) -> In x l.
Proof.
  revert l. induction k as [|k IH]; intros l H; [destruct H|]. destruct l as [|y l]; [destruct H|].
  cbn in H. destruct H as [->|H]; [left; reflexivity|right; auto].
Qed.

Lemma nonempty_in {A} (l : list A) : l <> [] -> exists x, In x l.
Proof. destruct l as [|x l]; [contradiction|]. intros _. exists x. left; reflexivity. Qed.

Lemma last_in (r : list N) y : In (last r y) (y :: r).
Proof.
  destruct r as [|x r0] eqn:E; [left; reflexivity|]. rewrite <- E.
  destruct (exists_last (l := r)) as (r' & z & ->); [rewrite E; discriminate|].
  rewrite last_last. right. apply in_or_app. right. left; reflexivity.
Qed.

Lemma before_incl a r x : In x (before a r) -> In x r.
Proof.
  induction r as [|y r IH]; cbn; [tauto|]. destruct (N.eqb y a); [intros []|].
  intros [->|H]; auto.
Qed.

Lemma before_notin a r : ~ In a (before a r).
Proof.
  induction r as [|y r IH]; cbn; [tauto|]. destruct (N.eqb_spec y a) as [->|Hn]; [tauto|].
  intros [H|H]; [congruence|auto].
Qed.

Lemma B_i_incl a r x : In x (B_i a r) -> In x r.
Proof.
  destruct r as [|t r]; cbn [B_i]; [tauto|]. destruct (N.eqb a t).
  - intros H. right. destruct r as [|s r]; cbn in H; [destruct H|]. destruct H as [->|[]]. left; reflexivity.
  - apply before_incl.
Qed.

Lemma B_i_neq a r x : NoDup r -> In x (B_i a r) -> x <> a.
Proof.
  intros Hnd. destruct r as [|t r]; cbn [B_i]; [tauto|]. destruct (N.eqb_spec a t) as [->|Hn].
  - intros H ->. destruct r as [|s r]; cbn in H; [destruct H|]. destruct H as [->|[]].
    inversion Hnd as [|? ? Hnot _]. apply Hnot. left; reflexivity.
  - intros H ->. exact (before_notin _ _ H).
Qed.

Lemma inter_in l1 l2 x : In x (inter l1 l2) <-> In x l1 /\ In x l2.
Proof. unfold inter. rewrite filter_In, memb_iff. tauto. Qed.

(* ------------------------------------------------------------------------------------------------ *)
(** * get_B computes (a list representing) the intersection of the B(i, a) *)

Lemma get_B_from_sound a rs : forall acc B x,
  get_B_from acc a rs = Some B -> In x B ->
  (forall r, In r rs -> In x (B_i a r)) /\ (forall B0, acc = Some B0 -> In x B0).
Proof.
  induction rs as [|r rs IH]; intros acc B x Hg Hx; cbn in Hg.
  - split; [intros r []|]. intros B0 ->. injection Hg as ->. exact Hx.
  - destruct (IH _ _ _ Hg Hx) as [H1 H2]. specialize (H2 _ eq_refl).
    destruct acc as [B0|].
    + apply inter_in in H2. destruct H2 as [H2 H3]. split.
      * intros r' [<-|Hr']; auto.
      * intros B1 E. injection E as <-. exact H2.
    + split; [|discriminate]. intros r' [<-|Hr']; auto.
Qed.

Lemma get_B_from_complete a rs : forall acc x,
  (forall r, In r rs -> In x (B_i a r)) -> (forall B0, acc = Some B0 -> In x B0) ->
  (acc <> None \/ rs <> []) ->
  exists B, get_B_from acc a rs = Some B /\ In x B.
Proof.
  induction rs as [|r rs IH]; intros acc x Hr Hacc Hne; cbn.
  - destruct acc as [B0|]; [exists B0; auto|]. destruct Hne; contradiction.
  - apply IH.
    + intros r' Hr'. apply Hr. right; exact Hr'.
    + intros B1 E. injection E as <-. destruct acc as [B0|].
      * apply inter_in. split; [apply Hacc; reflexivity|apply Hr; left; reflexivity].
      * apply Hr. left; reflexivity.
    + left. discriminate.
Qed.

Lemma get_B_sound p C a B x :
  get_B p C a = Some B -> In x B -> forall v, In v p -> In x (B_i a (restrict C v)).
Proof.
  unfold get_B. intros Hg Hx v Hv. destruct (get_B_from_sound _ _ _ _ _ Hg Hx) as [H _].
  apply H. apply in_map. exact Hv.
Qed.

(* ------------------------------------------------------------------------------------------------ *)
(** * Monotonicity of the one-pass vote test *)

Lemma connected_adj_mono_local T T' S :
  (forall u w, adj T u w -> adj T' u w) -> connected T S -> connected T' S.
Proof. intros Ha Hc u w Hu Hw. eapply path_adj_mono; [exact Ha|apply Hc; assumption]. Qed.

Lemma near_mono T T' seen seen' x :
  incl seen seen' -> (forall u w, adj T u w -> adj T' u w) -> near T seen x = true -> near T' seen' x = true.
Proof.
  intros Hi Ha H. apply near_iff in H. apply near_iff. destruct H as [H|(r & Hr & Hadj)]; [left; auto|].
  right. exists r. split; auto.
Qed.

Lemma attach_ok_mono T T' v : forall seen seen',
  incl seen seen' -> (forall u w, adj T u w -> adj T' u w) ->
  attach_ok T seen v = true -> attach_ok T' seen' v = true.
Proof.
  induction v as [|x v IH]; intros seen seen' Hi Ha H; cbn in *; [reflexivity|].
  apply andb_true_iff in H. destruct H as [H1 H2]. apply andb_true_iff. split.
  - eapply near_mono; eauto.
  - eapply IH; [|exact Ha|exact H2]. intros y [<-|Hy]; [left; reflexivity|right; auto].
Qed.

(* ------------------------------------------------------------------------------------------------ *)
(** * Adding the removed alternative a back as a leaf next to b keeps every vote prefix connected *)

Section AddLeaf.
Variables (a b : N) (T0 : list edge).
Let T1 : list edge := (b, a) :: T0.

Lemma adj_T0_T1 u w : adj T0 u w -> adj T1 u w.
Proof. unfold adj, T1. cbn. tauto. Qed.

Lemma adj_b_a : adj T1 b a.
Proof. left. left. reflexivity. Qed.

(* once a has been seen *)
Lemma attach_after r : forall seen0 seen,
  incl seen0 seen -> In a seen -> attach_ok T0 seen0 (drop a r) = true -> attach_ok T1 seen r = true.
Proof.
  induction r as [|x r IH]; intros seen0 seen Hi Ha H; [reflexivity|].
  cbn [drop filter] in H. cbn [attach_ok]. apply andb_true_iff.
  destruct (N.eqb_spec x a) as [->|Hn]; cbn [negb] in H.
  - split; [apply near_iff; left; exact Ha|].
    eapply IH; [|left; reflexivity|exact H]. intros y Hy. right; auto.
  - cbn [attach_ok] in H. apply andb_true_iff in H. destruct H as [H1 H2]. split.
    + eapply near_mono; [exact Hi|exact adj_T0_T1|exact H1].
    + eapply IH; [|right; exact Ha|exact H2]. intros y [<-|Hy]; [left; reflexivity|right; auto].
Qed.

(* before a has been seen: b is among the alternatives ranked before a *)
Lemma attach_before r : forall seen0 seen,
  incl seen0 seen -> In b seen0 \/ In b (before a r) ->
  attach_ok T0 seen0 (drop a r) = true -> attach_ok T1 seen r = true.
Proof.
  induction r as [|x r IH]; intros seen0 seen Hi Hb H; [reflexivity|].
  cbn [drop filter] in H. cbn [before] in Hb. cbn [attach_ok]. apply andb_true_iff.
  destruct (N.eqb_spec x a) as [->|Hn]; cbn [negb] in H.
  - destruct Hb as [Hb|[]]. split.
    + apply near_iff. right. exists b. split; [apply Hi; exact Hb|exact adj_b_a].
    + eapply attach_after; [|left; reflexivity|exact H]. intros y Hy. right; auto.
  - cbn [attach_ok] in H. apply andb_true_iff in H. destruct H as [H1 H2]. split.
    + eapply near_mono; [exact Hi|exact adj_T0_T1|exact H1].
    + eapply IH; [| |exact H2].
      * intros y [<-|Hy]; [left; reflexivity|right; auto].
      * destruct Hb as [Hb|[Hb|Hb]]; [left; right; exact Hb|left; left; exact Hb|right; exact Hb].
Qed.

Lemma vote_add_leaf r :
  b <> a -> In b (B_i a r) -> vote_ok T0 (drop a r) = true -> vote_ok T1 r = true.
Proof.
  intros Hba Hb H. destruct r as [|t r]; [destruct Hb|]. cbn [B_i] in Hb.
  destruct (N.eqb_spec a t) as [<-|Hn].
  - (* a on top, b second *)
    destruct r as [|s r]; cbn in Hb; [destruct Hb|]. destruct Hb as [->|[]].
    cbn [drop filter] in H. rewrite N.eqb_refl in H. cbn [negb] in H.
    destruct (N.eqb_spec b a) as [E|_]; [contradiction|]. cbn [negb vote_ok] in H.
    cbn [vote_ok attach_ok]. apply andb_true_iff. split.
    + apply near_iff. right. exists a. split; [left; reflexivity|apply adj_sym; exact adj_b_a].
    + eapply attach_after; [|right; left; reflexivity|exact H].
      intros y [<-|[]]. left; reflexivity.
  - cbn [drop filter] in H. destruct (N.eqb_spec t a) as [E|_]; [congruence|]. cbn [negb vote_ok] in H.
    cbn [vote_ok]. cbn [before] in Hb. destruct (N.eqb_spec t a) as [E|_]; [congruence|].
    eapply attach_before; [apply incl_refl| |exact H].
    destruct Hb as [->|Hb]; [left; left; reflexivity|right; exact Hb].
Qed.
End AddLeaf.

(* ------------------------------------------------------------------------------------------------ *)
(** * Small trees *)

Lemma connected_sub_single T x S : (forall z, In z S -> z = x) -> connected T S.
Proof.
  intros H u w Hu Hw. rewrite (H _ Hw), <- (H _ Hu). apply path_refl. exact Hu.
Qed.

Lemma connected_sub_pair x y S : (forall z, In z S -> z = x \/ z = y) -> connected [(x, y)] S.
Proof.
  intros H u w Hu Hw. destruct (N.eq_dec u w) as [->|Hn]; [apply path_refl; exact Hw|].
  eapply path_step; [exact Hu| |apply path_refl; exact Hw].
  unfold adj. cbn. destruct (H _ Hu) as [->| ->], (H _ Hw) as [->| ->]; try congruence; auto.
Qed.


(* ------------------------------------------------------------------------------------------------ *)
(** * Removing a leaf (for completeness) *)

Definition inc (a : N) (e : edge) : bool := N.eqb (fst e) a || N.eqb (snd e) a.
(* T without the edges incident to a *)
Definition Tm (a : N) (T : list edge) : list edge := filter (fun e => negb (inc a e)) T.

Lemma adj_Tm a T u w : adj (Tm a T) u w <-> adj T u w /\ u <> a /\ w <> a.
Proof.
  unfold adj, Tm. rewrite !filter_In. unfold inc. cbn [fst snd].
  rewrite !negb_true_iff, !orb_false_iff, !N.eqb_neq. tauto.
Qed.

Lemma path_avoid a T S x y : ~ In a S -> path_in T S x y -> path_in (Tm a T) S x y.
Proof.
  intros Ha. induction 1 as [u Hu|u w y Hu Huw Hwy IH].
  - apply path_refl. exact Hu.
  - eapply path_step; [exact Hu| |exact IH]. apply adj_Tm. split; [exact Huw|].
    split; intros ->; [contradiction|]. apply Ha. eapply path_in_l. exact Hwy.
Qed.

Lemma filter_two {A} (f : A -> bool) l e1 e2 :
  e1 <> e2 -> In e1 l -> In e2 l -> f e1 = false -> f e2 = false -> length (filter f l) + 2 <= length l.
Proof.
  intros Hne H1 H2 F1 F2. apply in_split in H1. destruct H1 as (l1 & l2 & ->).
  rewrite filter_app, !app_length. cbn [filter length]. rewrite F1.
  pose proof (filter_len_le f l1) as L1. pose proof (filter_len_le f l2) as L2.
  apply in_app_or in H2. destruct H2 as [H2|[H2|H2]]; [|congruence|].
  - pose proof (filter_shorter f l1 e2 H2 F2). lia.
  - pose proof (filter_shorter f l2 e2 H2 F2). lia.
Qed.

Lemma inc_of_adj a T x : adj T a x -> exists e, In e T /\ inc a e = true /\ (e = (a, x) \/ e = (x, a)).
Proof.
  intros [H|H]; eexists; (split; [exact H|]); unfold inc; cbn [fst snd]; rewrite N.eqb_refl;
    (split; [|auto]); auto using orb_true_r.
Qed.

(* if the alternatives other than a stay connected without a, at most one edge of a spanning tree touches a *)
Lemma leaf_edge_bound (C : list N) T a S0 :
  NoDup S0 -> ~ In a S0 -> length C = S (length S0) -> length C = S (length T) -> connected T S0 ->
  length T <= S (length (Tm a T)).
Proof.
  intros Hnd Ha HC HT Hc.
  assert (Hc' : connected (Tm a T) S0).
  { intros u w Hu Hw. apply path_avoid; [exact Ha|apply Hc; assumption]. }
  pose proof (connected_edge_bound _ _ Hnd Hc'). lia.
Qed.

Lemma leaf_unique (C : list N) T a S0 x y :
  NoDup S0 -> ~ In a S0 -> length C = S (length S0) -> length C = S (length T) -> connected T S0 ->
  (forall u w, adj T u w -> u <> w) ->
  adj T a x -> adj T a y -> x = y.
Proof.
  intros Hnd Ha HC HT Hc Hirr Hx Hy.
  destruct (N.eq_dec x y) as [E|Hne]; [exact E|exfalso].
  pose proof (leaf_edge_bound C T a S0 Hnd Ha HC HT Hc) as Hb.
  destruct (inc_of_adj _ _ _ Hx) as (e1 & He1 & Hi1 & Hf1).
  destruct (inc_of_adj _ _ _ Hy) as (e2 & He2 & Hi2 & Hf2).
  assert (Hax : a <> x) by (apply Hirr; exact Hx).
  assert (Hay : a <> y) by (apply Hirr; exact Hy).
  assert (Hne12 : e1 <> e2).
  { destruct Hf1 as [-> | ->], Hf2 as [-> | ->]; intros E; inversion E; congruence. }
  assert (F1 : negb (inc a e1) = false) by (rewrite Hi1; reflexivity).
  assert (F2 : negb (inc a e2) = false) by (rewrite Hi2; reflexivity).
  pose proof (filter_two (fun e => negb (inc a e)) T e1 e2 Hne12 He1 He2 F1 F2) as H2.
  fold (Tm a T) in H2. lia.
Qed.

(* paths in T between vertices other than the leaf a (unique neighbour c) survive the removal of a *)
Lemma path_shortcut a c T S :
  (forall x, adj T a x -> x = c) -> c <> a ->
  forall u y, path_in T S u y -> y <> a ->
    (u <> a -> path_in (Tm a T) (drop a S) u y) /\ (u = a -> path_in (Tm a T) (drop a S) c y).
Proof.
  intros Huniq Hca u y Hpath. induction Hpath as [u Hu|u w y Hu Huw Hwy IH]; intros Hy.
  - split; [intros Hn; apply path_refl; apply drop_in; auto|intros ->; contradiction].
  - destruct (IH Hy) as [IH1 IH2]. split.
    + intros Hn. destruct (N.eq_dec w a) as [->|Hw].
      * assert (u = c) by (apply Huniq; apply adj_sym; exact Huw). subst u. apply IH2. reflexivity.
      * eapply path_step; [apply drop_in; auto| |apply IH1; exact Hw]. apply adj_Tm. auto.
    + intros ->. assert (w = c) by (apply Huniq; exact Huw). subst w. apply IH1. exact Hca.
Qed.

Lemma connected_remove_leaf a c T S :
  (forall x, adj T a x -> x = c) -> c <> a -> connected T S -> connected (Tm a T) (drop a S).
Proof.
  intros Huniq Hca Hc u w Hu Hw. apply drop_in in Hu. apply drop_in in Hw.
  destruct Hu as [Hu Hua], Hw as [Hw Hwa].
  apply (proj1 (path_shortcut a c T S Huniq Hca u w (Hc u w Hu Hw) Hwa)). exact Hua.
Qed.

Lemma firstn_drop a r : forall k, exists k', firstn k (drop a r) = drop a (firstn k' r).
Proof.
  induction r as [|x r IH]; intros k.
  - exists 0. destruct k; reflexivity.
  - rewrite drop_cons. destruct (N.eqb x a) eqn:E.
    + destruct (IH k) as (k' & Hk'). exists (S k'). cbn [firstn]. rewrite drop_cons, E. exact Hk'.
    + destruct k as [|k]; [exists 0; reflexivity|].
      destruct (IH k) as (k' & Hk'). exists (S k'). cbn [firstn]. rewrite drop_cons, E, Hk'. reflexivity.
Qed.

(* in a vote every prefix of which is connected, the unique neighbour c of a is ranked before a
   (unless a is already among the alternatives seen) *)
Lemma attach_neighbour_before T a c r : forall seen,
  (forall y, adj T y a -> y = c) ->
  attach_ok T seen r = true -> ~ In a seen -> In a r -> In c (seen ++ before a r).
Proof.
  induction r as [|x r IH]; intros seen Huniq H Hs Hin; [destruct Hin|].
  cbn [attach_ok] in H. apply andb_true_iff in H. destruct H as [H1 H2]. cbn [before].
  destruct (N.eqb_spec x a) as [->|Hn].
  - apply near_iff in H1. destruct H1 as [H1|(y & Hy & Hya)]; [contradiction|].
    apply Huniq in Hya. subst y. apply in_or_app. left; exact Hy.
  - destruct Hin as [->|Hin]; [congruence|].
    assert (Hs' : ~ In a (x :: seen)) by (intros [E|E]; [congruence|contradiction]).
    specialize (IH (x :: seen) Huniq H2 Hs' Hin).
    apply in_app_or in IH. apply in_or_app. destruct IH as [[<-|IH]|IH].
    + right; left; reflexivity.
    + left; exact IH.
    + right; right; exact IH.
Qed.

Lemma last_cons_default {A} (r : list A) : forall y d, last (y :: r) d = last r y.
Proof.
  induction r as [|x r IH]; intros y d; [reflexivity|].
  change (last (y :: x :: r) d) with (last (x :: r) d). rewrite (IH x d), (IH x y). reflexivity.
Qed.

Lemma forallb_false {A} (f : A -> bool) l : forallb f l = false -> exists x, In x l /\ f x = false.
Proof.
  induction l as [|x l IH]; cbn; [discriminate|]. destruct (f x) eqn:E; cbn.
  - intros H. destruct (IH H) as (y & Hy & Hf). exists y. auto.
  - intros _. exists x. auto.
Qed.

(* ------------------------------------------------------------------------------------------------ *)
(** * The run *)

Section Run.
Variable alts : list N.
Variable p : list (list N).
Hypothesis Hnd : NoDup alts.
Hypothesis Hp : forall v, In v p -> Permutation alts v.

Variable enumL : list N -> list N -> list N.
Variable pickB : list N -> N -> list N -> N.
Hypothesis Henum : forall C l, NoDup (enumL C l) /\ forall x, In x (enumL C l) <-> In x l.
Hypothesis Hpick : forall C a B, B <> [] -> In (pickB C a B) B.

Lemma vote_nodup v : In v p -> NoDup v.
Proof. intros Hv. eapply Permutation_NoDup; [apply Hp; exact Hv|exact Hnd]. Qed.

Lemma vote_incl v : In v p -> incl v alts.
Proof. intros Hv x Hx. eapply Permutation_in; [apply Permutation_sym; apply Hp; exact Hv|exact Hx]. Qed.

Lemma vote_full v x : In v p -> In x alts -> In x v.
Proof. intros Hv Hx. eapply Permutation_in; [apply Hp; exact Hv|exact Hx]. Qed.

Lemma restrict_nodup C v : In v p -> NoDup (restrict C v).
Proof. intros Hv. apply NoDup_filter. apply vote_nodup. exact Hv. Qed.

Lemma restrict_alts_profile : map (restrict alts) p = p.
Proof.
  rewrite <- (map_id p) at 2. apply map_ext_in. intros v Hv. apply restrict_all. apply vote_incl. exact Hv.
Qed.

(* T0 is a witness for the profile restricted to C *)
Definition good (C : list N) (T0 : list edge) : Prop := spt_spec C (map (restrict C) p) T0.

Lemma good_vote C T0 v : good C T0 -> In v p -> vote_ok T0 (restrict C v) = true.
Proof. intros [_ H] Hv. apply vote_ok_iff. apply H. apply in_map. exact Hv. Qed.

Lemma good_same_graph C T T' : same_graph T T' -> good C T -> good C T'.
Proof. apply spt_spec_same_graph. Qed.

Lemma good_add_leaf C a b T0 :
  NoDup C -> In a C -> In b C -> b <> a ->
  (forall v, In v p -> In b (B_i a (restrict C v))) ->
  good (drop a C) T0 -> good C ((b, a) :: T0).
Proof.
  intros HC Ha Hb Hba HB Hg. pose proof Hg as [(Hlen & Hwf & Hconn) _]. split; [split; [|split]|].
  - cbn. rewrite <- Hlen. apply drop_length; assumption.
  - constructor.
    + unfold edge_wf. cbn. auto.
    + eapply Forall_impl; [|exact Hwf]. intros e (H1 & H2 & H3).
      apply drop_in in H1. apply drop_in in H2. unfold edge_wf. tauto.
  - eapply connected_ext with (S := a :: drop a C).
    + intros x [<-|Hx]; [exact Ha|]. apply drop_in in Hx. tauto.
    + intros x Hx. destruct (N.eq_dec x a) as [->|Hn]; [left; reflexivity|right; apply drop_in; auto].
    + apply conn_add.
      * eapply connected_adj_mono_local; [|exact Hconn]. apply adj_T0_T1.
      * apply near_iff. right. exists b. split; [apply drop_in; auto|apply adj_b_a].
  - intros v' Hv'. apply in_map_iff in Hv'. destruct Hv' as (v & <- & Hv).
    apply vote_ok_iff. apply vote_add_leaf; [exact Hba|apply HB; exact Hv|].
    rewrite <- restrict_drop. apply good_vote; assumption.
Qed.

(* the invariant of the run: C is the current C_set, T the edges appended so far *)
Definition Inv (C : list N) (T : list edge) : Prop :=
  NoDup C /\ incl C alts /\ C <> [] /\ forall T0, good C T0 -> good alts (T ++ T0).

Lemma Inv_init : alts <> [] -> Inv alts [].
Proof. intros Hne. split; [exact Hnd|]. split; [apply incl_refl|]. split; [exact Hne|]. intros T0 H; exact H. Qed.

Lemma pass_inv L : forall C T C' T',
  NoDup L -> incl L C -> Inv C T -> pass pickB p L C T = Some (C', T') -> Inv C' T'.
Proof.
  induction L as [|a L IH]; intros C T C' T' HL Hi HI Hpass; cbn in Hpass.
  - injection Hpass as <- <-. exact HI.
  - destruct (get_B p C a) as [[|b0 B']|] eqn:EB; try discriminate.
    set (B := b0 :: B') in *. set (b := pickB C a B) in *.
    assert (HbB : In b B) by (apply Hpick; discriminate).
    destruct HI as (HC & HCa & HCne & Hext).
    inversion HL as [|? ? HaL HL']; subst.
    assert (HaC : In a C) by (apply Hi; left; reflexivity).
    assert (Hpne : p <> []).
    { intros E. unfold get_B in EB. rewrite E in EB. cbn in EB. discriminate. }
    destruct (nonempty_in _ Hpne) as (v0 & Hv0).
    assert (HbC : In b C).
    { pose proof (get_B_sound _ _ _ _ _ EB HbB v0 Hv0) as H. apply B_i_incl in H.
      apply restrict_in in H. tauto. }
    assert (Hba : b <> a).
    { eapply B_i_neq; [apply (restrict_nodup C v0 Hv0)|]. eapply get_B_sound; eauto. }
    eapply IH; [exact HL'| | |exact Hpass].
    + intros x Hx. apply drop_in. split; [apply Hi; right; exact Hx|]. intros ->. contradiction.
    + split; [apply NoDup_filter; exact HC|]. split.
      { intros x Hx. apply drop_in in Hx. apply HCa. tauto. }
      split.
      { intros E. assert (H : In b (drop a C)) by (apply drop_in; auto). rewrite E in H. destruct H. }
      intros T0 HT0.
      eapply good_same_graph; [|apply Hext; apply (good_add_leaf C a b T0); auto].
      * apply same_graph_perm. cbn. apply Permutation_sym. apply Permutation_middle.
      * intros v Hv. eapply get_B_sound; eauto.
Qed.

Lemma bottoms_in C x : In x (bottoms p C) -> In x C.
Proof.
  unfold bottoms. rewrite in_flat_map. intros (v & Hv & Hx).
  destruct (restrict C v) as [|y r] eqn:E; [destruct Hx|]. destruct Hx as [<-|[]].
  pose proof (last_in r y) as H. rewrite <- E in H. apply restrict_in in H. tauto.
Qed.

Lemma finish_good C T : Inv C T -> length C < 3 -> spt_spec alts p (finish C T).
Proof.
  intros (HC & HCa & HCne & Hext) Hlen. rewrite <- restrict_alts_profile. fold (good alts (finish C T)).
  destruct C as [|x [|y [|z C]]]; [contradiction| | |cbn in Hlen; lia].
  - (* one alternative left *)
    eapply good_same_graph; [|apply (Hext [])].
    + apply same_graph_perm. cbn. rewrite app_nil_r. apply Permutation_rev.
    + split; [split; [reflexivity|split; [constructor|apply connected_single]]|].
      intros v' Hv' k. apply in_map_iff in Hv'. destruct Hv' as (v & <- & Hv).
      apply (connected_sub_single _ x). intros z Hz. apply firstn_In' in Hz. apply restrict_in in Hz.
      destruct Hz as [_ [Hz|[]]]. congruence.
  - (* two alternatives left: the last edge *)
    assert (Hxy : x <> y).
    { inversion HC as [|? ? Hnot _]. intros ->. apply Hnot. left; reflexivity. }
    eapply good_same_graph; [|apply (Hext [(x, y)])].
    + apply same_graph_perm. cbn [finish]. cbn [rev].
      apply Permutation_app_tail. apply Permutation_rev.
    + split; [split; [reflexivity|split]|].
      * constructor; [|constructor]. unfold edge_wf. cbn. auto.
      * apply connected_sub_pair. intros z [<-|[<-|[]]]; auto.
      * intros v' Hv' k. apply in_map_iff in Hv'. destruct Hv' as (v & <- & Hv).
        apply connected_sub_pair. intros z Hz. apply firstn_In' in Hz. apply restrict_in in Hz.
        destruct Hz as [_ [Hz|[Hz|[]]]]; auto.
Qed.

Lemma loop_sound fuel : forall C T E,
  Inv C T -> loop enumL pickB fuel p C T = Ok (true, E) -> spt_spec alts p E.
Proof.
  induction fuel as [|f IH]; intros C T E HI Hl; cbn [loop] in Hl;
    destruct (Nat.ltb_spec (length C) 3) as [Hlt|Hge].
  - injection Hl as <-. apply finish_good; assumption.
  - discriminate.
  - injection Hl as <-. apply finish_good; assumption.
  - destruct (pass pickB p (enumL C (bottoms p C)) C T) as [[C' T']|] eqn:Epass; [|discriminate].
    eapply IH; [|exact Hl]. eapply pass_inv; [| |exact HI|exact Epass].
    + apply Henum.
    + intros x Hx. apply Henum in Hx. apply bottoms_in. exact Hx.
Qed.

Theorem trick_sound E :
  alts <> [] -> trick enumL pickB alts p = Ok (true, E) -> spt_check alts p E = true.
Proof.
  intros Hne H. apply spt_check_correct. eapply loop_sound; [apply Inv_init; exact Hne|exact H].
Qed.

(* ---- termination: the fuel is never exhausted ---- *)
Lemma pass_C L : forall C T C' T',
  pass pickB p L C T = Some (C', T') -> C' = filter (fun x => negb (memb x L)) C.
Proof.
  induction L as [|a L IH]; intros C T C' T' H; cbn in H.
  - injection H as <- _. cbn. clear. induction C; cbn; congruence.
  - destruct (get_B p C a) as [[|b0 B']|]; try discriminate.
    apply IH in H. rewrite H. unfold drop. rewrite filter_filter_and. apply filter_ext.
    intros x. unfold memb. cbn [existsb]. rewrite negb_orb. reflexivity.
Qed.

Lemma bottoms_nonempty C x : p <> [] -> In x C -> incl C alts -> bottoms p C <> [].
Proof.
  intros Hpne Hx HC. destruct (nonempty_in _ Hpne) as (v & Hv).
  assert (Hr : In x (restrict C v)) by (apply restrict_in; split; [apply vote_full; auto|exact Hx]).
  intros E. destruct (restrict C v) as [|y r] eqn:Er; [destruct Hr|].
  assert (H : In (last r y) (bottoms p C)).
  { unfold bottoms. apply in_flat_map. exists v. split; [exact Hv|]. rewrite Er. left; reflexivity. }
  rewrite E in H. destruct H.
Qed.

Lemma loop_terminates fuel : forall C T,
  p <> [] -> incl C alts -> length C <= fuel + 2 -> loop enumL pickB fuel p C T <> Err OutOfFuel.
Proof.
  induction fuel as [|f IH]; intros C T Hpne HC Hlen; cbn [loop];
    destruct (Nat.ltb_spec (length C) 3) as [Hlt|Hge]; try discriminate; [lia|].
  destruct (pass pickB p (enumL C (bottoms p C)) C T) as [[C' T']|] eqn:Epass; [|discriminate].
  pose proof (pass_C _ _ _ _ _ Epass) as EC.
  apply IH; [exact Hpne| |].
  - rewrite EC. intros x Hx. apply filter_In in Hx. apply HC. tauto.
  - destruct C as [|x0 C0] eqn:EC0; [cbn in Hge; lia|]. rewrite <- EC0 in *.
    assert (Hb : bottoms p C <> []).
    { apply (bottoms_nonempty C x0); [exact Hpne|rewrite EC0; left; reflexivity|exact HC]. }
    destruct (enumL C (bottoms p C)) as [|a L] eqn:EL.
    + exfalso. destruct (bottoms p C) as [|y l] eqn:Eb; [contradiction|].
      assert (H : In y (enumL C (y :: l))) by (apply Henum; left; reflexivity).
      rewrite EL in H. destruct H.
    + assert (Ha : In a C).
      { apply bottoms_in. apply (proj2 (Henum C (bottoms p C))). rewrite EL. left; reflexivity. }
      assert (Hsh : length C' < length C).
      { rewrite EC. apply (filter_shorter _ C a Ha). apply negb_false_iff. apply memb_iff. left; reflexivity. }
      lia.
Qed.

Theorem trick_terminates : p <> [] -> trick enumL pickB alts p <> Err OutOfFuel.
Proof. intros Hpne. apply loop_terminates; [exact Hpne|apply incl_refl|lia]. Qed.

(* ---- completeness (Trick's theorem): if the restricted profile is single-peaked on some tree, every
   bottom alternative a is a leaf of that tree, its neighbour lies in B(a), and removing a (whatever
   member of B(a) is chosen) leaves a profile single-peaked on the tree minus a ---- *)

Definition bot (C : list N) (a : N) : Prop := exists v r0, In v p /\ restrict C v = r0 ++ [a].

Lemma bottoms_bot C a : In a (bottoms p C) -> bot C a.
Proof.
  unfold bottoms. rewrite in_flat_map. intros (v & Hv & Ha).
  destruct (restrict C v) as [|y r] eqn:E; [destruct Ha|]. destruct Ha as [<-|[]].
  destruct (exists_last (l := y :: r)) as (r0 & z & E2); [discriminate|].
  exists v, r0. split; [exact Hv|].
  assert (Hz : last r y = z).
  { rewrite <- (last_cons_default r y 0%N). rewrite E2. apply last_last. }
  rewrite Hz, E. exact E2.
Qed.

Lemma bot_in C a : bot C a -> In a C.
Proof.
  intros (v & r0 & Hv & E).
  assert (H : In a (restrict C v)) by (rewrite E; apply in_or_app; right; left; reflexivity).
  apply restrict_in in H. tauto.
Qed.

Lemma bot_drop C a a0 : bot C a -> a <> a0 -> bot (drop a0 C) a.
Proof.
  intros (v & r0 & Hv & E) Hn. exists v, (drop a0 r0). split; [exact Hv|].
  rewrite restrict_drop, E. unfold drop. rewrite filter_app. cbn [filter].
  destruct (N.eqb_spec a a0) as [->|_]; [contradiction|]. reflexivity.
Qed.

Lemma restrict_perm C v : In v p -> NoDup C -> incl C alts -> Permutation C (restrict C v).
Proof.
  intros Hv HC HCa. apply NoDup_Permutation; [exact HC|apply restrict_nodup; exact Hv|].
  intros x. rewrite restrict_in. split; [|tauto]. intros Hx. split; [|exact Hx]. apply vote_full; auto.
Qed.

Lemma bot_facts C a T : good C T -> NoDup C -> incl C alts -> bot C a ->
  exists S0, NoDup S0 /\ ~ In a S0 /\ length C = S (length S0) /\ connected T S0.
Proof.
  intros [_ Hg] HC HCa (v & r0 & Hv & E). exists r0.
  pose proof (restrict_perm C v Hv HC HCa) as Hperm. rewrite E in Hperm.
  assert (Hnd' : NoDup (a :: r0)).
  { eapply Permutation_NoDup; [|apply (restrict_nodup C v Hv)]. rewrite E.
    apply Permutation_sym. apply Permutation_cons_append. }
  inversion Hnd' as [|? ? Hnot Hnd0]; subst. split; [exact Hnd0|]. split; [exact Hnot|]. split.
  - rewrite (Permutation_length Hperm), app_length. cbn. lia.
  - assert (H : connected T (firstn (length r0) (restrict C v))) by (apply Hg; apply in_map; exact Hv).
    rewrite E, firstn_app, firstn_all, Nat.sub_diag in H. cbn in H. rewrite app_nil_r in H. exact H.
Qed.

Lemma good_irrefl C T u w : good C T -> adj T u w -> u <> w.
Proof. intros [(_ & Hwf & _) _] H. apply (proj1 (edges_wf_adj C T) Hwf u w H). Qed.

Lemma good_adj_in C T u w : good C T -> adj T u w -> In u C /\ In w C.
Proof. intros [(_ & Hwf & _) _] H. pose proof (proj1 (edges_wf_adj C T) Hwf u w H). tauto. Qed.

Lemma leaf_nbr C a T : good C T -> NoDup C -> incl C alts -> bot C a -> (exists z, In z C /\ z <> a) ->
  exists c, adj T a c /\ c <> a /\ In c C /\ forall x, adj T a x -> x = c.
Proof.
  intros Hg HC HCa Hb (z & Hz & Hza).
  pose proof Hg as [(Hlen & _ & Hconn) _].
  assert (Hex : exists c, adj T a c).
  { pose proof (Hconn a z (bot_in _ _ Hb) Hz) as Hpath. inversion Hpath as [|? c ? _ Hac _]; subst.
    - contradiction Hza. reflexivity.
    - exists c. exact Hac. }
  destruct Hex as (c & Hac). exists c. split; [exact Hac|].
  split; [intros ->; exact (good_irrefl _ _ _ _ Hg Hac eq_refl)|].
  split; [apply (good_adj_in _ _ _ _ Hg Hac)|].
  destruct (bot_facts C a T Hg HC HCa Hb) as (S0 & H1 & H2 & H3 & H4).
  intros x Hax. eapply (leaf_unique C T a S0); eauto. intros u w. apply (good_irrefl C). exact Hg.
Qed.

Lemma good_remove_leaf C a T : good C T -> NoDup C -> incl C alts -> bot C a ->
  (exists z, In z C /\ z <> a) -> good (drop a C) (Tm a T).
Proof.
  intros Hg HC HCa Hb Hz.
  destruct (leaf_nbr C a T Hg HC HCa Hb Hz) as (c & Hac & Hca & HcC & Huniq).
  destruct (bot_facts C a T Hg HC HCa Hb) as (S0 & H1 & H2 & H3 & H4).
  pose proof Hg as [(Hlen & Hwf & Hconn) Hvotes].
  pose proof (leaf_edge_bound C T a S0 H1 H2 H3 Hlen H4) as Hbound.
  destruct (inc_of_adj _ _ _ Hac) as (e & He & Hinc & _).
  assert (Hsh : length (Tm a T) < length T).
  { apply (filter_shorter _ T e He). rewrite Hinc. reflexivity. }
  pose proof (drop_length a C HC (bot_in _ _ Hb)) as Hdl.
  split; [split; [|split]|].
  - lia.
  - apply edges_wf_adj. intros u w Huw. apply adj_Tm in Huw. destruct Huw as (Huw & Hu & Hw).
    destruct (good_adj_in _ _ _ _ Hg Huw). split; [apply drop_in; auto|].
    split; [apply drop_in; auto|]. eapply good_irrefl; eauto.
  - eapply connected_remove_leaf; eauto.
  - intros v' Hv' k. apply in_map_iff in Hv'. destruct Hv' as (v & <- & Hv).
    rewrite restrict_drop. destruct (firstn_drop a (restrict C v) k) as (k' & ->).
    eapply connected_remove_leaf; eauto. apply Hvotes. apply in_map. exact Hv.
Qed.

Lemma nbr_in_B C a c T v : good C T -> NoDup C -> incl C alts -> In a C -> (exists z, In z C /\ z <> a) ->
  (forall x, adj T a x -> x = c) -> In v p -> In c (B_i a (restrict C v)).
Proof.
  intros Hg HC HCa Ha (z & Hz & Hza) Huniq Hv.
  pose proof (good_vote C T v Hg Hv) as Hok.
  pose proof (restrict_nodup C v Hv) as Hnd'.
  assert (Har : In a (restrict C v)) by (apply restrict_in; split; [apply vote_full; auto|exact Ha]).
  assert (Hzr : In z (restrict C v)) by (apply restrict_in; split; [apply vote_full; auto|exact Hz]).
  destruct (restrict C v) as [|t r] eqn:E; [destruct Har|]. cbn [B_i].
  destruct (N.eqb_spec a t) as [<-|Hn].
  - (* a on top: the second alternative is adjacent to a, hence is c *)
    destruct Hzr as [Hzr|Hzr]; [congruence|]. destruct r as [|s r]; [destruct Hzr|].
    cbn [vote_ok attach_ok] in Hok. apply andb_true_iff in Hok. destruct Hok as [Hs _].
    apply near_iff in Hs. destruct Hs as [[Hs|[]]|(y & [<-|[]] & Hys)].
    + inversion Hnd' as [|? ? Hnot _]; subst. exfalso. apply Hnot. left; reflexivity.
    + left. apply Huniq. exact Hys.
  - destruct Har as [Har|Har]; [congruence|]. cbn [vote_ok] in Hok.
    assert (H : In c ([t] ++ before a r)).
    { eapply attach_neighbour_before; [|exact Hok| |exact Har].
      - intros y Hy. apply Huniq. apply adj_sym. exact Hy.
      - intros [E'|[]]. congruence. }
    cbn [before]. destruct (N.eqb_spec t a) as [E'|_]; [congruence|]. exact H.
Qed.

Lemma not_all_bottoms C T : good C T -> NoDup C -> incl C alts -> 3 <= length C ->
  exists z, In z C /\ ~ In z (bottoms p C).
Proof.
  intros Hg HC HCa Hlen.
  destruct (forallb (fun z => memb z (bottoms p C)) C) eqn:Eall.
  - exfalso. rewrite forallb_forall in Eall.
    assert (Hbot : forall x, In x C -> bot C x).
    { intros x Hx. apply bottoms_bot. apply memb_iff. apply Eall. exact Hx. }
    destruct C as [|x1 [|x2 [|x3 C0]]]; cbn in Hlen; try lia.
    set (C := x1 :: x2 :: x3 :: C0) in *.
    assert (H12 : x1 <> x2 /\ x1 <> x3 /\ x2 <> x3).
    { inversion HC as [|? ? N1 HC']; subst. inversion HC' as [|? ? N2 _]; subst.
      repeat split; intros ->; [apply N1|apply N1|apply N2]; cbn; auto. }
    destruct H12 as (H12 & H13 & H23).
    assert (I1 : In x1 C) by (left; reflexivity).
    assert (I2 : In x2 C) by (right; left; reflexivity).
    assert (I3 : In x3 C) by (right; right; left; reflexivity).
    destruct (leaf_nbr C x1 T Hg HC HCa (Hbot _ I1)) as (c & Hac & Hca & HcC & Hu1).
    { exists x2. split; [exact I2|congruence]. }
    destruct (leaf_nbr C c T Hg HC HCa (Hbot _ HcC)) as (c' & Hcc' & _ & _ & Hu2).
    { exists x1. split; [exact I1|congruence]. }
    assert (Hc'a : c' = x1) by (symmetry; apply Hu2; apply adj_sym; exact Hac). subst c'.
    (* {x1, c} is closed under adjacency *)
    assert (Hclosed : forall u w, path_in T C u w -> u = x1 \/ u = c -> w = x1 \/ w = c).
    { intros u w Hpath. induction Hpath as [u _|u u' w _ Huu' _ IH]; [tauto|].
      intros [->| ->]; apply IH; [right; apply Hu1; exact Huu'|left; apply Hu2; exact Huu']. }
    pose proof Hg as [(_ & _ & Hconn) _].
    destruct (N.eq_dec c x2) as [->|Hcx2].
    + destruct (Hclosed x1 x3 (Hconn _ _ I1 I3) (or_introl eq_refl)); congruence.
    + destruct (Hclosed x1 x2 (Hconn _ _ I1 I2) (or_introl eq_refl)); congruence.
  - apply forallb_false in Eall. destruct Eall as (z & Hz & Hm). exists z. split; [exact Hz|].
    intros Hin. apply memb_iff in Hin. congruence.
Qed.

Lemma pass_complete L : forall C T,
  NoDup L -> (forall a, In a L -> bot C a) -> NoDup C -> incl C alts ->
  (exists z, In z C /\ ~ In z L) -> (exists Ts, good C Ts) ->
  exists C' T', pass pickB p L C T = Some (C', T') /\ NoDup C' /\ incl C' alts /\ exists Ts, good C' Ts.
Proof.
  induction L as [|a L IH]; intros C T HL Hbot HC HCa (z & Hz & HzL) (Ts & Hg); cbn [pass].
  - exists C, T. repeat split; auto. exists Ts. exact Hg.
  - inversion HL as [|? ? HaL HL']; subst.
    assert (Hb : bot C a) by (apply Hbot; left; reflexivity).
    assert (Hza : exists z, In z C /\ z <> a).
    { exists z. split; [exact Hz|]. intros ->. apply HzL. left; reflexivity. }
    destruct (leaf_nbr C a Ts Hg HC HCa Hb Hza) as (c & Hac & Hca & HcC & Huniq).
    destruct Hb as (v0 & r0 & Hv0 & Er0).
    assert (HB : exists B, get_B p C a = Some B /\ In c B).
    { unfold get_B. apply get_B_from_complete.
      - intros r Hr. apply in_map_iff in Hr. destruct Hr as (v & <- & Hv).
        eapply nbr_in_B; eauto. apply bot_in. exists v0, r0. auto.
      - discriminate.
      - right. intros E. apply map_eq_nil in E. rewrite E in Hv0. destruct Hv0. }
    destruct HB as (B & EB & HcB). rewrite EB. destruct B as [|b0 B']; [destruct HcB|].
    apply IH.
    + exact HL'.
    + intros a' Ha'. apply bot_drop; [apply Hbot; right; exact Ha'|]. intros ->. contradiction.
    + apply NoDup_filter. exact HC.
    + intros x Hx. apply drop_in in Hx. apply HCa. tauto.
    + exists z. split; [apply drop_in; split; [exact Hz|]|].
      * intros ->. apply HzL. left; reflexivity.
      * intros Hin. apply HzL. right; exact Hin.
    + exists (Tm a Ts). apply good_remove_leaf; auto. exists v0, r0. auto.
Qed.

Lemma loop_complete fuel : forall C T,
  p <> [] -> length C <= fuel + 2 -> NoDup C -> incl C alts -> (exists Ts, good C Ts) ->
  exists E, loop enumL pickB fuel p C T = Ok (true, E).
Proof.
  induction fuel as [|f IH]; intros C T Hpne Hlen HC HCa (Ts & Hg); cbn [loop];
    destruct (Nat.ltb_spec (length C) 3) as [Hlt|Hge]; try (eexists; reflexivity); [lia|].
  destruct (not_all_bottoms C Ts Hg HC HCa Hge) as (z & Hz & Hzb).
  destruct (pass_complete (enumL C (bottoms p C)) C T) as (C' & T' & Epass & HC' & HCa' & Hg').
  - apply Henum.
  - intros a Ha. apply bottoms_bot. apply Henum in Ha. exact Ha.
  - exact HC.
  - exact HCa.
  - exists z. split; [exact Hz|]. intros Hin. apply Hzb. apply Henum in Hin. exact Hin.
  - exists Ts. exact Hg.
  - rewrite Epass. apply IH; auto.
    pose proof (pass_C _ _ _ _ _ Epass) as EC.
    assert (Hb : bottoms p C <> []) by (apply (bottoms_nonempty C z); assumption).
    destruct (enumL C (bottoms p C)) as [|a L] eqn:EL.
    + exfalso. destruct (bottoms p C) as [|y l] eqn:Eb; [contradiction|].
      assert (H : In y (enumL C (y :: l))) by (apply Henum; left; reflexivity).
      rewrite EL in H. destruct H.
    + assert (Ha : In a C).
      { apply bottoms_in. apply (proj2 (Henum C (bottoms p C))). rewrite EL. left; reflexivity. }
      assert (Hsh : length C' < length C).
      { rewrite EC. apply (filter_shorter _ C a Ha). apply negb_false_iff. apply memb_iff. left; reflexivity. }
      lia.
Qed.

Theorem trick_complete : p <> [] -> SPT alts p -> exists E, trick enumL pickB alts p = Ok (true, E).
Proof.
  intros Hpne (Ts & HTs). apply loop_complete; [exact Hpne|lia|exact Hnd|apply incl_refl|].
  exists Ts. unfold good. rewrite restrict_alts_profile. exact HTs.
Qed.

Lemma loop_result fuel : forall C T,
  (exists b E, loop enumL pickB fuel p C T = Ok (b, E)) \/ loop enumL pickB fuel p C T = Err OutOfFuel.
Proof.
  induction fuel as [|f IH]; intros C T; cbn [loop]; destruct (Nat.ltb (length C) 3).
  - left. eexists _, _. reflexivity.
  - right. reflexivity.
  - left. eexists _, _. reflexivity.
  - destruct (pass pickB p (enumL C (bottoms p C)) C T) as [[C' T']|]; [apply IH|].
    left. eexists _, _. reflexivity.
Qed.

(* the mirror is an exact decision procedure, whatever the iteration orders *)
Theorem trick_exact : p <> [] -> alts <> [] ->
  exists b E, trick enumL pickB alts p = Ok (b, E) /\ (b = true <-> SPT alts p) /\
              (b = true -> spt_check alts p E = true).
Proof.
  intros Hpne Hne. destruct (loop_result (length alts) alts []) as [(b & E & Et)|Et].
  - fold (trick enumL pickB alts p) in Et. exists b, E. split; [exact Et|]. split; [split|].
    + intros ->. exists E. apply spt_check_correct. apply trick_sound; assumption.
    + intros HS. destruct (trick_complete Hpne HS) as (E' & HE'). congruence.
    + intros ->. apply trick_sound; assumption.
  - exfalso. apply (trick_terminates Hpne). exact Et.
Qed.

End Run.

(* ------------------------------------------------------------------------------------------------ *)
(** * Consequences: the verdict does not depend on the iteration orders; the two extracted
      instantiations are admissible *)

Definition admissible (enumL : list N -> list N -> list N) (pickB : list N -> N -> list N -> N) : Prop :=
  (forall C l, NoDup (enumL C l) /\ forall x, In x (enumL C l) <-> In x l) /\
  (forall C a B, B <> [] -> In (pickB C a B) B).

Definition profile_on (alts : list N) (p : list (list N)) : Prop :=
  NoDup alts /\ alts <> [] /\ p <> [] /\ forall v, In v p -> Permutation alts v.

Theorem trick_decides alts p enumL pickB :
  profile_on alts p -> admissible enumL pickB ->
  exists E, trick enumL pickB alts p = Ok (spt_decide alts p, E) /\
            (spt_decide alts p = true -> spt_check alts p E = true).
Proof.
  intros (Hnd & Hne & Hpne & Hp) [He Hk].
  destruct (trick_exact alts p Hnd Hp enumL pickB He Hk Hpne Hne) as (b & E & Et & Hb & Hc).
  assert (Eb : b = spt_decide alts p).
  { apply bool_eq_iff. rewrite Hb. symmetry. apply spt_decide_correct. exact Hnd. }
  subst b. exists E. split; assumption.
Qed.

Theorem trick_choice_independent alts p enumL pickB enumL' pickB' :
  profile_on alts p -> admissible enumL pickB -> admissible enumL' pickB' ->
  exists b E E', trick enumL pickB alts p = Ok (b, E) /\ trick enumL' pickB' alts p = Ok (b, E').
Proof.
  intros Hpo H1 H2.
  destruct (trick_decides alts p enumL pickB Hpo H1) as (E & HE & _).
  destruct (trick_decides alts p enumL' pickB' Hpo H2) as (E' & HE' & _).
  eexists _, E, E'. split; eassumption.
Qed.

Lemma dedup_in l x : In x (dedup l) <-> In x l.
Proof.
  induction l as [|y l IH]; cbn [dedup]; [tauto|].
  destruct (memb y l) eqn:Em.
  - apply memb_iff in Em. rewrite IH. split; [right; assumption|]. intros [<-|H]; assumption.
  - cbn [In]. rewrite IH. tauto.
Qed.

Lemma dedup_nodup l : NoDup (dedup l).
Proof.
  induction l as [|y l IH]; cbn [dedup]; [constructor|].
  destruct (memb y l) eqn:Em; [exact IH|]. constructor; [|exact IH].
  rewrite dedup_in. intros H. apply memb_iff in H. congruence.
Qed.

Lemma admissible_fwd : admissible enum_fwd pick_first.
Proof.
  split.
  - intros C l. split; [apply dedup_nodup|apply dedup_in].
  - intros C a [|b B] H; [contradiction|]. left; reflexivity.
Qed.

Lemma admissible_bwd : admissible enum_bwd pick_last.
Proof.
  split.
  - intros C l. unfold enum_bwd. split.
    + apply NoDup_rev. apply dedup_nodup.
    + intros x. rewrite <- in_rev. apply dedup_in.
  - intros C a [|b B] H; [contradiction|]. unfold pick_last. rewrite last_cons_default. apply last_in.
Qed.

Theorem trick_fwd_decides alts p : profile_on alts p ->
  exists E, trick_fwd alts p = Ok (spt_decide alts p, E) /\ (spt_decide alts p = true -> spt_check alts p E = true).
Proof. intros H. apply trick_decides; [exact H|apply admissible_fwd]. Qed.

Theorem trick_bwd_decides alts p : profile_on alts p ->
  exists E, trick_bwd alts p = Ok (spt_decide alts p, E) /\ (spt_decide alts p = true -> spt_check alts p E = true).
Proof. intros H. apply trick_decides; [exact H|apply admissible_bwd]. Qed.
