(* Properties/C04.v — single-crossingness is decided exactly, with a valid voter ordering.
   Shape (R): specification SC, verified witness checker, two verified reference deciders
   (brute force over arrangements; nested conflict sets), heredity and invariance.
   Statements only; proofs are in Proofs/SC.v.  Rankings are flat strict orders (list N). *)
From Coq Require Import List Arith NArith ZArith Bool Permutation.
From PrefVerif Require Import Lib.Val Lib.Perms Model.Distances Model.SC Model.SCAlgo Proofs.SC Proofs.SCAlgo.
Import ListNotations.

(* the specification, unfolded (copied from the property text): the orders can be arranged in a
   sequence along which every pair of alternatives switches relative order at most once *)
Theorem C04_spec : forall alts orders,
  SC alts orders <->
  exists s, Permutation orders s /\
            forall a b, In a alts -> In b alts -> a <> b -> switches a b s <= 1.
Proof. intros; reflexivity. Qed.
Print Assumptions C04_spec.

(* ---- the sequence checker, every size, no hypothesis on the sequence ---- *)
Theorem sc_seq_check_correct : forall alts s,
  sc_seq_check alts s = true <->
  forall a b, In a alts -> In b alts -> a <> b -> switches a b s <= 1.
Proof. exact Proofs.SC.sc_seq_check_correct. Qed.
Print Assumptions sc_seq_check_correct.

(* ---- the witness checker accepts exactly the sequences that contain every distinct order of the
        profile exactly once and have the property ---- *)
Theorem sc_witness_check_correct : forall alts orders s,
  sc_witness_check alts orders s = true <->
  NoDup s /\ (forall o, In o s <-> In o orders) /\
  (forall a b, In a alts -> In b alts -> a <> b -> switches a b s <= 1).
Proof. exact Proofs.SC.sc_witness_check_correct. Qed.
Print Assumptions sc_witness_check_correct.

(* on a profile (duplicate-free list of orders): exactly the single-crossing arrangements *)
Theorem sc_witness_check_profile : forall alts orders s, NoDup orders ->
  (sc_witness_check alts orders s = true <->
   Permutation orders s /\ forall a b, In a alts -> In b alts -> a <> b -> switches a b s <= 1).
Proof. exact Proofs.SC.sc_witness_check_perm. Qed.
Print Assumptions sc_witness_check_profile.

(* ---- reference decider 1: brute force, correct and complete for every size ---- *)
Theorem sc_decide_correct : forall alts orders, sc_decide alts orders = true <-> SC alts orders.
Proof. exact Proofs.SC.sc_decide_correct. Qed.
Print Assumptions sc_decide_correct.

(* ---- reference decider 2 (polynomial): some voter's conflict sets with all voters are nested ---- *)
Theorem sc_conflict_decide_correct : forall alts orders,
  sc_conflict_decide alts orders = true <-> SC alts orders.
Proof. exact Proofs.SC.sc_conflict_decide_correct. Qed.
Print Assumptions sc_conflict_decide_correct.

(* ---- what the correspondence judge accepts implies the property statement:
        verdict v and sequence seq of is_single_crossing, verdict cs of is_single_crossing_conflict_sets ---- *)
Theorem C04_judge_sound : forall alts orders (v : bool) seq (cs : bool), NoDup orders ->
  v = sc_decide alts orders ->
  (v = true -> sc_witness_check alts orders seq = true) ->
  cs = sc_conflict_decide alts orders ->
  (v = true <-> SC alts orders) /\
  (v = true -> Permutation orders seq /\
               forall a b, In a alts -> In b alts -> a <> b -> switches a b seq <= 1) /\
  (cs = v).
Proof.
  intros alts orders v seq cs Hnd Hv Hw Hc. split; [|split].
  - subst v. apply Proofs.SC.sc_decide_correct.
  - intros Ht. apply (Proofs.SC.sc_witness_check_perm alts orders seq Hnd). now apply Hw.
  - subst. apply Proofs.SC.sc_conflict_decide_eq.
Qed.
Print Assumptions C04_judge_sound.

(* ---- heredity (exact negatives on large inputs) ---- *)
(* deleting voters: any sub-multiset of the orders *)
Theorem sc_sub_voters : forall alts orders sub rest,
  Permutation orders (sub ++ rest) -> SC alts orders -> SC alts sub.
Proof. exact Proofs.SC.sc_sub_voters. Qed.
Print Assumptions sc_sub_voters.

Theorem sc_sub_voters_incl : forall alts orders sub,
  NoDup sub -> incl sub orders -> SC alts orders -> SC alts sub.
Proof. exact Proofs.SC.sc_sub_voters_incl. Qed.
Print Assumptions sc_sub_voters_incl.

(* restricting every order to a set S of alternatives *)
Theorem sc_restrict : forall alts orders S,
  SC alts orders -> SC (restrict S alts) (map (restrict S) orders).
Proof. exact Proofs.SC.sc_restrict. Qed.
Print Assumptions sc_restrict.

Theorem sc_sub : forall alts orders S sub rest,
  Permutation orders (sub ++ rest) -> SC alts orders -> SC (restrict S alts) (map (restrict S) sub).
Proof. exact Proofs.SC.sc_sub. Qed.
Print Assumptions sc_sub.

(* the certificate used by the harness for large negatives *)
Theorem sc_core_refutes_sound : forall alts orders S mask,
  sc_core_refutes alts orders S mask = true -> ~ SC alts orders.
Proof. exact Proofs.SC.sc_core_refutes_sound. Qed.
Print Assumptions sc_core_refutes_sound.

(* ---- invariance (reused by C15) ---- *)
Theorem sc_perm : forall alts orders orders',
  Permutation orders orders' -> (SC alts orders <-> SC alts orders').
Proof. exact Proofs.SC.sc_perm. Qed.
Print Assumptions sc_perm.

Theorem sc_decide_perm : forall alts alts' orders orders',
  Permutation alts alts' -> Permutation orders orders' -> sc_decide alts orders = sc_decide alts' orders'.
Proof. exact Proofs.SC.sc_decide_perm. Qed.
Print Assumptions sc_decide_perm.

Theorem sc_relabel : forall f : N -> N, (forall x y, f x = f y -> x = y) ->
  forall alts orders, SC (map f alts) (map (map f) orders) <-> SC alts orders.
Proof. exact Proofs.SC.sc_relabel. Qed.
Print Assumptions sc_relabel.

Theorem sc_decide_relabel : forall f : N -> N, (forall x y, f x = f y -> x = y) ->
  forall alts orders, sc_decide (map f alts) (map (map f) orders) = sc_decide alts orders.
Proof. exact Proofs.SC.sc_decide_relabel. Qed.
Print Assumptions sc_decide_relabel.

(* repeated orders (multiplicities) do not matter; a reversed sequence is still single-crossing *)
Theorem sc_dedup : forall alts orders, SC alts (dedup orders) <-> SC alts orders.
Proof. exact Proofs.SC.sc_dedup. Qed.
Print Assumptions sc_dedup.

Theorem sc_seq_rev : forall alts s,
  (forall a b, In a alts -> In b alts -> a <> b -> switches a b s <= 1) ->
  (forall a b, In a alts -> In b alts -> a <> b -> switches a b (rev s) <= 1).
Proof. exact Proofs.SC.sc_seq_rev. Qed.
Print Assumptions sc_seq_rev.

(* both references agree (as booleans), so either can serve as the judge *)
Theorem sc_conflict_decide_eq : forall alts orders, sc_conflict_decide alts orders = sc_decide alts orders.
Proof. exact Proofs.SC.sc_conflict_decide_eq. Qed.
Print Assumptions sc_conflict_decide_eq.

Theorem sc_conflict_decide_perm : forall alts alts' orders orders',
  Permutation alts alts' -> Permutation orders orders' ->
  sc_conflict_decide alts orders = sc_conflict_decide alts' orders'.
Proof. exact Proofs.SC.sc_conflict_decide_perm. Qed.
Print Assumptions sc_conflict_decide_perm.

Theorem sc_conflict_decide_relabel : forall f : N -> N, (forall x y, f x = f y -> x = y) ->
  forall alts orders, sc_conflict_decide (map f alts) (map (map f) orders) = sc_conflict_decide alts orders.
Proof. exact Proofs.SC.sc_conflict_decide_relabel. Qed.
Print Assumptions sc_conflict_decide_relabel.

(* a sufficient criterion reused by C19: every pair is monotone along the sequence *)
Theorem sc_seq_of_monotone : forall alts s,
  (forall a b, In a alts -> In b alts -> a <> b ->
     exists v : bool, Sorted.StronglySorted (fun o1 o2 => prefers o1 a b = v -> prefers o2 a b = v) s) ->
  forall a b, In a alts -> In b alts -> a <> b -> switches a b s <= 1.
Proof. exact Proofs.SC.sc_seq_of_monotone. Qed.
Print Assumptions sc_seq_of_monotone.

(* ---- the link to the Kendall-tau distance used by the code ---- *)
(* prefers is the comparison o.index(a) < o.index(b) of the Python code (idx = tuple.index, C20 model) *)
Theorem prefers_idx : forall o a b, prefers o a b = (idx o a <? idx o b).
Proof. exact Proofs.SC.prefers_idx. Qed.
Print Assumptions prefers_idx.

(* ktd is kendall_tau_distance (C20 model) on rankings over the same alternatives, and it counts the
   unordered pairs of alternatives on which the two rankings disagree *)
Theorem ktd_kendall_tau : forall alts o1 o2, Permutation alts o1 -> Permutation alts o2 ->
  kendall_tau o1 o2 = Ok (ktd o1 o2).
Proof. exact Proofs.SC.ktd_kendall_tau. Qed.
Print Assumptions ktd_kendall_tau.

Theorem ktd_pairs : forall alts o1 o2, NoDup alts -> Permutation alts o1 -> Permutation alts o2 ->
  ktd o1 o2 = length (filter (fun p => conflict o1 o2 (fst p) (snd p)) (pairs alts)).
Proof. exact Proofs.SC.ktd_pairs. Qed.
Print Assumptions ktd_pairs.

(* the verification pass of is_single_crossing (_is_ordered_profile_single_crossing, mirrored by
   ordered_check: K(s_0,s_i) + K(s_i,s_i+1) = K(s_0,s_i+1) for all i >= 1) accepts exactly the single-crossing
   sequences of strict complete orders *)
Theorem ordered_check_correct : forall alts s, NoDup alts -> Forall (fun o => Permutation alts o) s ->
  (ordered_check s = true <->
   forall a b, In a alts -> In b alts -> a <> b -> switches a b s <= 1).
Proof. exact Proofs.SC.ordered_check_correct. Qed.
Print Assumptions ordered_check_correct.

(* switches-free characterisation: Kendall tau is additive along every triple i < j < k of the sequence *)
Theorem sc_seq_kt_triples : forall alts s, NoDup alts -> Forall (fun o => Permutation alts o) s ->
  ((forall a b, In a alts -> In b alts -> a <> b -> switches a b s <= 1) <->
   forall l1 x l2 y l3 z l4, s = l1 ++ x :: l2 ++ y :: l3 ++ z :: l4 -> ktd x y + ktd y z = ktd x z).
Proof. exact Proofs.SC.sc_seq_kt_triples. Qed.
Print Assumptions sc_seq_kt_triples.

(* ---- shape (M): the algorithm of is_single_crossing itself (mirror sc_algo, Model/SCAlgo.v:
        scores relative to the first two stored orders, stable sort for n < m, bucket array with the
        collision test for n >= m, verification pass) is exact on well-formed profiles, every size.
        Ok (Some seq) = (True, seq), Ok None = (False, None), Err = IndexError ---- *)
Theorem sc_algo_sound : forall alts orders vo, wf_profile alts orders ->
  sc_algo alts orders = Ok (Some vo) -> sc_witness_check alts orders vo = true.
Proof. exact Proofs.SCAlgo.sc_algo_sound. Qed.
Print Assumptions sc_algo_sound.

Theorem sc_algo_complete : forall alts orders, wf_profile alts orders -> SC alts orders ->
  exists vo, sc_algo alts orders = Ok (Some vo).
Proof. exact Proofs.SCAlgo.sc_algo_complete. Qed.
Print Assumptions sc_algo_complete.

Theorem sc_algo_correct : forall alts orders, wf_profile alts orders ->
  ((exists vo, sc_algo alts orders = Ok (Some vo)) <-> SC alts orders).
Proof. exact Proofs.SCAlgo.sc_algo_correct. Qed.
Print Assumptions sc_algo_correct.

Theorem sc_algo_false_iff : forall alts orders, wf_profile alts orders ->
  (sc_algo alts orders = Ok None <-> ~ SC alts orders).
Proof. exact Proofs.SCAlgo.sc_algo_false_iff. Qed.
Print Assumptions sc_algo_false_iff.

Theorem sc_algo_no_error : forall alts orders, wf_profile alts orders ->
  forall e, sc_algo alts orders <> Err e.
Proof. exact Proofs.SCAlgo.sc_algo_no_error. Qed.
Print Assumptions sc_algo_no_error.

Theorem sc_algo_verdict_correct : forall alts orders, wf_profile alts orders ->
  sc_algo_verdict alts orders = sc_decide alts orders.
Proof. exact Proofs.SCAlgo.sc_algo_verdict_correct. Qed.
Print Assumptions sc_algo_verdict_correct.

(* ---- shape (M) for is_single_crossing_conflict_sets: its literal mirror conflict_sets_algo
        (Model/SCAlgo.v: conflict sets as sets of (min, max) pairs built by the double index loop, nested
        subset tests, some first voter) equals the proved reference and decides SC exactly ---- *)
Theorem conflict_sets_algo_eq : forall alts orders, wf_profile alts orders -> orders <> [] ->
  conflict_sets_algo orders = sc_conflict_decide alts orders.
Proof. exact Proofs.SCAlgo.conflict_sets_algo_eq. Qed.
Print Assumptions conflict_sets_algo_eq.

Theorem conflict_sets_algo_correct : forall alts orders, wf_profile alts orders -> orders <> [] ->
  (conflict_sets_algo orders = true <-> SC alts orders).
Proof. exact Proofs.SCAlgo.conflict_sets_algo_correct. Qed.
Print Assumptions conflict_sets_algo_correct.

(* the geometric core of completeness: a single-crossing profile embeds isometrically into the line
   (Kendall tau = distance of positions), so the signed distances to the first stored order are
   pairwise distinct and sorting them recovers a single-crossing sequence *)
Theorem sc_embeds : forall alts orders, wf_profile alts orders -> SC alts orders ->
  exists pos : list N -> Z, forall x y, In x orders -> In y orders ->
    Z.of_nat (ktd x y) = Z.abs (pos x - pos y)%Z.
Proof. exact Proofs.SCAlgo.sc_embeds. Qed.
Print Assumptions sc_embeds.

(* ---- non-vacuity ---- *)
Local Open Scope N_scope.
Definition ex_alts : list N := [1; 2; 3; 4].
(* a swap walk 1234 -> 2134 -> 2314 -> 2341 -> 3241 (pairs 12, 13, 14, 23 switch once), stored shuffled;
   n = 5 >= m = 4 *)
Definition ex_seq : list (list N) := [[1;2;3;4]; [2;1;3;4]; [2;3;1;4]; [2;3;4;1]; [3;2;4;1]].
Definition ex_orders : list (list N) := [[2;3;1;4]; [3;2;4;1]; [1;2;3;4]; [2;3;4;1]; [2;1;3;4]].

Ltac nodup_tac := repeat (constructor; [simpl; intuition congruence|]); constructor.
Ltac in_perms := apply perms_iff; vm_compute; repeat ((left; reflexivity) || right); try contradiction.

Example ex_wf : wf_profile ex_alts ex_orders.
Proof.
  unfold wf_profile, ex_alts, ex_orders. split; [nodup_tac|split; [nodup_tac|]].
  repeat (constructor; [in_perms|]). constructor.
Qed.

Example ex_witness : sc_witness_check ex_alts ex_orders ex_seq = true.
Proof. vm_compute. reflexivity. Qed.

Example ex_switch : switches 1 3 ex_seq = 1%nat /\ switches 3 4 ex_seq = 0%nat.
Proof. split; reflexivity. Qed.

Example ex_sc : SC ex_alts ex_orders /\ sc_decide ex_alts ex_orders = true
                /\ sc_conflict_decide ex_alts ex_orders = true.
Proof.
  assert (H : sc_decide ex_alts ex_orders = true) by (vm_compute; reflexivity).
  split; [now apply Proofs.SC.sc_decide_correct|split; [exact H|vm_compute; reflexivity]].
Qed.

(* a storage order whose natural reading is not single-crossing is rejected by the sequence checker *)
Example ex_storage_not_seq : sc_seq_check ex_alts ex_orders = false.
Proof. vm_compute. reflexivity. Qed.

(* the three cyclic shifts of 1,2,3 are not single-crossing (n = m = 3), also with a fourth order (n > m) *)
Definition ex_cyc : list (list N) := [[1;2;3]; [2;3;1]; [3;1;2]].
Example ex_cyc_wf : wf_profile [1;2;3] ex_cyc.
Proof.
  unfold wf_profile, ex_cyc. split; [nodup_tac|split; [nodup_tac|]].
  repeat (constructor; [in_perms|]). constructor.
Qed.
Example ex_cyc_not_sc : ~ SC [1;2;3] ex_cyc /\ ~ SC [1;2;3] ([1;3;2] :: ex_cyc).
Proof. split; apply Proofs.SC.sc_decide_false; vm_compute; reflexivity. Qed.
Example ex_cyc_conflict : sc_conflict_decide [1;2;3] ex_cyc = false.
Proof. vm_compute. reflexivity. Qed.

(* n < m : two orders are always single-crossing; three orders over 4 alternatives that are not *)
Example ex_small : SC ex_alts [[1;2;3;4]; [4;3;2;1]] /\ ~ SC ex_alts [[1;2;3;4]; [2;1;3;4]; [1;2;4;3]; [1;3;2;4]]
                   /\ ~ SC ex_alts [[1;2;3;4]; [2;3;1;4]; [3;1;2;4]].
Proof.
  split; [apply Proofs.SC.sc_decide_correct; vm_compute; reflexivity|].
  split; apply Proofs.SC.sc_decide_false; vm_compute; reflexivity.
Qed.

(* the profile of corpus/C04 (accepted by the code before fix 493181a) is not single-crossing *)
Example ex_corpus_not_sc : ~ SC ex_alts [[1;2;3;4]; [1;2;4;3]; [1;3;2;4]; [2;1;3;4]].
Proof. apply Proofs.SC.sc_decide_false. vm_compute. reflexivity. Qed.

(* the core certificate: 8 voters over 5 alternatives, refuted through voters 1,3,4 restricted to {1,2,3} *)
Example ex_core :
  sc_core_refutes [1;2;3;4;5]
    [[5;4;1;2;3]; [1;5;2;4;3]; [1;2;3;4;5]; [4;2;3;5;1]; [3;1;4;2;5]; [2;1;3;4;5]]
    [1;2;3] [false; true; false; true; true; false] = true.
Proof. vm_compute. reflexivity. Qed.

Example ex_ordered : ordered_check ex_seq = true /\ ordered_check ex_orders = false
                     /\ ktd [1;2;3;4] [3;2;4;1] = 4%nat.
Proof. repeat split; vm_compute; reflexivity. Qed.

(* the mirrored algorithm on the examples: n >= m (bucket path, first stored order in the middle of the
   chain), n < m (sort path), the corpus profile (bucket collision), cyclic shifts (distance test fails) *)
Example ex_algo : sc_algo ex_alts ex_orders = Ok (Some ex_seq)
  /\ sc_algo ex_alts [[2;3;1;4]; [3;2;4;1]; [1;2;3;4]] = Ok (Some [[1;2;3;4]; [2;3;1;4]; [3;2;4;1]])
  /\ sc_algo ex_alts [[1;2;3;4]; [1;2;4;3]; [1;3;2;4]; [2;1;3;4]] = Ok None
  /\ sc_algo [1;2;3] ex_cyc = Ok None.
Proof. repeat split; vm_compute; reflexivity. Qed.

Example ex_csalgo : conflict_sets_algo ex_orders = true /\ conflict_sets_algo ex_cyc = false
  /\ conflict_sets_algo [[1;2;3;4]; [1;2;4;3]; [1;3;2;4]; [2;1;3;4]] = false.
Proof. repeat split; vm_compute; reflexivity. Qed.
