(* Properties/C08.v — categorical files survive write -> parse unchanged.
   Statements only; the proofs are in Proofs/CatIO.v (and Proofs/Meta.v for the shared header).
   Model: Model/CatIO.v (cat_write = CategoricalInstance.write, cat_parse = parse_lines + parse,
   readlines / splitlines = the line splitters of parse_file / parse_str).

   wf_cat i (Proofs/CatIO.v) is the quantifier's "well-formed categorical instance with at least one ballot":
   >= 1 ballot; every ballot has exactly c_num_categories >= 1 categories (any of them may be empty, singleton or
   larger, alternatives in any order, alternatives may be left unplaced); multiplicities >= 1; the keys of the
   multiplicity table are the ballots of the list (duplicate-free), in ANY key order — the dict need not have
   been filled in the order of the list; the nine metadata fields and all alternative / category
   names are free of the ten line boundaries and of outer whitespace (they may be EMPTY); data_type = "cat";
   alternative ids distinct, category ids distinct; no parser state (reserved_names empty).  The three header
   counts are NOT required to agree with the ballots (the writer copies them, the reader returns them). *)
From Coq Require Import String List NArith Permutation Sorted.
From PrefVerif Require Import Lib.Val Lib.Dec Lib.PyStr Model.Meta Model.CatIO Proofs.Meta Proofs.CatIO.
Import ListNotations.

(* ---- the round trip through a file ---------------------------------------------------------------------- *)
(* parse_file(write(i)) is the instance itself up to the stable sort of the ballot list: sorted_view i *)
Theorem C08_roundtrip : forall i, wf_cat i ->
  cat_parse false false (meta0 (lit "cat")) (readlines (cat_write i)) = Ok (sorted_view i).
Proof. exact roundtrip_readlines. Qed.
Print Assumptions C08_roundtrip.

(* FILE entry points under the weaker hypothesis wf_cat_rl: file.readlines() ends a line only at "\n" / "\r", so
   metadata values and names may contain the other eight str.splitlines boundaries (\x0b \x0c \x1c \x1d \x1e \x85
   U+2028 U+2029) strictly inside (wf_cat implies wf_cat_rl: wf_cat_weaken) *)
Theorem C08_roundtrip_file : forall i, wf_cat_rl i ->
  cat_parse false false (meta0 (lit "cat")) (readlines (cat_write i)) = Ok (sorted_view i).
Proof. exact roundtrip_readlines_rl. Qed.
Print Assumptions C08_roundtrip_file.

Theorem C08_sorted_idempotent_file : forall i, wf_cat_rl i ->
  exists j, cat_parse false false (meta0 (lit "cat")) (readlines (cat_write i)) = Ok j /\
            StronglySorted (fun x y => (mult_of (c_mult j) y <= mult_of (c_mult j) x)%N) (c_prefs j) /\
            cat_write j = cat_write i.
Proof.
  intros i W. exists (sorted_view i). split; [now apply roundtrip_readlines_rl|].
  split; [apply sorted_view_non_increasing|apply write_sorted_view].
Qed.
Print Assumptions C08_sorted_idempotent_file.

(* the same through parse_str (str.splitlines) *)
Theorem C08_roundtrip_str : forall i, wf_cat i ->
  cat_parse false false (meta0 (lit "cat")) (splitlines (cat_write i)) = Ok (sorted_view i).
Proof. exact roundtrip_splitlines. Qed.
Print Assumptions C08_roundtrip_str.

(* sorted_view differs from i only by the order of the ballot list: same metadata (alternative names and the
   voter / alternative counts are part of it), same unique-preference count, same category count and names,
   the same ballots, the same table (as a dict: same entries, and the same multiplicity for every ballot) *)
Theorem C08_same_content : forall i, wf_cat i ->
  c_meta (sorted_view i) = c_meta i /\ c_num_unique (sorted_view i) = c_num_unique i /\
  c_num_categories (sorted_view i) = c_num_categories i /\ c_cat_names (sorted_view i) = c_cat_names i /\
  Permutation (c_prefs i) (c_prefs (sorted_view i)) /\
  Permutation (c_mult i) (c_mult (sorted_view i)) /\
  (forall b, mult_of (c_mult (sorted_view i)) b = mult_of (c_mult i) b).
Proof. intros i W. now apply sorted_view_same, wf_cat_weaken. Qed.
Print Assumptions C08_same_content.

(* ---- ballots are listed by non-increasing multiplicity --------------------------------------------------- *)
(* in the instance read back from the file (its ballot list is in file order) every ballot has a multiplicity
   that is at most that of every ballot before it *)
Theorem C08_sorted : forall i, wf_cat i ->
  exists j, cat_parse false false (meta0 (lit "cat")) (readlines (cat_write i)) = Ok j /\
            StronglySorted (fun x y => (mult_of (c_mult j) y <= mult_of (c_mult j) x)%N) (c_prefs j).
Proof.
  intros i W. exists (sorted_view i). split; [now apply roundtrip_readlines|apply sorted_view_non_increasing].
Qed.
Print Assumptions C08_sorted.

(* ---- writing the re-parsed instance reproduces the file byte for byte ----------------------------------- *)
Theorem C08_idempotent : forall i, cat_write (sorted_view i) = cat_write i.
Proof. exact write_sorted_view. Qed.
Print Assumptions C08_idempotent.

Theorem C08_idempotent_file : forall i, wf_cat i ->
  exists j, cat_parse false false (meta0 (lit "cat")) (readlines (cat_write i)) = Ok j /\
            cat_write j = cat_write i.
Proof.
  intros i W. exists (sorted_view i). split; [now apply roundtrip_readlines|apply write_sorted_view].
Qed.
Print Assumptions C08_idempotent_file.

(* ---- the ballot grammar ------------------------------------------------------------------------------------ *)
(* tokenizer + category construction invert the ballot printer (including its strip(", ") and the parser's
   replace(" ", "")) for EVERY tuple of categories: any number of categories (zero included), each empty,
   singleton or larger, in first, middle or last position, consecutive empties, all empty *)
Theorem C08_ties : forall b : ballot,
  parse_pref (remove_sp (strip_chars (lit ", ") (pref_str b))) = Ok b.
Proof. exact ties_inverse. Qed.
Print Assumptions C08_ties.

(* one written line (multiplicity, colon, ballot, newline) is read back, for every non-empty tuple of categories *)
Theorem C08_ties_line : forall mu c b,
  ballot_of_line (ballot_line mu (c :: b)) = Ok (mult_of mu (c :: b), c :: b).
Proof. exact ballot_line_read. Qed.
Print Assumptions C08_ties_line.

(* ... and also for the tuple with zero categories, which the code accepts ("<mult>: " is written, read back as ()) *)
Theorem C08_ties_line_any : forall mu b, ballot_of_line (ballot_line mu b) = Ok (mult_of mu b, b).
Proof. exact ballot_line_read_any. Qed.
Print Assumptions C08_ties_line_any.

(* strip(", ") is harmless: it removes exactly the trailing separator, and what is left starts with a digit or
   an opening brace and ends with a digit or a closing brace *)
Theorem C08_strip_harmless : forall c b,
  strip_chars (lit ", ") (pref_str (c :: b)) ++ lit ", " = pref_str (c :: b) /\
  starts_good (strip_chars (lit ", ") (pref_str (c :: b))) /\
  ends_good (strip_chars (lit ", ") (pref_str (c :: b))).
Proof.
  intros c b. split; [rewrite strip_pref_str; symmetry; apply pref_str_body|apply stripped_ends].
Qed.
Print Assumptions C08_strip_harmless.

(* the tokenizer (a one-pass state machine) computes the declarative reading of the pattern
   {[\d,]+?}|[\d,]+|{}  : alternatives tried in order at each position, scan resumed after a match, one character
   skipped when nothing matches (Model/CatIO.v, findall_ref); both are compared with re.findall on every run *)
Theorem C08_tokenizer_spec : forall s, tokenize s = findall s.
Proof. exact tokenize_findall. Qed.
Print Assumptions C08_tokenizer_spec.

(* ---- the hypotheses are satisfiable: a concrete instance ------------------------------------------------- *)
(* three categories (one with an EMPTY name), an alternative with an EMPTY name, ballots with empty categories
   first / middle / last, consecutive empties, an all-empty ballot, a category listed in decreasing order,
   two ballots that differ only inside a category, multiplicity ties; the multiplicity table is keyed in the
   REVERSE order of the ballot list and the name dicts are not in ascending id order *)
Definition ex_meta : meta :=
  mkMeta (lit "f.cat") (lit "a title: {1, 2}") [] (lit "cat") (lit "original") [] (lit "a.cat,b.cat")
         (lit "2020-01-01") [] 3 17
         [(1%N, lit "one"); (2%N, []); (30%N, lit "# ALTERNATIVE NAME 9: x")] [].
Definition ex_ballots : list (ballot * N) :=
  [ ([[]; [1]; [2; 30]], 2); ([[1; 2]; []; []], 2); ([[]; []; []], 1); ([[30]; [2]; [1]], 5);
    ([[2; 1]; []; []], 2); ([[]; []; [30; 2; 1]], 5) ]%N.
Definition ex_inst : cinst :=
  mkCinst ex_meta 6 3 [(3%N, lit "bad, really"); (1%N, lit "good"); (2%N, [])] (map fst ex_ballots) (rev ex_ballots).

Example C08_example_wf : wf_cat ex_inst.
Proof.
  constructor.
  - discriminate.
  - discriminate.
  - repeat constructor.
  - repeat constructor; discriminate.
  - unfold ex_inst, c_mult, c_prefs. rewrite map_rev. apply Permutation_sym, Permutation_rev.
  - repeat constructor; simpl; intuition discriminate.
  - repeat split; reflexivity.
  - reflexivity.
  - reflexivity.
  - split; [repeat constructor; reflexivity|repeat constructor; simpl; intuition discriminate].
  - split; [repeat constructor; reflexivity|repeat constructor; simpl; intuition discriminate].
Qed.
Print Assumptions C08_example_wf.

Example C08_example_roundtrip :
  cat_parse false false (meta0 (lit "cat")) (readlines (cat_write ex_inst)) = Ok (sorted_view ex_inst)
  /\ map (mult_of (c_mult ex_inst)) (c_prefs (sorted_view ex_inst)) = [5; 5; 2; 2; 2; 1]%N
  /\ c_prefs (sorted_view ex_inst) <> c_prefs ex_inst.
Proof. split; [vm_compute; reflexivity|split; [vm_compute; reflexivity|vm_compute; discriminate]]. Qed.
Print Assumptions C08_example_roundtrip.
