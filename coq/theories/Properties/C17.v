(* Properties/C17.v — CategoricalInstance.from_ordinal and factorise_instance conserve voters.

   Model: Model/FromOrdinal.v (mirror of categorical.py: from_ordinal, factorise_instance,
   recompute_cardinality_param).  Specification vocabulary (Proofs/FromOrdinal.v):
     Partition o b       b = map concat groups for a split `groups` of o's class list into consecutive runs
     size_rule ts o r    category j of r is the SHORTEST run of whole classes, starting where category
                         j-1 stopped, whose size reaches t_j (everything left if it cannot be reached);
                         nothing after the order is exhausted; one extra category with the rest
     classes_rule ns o r category j = exactly num_j classes while they last; one extra category
     padded_to k r b     b = r ++ k - |r| empty categories
     first_occ l         the distinct elements of l in first-occurrence order
     wsum b items        sum of the weights of the items whose key is b;  lk = dict.get(b, 0)
     fo_raw / fo_ballots (model) the unpadded / padded ballot of every source order, in source order
   The source of from_ordinal is instance.multiplicity.items(); none of the statements needs the orders
   to be well-formed or the multiplicity keys to be distinct, so they hold in particular for every
   well-formed strict/weak, complete/incomplete instance.  Relative truncators are arbitrary tables
   n |-> int(ceil(n*t)) (see the model header). *)
From Coq Require Import List Arith NArith Bool Lia.
From PrefVerif Require Import Lib.Val Model.FromOrdinal Proofs.FromOrdinal.
Import ListNotations.
Open Scope N_scope.

(* ---- every ballot partitions its order, in rank order, never splitting a class (all three modes) ---- *)
Theorem fo_partition : forall src nic st rst cn ci,
  from_ordinal src nic st rst cn = Ok ci ->
  truthy nic || truthy st || truthy rst = true ->          (* the truncator list is not empty *)
  let bs := fo_ballots nic st rst (os_multiplicity src) in
  length bs = length (os_multiplicity src) /\
  (forall b, In b (ci_preferences ci) <-> In b bs) /\
  Forall2 (fun om b => concat b = concat (fst om) /\
                       exists groups : list (list (list N)),
                         concat groups = fst om /\ b = map (@concat N) groups)
          (os_multiplicity src) bs.
Proof. intros src nic st rst cn ci. exact (fo_partition_lemma src nic st rst ci). Qed.
Print Assumptions fo_partition.

(* ---- category sizes: absolute truncators ---- *)
Theorem fo_size_rule : forall src ts cn ci,
  ts <> [] -> from_ordinal src None (Some ts) None cn = Ok ci ->
  Forall2 (fun om b => exists r, size_rule ts (fst om) r /\ padded_to (ci_num_categories ci) r b)
          (os_multiplicity src) (fo_ballots None (Some ts) None (os_multiplicity src)).
Proof. intros src ts cn ci. exact (fo_size_rule_lemma src ts ci). Qed.
Print Assumptions fo_size_rule.

(* the rule determines the ballot *)
Theorem size_rule_deterministic : forall ts o r1 r2, size_rule ts o r1 -> size_rule ts o r2 -> r1 = r2.
Proof. exact size_rule_unique. Qed.
Print Assumptions size_rule_deterministic.

(* positive truncators, non-empty classes: no empty category before padding *)
Theorem fo_size_nonempty : forall ts o r,
  Forall (fun t => 0 < t) ts -> Forall (fun c => c <> []) o -> o <> [] ->
  size_rule ts o r -> Forall (fun cat => cat <> []) r.
Proof. exact size_rule_nonempty. Qed.
Print Assumptions fo_size_nonempty.

(* relative truncators: the same rule with the per-order sizes [tab_j (len(order))]_j *)
Theorem fo_relative_rule : forall src tabs cn ci,
  tabs <> [] -> from_ordinal src None None (Some tabs) cn = Ok ci ->
  Forall2 (fun om b => exists r, size_rule (rel_sizes tabs (fst om)) (fst om) r /\
                                 padded_to (ci_num_categories ci) r b)
          (os_multiplicity src) (fo_ballots None None (Some tabs) (os_multiplicity src)).
Proof. intros src tabs cn ci. exact (fo_relative_rule_lemma src tabs ci). Qed.
Print Assumptions fo_relative_rule.

(* ---- num_indif_classes ---- *)
Theorem fo_classes_rule : forall src ns cn ci,
  ns <> [] -> from_ordinal src (Some ns) None None cn = Ok ci ->
  Forall2 (fun om b => exists r, classes_rule ns (fst om) r /\ padded_to (ci_num_categories ci) r b)
          (os_multiplicity src) (fo_ballots (Some ns) None None (os_multiplicity src)).
Proof. intros src ns cn ci. exact (fo_classes_rule_lemma src ns ci). Qed.
Print Assumptions fo_classes_rule.

(* the assignment to the variable size_truncators inside the loop has no observable effect: every
   order's unpadded ballot is a function of the call's parameters and of that order alone *)
Theorem fo_loop_variable : forall nic st rst src,
  fo_raw nic st rst src = map (fun om => raw_pref nic st rst (fst om)) src.
Proof. exact fo_raw_map. Qed.
Print Assumptions fo_loop_variable.

(* ---- the category_name argument is ignored by the current code ---- *)
Theorem fo_category_name_ignored : forall src nic st rst cn cn',
  from_ordinal src nic st rst cn = from_ordinal src nic st rst cn'.
Proof. reflexivity. Qed.
Print Assumptions fo_category_name_ignored.

(* ---- padding to a common number of categories (whatever category_name is) ---- *)
Theorem fo_padding : forall src nic st rst cn ci,        (* cn = category_name: any value, None or a list *)
  from_ordinal src nic st rst cn = Ok ci ->
  let raw := fo_raw nic st rst (os_multiplicity src) in
  let bs := fo_ballots nic st rst (os_multiplicity src) in
  let k := ci_num_categories ci in
  bs = map (fun r => r ++ repeat [] (N.to_nat k - length r)) raw /\    (* empty, trailing *)
  (forall r, In r raw -> lenN r <= k) /\
  (exists r, In r raw /\ lenN r = k) /\                                (* k = max unpadded length *)
  Forall (fun b => lenN b = k) bs /\
  Forall (fun b => lenN b = k) (ci_preferences ci) /\
  length (ci_categories_name ci) = N.to_nat k.
Proof. intros src nic st rst cn ci. exact (fo_padding_lemma src nic st rst ci). Qed.
Print Assumptions fo_padding.

(* positive truncators (relative mode: positive table entries at the lengths that occur) and non-empty
   classes: the ONLY empty categories of a produced ballot are trailing ones — no empty category in
   the middle while alternatives remain.  TrailingOnly b := b = r ++ repeat [] n with r's categories
   non-empty; trailing_ok is its boolean form (used by the harness in the relative mode) *)
Theorem fo_empty_categories_trailing : forall src nic st rst cn ci,
  from_ordinal src nic st rst cn = Ok ci ->
  truthy nic || truthy st || truthy rst = true ->
  positive_params nic st rst (os_multiplicity src) ->
  Forall (fun om => Forall (fun c => c <> []) (fst om)) (os_multiplicity src) ->
  Forall TrailingOnly (ci_preferences ci).
Proof. intros src nic st rst cn ci. exact (fo_trailing_lemma src nic st rst ci). Qed.
Print Assumptions fo_empty_categories_trailing.

Theorem trailing_ok_correct : forall b, trailing_ok b = true <-> TrailingOnly b.
Proof. exact trailing_ok_iff. Qed.
Print Assumptions trailing_ok_correct.

(* ---- conservation of voters, also when different orders collapse to one ballot ---- *)
Theorem fo_conserve : forall src nic st rst cn ci,
  from_ordinal src nic st rst cn = Ok ci ->
  let bs := fo_ballots nic st rst (os_multiplicity src) in
  let items := combine bs (map snd (os_multiplicity src)) in      (* (ballot of order i, multiplicity i) *)
  length bs = length (os_multiplicity src) /\
  ci_preferences ci = first_occ bs /\
  NoDup (ci_preferences ci) /\
  (forall b, In b (ci_preferences ci) <-> In b bs) /\
  map fst (ci_multiplicity ci) = ci_preferences ci /\
  (forall b, lk b (ci_multiplicity ci) = wsum b items) /\
  (forall b, In b bs -> lookup b (ci_multiplicity ci) = Some (wsum b items)) /\
  ci_num_voters ci = sumN (map snd (ci_multiplicity ci)) /\
  ci_num_voters ci = sumN (map snd (os_multiplicity src)) /\
  ci_num_unique_preferences ci = lenN (ci_preferences ci) /\
  ci_num_unique_preferences ci = lenN (first_occ bs).
Proof. intros src nic st rst cn ci. exact (fo_conserve_lemma src nic st rst ci). Qed.
Print Assumptions fo_conserve.

(* ---- the conversion checker used by the correspondence in the relative mode ---- *)
(* ValidConversion src prefs mult k (Proofs/FromOrdinal.v): prefs duplicate-free = key set of mult, all
   ballots have k categories, and some assignment of a listed ballot to every source order partitions
   that order into runs of whole classes, uses every listed ballot, and gives every ballot the summed
   multiplicity of the orders assigned to it. *)
Theorem conv_check_correct : forall src prefs mult k,
  Forall (fun om => Forall (fun c => c <> []) (fst om)) src ->
  (conv_check src prefs mult k = true <-> ValidConversion src prefs mult k).
Proof. exact conv_check_correct_lemma. Qed.
Print Assumptions conv_check_correct.

Theorem fo_output_valid : forall src nic st rst cn ci,
  from_ordinal src nic st rst cn = Ok ci ->
  truthy nic || truthy st || truthy rst = true ->
  ValidConversion (os_multiplicity src) (ci_preferences ci) (ci_multiplicity ci) (ci_num_categories ci).
Proof. intros src nic st rst cn ci. exact (fo_output_valid_lemma src nic st rst ci). Qed.
Print Assumptions fo_output_valid.

(* ---- factorise_instance ---- *)
Theorem factorise_correct : forall prefs mult prefs' mult',
  factorise_instance true prefs mult = (prefs', mult') ->
  prefs' = first_occ prefs /\
  NoDup prefs' /\
  (forall b, In b prefs' <-> In b prefs) /\
  map fst mult' = prefs' /\
  (forall b, In b prefs -> lookup b mult' = Some (countN b prefs)) /\
  (forall b, ~ In b prefs -> lookup b mult' = None) /\
  sumN (map snd mult') = lenN prefs /\             (* num_voters after recompute_cardinality_param *)
  lenN (dedup prefs') = lenN prefs'.               (* num_unique_preferences = len(preferences)     *)
Proof. exact factorise_reset. Qed.
Print Assumptions factorise_correct.

(* reset_multiplicity = False (the default): the counts are ADDED to the table that is already there *)
Theorem factorise_any : forall reset prefs mult prefs' mult',
  factorise_instance reset prefs mult = (prefs', mult') ->
  let m0 := if reset then [] else mult in
  prefs' = first_occ prefs /\
  NoDup prefs' /\
  (forall b, In b prefs' <-> In b prefs) /\
  (forall b, lk b mult' = lk b m0 + countN b prefs) /\
  map fst mult' = map fst m0 ++ filter (fun y => negb (mem y (map fst m0))) (first_occ prefs) /\
  sumN (map snd mult') = sumN (map snd m0) + lenN prefs.
Proof. exact factorise_general. Qed.
Print Assumptions factorise_any.

(* ---- guards ---- *)
Theorem fo_guard_two_or_more : forall src nic st rst cn,
  (count_none nic st rst < 2)%nat -> from_ordinal src nic st rst cn = Err ValueErr.
Proof. intros src nic st rst cn. exact (fo_guard_too_many src nic st rst). Qed.
Print Assumptions fo_guard_two_or_more.

Theorem fo_guard_all_none : forall src cn, from_ordinal src None None None cn = Err ValueErr.
Proof. intros src cn. exact (fo_guard_none src). Qed.
Print Assumptions fo_guard_all_none.

(* max() of an empty sequence *)
Theorem fo_guard_empty_source : forall src nic st rst cn,
  os_multiplicity src = [] -> from_ordinal src nic st rst cn = Err ValueErr.
Proof. intros src nic st rst cn. exact (fo_empty_source src nic st rst). Qed.
Print Assumptions fo_guard_empty_source.

Theorem fo_succeeds : forall src nic st rst cn,
  count_none nic st rst = 2%nat -> os_multiplicity src <> [] -> exists ci, from_ordinal src nic st rst cn = Ok ci.
Proof. intros src nic st rst cn. exact (fo_total src nic st rst). Qed.
Print Assumptions fo_succeeds.

(* ---- what is false of the code ---- *)
(* an empty truncator list passes the guards; every ballot then has ZERO categories *)
Theorem fo_partition_empty_list_refuted :
  exists src ci,
    os_multiplicity src = [([[1]; [2]], 3)] /\
    from_ordinal src None (Some []) None None = Ok ci /\
    ci_preferences ci = [[]] /\ ci_num_categories ci = 0 /\
    ~ Partition [[1]; [2]] [].
Proof. exact fo_partition_empty_truncators_refuted. Qed.
Print Assumptions fo_partition_empty_list_refuted.

(* docstring, read literally: "each category will contain at least the truncation point number of
   alternatives" — not so for the category at which the order runs out *)
Theorem fo_size_at_least_t_refuted :
  exists ts o, Forall (fun t => 0 < t) ts /\ wf_order o /\
    exists j cat t, nth_error (size_pref ts o) j = Some cat /\ nth_error ts j = Some t /\ lenN cat < t.
Proof. exact fo_size_at_least_refuted. Qed.
Print Assumptions fo_size_at_least_t_refuted.

(* ---- non-vacuity ---- *)
Definition ex_src : ord_src :=
  {| os_num_alternatives := 4;
     os_alternatives_name := [(1, [65]); (2, [66]); (3, [67]); (4, [68])];
     os_multiplicity := [ ([[1]; [2]; [3]; [4]], 2);      (* strict, complete  *)
                          ([[1; 2]; [3]], 3);             (* weak, incomplete: same ballot under [2] as the next *)
                          ([[1]; [2]; [3]], 4);
                          ([[4]], 1) ] |}.

Example ex_sizes :
  exists ci, from_ordinal ex_src None (Some [2]) None (Some [[84]]) = Ok ci /\   (* one name for two categories: ignored *)
    ci_preferences ci = [ [[1; 2]; [3; 4]]; [[1; 2]; [3]]; [[4]; []] ] /\
    ci_multiplicity ci = [ ([[1; 2]; [3; 4]], 2); ([[1; 2]; [3]], 7); ([[4]; []], 1) ] /\
    ci_num_voters ci = 10 /\ ci_num_unique_preferences ci = 3 /\ ci_num_categories ci = 2.
Proof. eexists. repeat split; vm_compute; reflexivity. Qed.

Example ex_classes :
  exists ci, from_ordinal ex_src (Some [1; 1]) None None None = Ok ci /\
    ci_preferences ci = [ [[1]; [2]; [3; 4]]; [[1; 2]; [3]; []]; [[1]; [2]; [3]]; [[4]; []; []] ] /\
    ci_num_voters ci = 10 /\ ci_num_categories ci = 3.
Proof. eexists. repeat split; vm_compute; reflexivity. Qed.

(* relative truncators [0.5, 0.5] as tables n |-> ceil(n/2), n = 0..4 *)
Example ex_relative :
  exists ci, from_ordinal ex_src None None (Some [[0; 1; 1; 2; 2]; [0; 1; 1; 2; 2]]) None = Ok ci /\
    ci_multiplicity ci = [ ([[1; 2]; [3; 4]], 2); ([[1; 2]; [3]], 7); ([[4]; []], 1) ].
Proof. eexists. split; vm_compute; reflexivity. Qed.

Example ex_factorise :
  factorise_instance true [ [[1]; [2]]; [[1; 2]; []]; [[1]; [2]] ] [ ([[9]], 5) ]
  = ( [ [[1]; [2]]; [[1; 2]; []] ], [ ([[1]; [2]], 2); ([[1; 2]; []], 1) ] ).
Proof. vm_compute. reflexivity. Qed.

Example ex_wf : Forall wf_order (map fst (os_multiplicity ex_src)).
Proof.
  repeat constructor; simpl; intuition (try discriminate; try lia).
Qed.
