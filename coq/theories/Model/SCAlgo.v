(* Model/SCAlgo.v — MIRROR (shape M) of preflibtools' is_single_crossing as it is in /repo
   (after fix 493181a): "Fast Recognition by Sorting".
   Executable definitions only; proofs are in Proofs/SCAlgo.v.

     orders = [o for o, m in instance.flatten_strict()]          (storage order)
     if len(orders) <= 1: return True, orders
     v_1, v_2 = orders[0], orders[1];  k_dist = K(v_1, v_2)
     scores = defaultdict(lambda: 0);  scores[v_2] = k_dist
     for order in orders[2:]:
         k_dist_1 = K(v_1, order);  k_dist_2 = K(v_2, order)
         if   k_dist_1 + k_dist_2 == k_dist:  scores[order] =  k_dist_1     # in between 1 and 2
         elif k_dist + k_dist_2 == k_dist_1:  scores[order] =  k_dist_1     # after 2
         elif k_dist_1 + k_dist == k_dist_2:  scores[order] = -k_dist_1     # before 1
         else: return False, None
     n = len(instance.orders);  m = len(instance.alternatives_name)
     if n < m:  voters_order = sorted(orders, key=lambda x: scores[x])      # stable
     else:      array = [[] for _ in range(-(m**2), m**2 + 1)]
                for order in orders: array[int(scores[order] + m**2)].append(order)
                if any(len(elem) > 1 for elem in array): return False, None
                voters_order = [elem[0] for elem in array if elem != []]
     return (True, voters_order) if _is_ordered_profile_single_crossing(voters_order) else (False, None)

   K = kendall_tau_distance = ktd (Model/SC.v; total here, the ValueError of rankings of different
   length is outside the domain of the property).  The result (True, seq) is Ok (Some seq),
   (False, None) is Ok None, an IndexError of the bucket array is Err OtherErr. *)
From Coq Require Import List Arith NArith ZArith Bool.
From PrefVerif Require Import Lib.Val Model.Distances Model.SC.
Import ListNotations.
Local Open Scope Z_scope.

Definition scores := list (list N * Z).       (* the dict, insertion order *)

(* scores[o] of a defaultdict(lambda: 0) *)
Fixpoint lookup (sc : scores) (o : list N) : Z :=
  match sc with
  | [] => 0
  | (k, v) :: t => if order_eqb k o then v else lookup t o
  end.

(* scores[o] = v : replace in place if the key exists, else append *)
Fixpoint upd (sc : scores) (o : list N) (v : Z) : scores :=
  match sc with
  | [] => [(o, v)]
  | (k, w) :: t => if order_eqb k o then (k, v) :: t else (k, w) :: upd t o v
  end.

(* the loop over orders[2:]; None = return False, None *)
Fixpoint scan (v1 v2 : list N) (k : nat) (rest : list (list N)) (sc : scores) : option scores :=
  match rest with
  | [] => Some sc
  | o :: t =>
      let k1 := ktd v1 o in
      let k2 := ktd v2 o in
      if (k1 + k2 =? k)%nat then scan v1 v2 k t (upd sc o (Z.of_nat k1))
      else if (k + k2 =? k1)%nat then scan v1 v2 k t (upd sc o (Z.of_nat k1))
      else if (k1 + k =? k2)%nat then scan v1 v2 k t (upd sc o (- Z.of_nat k1))
      else None
  end.

(* sorted(l, key=key): stable *)
Fixpoint insert_by {T} (key : T -> Z) (x : T) (l : list T) : list T :=
  match l with
  | [] => [x]
  | y :: t => if key x <=? key y then x :: y :: t else y :: insert_by key x t
  end.

Fixpoint sort_by {T} (key : T -> Z) (l : list T) : list T :=
  match l with
  | [] => []
  | x :: t => insert_by key x (sort_by key t)
  end.

(* array[int(s + m**2)] on a Python list of length 2m^2+1: negative indices wrap, others raise *)
Definition bucket_index (m : nat) (s : Z) : option nat :=
  let mm := Z.of_nat (m * m) in
  let len := 2 * mm + 1 in
  let i := s + mm in
  if 0 <=? i then (if i <? len then Some (Z.to_nat i) else None)
  else if - len <=? i then Some (Z.to_nat (i + len))
  else None.

Definition in_bucket (m : nat) (key : list N -> Z) (i : nat) (o : list N) : bool :=
  match bucket_index m (key o) with Some j => Nat.eqb j i | None => false end.

Definition first_of {T} (b : list T) : list T := match b with [] => [] | x :: _ => [x] end.

(* the n >= m branch: Err = IndexError, Ok None = a bucket holds two orders, Ok (Some seq) *)
Definition bucket_phase (m : nat) (key : list N -> Z) (orders : list (list N))
  : result (option (list (list N))) :=
  if forallb (fun o => match bucket_index m (key o) with Some _ => true | None => false end) orders then
    let buckets := map (fun i => filter (in_bucket m key i) orders) (seq 0 (2 * (m * m) + 1)) in
    if existsb (fun b => (1 <? length b)%nat) buckets then Ok None
    else Ok (Some (flat_map first_of buckets))
  else Err OtherErr.

Definition sc_algo (alts : list N) (orders : list (list N)) : result (option (list (list N))) :=
  match orders with
  | [] => Ok (Some orders)
  | [_] => Ok (Some orders)
  | v1 :: v2 :: rest =>
      let k := ktd v1 v2 in
      match scan v1 v2 k rest [(v2, Z.of_nat k)] with
      | None => Ok None
      | Some sc =>
          let n := length orders in
          let m := length alts in
          let key := lookup sc in
          let cand := if (n <? m)%nat then Ok (Some (sort_by key orders))
                      else bucket_phase m key orders in
          match cand with
          | Ok (Some vo) => if ordered_check vo then Ok (Some vo) else Ok None
          | other => other
          end
      end
  end.

(* the Boolean of the returned pair *)
Definition sc_algo_verdict (alts : list N) (orders : list (list N)) : bool :=
  match sc_algo alts orders with Ok (Some _) => true | _ => false end.

(* ---------------------------------------------------------------------------------------------- *)
(* MIRROR of is_single_crossing_conflict_sets (orders are flat: the 1-tuples of the stored orders are
   identified with their member):

     def prefers(a, b, o): return o.index(a) < o.index(b)
     def conflict_set(o1, o2):
         res = set([])
         for i in range(len(o1)):
             for j in range(i + 1, len(o1)):
                 if (prefers(o1[i], o1[j], o1) and prefers(o1[j], o1[i], o2)) or (
                     prefers(o1[j], o1[i], o1) and prefers(o1[i], o1[j], o2)):
                     res.add((min(o1[i][0], o1[j][0]), max(o1[i][0], o1[j][0])))
         return res
     def is_SC_with_first(i, profile):
         for j in range(len(profile)):
             for k in range(len(profile)):
                 if not (conflict_ij.issubset(conflict_ik) or conflict_ik.issubset(conflict_ij)): return False
         return True
     for i in range(len(instance.orders)):
         if is_SC_with_first(i, instance.orders): return True
     return False

   A Python set is a list used through membership only.  `pairs o1` enumerates (o1[i], o1[j]), i < j, in
   loop order; `prefers` is the index comparison (theorem prefers_idx). *)
Definition conflict_set (o1 o2 : list N) : list (N * N) :=
  flat_map (fun p => let a := fst p in let b := snd p in
                     if (prefers o1 a b && prefers o2 b a) || (prefers o1 b a && prefers o2 a b)
                     then [(N.min a b, N.max a b)] else [])
           (pairs o1).

Definition pair_eqb (p q : N * N) : bool := N.eqb (fst p) (fst q) && N.eqb (snd p) (snd q).
Definition subsetb (s t : list (N * N)) : bool := forallb (fun p => existsb (pair_eqb p) t) s.

Definition sc_with_first (v : list N) (profile : list (list N)) : bool :=
  forallb (fun oj => forallb (fun ok =>
     subsetb (conflict_set v oj) (conflict_set v ok) || subsetb (conflict_set v ok) (conflict_set v oj))
     profile) profile.

Definition conflict_sets_algo (orders : list (list N)) : bool :=
  existsb (fun v => sc_with_first v orders) orders.
