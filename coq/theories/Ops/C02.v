(* Ops/C02.v — protocol entry points for property C02 (incremental construction of ordinal instances).
   c02.history  payload: ((kind data) ...)   kind 0 AppendOrder (a ...) | 1 AppendArray ((a ...) ...)
                                           | 2 AppendList (order ...)  | 3 AppendVoteMap ((order k) ...)
                                           | 6 AppendVoteMap (wrapper rows)  rows = ((a ...) ...)
                answer : the observation of the fresh state followed by one observation per operation. *)
From Coq Require Import List ZArith NArith String.
From PrefVerif Require Import Lib.Val Lib.Dec Model.OrdState.
Import ListNotations.
Open Scope string_scope.

Definition d_class (v : val) : list N := dlist dN v.
Definition d_order (v : val) : order := dlist d_class v.
Definition d_op (v : val) : op :=
  match dnat (dnth 0 v) with
  | 0 => AppendOrder (d_class (dnth 1 v))
  | 1 => AppendArray (dlist d_class (dnth 1 v))
  | 2 => AppendList (dlist d_order (dnth 1 v))
  | 3 => AppendVoteMap (dlist (dpair d_order dN) (dnth 1 v))
  | _ => AppendVoteMap (wrapper (dlist d_class (dnth 1 v)))    (* 6: populate_X with the sampler's raw rows *)
  end.
(* 7: a maintenance / accessor call between appends: (7 0) recompute_cardinality_param(), (7 k>0) a read-only
   accessor (infer_type, flatten_strict, full_profile, vote_map): adds no vote *)
Inductive hstep := HOp (o : op) | HRecompute | HRead.
Definition d_step (v : val) : hstep :=
  match dnat (dnth 0 v) with
  | 7 => match dnat (dnth 1 v) with 0 => HRecompute | _ => HRead end
  | _ => HOp (d_op v)
  end.

Definition e_class (c : list N) : val := elist eN c.
Definition e_order (o : order) : val := elist e_class o.
Definition e_dt (d : dt) : val :=
  VI (match d with Soc => 0 | Soi => 1 | Toc => 2 | Toi => 3 | DNone => 4 end)%Z.

Definition observe (raised : bool) (ms : list order) (s : state) : val :=
  VL [ elist (epair e_order eN) (mult s);            (* 0  multiplicity.items() *)
       elist e_order (ords s);                       (* 1  orders *)
       eN (n_vot s);                                 (* 2  num_voters *)
       eN (n_uniq s);                                (* 3  num_unique_orders *)
       eN (n_alt s);                                 (* 4  num_alternatives *)
       elist (epair eN (elist eN)) (alts s);         (* 5  alternatives_name.items() *)
       e_dt (dtype s);                               (* 6  data_type *)
       eresult e_dt (infer_type s);                  (* 7  infer_type() *)
       elist e_order (full_profile s);               (* 8  full_profile() *)
       elist (epair e_order eN) (vote_map s);        (* 9  vote_map().items() *)
       elist (epair e_class eN) (flatten_strict s);  (* 10 flatten_strict() *)
       ebool (is_strict s);                          (* 11 *)
       eresult ebool (is_complete s);                (* 12 *)
       eresult enat (largest_ballot s);              (* 13 *)
       eresult enat (smallest_ballot s);             (* 14 *)
       enat (max_num_indif s);                       (* 15 *)
       enat (min_num_indif s);                       (* 16 *)
       enat (largest_indif s);                       (* 17 *)
       enat (smallest_indif s);                      (* 18 *)
       ebool (sanity_ok s);                          (* 19 sanity.orders: no complaint (label check apart) *)
       ebool (sanity_zero_ok s);                     (* 20 *)
       ebool raised;                                 (* 21 the call raised (ValueError from infer_type) *)
       elist e_order (ords s);                       (* 22 preferences (alias of orders) *)
       e_dt (spec_type ms) ].                        (* 23 the type of the multiset of votes added so far,
                                                           by definition (Proofs: = data_type when ms <> []) *)

Fixpoint observe_run (s : state) (ms : list order) (hs : list hstep) : list val :=
  match hs with
  | [] => []
  | HOp o :: r =>
      let s' := step s o in
      let ms' := (ms ++ votes o)%list in
      observe (step_raises s o) ms' s' :: observe_run s' ms' r
  | HRecompute :: r => let s' := recompute s in observe false ms s' :: observe_run s' ms r
  | HRead :: r => observe false ms s :: observe_run s ms r
  end.

Definition op_history (v : val) : val :=
  VL (observe false [] init :: observe_run init [] (dlist d_step v)).

(* c02.wrapper  payload: the sampler's rows ((a ...) ...) ; answer: prefsampling_ordinal_wrapper's vote map *)
Definition op_wrapper (v : val) : val := elist (epair e_order eN) (wrapper (dlist d_class v)).

Definition ops : optable := [ ("c02.history", op_history); ("c02.wrapper", op_wrapper) ].
