(* Proofs/MaxAxis.v — the fast reference of Model/MaxAxis.v computes the alternative-deletion optimum of strict
   profiles:   fast_min_alt alts votes = min_alt_del alts (map strictify votes)     (fast_min_alt_correct). *)
From Coq Require Import List Arith NArith Bool Lia Permutation.
From PrefVerif Require Import Lib.Val Lib.Perms Lib.Contig Lib.Subsets Model.SP Model.Deletion Model.ELPDP Model.MaxAxis
                              Proofs.SP Proofs.Deletion Proofs.ELPDP.
Import ListNotations.

Section MaxAxis.
Variables (alts : list N) (votes : list (list N)).

(* the lists the search visits *)
Definition GoodL (P : list N) : Prop := NoDup P /\ incl P alts /\ forall v, In v votes -> spv v P.

Lemma list_okb_spec P : list_okb votes P = true <-> forall v, In v votes -> spv v P.
Proof.
  unfold list_okb. rewrite forallb_forall. split; intros H v Hv.
  - apply spv_valley. apply sp_scan_ok_correct. now apply H.
  - apply sp_scan_ok_correct. apply spv_valley. now apply H.
Qed.

Lemma spv_tail v a P : spv v (a :: P) -> spv v P.
Proof. intros H x y z Hs. apply H. apply sub3_cons_iff. now right. Qed.

Lemma GoodL_nil : GoodL [].
Proof.
  split; [constructor|]. split; [intros a []|]. intros v _ a b c (l1 & ? & ? & ? & E). destruct l1; discriminate.
Qed.

Lemma GoodL_tail a P : GoodL (a :: P) -> GoodL P.
Proof.
  intros (H1 & H2 & H3). inversion H1; subst. split; [assumption|]. split.
  - intros x Hx. apply H2. now right.
  - intros v Hv. eapply spv_tail. now apply H3.
Qed.

Lemma GoodL_suffix E P : GoodL (E ++ P) -> GoodL P.
Proof. induction E as [|a E IH]; [auto|]. intros H. apply IH. eapply GoodL_tail. exact H. Qed.

(* the inner fold *)
Definition step (f : nat) (P : list N) (best : nat) (a : N) : nat :=
  if memN a P then best
  else if list_okb votes (a :: P) then Nat.max best (max_axis_from alts votes f (a :: P)) else best.

Lemma max_axis_from_S f P : max_axis_from alts votes (S f) P = fold_left (step f P) alts (length P).
Proof. reflexivity. Qed.

Lemma fold_step_ge f P l b : b <= fold_left (step f P) l b.
Proof.
  revert b. induction l as [|a l IH]; intros b; [simpl; lia|]. simpl.
  eapply Nat.le_trans; [|apply IH]. unfold step. destruct (memN a P); [lia|]. destruct (list_okb votes (a :: P)); lia.
Qed.

Lemma fold_step_reach f P l b a : In a l -> memN a P = false -> list_okb votes (a :: P) = true ->
  max_axis_from alts votes f (a :: P) <= fold_left (step f P) l b.
Proof.
  revert b. induction l as [|x l IH]; intros b Hin Hm Hok; [contradiction|]. simpl. destruct Hin as [->|Hin].
  - eapply Nat.le_trans; [|apply fold_step_ge]. unfold step. rewrite Hm, Hok. lia.
  - now apply IH.
Qed.

(* soundness: the value is the length of a visited list *)
Lemma max_axis_from_sound fuel : forall P, GoodL P -> exists Q, GoodL Q /\ max_axis_from alts votes fuel P = length Q.
Proof.
  induction fuel as [|f IH]; intros P HP; [exists P; auto|]. rewrite max_axis_from_S.
  assert (H : forall l b, incl l alts -> (exists Q, GoodL Q /\ b = length Q) ->
              exists Q, GoodL Q /\ fold_left (step f P) l b = length Q).
  { induction l as [|a l IHl]; intros b Hl Hb; [exact Hb|]. simpl. apply IHl; [intros x Hx; apply Hl; now right|].
    unfold step. destruct (memN a P) eqn:Hm; [exact Hb|]. destruct (list_okb votes (a :: P)) eqn:Hok; [|exact Hb].
    assert (HaP : GoodL (a :: P)).
    { destruct HP as (H1 & H2 & H3). split; [constructor; [now apply memN_false|assumption]|]. split.
      - intros x [<-|Hx]; [apply Hl; now left|now apply H2].
      - now apply list_okb_spec. }
    destruct (IH (a :: P) HaP) as (Q1 & HQ1 & E1). destruct Hb as (Q0 & HQ0 & E0).
    destruct (Nat.max_spec b (max_axis_from alts votes f (a :: P))) as [[_ ->]|[_ ->]]; eauto. }
  apply H; [apply incl_refl|]. exists P. auto.
Qed.

(* completeness: every good list extending P at the front within the fuel is dominated *)
Lemma max_axis_from_complete fuel : forall E P, GoodL (E ++ P) -> length E <= fuel ->
  length (E ++ P) <= max_axis_from alts votes fuel P.
Proof.
  induction fuel as [|f IH]; intros E P HT Hlen.
  - destruct E; [simpl; lia|simpl in Hlen; lia].
  - rewrite max_axis_from_S. destruct E as [|e0 E0] eqn:EE.
    + simpl. apply fold_step_ge.
    + assert (Hne : E <> []) by (rewrite EE; discriminate). rewrite <- EE in *.
      destruct (exists_last Hne) as (E' & a & Ea). rewrite Ea in *. rewrite <- app_assoc in *. cbn [app] in *.
      assert (HaP : GoodL (a :: P)) by (apply (GoodL_suffix E'); exact HT).
      assert (Hlen' : length E' <= f) by (rewrite app_length in Hlen; simpl in Hlen; lia).
      eapply Nat.le_trans; [apply (IH E' (a :: P) HT Hlen')|].
      destruct HaP as (H1 & H2 & H3). inversion H1; subst. apply fold_step_reach.
      * apply H2. now left.
      * now apply memN_false.
      * now apply list_okb_spec.
Qed.

Theorem max_axis_len_spec :
  (exists Q, GoodL Q /\ length Q = max_axis_len alts votes) /\
  (forall Q, GoodL Q -> length Q <= max_axis_len alts votes).
Proof.
  unfold max_axis_len. split.
  - destruct (max_axis_from_sound (length alts) [] GoodL_nil) as (Q & HQ & E). exists Q. auto.
  - intros Q HQ. rewrite <- (app_nil_r Q). apply max_axis_from_complete; [now rewrite app_nil_r|].
    destruct HQ as (H1 & H2 & _). now apply NoDup_incl_length.
Qed.
End MaxAxis.

(* ---------------------------------------------------------------------------------------------- *)
(* link with the deletion optimum                                                                  *)

Lemma length_partition (f : N -> bool) l : length (filter f l) + length (filter (fun a => negb (f a)) l) = length l.
Proof. induction l as [|x l IH]; [reflexivity|]. simpl. destruct (f x); simpl; lia. Qed.

Section Link.
Variables (alts : list N) (votes : list (list N)).
Hypothesis Hnd : NoDup alts.
Hypothesis Hp : forall v, In v votes -> Permutation alts v.

Lemma votes_wf v : In v votes -> NoDup v /\ incl alts v.
Proof.
  intros Hin. split; [eapply Permutation_NoDup; [apply Hp|]; eauto|]. intros a Ha. eapply Permutation_in; [apply Hp|]; eauto.
Qed.

Lemma complete_profile : Forall (complete_on alts) (map strictify votes).
Proof.
  apply Forall_forall. intros o Ho. apply in_map_iff in Ho. destruct Ho as (v & <- & Hv). apply complete_on_strictify; auto.
Qed.

(* a good list of length k gives a deletion set of size m - k accepted by the certificate checker *)
Lemma good_list_cert O : GoodL alts votes O ->
  let D := filter (fun a => negb (memN a O)) alts in
  cert_alt alts (map strictify votes) (length D) O D = true /\ length D + length O = length alts.
Proof.
  intros (G1 & G2 & G3) D.
  assert (HD : forall a, In a D <-> In a alts /\ ~ In a O).
  { intros a. unfold D. rewrite filter_In, negb_true_iff, memN_false. reflexivity. }
  assert (KO : keepN D O = O).
  { apply filter_all_true. intros a Ha. apply negb_true_iff, memN_false. intros HaD. apply HD in HaD. tauto. }
  split.
  - unfold cert_alt. rewrite !andb_true_iff. split; [split; [split|]|].
    + apply nodupN_correct. unfold D. now apply NoDup_filter.
    + apply forallb_forall. intros a Ha. apply memN_In. now apply HD.
    + apply Nat.eqb_refl.
    + unfold spw_check_axis. rewrite KO. apply andb_true_iff. split.
      * apply valid_axis_correct; [now apply keepN_NoDup|].
        apply NoDup_Permutation; [now apply keepN_NoDup|assumption|].
        intros a. rewrite keepN_In, HD. split.
        -- intros [Ha Hn]. destruct (in_dec N.eq_dec a O); tauto.
        -- intros Ha. split; [now apply G2|tauto].
      * assert (E : delete_alts D (map strictify votes) = map strictify (map (filter (fun a => negb (memN a D))) votes)).
        { unfold delete_alts. rewrite !map_map. apply map_ext. intros v. apply delete_order_strictify. }
        rewrite E. apply axis_test_restricted.
        -- intros v Hin. destruct (votes_wf v Hin) as [N1 N2]. split; [assumption|]. split; [|now apply G3].
           intros a Ha. apply N2. now apply G2.
        -- intros a Ha. apply negb_true_iff, memN_false. intros HaD. apply HD in HaD. tauto.
  - pose proof (length_partition (fun a => memN a O) alts) as HL. cbv beta in HL. unfold D.
    assert (HP : Permutation (filter (fun a => memN a O) alts) O).
    { apply NoDup_Permutation; [now apply NoDup_filter|assumption|].
      intros a. rewrite filter_In, memN_In. split; [tauto|]. intros Ha. split; [now apply G2|assumption]. }
    apply Permutation_length in HP. lia.
Qed.

(* an optimal deletion set gives a good list of the complementary length *)
Lemma optimum_good_list : exists O, GoodL alts votes O /\ length O + min_alt_del alts (map strictify votes) = length alts.
Proof.
  destruct (min_alt_del_witness alts (map strictify votes)) as (D & Hs & Hl & Hok).
  unfold alt_del_ok, spw_decide in Hok. apply existsb_exists in Hok. destruct Hok as (O & HO & Hsp).
  apply perms_iff in HO.
  assert (HOin : forall a, In a O <-> In a alts /\ ~ In a D).
  { intros a. rewrite <- keepN_In. split; apply Permutation_in; [now apply Permutation_sym|assumption]. }
  exists O. split.
  - split; [eapply Permutation_NoDup; [exact HO|now apply keepN_NoDup]|]. split; [intros a Ha; now apply HOin|].
    intros v Hv. destruct (votes_wf v Hv) as [N1 N2].
    unfold sp_axis_profile in Hsp. rewrite forallb_forall in Hsp.
    assert (Hw : sp_axis_weak (delete_order D (strictify v)) O = true).
    { apply Hsp. unfold delete_alts. apply in_map. now apply in_map. }
    rewrite delete_order_strictify in Hw. apply sp_axis_weak_strictify in Hw. unfold keepN in Hw.
    apply (spv_filter (fun a => negb (memN a D)) v O) in Hw; auto.
    + intros a Ha. apply N2. now apply HOin.
    + intros a Ha. apply negb_true_iff, memN_false. now apply HOin.
  - rewrite <- Hl. apply Permutation_length in HO. rewrite <- HO.
    pose proof (length_partition (fun a => memN a D) alts) as HL. cbv beta in HL.
    assert (HP : Permutation (filter (fun a => memN a D) alts) D).
    { apply NoDup_Permutation; [now apply NoDup_filter|eapply sublist_NoDup; eauto|].
      intros a. rewrite filter_In, memN_In. split; [tauto|]. intros Ha. split; [|assumption].
      eapply sublist_incl; eauto. }
    apply Permutation_length in HP. unfold keepN. lia.
Qed.

Theorem fast_min_alt_correct : fast_min_alt alts votes = min_alt_del alts (map strictify votes).
Proof.
  unfold fast_min_alt. destruct (max_axis_len_spec alts votes) as [(Q & HQ & EQ) Hmax].
  destruct (good_list_cert Q HQ) as [Hcert HlenQ].
  apply cert_alt_valid_bound in Hcert; [|assumption|apply complete_profile].
  destruct optimum_good_list as (O & HO & HlenO). pose proof (Hmax O HO) as HOle. lia.
Qed.
End Link.
