"""C19 — 1-Euclidean recognition (is_one_euclidean): exact verdict, returned embedding realises the votes.

Shape (R), PARTIAL with respect to the implementation (its algorithm is not mirrored; bounded comparison).
What the extracted model provides (Model/Euclid.v, Model/EuclidLP.v, theorems in Properties/C19.v):
  c19.check    verified witness checker for an embedding (eucl_check_correct): exact rationals, strict distances
  c19.refuted  verified necessary conditions (C19_refute_sound): a profile that is not single-peaked or not
               single-crossing has no embedding, so the implementation must answer False
  c19.algo     the extracted MIRROR of is_one_euclidean (Model/EuclidAlgo.v, exact LP oracle): proved sound
               (eucl_algo_exact_sound: a True answer carries a map accepted by c19.check), complete (eucl_algo_complete)
               and hence exact (eucl_algo_exact_verdict: same verdict as c19.decide), independent of the iteration
               order of Python's sets (eucl_algo_order_independent); run for m <= 6, n <= 12; a verdict of the
               implementation that differs from the mirror's is a failure (kind verdict); a difference between the
               mirror and c19.decide, or an error of the mirror, is reported as a broken model
  c19.decide   verified EXACT reference decider (eucl_decide_correct: Fourier-Motzkin elimination over Q for every
               axis on which the profile is single-peaked); doubly exponential, run for m <= 6 and n <= 12
The correspondence therefore has three parts:
  (1) planted 1-Euclidean profiles: the generator's own embedding is accepted by c19.check, hence (planted_sound)
      the profile IS 1-Euclidean: the implementation must answer True and its map must pass c19.check;
  (2) small profiles (m <= 6, n <= 12): the verdict must equal c19.decide; the witness of a True answer must pass
      c19.check; c19.refuted is evaluated as well (refuted => decide says False: cross-check of the model); the verdict of the extracted mirror c19.algo must equal c19.decide as well;
  (3) the verdict must not depend on the storage order of the ballots (case op c19.orders: every storage
      order must get the verdict of c19.decide).
Three defects found by this check were repaired in /repo (5a8bee2, 3211aad, 4ca33bd; minimised inputs in
corpus/C19); one open known finding remains (KF-C19-b, see known_findings.json). The campaign is DETERMINISTIC
(seeded by the constant CAMPAIGN_SEED, not by VERIF_SEED) because open findings
are identified by the sha-256 of the failing inputs. Any failing input outside those lists is a violation."""
import itertools
import math
import random
from fractions import Fraction

from core import proto
from . import common
from .common import case, exc_code, ordinal_instance, strict

ID = "C19"
COVER_FILES = ["properties/subdomains/ordinal/euclidean.py"]
CAMPAIGN_SEED = 19_000_019      # constant: the failing set must be reproducible (DESIGN.md section 4)
RULE = ("DETERMINISTIC campaign (constant seed %d; VERIF_SEED is ignored because the open known findings "
        "KF-C19-b is identified by input). Alternatives are 1..m, data type soc, instances built with "
        "common.ordinal_instance. (1) planted 1-Euclidean profiles: alternatives at distinct even integers, "
        "voters at integers that are no midpoint of two alternatives (no two distances tie), m in 2..6 and 1..6 "
        "distinct orders (thorough: also m <= 9, n <= 12), each profile in several storage orders (sorted by "
        "position, reversed, extremes in the middle, shuffled), plus 'nested' planted profiles (2..4 voters, "
        "alternatives on up to four scales 200^k so that several groups of alternatives are ranked alike by all "
        "voters, m <= 12) and 'runs' planted profiles (common top, a grey run of up to 10 alternatives, up to five "
        "couples the voters disagree on, grey runs in between, a grey tail, m <= 16); the generator's embedding must pass c19.check "
        "(otherwise the case is discarded and counted as 'generator-bug'); the implementation must answer True "
        "and its map {0..n-1: voters, c+n-1: alternative c}, converted exactly with fractions.Fraction, must pass "
        "c19.check. (2)/(3) small profiles (all sets of orders over 3 alternatives, all sets of <= 2 orders and "
        "sampled sets of 3..6 orders over 4 alternatives, swap-walk and random profiles over 4..6 alternatives, "
        "n <= 6; relabelled 3-voter 6-alternative cores that are single-peaked and single-crossing but not "
        "1-Euclidean in all 6 storage orders; 3..4 votes sampled from the single-peaked votes of a random axis, "
        "m = 5, 6; profiles with 7..12 distinct orders over 5..6 alternatives: single-peaked samples, planted, "
        "planted plus one foreign single-peaked vote), each in several storage orders: the verdict must equal the exact reference c19.decide (in "
        "particular False when c19.refuted: not single-peaked or not single-crossing) and the witness of a True "
        "answer must pass c19.check; c19.orders cases run 3..6 storage orders of one profile and demand the "
        "verdict of c19.decide for each. "
        "c19.history cases (round-5 lessons): ONE instance object is asked 2..5 times by is_one_euclidean, "
        "is_single_crossing, is_single_crossing_conflict_sets and is_single_peaked in several orders; every answer is "
        "judged against the model of the ORIGINAL profile, the semantic content of the object is compared before and "
        "after every call, every returned map / sequence / axis is poisoned in place, other profiles (other m, "
        "rejected, single order, raising) are run first in the same process, and the instance is built with the orders "
        "list decoupled from the multiplicity keys, alternatives_name unsorted, numpy.int64 ids, maintenance calls. "
        "non-trivial = at least 3 alternatives and at least 2 distinct orders" % CAMPAIGN_SEED)
EXHAUSTIVE = {
    "quick": "all 63 non-empty sets of strict orders over 3 alternatives (x sorted / reversed / shuffled storage) and all "
             "sets of 3..6 orders over 3 alternatives in ALL storage orders; all sets of <= 2 strict orders over 4 "
             "alternatives in both storage orders; ALL 1771 sets of 4 distinct orders over 4 alternatives that contain "
             "the identity (every 4-order profile up to relabelling) in ALL 24 storage orders; every sixth of the 8855 "
             "sets of 5 orders containing the identity (one storage order)",
    "thorough": "all 63 non-empty sets of strict orders over 3 alternatives (x sorted / reversed / shuffled "
                "storage); all sets of <= 2 strict orders over 4 alternatives in both storage orders; all sets "
                "of 3 strict orders over 4 alternatives (given storage order); all sets of 3..6 orders over 3 "
                "alternatives in ALL storage orders; ALL 1771 sets of 4 distinct orders over 4 alternatives containing "
                "the identity in ALL 24 storage orders; ALL 8855 sets of 5 orders containing the identity (one "
                "storage order)"}
THEOREMS_FOR_OP = {
    "c19.planted": "eucl_check_correct, planted_sound (the planted profile is 1-Euclidean, so True with a map "
                   "accepted by eucl_check is the only correct answer)",
    "c19.profile": "eucl_decide_correct (exact reference verdict), C19_refute_sound (refuted => no embedding => "
                   "False), eucl_check_correct (witness of a True answer)",
    "c19.orders": "eucl_decide_correct; the specification Euclidean is invariant under permutation of the ballots "
                  "(Euclidean_perm)"}
TRUSTED = ["is_one_euclidean is mirrored in Model/EuclidAlgo.v (precheck = the proved mirror sc_algo, colouring, axis, "
           "runs, band placement) with the LP (python-mip/CBC, floats) replaced by an exact rational oracle; the "
           "mirror is proved sound, complete and independent of set iteration order; the implementation is tied to it only by comparing verdicts "
           "(m <= 6, n <= 12); the implementation's own map is judged by the verified checker at every size",
           "the exact reference c19.decide is only RUN for m <= 6 alternatives and n <= 12 distinct orders; beyond "
           "that size False answers are only checked on planted positives and True answers only through the "
           "witness (larger planted profiles of the thorough tier)",
           "float -> exact rational by fractions.Fraction(float) (every finite double is a dyadic rational)"]
ASSUMPTIONS = ["profiles are duplicate-free lists of strict complete orders over the alternatives 1..m (labels must "
               "be 1..m: the keys of the returned map are computed from the labels), data type soc, at least one order",
               "positions returned by the implementation are finite floats; a non-finite or missing position is "
               "reported as a failed witness"]
TIMEOUT_S = 30.0
CHUNK = 20

REFUTE_MAX_M = 6     # c19.refuted enumerates m! axes and n! arrangements
REFUTE_MAX_N = 6
DECIDE_MAX_M = 6     # c19.decide: Fourier-Motzkin for every single-peaked axis (m = 7 can take minutes)
DECIDE_MAX_N = 12    # measured: m = 6, n <= 12 stays below 1 s per profile

K_EXC, K_WIT, K_VER = "exception", "witness", "verdict"


# ------------------------------------------------------------------------------------------------ generators
def planted(rng, m, n, spread=4):
    """m alternatives (labels 1..m in random position order) at distinct even integers, up to n voters at
    integers that are not a midpoint of two alternatives, with pairwise distinct rankings.
    Returns (apos: {alt: int}, [(ranking, voter position)] sorted by position)."""
    xs = rng.sample(range(0, spread * m + 4), m)
    apos = {a + 1: 2 * xs[a] for a in range(m)}
    mids = {(apos[a] + apos[b]) // 2 for a in apos for b in apos if a != b}
    lo, hi = min(apos.values()) - 3, max(apos.values()) + 3
    cand = [v for v in range(lo, hi + 1) if v not in mids]
    rng.shuffle(cand)
    seen = {}
    for v in cand:
        r = tuple(sorted(apos, key=lambda a: abs(v - apos[a])))
        if r not in seen:
            seen[r] = v
        if len(seen) == n:
            break
    prof = sorted(seen.items(), key=lambda kv: kv[1])
    return apos, [(list(r), v) for r, v in prof]


def nested(rng, levels):
    """A 1-Euclidean profile with several scales: 2..4 voters at integers in a small window, a few alternatives near
    them, and per level (scale 200^level) up to two far alternatives that every voter ranks alike (uncoloured in
    is_one_euclidean) plus, usually, a far pair whose midpoint separates the voters (coloured, but ranked below the
    former): forces several F/G groups in _one_euclidean_gen_sets. Returns None when the draw is unusable."""
    n = rng.randint(2, 4)
    vs = sorted(rng.sample(range(-6, 7), n))
    pos = [2 * x for x in rng.sample(range(-10, 11), rng.randint(1, 3))]
    scale = 1
    for _ in range(levels):
        scale *= 200
        for _ in range(rng.randint(0, 2)):
            pos.append(rng.choice([-1, 1]) * (scale * rng.randint(2, 5) + 2 * rng.randint(0, 20)))
        if rng.random() < 0.85:
            mid2 = rng.randint(2 * vs[0] + 1, 2 * vs[-1] - 1)
            if mid2 % 2:
                mid2 += 1
            a = -(scale * 20 + 2 * rng.randint(0, 30))
            pos += [a, mid2 - a]
    pos = list(dict.fromkeys(pos))
    m = len(pos)
    if m < 2 or m > 12:
        return None
    labels = list(range(1, m + 1))
    rng.shuffle(labels)
    apos = dict(zip(labels, pos))
    mids = {(apos[a] + apos[b]) // 2 for a in apos for b in apos if a != b}
    if any(v in mids for v in vs):
        return None
    seen = {}
    for v in vs:
        seen.setdefault(tuple(sorted(apos, key=lambda a: abs(v - apos[a]))), v)
    if len(seen) < 2:
        return None
    return apos, [(list(r), v) for r, v in sorted(seen.items(), key=lambda kv: kv[1])]


def runs_family(rng):
    """A 1-Euclidean profile whose ballots are  top, G_1, couple_1, G_2, couple_2, ... , tail : two voters at -1 and +1
    (optionally a third one at 0), the common top at 0, k unanimous alternatives at 10, 11, ... (a long grey run
    right behind the top), j couples at -100 t and 100 t + c_t with c_t = +-1 (the voters disagree on every couple,
    so the couples are coloured and form later F groups), up to three unanimous alternatives behind each couple
    and a unanimous tail.  Exercises the quantitative side of the placement: the width delta must bound the distance
    to EVERY coloured alternative, and the step l/m inside a grey run needs m = number of ALL alternatives."""
    vs = [-1, 1] if rng.random() < 0.7 else [-1, 0, 1]
    pos = [0]
    k = rng.choice([0, 1, 2, 3, 5, 8, 9, 10])
    pos += [10 + t for t in range(k)]
    j = rng.randint(1, 5)
    for t in range(1, j + 1):
        c = rng.choice([-1, 1])
        pos += [-100 * t, 100 * t + c]
        for u in range(rng.choice([0, 0, 1, 2, 3])):
            pos.append(rng.choice([-1, 1]) * (100 * t + 40 + 3 * u))
    for u in range(rng.choice([0, 1, 1, 2])):
        pos.append(rng.choice([-1, 1]) * (100 * (j + 2) + 7 * u))
    pos = list(dict.fromkeys(pos))
    m = len(pos)
    if m > 16:
        return None
    labels = list(range(1, m + 1))
    rng.shuffle(labels)
    if rng.random() < 0.3:
        labels = list(range(1, m + 1))          # ballots 1, 2, 3, ... as in the usual examples
    apos = dict(zip(labels, pos))
    seen = {}
    for v in vs:
        d = sorted(abs(v - x) for x in pos)
        if any(d[i] == d[i + 1] for i in range(len(d) - 1)):
            return None
        seen.setdefault(tuple(sorted(apos, key=lambda a: abs(v - apos[a]))), v)
    if len(seen) < 2:
        return None
    return apos, [(list(r), v) for r, v in sorted(seen.items(), key=lambda kv: kv[1])]


def storage_orders(rng, k, extra=1):
    """index permutations of 0..k-1: given, reversed, extremes moved to the middle, `extra` shuffles (distinct)"""
    idx = list(range(k))
    outs = [idx]
    if k >= 2:
        outs.append(idx[::-1])
    if k >= 3:
        mid = idx[1:-1]
        h = len(mid) // 2
        outs.append(mid[:h] + [idx[-1], idx[0]] + mid[h:])
        for _ in range(extra):
            s = idx[:]
            rng.shuffle(s)
            outs.append(s)
    res = []
    for o in outs:
        if o not in res:
            res.append(o)
    return res


def mults(rng, n, heavy):
    return [rng.choice([1, 1, 2, 5]) for _ in range(n)] if heavy else [1] * n


def mk_planted(alts, prof, apos, order, mult, **tags):
    profile = [prof[i][0] for i in order]
    vpos = [[prof[i][1], 1] for i in order]
    ap = [[a, apos[a], 1] for a in alts]
    return case("c19.planted", [alts, profile, mult, vpos, ap], m=len(alts), n=len(profile), **tags)


def mk_profile(alts, profile, mult=None, **tags):
    mult = mult or [1] * len(profile)
    return case("c19.profile", [list(alts), [list(r) for r in profile], mult], m=len(alts), n=len(profile), **tags)


def swap_walk(rng, alts, n):
    """a single-crossing sequence of distinct orders (each pair is swapped at most once along the walk)"""
    cur = list(alts)
    rng.shuffle(cur)
    seq = [list(cur)]
    used = set()
    while len(seq) < n:
        moved = False
        for _ in range(rng.randint(1, 2)):
            cands = [i for i in range(len(cur) - 1) if frozenset((cur[i], cur[i + 1])) not in used]
            if not cands:
                break
            i = rng.choice(cands)
            used.add(frozenset((cur[i], cur[i + 1])))
            cur[i], cur[i + 1] = cur[i + 1], cur[i]
            moved = True
        if not moved:
            break
        seq.append(list(cur))
    return seq


# profiles over 6 alternatives that are single-peaked (axis 1..6) and single-crossing but NOT 1-Euclidean
# (found with the exact reference; the model re-decides each of them on every run, nothing is trusted here)
SPSC_NOT_EUCLIDEAN = [
    [[3, 4, 2, 1, 5, 6], [3, 4, 2, 5, 6, 1], [4, 5, 3, 2, 6, 1]],
    [[3, 2, 4, 5, 6, 1], [5, 4, 3, 2, 6, 1], [3, 2, 1, 4, 5, 6]],
    [[4, 3, 5, 2, 1, 6], [2, 3, 4, 5, 1, 6], [4, 5, 3, 6, 2, 1]],
    [[5, 4, 3, 2, 6, 1], [3, 2, 4, 1, 5, 6], [3, 4, 5, 2, 6, 1]],
    [[4, 3, 5, 6, 2, 1], [4, 3, 2, 5, 1, 6], [3, 2, 4, 5, 1, 6]],
    [[4, 5, 6, 3, 2, 1], [4, 3, 5, 2, 1, 6], [2, 3, 4, 1, 5, 6]],
    [[2, 3, 4, 5, 1, 6], [3, 4, 5, 2, 1, 6], [4, 5, 6, 3, 2, 1]],
    [[2, 3, 4, 1, 5, 6], [4, 5, 3, 2, 1, 6], [4, 5, 3, 6, 2, 1]],
]


def sp_votes(axis):
    """all votes that are single-peaked on the axis"""
    m = len(axis)
    out = []

    def rec(lo, hi, cur):
        if len(cur) == m:
            out.append([axis[i] for i in cur])
            return
        if lo > 0:
            rec(lo - 1, hi, cur + [lo - 1])
        if hi < m - 1:
            rec(lo, hi + 1, cur + [hi + 1])
    for p in range(m):
        rec(p, p, [p])
    return out


def generate(tier, seed):
    """`seed` (VERIF_SEED) is deliberately ignored, see RULE. Every section has its own PRNG and the thorough
    campaign extends the quick one, so the quick failing set is a subset of the thorough failing set."""
    quick = tier == "quick"
    out = []

    # ---- (1) planted, the sizes the brief names: m in 2..6, n in 1..6
    rng = random.Random(CAMPAIGN_SEED + 1)
    for i in range(330 if quick else 2400):
        m = rng.randint(2, 6)
        n = rng.randint(1, 6)
        apos, prof = planted(rng, m, n)
        alts = list(range(1, m + 1))
        for j, order in enumerate(storage_orders(rng, len(prof), extra=1)):
            out.append(mk_planted(alts, prof, apos, order, mults(rng, len(prof), i % 4 == 0),
                                  gen="planted", storage=j))
    # single distinct order, every m in 1..6 (the n = 1 clause of the quantifier)
    rng = random.Random(CAMPAIGN_SEED + 2)
    for i in range(24 if quick else 120):
        m = 1 + i % 6
        apos, prof = planted(rng, m, 1)
        out.append(mk_planted(list(range(1, m + 1)), prof, apos, [0], [rng.choice([1, 3])], gen="planted-one", storage=0))
    # ---- (1'') planted profiles with several scales (several groups of uncoloured alternatives), m <= 12
    rng = random.Random(CAMPAIGN_SEED + 11)
    cnt = 0
    while cnt < (150 if quick else 1500):
        res = nested(rng, rng.randint(1, 3))
        if res is None:
            continue
        cnt += 1
        apos, prof = res
        for j, order in enumerate(storage_orders(rng, len(prof), extra=1)):
            out.append(mk_planted(sorted(apos), prof, apos, order, [1] * len(prof), gen="planted-nested", storage=j))
    # ---- planted profiles  top, long grey run, couples, grey runs, tail  (m <= 16, 2..3 voters)
    rng = random.Random(CAMPAIGN_SEED + 12)
    cnt = 0
    while cnt < (150 if quick else 1500):
        res = runs_family(rng)
        if res is None:
            continue
        cnt += 1
        apos, prof = res
        for j, order in enumerate(storage_orders(rng, len(prof), extra=0)):
            out.append(mk_planted(sorted(apos), prof, apos, order, [1] * len(prof), gen="planted-runs", storage=j))
    # ---- (1') larger planted profiles (thorough only)
    if not quick:
        rng = random.Random(CAMPAIGN_SEED + 3)
        for i in range(500):
            m = rng.randint(6, 9)
            n = rng.randint(4, 12)
            apos, prof = planted(rng, m, n, spread=3)
            alts = list(range(1, m + 1))
            for j, order in enumerate(storage_orders(rng, len(prof), extra=1)):
                out.append(mk_planted(alts, prof, apos, order, [1] * len(prof), gen="planted-large", storage=j))

    # ---- (2)/(3) exhaustive m = 3
    rng = random.Random(CAMPAIGN_SEED + 4)
    alts3 = [1, 2, 3]
    P3 = [list(p) for p in itertools.permutations(alts3)]
    for k in range(1, 7):
        for sub in itertools.combinations(P3, k):
            sub = list(sub)
            for j, order in enumerate(storage_orders(rng, k, extra=1)):
                out.append(mk_profile(alts3, [sub[i] for i in order], gen="exh-m3", storage=j))
    # m = 4 : all sets of <= 2 orders, both storage orders
    alts4 = [1, 2, 3, 4]
    P4 = [list(p) for p in itertools.permutations(alts4)]
    for k in (1, 2):
        for sub in itertools.combinations(P4, k):
            sub = list(sub)
            out.append(mk_profile(alts4, sub, gen="exh-m4", storage=0))
            if k == 2:
                out.append(mk_profile(alts4, sub[::-1], gen="exh-m4", storage=1))
    if not quick:
        for sub in itertools.combinations(P4, 3):
            out.append(mk_profile(alts4, list(sub), gen="exh-m4", storage=0))
    # ---- EXHAUSTIVE: every set of 4 distinct orders over 4 alternatives that contains the identity (= every
    #      4-order profile up to relabelling; 1771 sets) in ALL 24 storage orders; every set of 3..6 orders over 3
    #      alternatives in all storage orders (one case = one set with all its storage orders)
    ident4 = [1, 2, 3, 4]
    others4 = [p for p in P4 if p != ident4]
    perms4 = [list(p) for p in itertools.permutations(range(4))]
    for sub in itertools.combinations(others4, 3):
        out.append(case("c19.orders", [alts4, [ident4] + [list(s) for s in sub], perms4], m=4, n=4, gen="exh-4x4-all-storage"))
    for k in range(3, 7):
        permsk = [list(p) for p in itertools.permutations(range(k))]
        for sub in itertools.combinations(P3, k):
            out.append(case("c19.orders", [alts3, [list(s) for s in sub], permsk], m=3, n=k, gen="exh-m3-all-storage"))
    # every set of 5 orders over 4 alternatives that contains the identity (8855 sets), one storage order each
    # (quick: every sixth set)
    rng = random.Random(CAMPAIGN_SEED + 13)
    for i, sub in enumerate(itertools.combinations(others4, 4)):
        prof = [ident4] + [list(s) for s in sub]
        rng.shuffle(prof)
        if quick and i % 6:
            continue
        out.append(mk_profile(alts4, prof, gen="exh-5x4", storage=0))
    # m = 4 : sampled sets of 3..6 orders
    rng = random.Random(CAMPAIGN_SEED + 5)
    for i in range(150 if quick else 1500):
        sub = rng.sample(P4, rng.randint(3, 6))
        for j, order in enumerate(storage_orders(rng, len(sub), extra=0)):
            out.append(mk_profile(alts4, [sub[i] for i in order], gen="sampled-m4", storage=j))
    # m in 4..6 : swap walks (single-crossing; single-peaked or not), walks plus one order, random sets
    rng = random.Random(CAMPAIGN_SEED + 6)
    for i in range(260 if quick else 2600):
        m = rng.randint(4, 6)
        alts = list(range(1, m + 1))
        n = rng.randint(2, 6)
        kind = i % 3
        if kind == 2:
            prof = []
            for _ in range(n):
                r = alts[:]
                rng.shuffle(r)
                if r not in prof:
                    prof.append(r)
            tag = "random"
        else:
            prof = swap_walk(rng, alts, n if kind == 0 else max(2, n - 1))
            tag = "walk"
            if kind == 1:
                for _ in range(20):
                    o = list(rng.choice(prof))
                    a, b = rng.randrange(m), rng.randrange(m)
                    o[a], o[b] = o[b], o[a]
                    if o not in prof:
                        prof.append(o)
                        break
                tag = "walk+1"
        for j, order in enumerate(storage_orders(rng, len(prof), extra=1)):
            out.append(mk_profile(alts, [prof[i] for i in order], mults(rng, len(prof), i % 5 == 0),
                                  gen=tag, storage=j))

    # ---- single-peaked AND single-crossing but not 1-Euclidean (m = 6): relabelled cores, every storage order
    rng = random.Random(CAMPAIGN_SEED + 8)
    alts6 = [1, 2, 3, 4, 5, 6]
    for i, core in enumerate(SPSC_NOT_EUCLIDEAN if not quick else SPSC_NOT_EUCLIDEAN[:4]):
        for rep in range(2 if quick else 4):
            lab = alts6[:]
            if rep:
                rng.shuffle(lab)
            prof = [[lab[a - 1] for a in r] for r in core]
            for j, perm in enumerate(itertools.permutations(range(3))):
                out.append(mk_profile(alts6, [prof[k] for k in perm], gen="spsc-core", storage=j))
    # profiles sampled from the votes single-peaked on a random axis (m = 5, 6; about 1 % of the single-crossing
    # ones are not 1-Euclidean), two storage orders
    rng = random.Random(CAMPAIGN_SEED + 9)
    for i in range(150 if quick else 1500):
        m = rng.choice([5, 6, 6])
        axis = list(range(1, m + 1))
        rng.shuffle(axis)
        prof = rng.sample(sp_votes(axis), rng.randint(3, 4))
        out.append(mk_profile(sorted(axis), prof, gen="sp-sampled", storage=0))
        out.append(mk_profile(sorted(axis), prof[::-1], gen="sp-sampled", storage=1))

    # ---- m <= 6 with 7..12 distinct orders (exact reference still run): votes single-peaked on one axis, planted
    #      profiles, planted profiles plus one foreign single-peaked vote (both verdicts), two storage orders
    rng = random.Random(CAMPAIGN_SEED + 10)
    for i in range(120 if quick else 1200):
        m = rng.choice([5, 6, 6])
        n = rng.randint(7, 12)
        kind = i % 3
        if kind == 0:
            axis = list(range(1, m + 1))
            rng.shuffle(axis)
            V = sp_votes(axis)
            prof = rng.sample(V, min(n, len(V)))
            tag = "many-sp-sampled"
        else:
            apos, pp = planted(rng, m, n)
            prof = [r for r, _ in pp]
            tag = "many-planted"
            if kind == 1:
                ax = sorted(apos, key=lambda a: apos[a])
                W = [v for v in sp_votes(ax) if v not in prof]
                if W:
                    prof.append(rng.choice(W))
                tag = "many-planted+1"
        sh = prof[:]
        rng.shuffle(sh)
        out.append(mk_profile(list(range(1, m + 1)), sh, gen=tag, storage=0))
        out.append(mk_profile(list(range(1, m + 1)), sh[::-1], gen=tag, storage=1))

    # ---- histories on ONE instance object (purity, aliasing of results, object lifetime, decoupled storage orders,
    #      numpy ids, maintenance calls): see notes/round5_lessons.md
    rng = random.Random(CAMPAIGN_SEED + 14)
    pres = [[], [[[1, 2, 3], [[1, 2, 3], [2, 3, 1], [3, 1, 2]]]],                 # a rejected profile, other m
            [[[1, 2, 3, 4, 5], [[2, 1, 3, 4, 5]]]],                                  # single order, overlapping ids
            [[[1, 2], []]],                                                          # no ballot at all: raises
            [[[1, 2, 3, 4], [[1, 2, 3, 4], [1, 2, 4, 3]]], [[1, 2, 3], [[3, 2, 1], [2, 3, 1]]]]]
    for i in range(420 if quick else 4200):
        m = rng.randint(2, 6)
        alts = list(range(1, m + 1))
        n = rng.randint(1, 6)
        src = i % 4
        if src == 0:
            prof = [r for r, _ in planted(rng, m, n)[1]]
        elif src == 1:
            prof = swap_walk(rng, alts, n)
        elif src == 2:
            res = runs_family(rng) if i % 8 == 2 else None
            if res is not None and len(res[0]) <= 6:
                alts = sorted(res[0])
                prof = [r for r, _ in res[1]]
            else:
                prof = [r for r, _ in planted(rng, m, min(n, 3))[1]]
        else:
            prof = []
            for _ in range(n):
                r = alts[:]
                rng.shuffle(r)
                if r not in prof:
                    prof.append(r)
        rng.shuffle(prof)
        variant = [0, 0, 1, 2, 4, 8, 3, 15, 9, 6][i % 10]
        script = SCRIPTS[i % len(SCRIPTS)]
        out.append(case("c19.history", [alts, prof, mults(rng, len(prof), i % 3 == 0), variant, script, pres[i % len(pres)]],
                        m=len(alts), n=len(prof), gen="history"))

    # ---- storage-order invariance of the verdict (one case = several storage orders of one profile)
    rng = random.Random(CAMPAIGN_SEED + 7)
    for i in range(120 if quick else 1200):
        m = rng.randint(3, 6)
        alts = list(range(1, m + 1))
        n = rng.randint(2, 6)
        if i % 3 == 0:
            _, pp = planted(rng, m, n)
            prof = [r for r, _ in pp]
            tag = "orders-planted"
        elif i % 3 == 1:
            prof = swap_walk(rng, alts, n)
            tag = "orders-walk"
        else:
            prof = []
            for _ in range(n):
                r = alts[:]
                rng.shuffle(r)
                if r not in prof:
                    prof.append(r)
            tag = "orders-random"
        if len(prof) < 2:
            continue
        orders = storage_orders(rng, len(prof), extra=3)
        out.append(case("c19.orders", [alts, prof, orders], m=m, n=len(prof), gen=tag))
    return out


# ------------------------------------------------------------------------------------------------ implementation
def _frac(x):
    """finite float/int -> [num, den] exactly, anything else -> None"""
    if isinstance(x, bool):
        return None
    if isinstance(x, int):
        return [x, 1]
    try:
        x = float(x)
    except Exception:
        return None
    if not math.isfinite(x):
        return None
    f = Fraction(x)
    return [f.numerator, f.denominator]


def _call(alts, profile, mult):
    """one call of is_one_euclidean -> [0, verdict, voters, alternatives, flags] | [1, code, text] | {"crash": ...}
    voters = [[num, den] | [] ...] for keys 0..n-1 ([] = key missing / not a finite number),
    alternatives = [[alt, num, den] ...] for the keys c+n-1 that are present, flags = [number of keys that are
    neither a voter nor an alternative of the instance, number of non-finite values]"""
    from preflibtools.properties.subdomains.ordinal.euclidean import is_one_euclidean
    inst = ordinal_instance([(strict(r), mu) for r, mu in zip(profile, mult)], data_type="soc", alts=alts)
    salt = common.salt_of([alts, profile, mult])
    if salt % 4 == 0:       # call / in-place edit / call: the same object held a decoy profile of the same shape first
        inst, _ = common.prime_stale(inst, [lambda i: _lp_guard(is_one_euclidean, i)], salt // 4)
    try:
        res = _lp_guard(is_one_euclidean, inst)
    except Exception as e:  # classified by the judge; an exception is a failure for every in-domain input
        return [1, exc_code(e), proto.text(type(e).__name__ + ": " + str(e)[:100])]
    if not (isinstance(res, tuple) and len(res) == 2):
        return {"crash": "is_one_euclidean returned %r" % (res,)}
    verdict, y = res
    if not isinstance(verdict, bool):
        return {"crash": "is_one_euclidean verdict is not a bool: %r" % (verdict,)}
    if not verdict:
        return [0, 0, [], [], [0, 0]]
    if not isinstance(y, dict):
        return {"crash": "is_one_euclidean answered True without a position map: %r" % (y,)}
    n, m = len(profile), len(alts)
    voters, alternatives, stray, nonfinite = [], [], 0, 0
    for i in range(n):
        f = _frac(y[i]) if i in y else None
        if i in y and f is None:
            nonfinite += 1
        voters.append(f if f is not None else [])
    aset = set(alts)
    for k in sorted(y, key=lambda k: (str(type(k)), k)):
        if isinstance(k, int) and 0 <= k < n:
            continue
        c = k - n + 1 if isinstance(k, int) else None
        if c in aset:
            f = _frac(y[k])
            if f is None:
                nonfinite += 1
            else:
                alternatives.append([c, f[0], f[1]])
        else:
            stray += 1
    return [0, 1, voters, alternatives, [stray, nonfinite]]


# ------------------------------------------------------------------------------------------------ history cases
# (notes/round5_lessons.md) one instance object asked several times by the whole family of recognisers; every answer
# is judged against the model of the ORIGINAL profile; the semantic content of the object is compared before / after
# every call (common.snapshot); every returned object is poisoned in place; other profiles are run first in the
# same worker call; the instance is built with decoupled storage orders / numpy ids / maintenance calls.
H_EUCL, H_SC, H_CONF, H_SP = 0, 1, 2, 3
V_ORDERS_DECOUPLED, V_ALTS_UNSORTED, V_NUMPY, V_MAINT = 1, 2, 4, 8
SCRIPTS = [[0, 0], [1, 0, 1, 0], [2, 0, 2, 0], [3, 0, 3, 0], [0, 2, 1, 3, 0], [2, 2, 1, 0, 0], [3, 1, 2, 0]]


_LP_CALLS = [0]


def _lp_guard(fn, *a):
    """python-mip models are freed by the cyclic GC; if that happens while cffi is inside a later solver call the
    process can deadlock (see c12._ilp): the collector is off during the call (it runs between calls, where freeing a
    model is harmless) and a full collection is forced every 64th call."""
    import gc
    _LP_CALLS[0] += 1
    if _LP_CALLS[0] % 64 == 0:
        gc.collect()
    gc.disable()
    try:
        return fn(*a)
    finally:
        gc.enable()


def _build(alts, profile, mult, variant):
    ident = int
    if variant & V_NUMPY:
        import numpy
        ident = numpy.int64
    names = list(alts)
    if variant & V_ALTS_UNSORTED and len(names) > 1:
        names = names[1::2] + names[0::2][::-1]          # discovery order, not ascending
    inst = ordinal_instance([(strict([ident(a) for a in r]), mu) for r, mu in zip(profile, mult)], data_type="soc",
                            alts=[ident(a) for a in names])
    if variant & V_ORDERS_DECOUPLED and len(inst.orders) > 1:
        inst.orders.reverse()                             # list order <> dict key order
        first = next(iter(inst.multiplicity))
        inst.multiplicity[first] = inst.multiplicity.pop(first)
    if variant & V_MAINT:
        inst.recompute_cardinality_param()
        inst.flatten_strict()
        inst.full_profile()
    return inst


def _convert(res, order_used, alts):
    """(bool, dict) of is_one_euclidean -> the shape of _call; keys may be numpy integers"""
    if not (isinstance(res, tuple) and len(res) == 2):
        return {"crash": "is_one_euclidean returned %r" % (res,)}
    verdict, y = res
    if not isinstance(verdict, bool):
        return {"crash": "is_one_euclidean verdict is not a bool: %r" % (verdict,)}
    if not verdict:
        return [0, 0, [], [], [0, 0]]
    if not isinstance(y, dict):
        return {"crash": "is_one_euclidean answered True without a position map: %r" % (y,)}
    n = len(order_used)
    yy, stray, nonfinite = {}, 0, 0
    for k, v in y.items():
        if hasattr(k, "__index__") and not isinstance(k, bool):
            yy[int(k)] = v
        else:
            stray += 1
    voters, alternatives = [], []
    for i in range(n):
        f = _frac(yy[i]) if i in yy else None
        if i in yy and f is None:
            nonfinite += 1
        voters.append(f if f is not None else [])
    aset = set(int(a) for a in alts)
    for k in sorted(yy):
        if 0 <= k < n:
            continue
        c = k - n + 1
        if c in aset:
            f = _frac(yy[k])
            if f is None:
                nonfinite += 1
            else:
                alternatives.append([c, f[0], f[1]])
        else:
            stray += 1
    return [0, 1, voters, alternatives, [stray, nonfinite]]


def _poison(obj):
    """change a returned object in place: a later answer must not depend on it"""
    try:
        if isinstance(obj, dict):
            obj.clear()
            obj[0] = 1e18
            obj["poison"] = -1e18
        elif isinstance(obj, list):
            obj.reverse()
            obj.append(("poison",))
            del obj[:max(0, len(obj) - 1)]
        elif isinstance(obj, set):
            obj.clear()
            obj.add("poison")
    except Exception:
        pass


def _history(c):
    from preflibtools.properties.subdomains.ordinal.euclidean import is_one_euclidean
    from preflibtools.properties.subdomains.ordinal import singlecrossing as SCm
    from preflibtools.properties.subdomains.ordinal.singlepeaked.singlepeakedness import is_single_peaked
    from .common import snapshot, snap_diff
    alts, profile, mult, variant, script, pre = c["payload"]
    # other profiles first, in the same process (their answers are not judged; they may raise)
    for palts, pprof in pre:
        try:
            _lp_guard(is_one_euclidean, ordinal_instance([(strict(r), 1) for r in pprof], data_type="soc", alts=palts))
        except Exception:
            pass
    inst = _build(alts, profile, mult, variant)
    out = []
    for step in script:
        before = snapshot(inst)
        try:
            if step == H_EUCL:
                used = [[int(a) for a in o] for o, _ in inst.flatten_strict()]
                res = _lp_guard(is_one_euclidean, inst)
                rec = [H_EUCL, used, _convert(res, used, alts)]
                if isinstance(rec[2], dict):
                    return rec[2]
                if isinstance(res[1], dict):
                    _poison(res[1])
            else:
                fn = {H_SC: SCm.is_single_crossing, H_CONF: SCm.is_single_crossing_conflict_sets, H_SP: is_single_peaked}[step]
                res = fn(inst)
                verdict = res[0] if isinstance(res, tuple) else res
                if not isinstance(verdict, bool):
                    return {"crash": "%s returned %r" % (fn.__name__, res)}
                rec = [step, int(verdict)]
                if isinstance(res, tuple) and len(res) > 1:
                    _poison(res[1])
        except Exception as e:
            rec = [step, [1, exc_code(e), proto.text(type(e).__name__ + ": " + str(e)[:100])]] if step != H_EUCL else \
                  [H_EUCL, [], [1, exc_code(e), proto.text(type(e).__name__ + ": " + str(e)[:100])]]
        d = snap_diff(before, snapshot(inst))
        rec.append(proto.text(d[:200]) if d else [])
        out.append(rec)
    return out


def impl(c):
    pl = c["payload"]
    if c["op"] == "c19.history":
        return _history(c)
    if c["op"] == "c19.orders":
        alts, prof, orders = pl
        return [_call(alts, [prof[i] for i in o], [1] * len(prof)) for o in orders]
    return _call(pl[0], pl[1], pl[2])


# ------------------------------------------------------------------------------------------------ oracle / judge
def _check_req(alts, profile, r):
    """c19.check request for the witness of a True answer; a missing voter is sent as a missing entry, so the
    checker rejects the witness (length vpos <> length profile)"""
    vpos = [v for v in r[2] if v]
    return ("c19.check", [alts, profile, vpos, r[3]])


def _is_true(r):
    return isinstance(r, list) and r[0] == 0 and r[1] == 1


def _small(alts, profile):
    return len(alts) <= DECIDE_MAX_M and len(profile) <= DECIDE_MAX_N


def _layout(c, r):
    """[(name, (op, payload))]: the requests sent to the model for this case, named for the judge"""
    pl = c["payload"]
    op = c["op"]
    lay = []
    if op == "c19.planted":
        lay.append(("gen", ("c19.check", [pl[0], pl[1], pl[3], pl[4]])))
        if _small(pl[0], pl[1]):
            lay.append(("decide", ("c19.decide", [pl[0], pl[1]])))
            lay.append(("algo", ("c19.algo", [pl[0], pl[1]])))
        if _is_true(r):
            lay.append(("wit", _check_req(pl[0], pl[1], r)))
    elif op == "c19.profile":
        small = len(pl[0]) <= REFUTE_MAX_M and len(pl[1]) <= REFUTE_MAX_N
        lay.append(("refuted", ("c19.refuted", [pl[0], pl[1]]) if small else ("c19.refuted_fast", [pl[0], pl[1]])))
        if _small(pl[0], pl[1]):
            lay.append(("decide", ("c19.decide", [pl[0], pl[1]])))
            lay.append(("algo", ("c19.algo", [pl[0], pl[1]])))
        if _is_true(r):
            lay.append(("wit", _check_req(pl[0], pl[1], r)))
    elif op == "c19.history":
        alts, prof = pl[0], pl[1]
        lay.append(("decide", ("c19.decide", [alts, prof])))
        lay.append(("algo", ("c19.algo", [alts, prof])))
        lay.append(("sc", ("c04.cdecide", [alts, prof])))
        lay.append(("sp", ("c03.decide", [alts, prof])))
        if isinstance(r, list):
            for k, rec in enumerate(r):
                if rec[0] == H_EUCL and _is_true(rec[2]):
                    lay.append(("wit%d" % k, _check_req(alts, rec[1], rec[2])))
    else:  # c19.orders
        alts, prof, orders = pl
        lay.append(("refuted", ("c19.refuted", [alts, prof])))
        lay.append(("decide", ("c19.decide", [alts, prof])))
        if isinstance(r, list):
            for k, (o, ri) in enumerate(zip(orders, r)):
                if _is_true(ri):
                    lay.append(("wit%d" % k, _check_req(alts, [prof[i] for i in o], ri)))
    return lay


def oracle_requests(c, r):
    return [req for _, req in _layout(c, r)]


def _named(c, r, mres):
    return {name: res for (name, _), res in zip(_layout(c, r), mres)}


def _exc_text(r):
    try:
        return proto.untext(r[2])
    except Exception:
        return "error code %r" % (r[1],)


def _witness_reason(r):
    miss_v = sum(1 for v in r[2] if not v)
    return ("is_one_euclidean answers True but the returned map is rejected by the verified checker c19.check "
            "(eucl_check_correct): %d voter key(s) missing, %d alternative(s) placed, %d stray key(s), %d non-finite "
            "value(s); some alternative has no position or some voter's distances are not strictly increasing "
            "along its ranking" % (miss_v, len(r[3]), r[4][0], r[4][1]))


def _algo_verdict(M):
    """verdict of the extracted mirror of is_one_euclidean: 1 / 0, None if not run"""
    a = M.get("algo")
    if isinstance(a, list) and a and a[0] == 0:
        return 1 if a[1] else 0
    return None


def _model_inconsistent(M):
    """the theorems exclude these combinations; seeing one means the extracted model or the harness is broken"""
    if M.get("refuted") == 1 and M.get("decide") == 1:
        return "c19.refuted = 1 but c19.decide = 1 (contradicts eucl_refuted_sound / eucl_decide_correct)"
    if M.get("decide") == 0 and any(v == 1 for k, v in M.items() if k.startswith("wit") or k == "gen"):
        return "c19.decide = 0 but c19.check accepted an embedding (contradicts planted_sound / eucl_decide_correct)"
    a = M.get("algo")
    if a is not None:
        if not (isinstance(a, list) and a and a[0] in (0, 1)):
            return "c19.algo returned a malformed answer %r" % (a,)
        if a[0] == 1:
            return "the mirror c19.algo raised error code %r on a well-formed profile (contradicts eucl_algo_no_error)" % (a[1],)
        if _algo_verdict(M) is not None and M.get("decide") is not None and _algo_verdict(M) != M.get("decide"):
            return ("the mirror c19.algo answers %r but c19.decide = %r (contradicts eucl_algo_exact_verdict)"
                    % (_algo_verdict(M), M.get("decide")))
    if M.get("refuted") == 1 and any(v == 1 for k, v in M.items() if k.startswith("wit") or k == "gen"):
        return "c19.refuted = 1 but c19.check accepted an embedding (contradicts refuted_no_witness)"
    return None


K_PUR = "purity"
STEP_NAME = {H_EUCL: "is_one_euclidean", H_SC: "is_single_crossing", H_CONF: "is_single_crossing_conflict_sets",
             H_SP: "is_single_peaked"}


def _judge_history(c, r, M):
    """every answer of the history is judged against the model of the ORIGINAL profile"""
    if isinstance(r, dict):
        return {"kind": K_EXC, "reason": "crash: %r" % (r,)}
    pl = c["payload"]
    original = sorted(pl[1])
    for k, rec in enumerate(r):
        where = "step %d (%s) of the history %r on one instance object" % (k, STEP_NAME[rec[0]], [STEP_NAME[x] for x in pl[4]])
        if rec[-1]:
            return {"kind": K_PUR, "reason": where + ": the call changed the instance it was asked about: "
                    + proto.untext(rec[-1])}
        if rec[0] == H_EUCL:
            res = rec[2]
            if res[0] == 1:
                return {"kind": K_EXC, "reason": where + ": raised " + _exc_text(res)}
            if sorted(rec[1]) != original:
                return {"kind": K_PUR, "reason": where + ": the instance no longer holds the original profile: %r" % (rec[1],)}
            if res[1] != M["decide"]:
                return {"kind": K_VER, "reason": where + ": answers %s, the exact reference (eucl_decide_correct) says %s "
                        "for the original profile" % (bool(res[1]), bool(M["decide"]))}
            if res[1] == 1 and M.get("wit%d" % k) != 1:
                return {"kind": K_WIT, "reason": where + ": " + _witness_reason(res)}
        else:
            if isinstance(rec[1], list):
                return {"kind": K_EXC, "reason": where + ": raised " + _exc_text(rec[1])}
            expected = M["sp"] if rec[0] == H_SP else M["sc"]
            if rec[1] != expected:
                return {"kind": K_VER, "reason": where + ": answers %s, the proved reference says %s for the original "
                        "profile" % (bool(rec[1]), bool(expected))}
    return None


def judge(c, r, mres):
    op = c["op"]
    M = _named(c, r, mres)
    bad = _model_inconsistent(M)
    if bad:
        return {"kind": "broken-correspondence", "reason": bad}
    if op == "c19.history":
        return _judge_history(c, r, M)
    if op == "c19.orders":
        if any(isinstance(ri, dict) for ri in r):
            return {"kind": K_EXC, "reason": "crash: %r" % ([ri for ri in r if isinstance(ri, dict)][:1],)}
        if any(ri[0] == 1 for ri in r):
            return {"kind": K_EXC, "reason": "is_one_euclidean raised " + _exc_text([ri for ri in r if ri[0] == 1][0])}
        verdicts = [ri[1] for ri in r]
        expected = M["decide"]
        if any(v != expected for v in verdicts):
            return {"kind": K_VER, "reason": "is_one_euclidean answers %r for the storage orders %r of one profile; the "
                    "exact reference (eucl_decide_correct) says %s for every storage order (Euclidean_perm)%s%s"
                    % (verdicts, c["payload"][2], bool(expected),
                       "; the verdict depends on the storage order" if len(set(verdicts)) > 1 else "",
                       "; the profile is refuted by the necessary conditions" if M["refuted"] == 1 else "")}
        for k, ri in enumerate(r):
            if ri[1] == 1 and M.get("wit%d" % k) != 1:
                return {"kind": K_WIT, "reason": "storage order %r: %s" % (c["payload"][2][k], _witness_reason(ri))}
        return None
    if isinstance(r, dict):
        return {"kind": K_EXC, "reason": "crash: %r" % (r,)}
    if op == "c19.planted":
        if M["gen"] != 1:
            return None           # generator bug (ties): discarded, counted in stats as 'generator-bug'
        if r[0] == 1:
            return {"kind": K_EXC, "reason": "is_one_euclidean raised %s on a 1-Euclidean profile (planted_sound)"
                    % _exc_text(r)}
        if r[1] == 0:
            return {"kind": K_VER, "reason": "is_one_euclidean answers False on a planted 1-Euclidean profile "
                    "(the generator's embedding is accepted by c19.check: planted_sound)"}
        if M["wit"] != 1:
            return {"kind": K_WIT, "reason": _witness_reason(r)}
        return None
    # c19.profile
    refuted = M["refuted"] == 1
    expected = M.get("decide")            # None beyond the size the exact reference is run for
    if r[0] == 1:
        return {"kind": K_EXC, "reason": "is_one_euclidean raised " + _exc_text(r)}
    if r[1] == 1:
        if refuted or expected == 0:
            return {"kind": K_VER, "reason": "is_one_euclidean answers True on a profile that is not 1-Euclidean: %s; "
                    "its map is rejected by c19.check"
                    % ("it is not single-peaked or not single-crossing (C19_refute_sound)" if refuted else
                       "it is single-peaked and single-crossing but the exact reference finds no embedding "
                       "(eucl_decide_correct)")}
        if M["wit"] != 1:
            return {"kind": K_WIT, "reason": _witness_reason(r)}
    elif expected == 1:
        return {"kind": K_VER, "reason": "is_one_euclidean answers False on a 1-Euclidean profile (exact reference: "
                "eucl_decide_correct)"}
    return None


def classify(c, r, mres, failure):
    """the known-finding class of a failing case (used by c19_known.py and by stats)"""
    k = failure.get("kind")
    if k == K_EXC:
        n = len(c["payload"][1])
        rr = r if c["op"] != "c19.orders" else None
        if rr is not None and isinstance(rr, list) and rr[0] == 1 and rr[1] == proto.E_VALUE and n == 1 \
                and "max()" in _exc_text(rr):
            return "KF-C19-a"
        return "KF-C19-d"
    if k == K_WIT:
        return "KF-C19-b"
    if k == K_VER:
        return "KF-C19-c"
    return "unclassified:" + str(k)


def nontrivial(c, r, m):
    return len(c["payload"][0]) >= 3 and len(c["payload"][1]) >= 2


def stats(c, r, mres):
    pl = c["payload"]
    m, n = len(pl[0]), len(pl[1])
    M = _named(c, r, mres)
    lab = ["op " + c["op"], "gen " + str(c["tags"].get("gen")), "m=%s" % (m if m <= 6 else ">6"),
           "n=%s" % (n if n <= 6 else ">6")]
    if "decide" in M:
        lab.append("exact reference run: %s" % ("Euclidean" if M["decide"] == 1 else "not Euclidean"))
    av = _algo_verdict(M)
    if av is not None and isinstance(r, list) and r and r[0] == 0:
        lab.append("mirror c19.algo: verdict %s the implementation's" % ("=" if av == r[1] else "DIFFERS from"))
        if av != M.get("decide"):
            lab.append("mirror c19.algo: verdict DIFFERS from the exact reference (contradicts eucl_algo_exact_verdict)")
    elif c["op"] == "c19.planted":
        lab.append("planted beyond the size of the exact reference (positive oracle + witness check only)")
    try:
        f = judge(c, r, mres)
    except Exception:
        f = {"kind": "judge-error"}
    if c["op"] == "c19.history":
        lab.append("history variant %d" % pl[3])
        lab.append("history script %s" % "".join(str(x) for x in pl[4]))
        lab.append("history preceded by %d other profile(s)" % len(pl[5]))
        lab.append("history: " + ("ok" if not f else "FAIL " + str(f.get("kind"))))
        return lab
    if c["op"] == "c19.orders":
        kind = "orders/" + ("refuted" if M["refuted"] == 1 else ("euclidean" if M["decide"] == 1 else "sp+sc-not-euclidean"))
        lab.append(kind + (": ok" if not f else ": FAIL " + classify(c, r, mres, f)))
        return lab
    if c["op"] == "c19.planted":
        if M["gen"] != 1:
            lab.append("generator-bug (discarded)")
            return lab
        kind = "planted"
    elif M["refuted"] == 1:
        kind = "refuted"
    elif M.get("decide") == 1:
        kind = "euclidean"
    elif M.get("decide") == 0:
        kind = "sp+sc-not-euclidean"
    else:
        kind = "undecided(large)"
    if isinstance(r, dict):
        ans = "crash"
    elif r[0] == 1:
        ans = "exception"
    else:
        ans = "True" if r[1] == 1 else "False"
    lab.append("%s: answer %s" % (kind, ans))
    if ans == "True":
        lab.append("%s: witness %s" % (kind, "accepted" if M.get("wit") == 1 else "REJECTED"))
    lab.append("%s: %s" % (kind, "ok" if not f else "FAIL " + classify(c, r, mres, f)))
    if any(x > 1 for x in pl[2]):
        lab.append("multiplicities > 1")
    return lab


def describe(c):
    pl = c["payload"]
    if c["op"] == "c19.history":
        return {"alternatives": pl[0], "orders (storage order)": pl[1], "multiplicities": pl[2],
                "instance variant (1 orders list reversed w.r.t. multiplicity keys, 2 alternatives_name unsorted, "
                "4 numpy.int64 ids, 8 maintenance calls first)": pl[3],
                "calls on the one instance object": [STEP_NAME[x] for x in pl[4]],
                "profiles run before in the same process": pl[5]}
    if c["op"] == "c19.orders":
        return {"alternatives": pl[0], "orders": pl[1], "storage orders (index lists)": pl[2]}
    d = {"alternatives": pl[0], "orders (storage order)": pl[1], "multiplicities": pl[2]}
    if c["op"] == "c19.planted":
        d["planted voter positions"] = [v[0] for v in pl[3]]
        d["planted alternative positions"] = {a[0]: a[1] for a in pl[4]}
    return d


# no shrinking: open findings are identified by the exact input, and a shrunk input would be a different one
