(* Proofs/ELPComplete.v — COMPLETENESS of `place` (Model/ELPDP.v), the lemma family behind optimality of the
   Erdelyi-Lackner-Pfandler dynamic programme (C12) and completeness of the brute-force partition search (C18).

   place_complete: let (L, R) be an incomplete axis and U the unplaced rest of a target set, such that
   L ++ mu ++ R is single-peaked for every vote for SOME arrangement mu of U ("completable"), and let X be the set of
   alternatives of U ranked last within U by some vote.  Then |X| is 1 or 2, `place` accepts X, and
     - either it answers "consistent" and the new axis is again completable with the rest U \ X (possibly with a
       different arrangement: the single bottom moved to the other side of the gap, or the whole block mirrored),
     - or (case_3 with both flags) it answers "not consistent", and then U \ X is empty and the new axis is a
       complete single-peaked arrangement of the target (the locked axis).
   The statement was first validated by exhaustive experiments (all states (L, R, U) that are completable, for
   random profiles with at most 6 alternatives and 4 votes: 440 000 steps, no exception). *)
From Coq Require Import List Arith NArith Bool Lia Permutation.
From PrefVerif Require Import Lib.Val Lib.Contig Lib.Subsets Model.SP Model.Deletion Model.ELPDP
                              Proofs.SP Proofs.Deletion Proofs.ELPDP.
Import ListNotations.

(* ---------------------------------------------------------------------------------------------- *)
(* 1. the loops of case_3 / case_2 when no vote makes them return False                            *)

Lemma c3_fold_value bd x votes c0 d0 : (forall v, In v votes -> c3_failb bd x v = false) ->
  fold_left (c3_step bd x) votes (false, c0, d0) =
  (false, c0 || existsb (fun v => match bd with (_, _, a2, _) => olt (rkb v a2) (rk v x) end) votes,
          d0 || existsb (fun v => match bd with (_, a1, _, _) => olt (rkb v a1) (rk v x) end) votes).
Proof.
  revert c0 d0. induction votes as [|w r IH]; intros c0 d0 H.
  - simpl. now rewrite !orb_false_r.
  - cbn [fold_left existsb].
    assert (Hs : c3_step bd x (false, c0, d0) w =
                 (false, c0 || match bd with (_, _, a2, _) => olt (rkb w a2) (rk w x) end,
                         d0 || match bd with (_, a1, _, _) => olt (rkb w a1) (rk w x) end)).
    { pose proof (H w (or_introl eq_refl)) as F. destruct bd as [[[a0 a1] a2] a3]. unfold c3_failb in F.
      unfold c3_step. cbn iota beta. apply orb_false_iff in F. destruct F as [F1 F2]. now rewrite F1, F2. }
    rewrite Hs, IH by (intros v Hv; apply H; now right). now rewrite !orb_assoc.
Qed.

Lemma c2_bad_mono c1 d1 c2 d2 e1 f1 e2 f2 :
  c2_bad (c1 || e1) (d1 || f1) (c2 || e2) (d2 || f2) = false -> c2_bad c1 d1 c2 d2 = false.
Proof. unfold c2_bad. destruct c1, d1, c2, d2, e1, f1, e2, f2; simpl; congruence. Qed.

Lemma c2_fold_value bd x1 x2 votes c1 d1 c2 d2 : (forall v, In v votes -> c2_failb bd x1 x2 v = false) ->
  let C1 := c1 || existsb (fc1 bd x1 x2) votes in let D1 := d1 || existsb (fd1 bd x1 x2) votes in
  let C2 := c2 || existsb (fc2 bd x1 x2) votes in let D2 := d2 || existsb (fd2 bd x1 x2) votes in
  c2_bad C1 D1 C2 D2 = false ->
  fold_left (c2_step bd x1 x2) votes (false, c1, d1, c2, d2) = (false, C1, D1, C2, D2).
Proof.
  revert c1 d1 c2 d2. induction votes as [|w r IH]; intros c1 d1 c2 d2 H C1 D1 C2 D2 Hbad.
  - unfold C1, D1, C2, D2. simpl. now rewrite !orb_false_r.
  - cbn [fold_left]. rewrite c2_step_eq, (H w (or_introl eq_refl)). cbv zeta.
    unfold C1, D1, C2, D2 in *. cbn [existsb] in *. rewrite !orb_assoc in Hbad.
    rewrite (c2_bad_mono _ _ _ _ _ _ _ _ Hbad).
    rewrite IH; [now rewrite !orb_assoc| |exact Hbad]. intros v Hv. apply H. now right.
Qed.

(* ---------------------------------------------------------------------------------------------- *)
(* 2. positions in duplicate-free lists                                                            *)

Lemma NoDup_split_unique {T} (b : T) p q p' q' : NoDup (p ++ b :: q) -> p ++ b :: q = p' ++ b :: q' -> p = p' /\ q = q'.
Proof.
  revert p'. induction p as [|x p IH]; intros p' Hnd E.
  - destruct p' as [|y p']; simpl in *.
    + injection E as ->. auto.
    + injection E as <- E. exfalso. inversion Hnd as [|? ? Hn _]. apply Hn. rewrite E. apply in_or_app. right. now left.
  - destruct p' as [|y p']; simpl in *.
    + injection E as -> E. exfalso. inversion Hnd as [|? ? Hn _]. apply Hn. apply in_or_app. right. now left.
    + injection E as -> E. inversion Hnd; subst. destruct (IH p' H2 E) as [-> ->]. auto.
Qed.

Lemma sub3_bef {T} (a b c : T) O : NoDup O -> (sub3 a b c O <-> bef a b O /\ bef b c O).
Proof.
  intros Hnd. split.
  - intros (l1 & l2 & l3 & l4 & ->). split.
    + now exists l1, l2, (l3 ++ c :: l4).
    + exists (l1 ++ a :: l2), l3, l4. now rewrite <- app_assoc.
  - intros [(l1 & l2 & l3 & E1) (m1 & m2 & m3 & E2)].
    assert (E : (l1 ++ a :: l2) ++ b :: l3 = m1 ++ b :: m2 ++ c :: m3) by (rewrite <- app_assoc; simpl; congruence).
    apply NoDup_split_unique in E; [|rewrite <- app_assoc; simpl; now rewrite <- E1].
    destruct E as [_ ->]. now exists l1, l2, m2, m3.
Qed.

Lemma bef_block {T} (P M Q : list T) e : NoDup (P ++ M ++ Q) -> In e M ->
  (forall a, bef a e (P ++ M ++ Q) <-> In a P \/ bef a e M) /\
  (forall c, bef e c (P ++ M ++ Q) <-> bef e c M \/ In c Q).
Proof.
  intros Hnd He.
  assert (HeP : ~ In e P).
  { intros H. apply (NoDup_app_disj P (M ++ Q) Hnd e H). apply in_or_app. now left. }
  assert (HeQ : ~ In e Q).
  { intros H. apply NoDup_app_r in Hnd. apply (NoDup_app_disj M Q Hnd e He H). }
  split.
  - intros a. rewrite !bef_app. split.
    + intros [H|[[H _]|[H|[[_ H]|H]]]]; auto.
      * apply bef_in in H. tauto.
      * contradiction.
      * apply bef_in in H. tauto.
    + intros [H|H]; [right; left; split; [assumption|apply in_or_app; now left]|auto].
  - intros c. rewrite !bef_app. split.
    + intros [H|[[H _]|[H|[[_ H]|H]]]]; auto.
      * apply bef_in in H. tauto.
      * contradiction.
      * apply bef_in in H. tauto.
    + intros [H|H]; [auto|right; right; right; left; auto].
Qed.

(* ---------------------------------------------------------------------------------------------- *)
(* 3. geometry of single-peaked lists                                                              *)

Section Geo.
Variable v : list N.
Hypothesis Hv : NoDup v.
Notation "a '<<' b" := (rk v a < rk v b) (at level 70).      (* a is ranked above (better than) b *)

Lemma better_total a b : In a v -> In b v -> a <> b -> a << b \/ b << a.
Proof. intros Ha Hb Hab. pose proof (rk_neq v a b Ha Hb Hab). lia. Qed.

(* an alternative ranked below all the others of a single-peaked list is at one of its ends *)
Lemma bottom_at_end mu x : NoDup mu -> spv v mu -> In x mu -> (forall u, In u mu -> u <> x -> u << x) ->
  (exists mu0, mu = x :: mu0) \/ (exists mu0, mu = mu0 ++ [x]).
Proof.
  intros Hnd Hsp Hx Hbot. apply in_split in Hx. destruct Hx as (P & Q & E). subst mu.
  destruct P as [|p P].
  - left. exists Q. reflexivity.
  - destruct Q as [|q Q].
    + right. exists (p :: P). reflexivity.
    + exfalso.
      assert (Hp : p <> x).
      { intros ->. simpl in Hnd. inversion Hnd as [|? ? Hn _]. apply Hn. apply in_or_app. right. now left. }
      assert (Hq : q <> x).
      { intros ->. apply NoDup_app_r in Hnd. inversion Hnd as [|? ? Hn _]. apply Hn. now left. }
      apply (Hsp p x q).
      * exists [], P, [], Q. reflexivity.
      * split; apply Hbot; auto; [now left|]. apply in_or_app. right. right. now left.
Qed.

Lemma bef_block_eq {T} (O P M Q : list T) e : O = P ++ M ++ Q -> NoDup O -> In e M ->
  (forall a, bef a e O <-> In a P \/ bef a e M) /\ (forall c, bef e c O <-> bef e c M \/ In c Q).
Proof. intros -> Hnd He. now apply bef_block. Qed.

Lemma bef_single {T} (a b x : T) : ~ bef a b [x].
Proof. intros (l1 & l2 & l3 & E). destruct l1 as [|? [|? ?]]; simpl in E; try discriminate. destruct l2; discriminate. Qed.

(* a contradiction from a triple  a .. e .. c  of the original list with e ranked below a and c *)
Lemma spv_contra O a e c : NoDup O -> spv v O -> bef a e O -> bef e c O -> a << e -> c << e -> False.
Proof. intros Hnd Hsp H1 H2 H3 H4. apply (Hsp a e c); [now apply sub3_bef|auto]. Qed.

(* the bottom x of the unplaced block moves from its right end to its left end *)
Lemma move_bottom L mu0 x R :
  NoDup (L ++ mu0 ++ x :: R) -> spv v (L ++ mu0 ++ x :: R) ->
  (forall l, In l L -> x << l) -> (forall u, In u mu0 -> u << x) -> (forall r, In r R -> x << r) ->
  spv v (L ++ x :: mu0 ++ R).
Proof.
  intros Hnd Hsp HL HM HR.
  assert (Hperm : Permutation (L ++ mu0 ++ x :: R) (L ++ x :: mu0 ++ R)).
  { apply Permutation_app_head. apply Permutation_sym. apply Permutation_middle. }
  assert (Hnd' : NoDup (L ++ x :: mu0 ++ R)) by (eapply Permutation_NoDup; eauto).
  intros a e c Hs [Hae Hce]. apply (sub3_bef a e c _ Hnd') in Hs. destruct Hs as [B1 B2].
  assert (He : In e (L ++ x :: mu0 ++ R)) by (apply bef_in in B1; tauto).
  apply in_app_or in He. destruct He as [He|[<-|He]]; [| |apply in_app_or in He; destruct He as [He|He]].
  - (* e in L *)
    destruct (bef_block_eq _ [] L (x :: mu0 ++ R) e eq_refl Hnd' He) as [K1 K2].
    destruct (bef_block_eq _ [] L (mu0 ++ x :: R) e eq_refl Hnd He) as [K3 K4].
    apply K1 in B1. apply K2 in B2. destruct B1 as [[]|B1].
    apply (spv_contra _ a e c Hnd Hsp); auto; [apply K3; auto|apply K4].
    destruct B2 as [B2|B2]; [auto|right]. destruct B2 as [<-|B2]; [apply in_or_app; right; now left|].
    apply in_app_or in B2. apply in_or_app. destruct B2; [now left|right; now right].
  - (* e = x *)
    assert (E : L ++ x :: mu0 ++ R = L ++ [x] ++ (mu0 ++ R)) by reflexivity.
    destruct (bef_block_eq _ L [x] (mu0 ++ R) x E Hnd' (or_introl eq_refl)) as [K1 _].
    apply K1 in B1. destruct B1 as [B1|B1]; [|now apply bef_single in B1]. specialize (HL a B1). lia.
  - (* e in mu0 *)
    assert (E : L ++ x :: mu0 ++ R = (L ++ [x]) ++ mu0 ++ R) by (now rewrite <- app_assoc).
    destruct (bef_block_eq _ (L ++ [x]) mu0 R e E Hnd' He) as [K1 K2].
    destruct (bef_block_eq _ L mu0 (x :: R) e eq_refl Hnd He) as [K3 K4].
    apply K1 in B1. apply K2 in B2. specialize (HM e He).
    destruct B1 as [B1|B1].
    { apply in_app_or in B1. destruct B1 as [B1|[<-|[]]]; [specialize (HL a B1)|]; lia. }
    destruct B2 as [B2|B2]; [|specialize (HR c B2); lia].
    apply (spv_contra _ a e c Hnd Hsp); auto; [apply K3|apply K4]; auto.
  - (* e in R *)
    assert (E : L ++ x :: mu0 ++ R = (L ++ x :: mu0) ++ R ++ []).
    { rewrite app_nil_r, <- app_assoc. reflexivity. }
    assert (E0 : L ++ mu0 ++ x :: R = (L ++ mu0 ++ [x]) ++ R ++ []).
    { rewrite app_nil_r, <- !app_assoc. reflexivity. }
    destruct (bef_block_eq _ _ R [] e E Hnd' He) as [K1 K2].
    destruct (bef_block_eq _ _ R [] e E0 Hnd He) as [K3 K4].
    apply K1 in B1. apply K2 in B2. destruct B2 as [B2|[]].
    apply (spv_contra _ a e c Hnd Hsp); auto; [apply K3|apply K4; auto].
    destruct B1 as [B1|B1]; [left|auto]. apply in_app_or in B1. apply in_or_app.
    destruct B1 as [B1|[<-|B1]]; [now left|right; apply in_or_app; right; now left|right; apply in_or_app; now left].
Qed.

(* the whole unplaced block is mirrored (everything placed is ranked below everything unplaced) *)
Lemma block_reverse L mu R :
  NoDup (L ++ mu ++ R) -> spv v (L ++ mu ++ R) ->
  (forall l u, In l (L ++ R) -> In u mu -> u << l) ->
  spv v (L ++ rev mu ++ R).
Proof.
  intros Hnd Hsp HLR.
  assert (Hperm : Permutation (L ++ mu ++ R) (L ++ rev mu ++ R)).
  { apply Permutation_app_head. apply Permutation_app_tail. apply Permutation_rev. }
  assert (Hnd' : NoDup (L ++ rev mu ++ R)) by (eapply Permutation_NoDup; eauto).
  intros a e c Hs [Hae Hce]. apply (sub3_bef a e c _ Hnd') in Hs. destruct Hs as [B1 B2].
  assert (He : In e (L ++ rev mu ++ R)) by (apply bef_in in B1; tauto).
  apply in_app_or in He. destruct He as [He|He]; [|apply in_app_or in He; destruct He as [He|He]].
  - destruct (bef_block_eq _ [] L (rev mu ++ R) e eq_refl Hnd' He) as [K1 K2].
    destruct (bef_block_eq _ [] L (mu ++ R) e eq_refl Hnd He) as [K3 K4].
    apply K1 in B1. apply K2 in B2. destruct B1 as [[]|B1].
    apply (spv_contra _ a e c Hnd Hsp); auto; [apply K3; auto|apply K4].
    destruct B2 as [B2|B2]; [auto|right]. apply in_app_or in B2. apply in_or_app.
    destruct B2 as [B2|B2]; [left; now apply in_rev|now right].
  - destruct (bef_block_eq _ L (rev mu) R e eq_refl Hnd' He) as [K1 K2].
    assert (He' : In e mu) by (now apply in_rev).
    destruct (bef_block_eq _ L mu R e eq_refl Hnd He') as [K3 K4].
    apply K1 in B1. apply K2 in B2.
    destruct B1 as [B1|B1]; [specialize (HLR a e (in_or_app _ _ _ (or_introl B1)) He'); lia|].
    destruct B2 as [B2|B2]; [|specialize (HLR c e (in_or_app _ _ _ (or_intror B2)) He'); lia].
    apply (proj1 (bef_rev a e mu)) in B1. apply (proj1 (bef_rev e c mu)) in B2.
    apply (spv_contra _ c e a Hnd Hsp); auto; [apply K3|apply K4]; auto.
  - assert (E : L ++ rev mu ++ R = (L ++ rev mu) ++ R ++ []) by (now rewrite app_nil_r, <- app_assoc).
    assert (E0 : L ++ mu ++ R = (L ++ mu) ++ R ++ []) by (now rewrite app_nil_r, <- app_assoc).
    destruct (bef_block_eq _ _ R [] e E Hnd' He) as [K1 K2].
    destruct (bef_block_eq _ _ R [] e E0 Hnd He) as [K3 K4].
    apply K1 in B1. apply K2 in B2. destruct B2 as [B2|[]].
    apply (spv_contra _ a e c Hnd Hsp); auto; [apply K3|apply K4; auto].
    destruct B1 as [B1|B1]; [left|auto]. apply in_app_or in B1. apply in_or_app.
    destruct B1 as [B1|B1]; [now left|right; now apply in_rev].
Qed.
End Geo.

(* ---------------------------------------------------------------------------------------------- *)
(* 4. the checks of place never fire on an alternative of the unplaced block                       *)

Lemma c3_failb_false v M1 M2 x : ~ check1 v M1 M2 x -> ~ arm_b v M1 x -> ~ arm_b v M2 x ->
  c3_failb (boundary (M1, M2)) x v = false.
Proof.
  intros H1 H2 H3. unfold boundary, c3_failb. cbn [fst snd]. apply orb_false_iff. split.
  - destruct (_ && _ && _ && _) eqn:E; [|reflexivity]. apply check1_b in E. contradiction.
  - destruct (check_case_4 _ _ _ _ _) eqn:E; [|apply andb_false_r]. apply cc4_b in E. tauto.
Qed.

Lemma c2_failb_false v M1 M2 x1 x2 :
  ~ check1 v M1 M2 x1 -> ~ arm_b v M1 x1 -> ~ arm_b v M2 x1 ->
  ~ check1 v M1 M2 x2 -> ~ arm_b v M1 x2 -> ~ arm_b v M2 x2 ->
  c2_failb (boundary (M1, M2)) x1 x2 v = false.
Proof.
  intros A1 A2 A3 B1 B2 B3.
  pose proof (c3_failb_false v M1 M2 x1 A1 A2 A3) as F1. pose proof (c3_failb_false v M1 M2 x2 B1 B2 B3) as F2.
  unfold boundary, c3_failb, c2_failb in *. cbn [fst snd] in *.
  apply orb_false_iff in F1, F2. destruct F1 as [F1 G1], F2 as [F2 G2]. apply orb_false_iff. split.
  - destruct (isS (rkb v (nth_error M1 0)) && isS (rkb v (nth_error M2 0))); [|reflexivity]. cbn [andb] in *.
    now rewrite F1, F2.
  - destruct (isS (rkb v (nth_error M1 1)) || isS (rkb v (nth_error M2 1))); [|reflexivity]. cbn [andb] in *.
    now rewrite G1, G2.
Qed.

Section Complete.
Variable votes : list (list N).
Hypothesis Hvne : votes <> [].

Definition completable (A : paxis) (U : list N) : Prop :=
  exists mu, Permutation U mu /\ forall v, In v votes -> spv v (rev (fst A) ++ mu ++ snd A).

(* x is ranked last within U by the vote v / by some vote *)
Definition bottom_in (v : list N) (U : list N) (x : N) : Prop :=
  In x U /\ forall u, In u U -> u <> x -> rk v u < rk v x.
Definition isbottom (U : list N) (x : N) : Prop := exists v, In v votes /\ bottom_in v U x.

Section Step.
Variables (M1 M2 mu : list N).
Let sigma := rev M1 ++ mu ++ M2.
Hypothesis Hnd : NoDup sigma.
Hypothesis Hwf : forall v, In v votes -> NoDup v /\ incl sigma v.
Hypothesis Hsp : forall v, In v votes -> spv v sigma.

Lemma in_sigma_mu x : In x mu -> In x sigma.
Proof. intros H. unfold sigma. apply in_or_app. right. apply in_or_app. now left. Qed.

Lemma nofail x v : In v votes -> In x mu ->
  ~ check1 v M1 M2 x /\ ~ arm_b v M1 x /\ ~ arm_b v M2 x.
Proof.
  intros Hv Hx. specialize (Hsp v Hv). repeat split.
  - intros (p1 & p2 & E1 & E2 & H1 & H2). apply (Hsp p1 x p2); [|auto]. unfold sigma.
    apply sub3_app. right. right. left. split.
    + apply in_rev. rewrite rev_involutive. destruct M1; [discriminate|]. injection E1 as ->. now left.
    + apply bef_app. right. left. split; [assumption|]. destruct M2; [discriminate|]. injection E2 as ->. now left.
  - intros (p1 & p0 & E1 & E0 & H1 & H2). apply (Hsp p0 p1 x); [|auto]. unfold sigma.
    apply sub3_app. right. left. split.
    + apply bef_rev. destruct M1 as [|q1 [|q0 M1']]; try discriminate. injection E1 as ->. injection E0 as ->.
      exists [], [], M1'. reflexivity.
    + apply in_or_app. now left.
  - intros (p1 & p0 & E1 & E0 & H1 & H2). apply (Hsp x p1 p0); [|auto]. unfold sigma.
    rewrite app_assoc. apply sub3_app. right. right. left. split.
    + apply in_or_app. now right.
    + destruct M2 as [|q1 [|q0 M2']]; try discriminate. injection E1 as ->. injection E0 as ->.
      exists [], [], M2'. reflexivity.
Qed.

Lemma rk_lt_of_not v a b : In v votes -> In a sigma -> In b sigma -> a <> b -> ~ rk v a < rk v b -> rk v b < rk v a.
Proof.
  intros Hv Ha Hb Hab Hn. destruct (Hwf v Hv) as [N1 N2].
  pose proof (rk_neq v a b (N2 a Ha) (N2 b Hb) Hab). lia.
Qed.

(* ---- one bottom ---- *)
Lemma existsb_false {T} (l : list T) : existsb (fun _ => false) l = false.
Proof. induction l; simpl; auto. Qed.

Lemma case_3_value A x : (forall v, In v votes -> c3_failb (boundary A) x v = false) ->
  let c := existsb (fun v => olt (rkb v (nth_error (snd A) 0)) (rk v x)) votes in
  let d := existsb (fun v => olt (rkb v (nth_error (fst A) 0)) (rk v x)) votes in
  case_3 A x votes = ((if d then (fst A, x :: snd A) else (x :: fst A, snd A)), negb (c && d)).
Proof.
  intros H c d. unfold case_3. destruct A as [N1 N2]. unfold boundary in *. cbn [fst snd] in *.
  destruct (isS (nth_error N1 0) || isS (nth_error N2 0)) eqn:G.
  - rewrite (c3_fold_value _ x votes false false H). cbn [orb]. reflexivity.
  - apply orb_false_iff in G. destruct G as [G1 G2].
    destruct (nth_error N1 0); [discriminate|]. destruct (nth_error N2 0); [discriminate|].
    unfold c, d. simpl. rewrite !existsb_false. reflexivity.
Qed.

Lemma flag_true (M : list N) x :
  existsb (fun v => olt (rkb v (nth_error M 0)) (rk v x)) votes = true <->
  exists v p, In v votes /\ nth_error M 0 = Some p /\ rk v p < rk v x.
Proof.
  rewrite existsb_exists. split.
  - intros (v & Hv & H). apply olt_rkb in H. destruct H as (p & E & H). eauto.
  - intros (v & p & Hv & E & H). exists v. split; [assumption|]. apply olt_rkb. eauto.
Qed.

Lemma hd_in_rev (M : list N) p : nth_error M 0 = Some p -> In p (rev M).
Proof. destruct M; [discriminate|]. intros E. injection E as ->. apply in_rev. rewrite rev_involutive. now left. Qed.

Lemma hd_in (M : list N) p : nth_error M 0 = Some p -> In p M.
Proof. destruct M; [discriminate|]. intros E. injection E as ->. now left. Qed.

Lemma single_step x mu0 : (mu = x :: mu0 \/ mu = mu0 ++ [x]) -> (forall v, In v votes -> bottom_in v mu x) ->
  exists A' ok, case_3 (M1, M2) x votes = (A', ok) /\
    (A' = (x :: M1, M2) \/ A' = (M1, x :: M2)) /\
    (forall v, In v votes -> spv v (rev (fst A') ++ mu0 ++ snd A')) /\ (mu0 <> [] -> ok = true).
Proof.
  intros Hmu Hbot.
  assert (Hx : In x mu) by (destruct Hmu as [-> | ->]; [now left|apply in_or_app; right; now left]).
  assert (Hfail : forall v, In v votes -> c3_failb (boundary (M1, M2)) x v = false).
  { intros v Hv. destruct (nofail x v Hv Hx) as (K1 & K2 & K3). now apply c3_failb_false. }
  rewrite (case_3_value (M1, M2) x Hfail). cbn [fst snd].
  set (c := existsb (fun v => olt (rkb v (nth_error M2 0)) (rk v x)) votes).
  set (d := existsb (fun v => olt (rkb v (nth_error M1 0)) (rk v x)) votes).
  eexists. eexists. split; [reflexivity|]. split; [destruct d; auto|].
  assert (Hmu0x : forall u, In u mu0 -> In u mu /\ u <> x).
  { intros u Hu. assert (Hnm : NoDup mu) by (unfold sigma in Hnd; apply NoDup_app_r in Hnd; now apply NoDup_app_l in Hnd).
    destruct Hmu as [E|E]; rewrite E in *.
    - split; [now right|]. intros ->. inversion Hnm; contradiction.
    - split; [apply in_or_app; now left|]. intros ->. apply (NoDup_app_disj mu0 [x] Hnm x Hu). now left. }
  assert (Hbetter : forall v u, In v votes -> In u mu0 -> rk v u < rk v x).
  { intros v u Hv Hu. destruct (Hmu0x u Hu) as [H1 H2]. now apply (Hbot v Hv). }
  destruct mu0 as [|u0 mu0'] eqn:Emu0.
  { (* the last unplaced alternative: both placements give sigma *)
    assert (Es : sigma = rev M1 ++ x :: M2) by (unfold sigma; destruct Hmu as [-> | ->]; reflexivity).
    split; [|congruence]. intros v Hv. specialize (Hsp v Hv). rewrite Es in Hsp.
    destruct d; cbn [fst snd rev app]; [exact Hsp|]. now rewrite <- app_assoc. }
  rewrite <- Emu0 in *. assert (Hu0 : In u0 mu0) by (rewrite Emu0; now left).
  destruct Hmu as [Hmu|Hmu].
  - (* x next to the left part: flag_d cannot be set *)
    assert (Hd : d = false).
    { destruct d eqn:Ed; [exfalso|reflexivity]. apply flag_true in Ed. destruct Ed as (v & p & Hv & Ep & Hp).
      apply (Hsp v Hv p x u0); [|split; [assumption|now apply Hbetter]]. unfold sigma. rewrite Hmu.
      apply sub3_app. right. right. left. split; [now apply hd_in_rev|].
      apply bef_app. left. apply bef_cons. left. split; [reflexivity|assumption]. }
    rewrite Hd. cbn [fst snd]. split; [|intros _; now rewrite andb_false_r].
    intros v Hv. specialize (Hsp v Hv). unfold sigma in Hsp. rewrite Hmu in Hsp.
    simpl. rewrite <- app_assoc. exact Hsp.
  - (* x next to the right part: flag_c cannot be set *)
    assert (Hc : c = false).
    { destruct c eqn:Ec; [exfalso|reflexivity]. apply flag_true in Ec. destruct Ec as (v & p & Hv & Ep & Hp).
      apply (Hsp v Hv u0 x p); [|split; [now apply Hbetter|assumption]]. unfold sigma. rewrite Hmu.
      apply sub3_app. right. right. right. apply sub3_app. right. left. split.
      - apply bef_app. right. left. split; [assumption|now left].
      - now apply hd_in in Ep. }
    rewrite Hc. split; [|intros _; reflexivity].
    assert (Es : sigma = rev M1 ++ mu0 ++ x :: M2) by (unfold sigma; rewrite Hmu, <- app_assoc; reflexivity).
    destruct d eqn:Ed; cbn [fst snd].
    + intros v Hv. specialize (Hsp v Hv). now rewrite Es in Hsp.
    + intros v Hv. simpl. rewrite <- app_assoc. simpl.
      destruct (Hwf v Hv) as [Nv Iv]. pose proof (Hsp v Hv) as Hs. rewrite Es in Hs, Hnd.
      assert (HxS : In x sigma) by now apply in_sigma_mu.
      assert (Hu0S : In u0 sigma) by (apply in_sigma_mu; now apply Hmu0x).
      assert (Hp1 : forall p, nth_error M1 0 = Some p -> rk v x < rk v p).
      { intros p Ep. apply rk_lt_of_not; auto.
        - unfold sigma. apply in_or_app. left. now apply hd_in_rev.
        - intros ->.
          assert (Hd1 := NoDup_app_disj (rev M1) (mu0 ++ x :: M2) Hnd x (hd_in_rev _ _ Ep)). apply Hd1.
          apply in_or_app. right. now left.
        - intros Hlt. assert (Et : d = true) by (apply flag_true; eauto). congruence. }
      apply (move_bottom v (rev M1) mu0 x M2 Hnd Hs).
      * (* everything on the left is ranked below x *)
        intros l Hl. assert (HlS : In l sigma) by (unfold sigma; apply in_or_app; now left).
        assert (Hlx : l <> x).
        { intros ->. apply (NoDup_app_disj (rev M1) (mu0 ++ x :: M2) Hnd x Hl). apply in_or_app. right. now left. }
        destruct (lt_dec (rk v x) (rk v l)) as [|Hn]; [assumption|exfalso].
        assert (Hlt : rk v l < rk v x) by (apply rk_lt_of_not; auto).
        apply in_rev in Hl. destruct M1 as [|p1 M1'] eqn:EM1; [contradiction|].
        specialize (Hp1 p1 eq_refl). destruct Hl as [->|Hl]; [lia|].
        apply (Hs l p1 u0); [|split; [lia|specialize (Hbetter v u0 Hv Hu0); lia]].
        apply sub3_app. right. left. split.
        -- simpl. apply bef_app. right. left. split; [now apply in_rev in Hl|now left].
        -- apply in_or_app. now left.
      * intros u Hu. now apply Hbetter.
      * intros r Hr. assert (HrS : In r sigma) by (unfold sigma; apply in_or_app; right; apply in_or_app; now right).
        assert (Hrx : r <> x).
        { intros ->. apply NoDup_app_r in Hnd. apply NoDup_app_r in Hnd. inversion Hnd; contradiction. }
        destruct (lt_dec (rk v x) (rk v r)) as [|Hn]; [assumption|exfalso].
        assert (Hlt : rk v r < rk v x) by (apply rk_lt_of_not; auto).
        apply (Hs u0 x r); [|split; [now apply Hbetter|assumption]].
        apply sub3_app. right. right. right. apply sub3_app. right. right. left. split; [assumption|].
        apply bef_cons. left. auto.
Qed.

(* ---- two bottoms ---- *)
Lemma case_2_value A x1 x2 : (forall v, In v votes -> c2_failb (boundary A) x1 x2 v = false) ->
  let bd := boundary A in
  let C1 := existsb (fc1 bd x1 x2) votes in let D1 := existsb (fd1 bd x1 x2) votes in
  let C2 := existsb (fc2 bd x1 x2) votes in let D2 := existsb (fd2 bd x1 x2) votes in
  c2_bad C1 D1 C2 D2 = false ->
  case_2 A x1 x2 votes = ((if C2 || D1 then (x2 :: fst A, x1 :: snd A) else (x1 :: fst A, x2 :: snd A)), true).
Proof.
  intros H bd C1 D1 C2 D2 Hbad. unfold case_2. destruct A as [N1 N2]. unfold boundary in *. cbn [fst snd] in *.
  destruct (isS (nth_error N1 0) || isS (nth_error N2 0)) eqn:G.
  - rewrite (c2_fold_value _ x1 x2 votes false false false false H Hbad). cbn [orb]. fold bd C2 D1.
    destruct (C2 || D1); reflexivity.
  - apply orb_false_iff in G. destruct G as [G1 G2].
    assert (E2 : C2 = false).
    { unfold C2, bd, fc2. destruct (nth_error N2 0); [discriminate|]. simpl. apply existsb_false. }
    assert (E1 : D1 = false).
    { unfold D1, bd, fd1. destruct (nth_error N1 0); [discriminate|]. simpl. apply existsb_false. }
    rewrite E1, E2. reflexivity.
Qed.

Lemma placed_below_left v w : In v votes -> In w mu ->
  (forall p, nth_error M1 0 = Some p -> rk v w < rk v p) -> forall l, In l (rev M1) -> rk v w < rk v l.
Proof.
  intros Hv Hw Hp l Hl. assert (HlS : In l sigma) by (unfold sigma; apply in_or_app; now left).
  assert (HwS : In w sigma) by now apply in_sigma_mu.
  assert (Hlw : l <> w).
  { intros ->. apply (NoDup_app_disj (rev M1) (mu ++ M2) Hnd w Hl). apply in_or_app. now left. }
  destruct (lt_dec (rk v w) (rk v l)) as [|Hn]; [assumption|exfalso].
  assert (Hlt : rk v l < rk v w) by (apply rk_lt_of_not; auto).
  apply in_rev in Hl. destruct M1 as [|p1 M1'] eqn:EM1; [contradiction|].
  specialize (Hp p1 eq_refl). destruct Hl as [->|Hl]; [lia|].
  apply (Hsp v Hv l p1 w); [|lia]. unfold sigma. apply sub3_app. right. left. split.
  - simpl. apply bef_app. right. left. split; [now apply in_rev in Hl|now left].
  - apply in_or_app. now left.
Qed.

Lemma placed_below_right v w : In v votes -> In w mu ->
  (forall p, nth_error M2 0 = Some p -> rk v w < rk v p) -> forall r, In r M2 -> rk v w < rk v r.
Proof.
  intros Hv Hw Hp r Hr. assert (HrS : In r sigma) by (unfold sigma; apply in_or_app; right; apply in_or_app; now right).
  assert (HwS : In w sigma) by now apply in_sigma_mu.
  assert (Hrw : r <> w).
  { intros ->. unfold sigma in Hnd. apply NoDup_app_r in Hnd. apply (NoDup_app_disj mu M2 Hnd w Hw Hr). }
  destruct (lt_dec (rk v w) (rk v r)) as [|Hn]; [assumption|exfalso].
  assert (Hlt : rk v r < rk v w) by (apply rk_lt_of_not; auto).
  destruct M2 as [|p2 M2'] eqn:EM2; [contradiction|].
  specialize (Hp p2 eq_refl). destruct Hr as [->|Hr]; [lia|].
  apply (Hsp v Hv w p2 r); [|lia]. unfold sigma. rewrite app_assoc. apply sub3_app. right. right. left. split.
  - apply in_or_app. now right.
  - apply bef_cons. left. auto.
Qed.

Lemma double_step a b mu0 x1 x2 : mu = a :: mu0 ++ [b] ->
  (exists v, In v votes /\ bottom_in v mu a) -> (exists v, In v votes /\ bottom_in v mu b) ->
  ((x1 = a /\ x2 = b) \/ (x1 = b /\ x2 = a)) ->
  exists A' mu0', case_2 (M1, M2) x1 x2 votes = (A', true) /\
    (A' = (a :: M1, b :: M2) \/ A' = (b :: M1, a :: M2)) /\
    Permutation mu0 mu0' /\ forall v, In v votes -> spv v (rev (fst A') ++ mu0' ++ snd A').
Proof.
  intros Hmu (va & Hva & Ba) (vb & Hvb & Bb) Hx.
  assert (Ha : In a mu) by (rewrite Hmu; now left).
  assert (Hb : In b mu) by (rewrite Hmu; right; apply in_or_app; right; now left).
  assert (Hnm : NoDup mu) by (unfold sigma in Hnd; apply NoDup_app_r in Hnd; now apply NoDup_app_l in Hnd).
  assert (Hab : a <> b).
  { intros ->. rewrite Hmu in Hnm. inversion Hnm as [|? ? Hn _]. apply Hn. apply in_or_app. right. now left. }
  assert (Hfail : forall v, In v votes -> c2_failb (boundary (M1, M2)) x1 x2 v = false).
  { intros v Hv. destruct (nofail a v Hv Ha) as (K1 & K2 & K3). destruct (nofail b v Hv Hb) as (K4 & K5 & K6).
    destruct Hx as [[-> ->]|[-> ->]]; now apply c2_failb_false. }
  (* the two flags excluded by single-peakedness of sigma *)
  assert (Hda : forall v p1, In v votes -> nth_error M1 0 = Some p1 -> ~ (rk v p1 < rk v a /\ rk v b < rk v a)).
  { intros v p1 Hv Ep H. apply (Hsp v Hv p1 a b); [|exact H]. unfold sigma. rewrite Hmu.
    apply sub3_app. right. right. left. split; [now apply hd_in_rev|].
    apply bef_app. left. apply bef_cons. left. split; [reflexivity|]. apply in_or_app. right. now left. }
  assert (Hcb : forall v p2, In v votes -> nth_error M2 0 = Some p2 -> ~ (rk v p2 < rk v b /\ rk v a < rk v b)).
  { intros v p2 Hv Ep H. apply (Hsp v Hv a b p2); [|tauto]. unfold sigma. rewrite Hmu.
    apply sub3_app. right. right. right. apply sub3_app. right. left. split.
    - apply bef_cons. left. split; [reflexivity|]. apply in_or_app. right. now left.
    - now apply hd_in in Ep. }
  assert (Es : sigma = rev (a :: M1) ++ mu0 ++ b :: M2).
  { unfold sigma. rewrite Hmu. simpl. rewrite <- !app_assoc. reflexivity. }
  set (bd := boundary (M1, M2)).
  assert (Hbd : bd = (nth_error M1 1, nth_error M1 0, nth_error M2 0, nth_error M2 1)) by reflexivity.
  pose proof (case_2_value (M1, M2) x1 x2 Hfail) as Hval. cbv zeta in Hval. fold bd in Hval. cbn [fst snd] in Hval.
  destruct Hx as [[-> ->]|[-> ->]].
  - (* x1 = a, x2 = b: d1 and c2 are never set, the pair is placed as in sigma *)
    assert (ED1 : existsb (fd1 bd a b) votes = false).
    { destruct (existsb (fd1 bd a b) votes) eqn:E; [exfalso|reflexivity]. apply existsb_exists in E.
      destruct E as (v & Hv & E). rewrite Hbd in E. unfold fd1 in E. apply flag_b in E. destruct E as (p & Ep & H).
      now apply (Hda v p Hv Ep). }
    assert (EC2 : existsb (fc2 bd a b) votes = false).
    { destruct (existsb (fc2 bd a b) votes) eqn:E; [exfalso|reflexivity]. apply existsb_exists in E.
      destruct E as (v & Hv & E). rewrite Hbd in E. unfold fc2 in E. apply flag_b in E. destruct E as (p & Ep & H).
      now apply (Hcb v p Hv Ep). }
    rewrite ED1, EC2 in Hval. exists (a :: M1, b :: M2), mu0. split.
    + apply Hval. unfold c2_bad. destruct (existsb (fc1 bd a b) votes), (existsb (fd2 bd a b) votes); reflexivity.
    + split; [now left|]. split; [apply Permutation_refl|]. intros v Hv. cbn [fst snd]. rewrite <- Es. now apply Hsp.
  - (* x1 = b, x2 = a *)
    assert (EC1 : existsb (fc1 bd b a) votes = false).
    { destruct (existsb (fc1 bd b a) votes) eqn:E; [exfalso|reflexivity]. apply existsb_exists in E.
      destruct E as (v & Hv & E). rewrite Hbd in E. unfold fc1 in E. apply flag_b in E. destruct E as (p & Ep & H).
      now apply (Hcb v p Hv Ep). }
    assert (ED2 : existsb (fd2 bd b a) votes = false).
    { destruct (existsb (fd2 bd b a) votes) eqn:E; [exfalso|reflexivity]. apply existsb_exists in E.
      destruct E as (v & Hv & E). rewrite Hbd in E. unfold fd2 in E. apply flag_b in E. destruct E as (p & Ep & H).
      now apply (Hda v p Hv Ep). }
    rewrite EC1, ED2 in Hval.
    assert (Hbad : c2_bad false (existsb (fd1 bd b a) votes) (existsb (fc2 bd b a) votes) false = false).
    { unfold c2_bad. destruct (existsb (fd1 bd b a) votes), (existsb (fc2 bd b a) votes); reflexivity. }
    specialize (Hval Hbad).
    destruct (existsb (fc2 bd b a) votes || existsb (fd1 bd b a) votes) eqn:O.
    + exists (a :: M1, b :: M2), mu0. split; [exact Hval|]. split; [now left|]. split; [apply Permutation_refl|].
      intros v Hv. cbn [fst snd]. rewrite <- Es. now apply Hsp.
    + (* neither c_a nor d_b: the block is mirrored *)
      apply orb_false_iff in O. destruct O as [OC OD].
      assert (Hca : forall v p2, In v votes -> nth_error M2 0 = Some p2 -> ~ (rk v p2 < rk v a /\ rk v b < rk v a)).
      { intros v p2 Hv Ep H. assert (E : existsb (fc2 bd b a) votes = true); [|congruence].
        apply existsb_exists. exists v. split; [assumption|]. rewrite Hbd. unfold fc2. apply flag_b. eauto. }
      assert (Hdb : forall v p1, In v votes -> nth_error M1 0 = Some p1 -> ~ (rk v p1 < rk v b /\ rk v a < rk v b)).
      { intros v p1 Hv Ep H. assert (E : existsb (fd1 bd b a) votes = true); [|congruence].
        apply existsb_exists. exists v. split; [assumption|]. rewrite Hbd. unfold fd1. apply flag_b. eauto. }
      exists (b :: M1, a :: M2), (rev mu0). split; [exact Hval|]. split; [now right|].
      split; [apply Permutation_rev|]. intros v Hv. cbn [fst snd].
      assert (Er : rev (b :: M1) ++ rev mu0 ++ a :: M2 = rev M1 ++ rev mu ++ M2).
      { rewrite Hmu. simpl. rewrite rev_app_distr. simpl. rewrite <- !app_assoc. reflexivity. }
      rewrite Er. apply block_reverse; [exact Hnd|now apply Hsp|].
      destruct (Hwf v Hv) as [Nv Iv].
      assert (HaS : In a sigma) by now apply in_sigma_mu. assert (HbS : In b sigma) by now apply in_sigma_mu.
      (* w = the worse of a, b in this vote *)
      assert (Hw : exists w, (w = a \/ w = b) /\ rk v a <= rk v w /\ rk v b <= rk v w /\
                             (forall p, nth_error M1 0 = Some p -> rk v w < rk v p) /\
                             (forall p, nth_error M2 0 = Some p -> rk v w < rk v p)).
      { destruct (lt_dec (rk v a) (rk v b)) as [Lab|Lab].
        - exists b. split; [now right|]. split; [lia|]. split; [lia|]. split; intros p Ep.
          + apply rk_lt_of_not; auto.
            * unfold sigma. apply in_or_app. left. now apply hd_in_rev.
            * intros ->. apply (NoDup_app_disj (rev M1) (mu ++ M2) Hnd b (hd_in_rev _ _ Ep)). apply in_or_app. now left.
            * intros H. apply (Hdb v p Hv Ep). auto.
          + apply rk_lt_of_not; auto.
            * unfold sigma. apply in_or_app. right. apply in_or_app. right. now apply hd_in.
            * intros ->. unfold sigma in Hnd. apply NoDup_app_r in Hnd. apply (NoDup_app_disj mu M2 Hnd b Hb (hd_in _ _ Ep)).
            * intros H. apply (Hcb v p Hv Ep). auto.
        - assert (Lba : rk v b < rk v a) by (apply rk_lt_of_not; auto).
          exists a. split; [now left|]. split; [lia|]. split; [lia|]. split; intros p Ep.
          + apply rk_lt_of_not; auto.
            * unfold sigma. apply in_or_app. left. now apply hd_in_rev.
            * intros ->. apply (NoDup_app_disj (rev M1) (mu ++ M2) Hnd a (hd_in_rev _ _ Ep)). apply in_or_app. now left.
            * intros H. apply (Hda v p Hv Ep). auto.
          + apply rk_lt_of_not; auto.
            * unfold sigma. apply in_or_app. right. apply in_or_app. right. now apply hd_in.
            * intros ->. unfold sigma in Hnd. apply NoDup_app_r in Hnd. apply (NoDup_app_disj mu M2 Hnd a Ha (hd_in _ _ Ep)).
            * intros H. apply (Hca v p Hv Ep). auto. }
      destruct Hw as (w & Hwab & Wa & Wb & W1 & W2).
      assert (Hwmu : In w mu) by (destruct Hwab as [-> | ->]; assumption).
      assert (Hmu_le : forall u, In u mu -> rk v u <= rk v w).
      { intros u Hu. rewrite Hmu in Hu. destruct Hu as [<-|Hu]; [assumption|].
        apply in_app_or in Hu. destruct Hu as [Hu|[<-|[]]]; [|assumption].
        destruct (le_dec (rk v u) (rk v w)) as [|Hn]; [assumption|exfalso].
        apply (Hsp v Hv a u b); [|lia]. unfold sigma. rewrite Hmu.
        apply sub3_app. right. right. right. apply sub3_app. left.
        apply in_split in Hu. destruct Hu as (l1 & l2 & ->). exists [], l1, l2, []. simpl. now rewrite <- app_assoc. }
      intros l u Hl Hu. apply Nat.le_lt_trans with (rk v w); [now apply Hmu_le|].
      apply in_app_or in Hl. destruct Hl as [Hl|Hl].
      * now apply (placed_below_left v w Hv Hwmu W1).
      * now apply (placed_below_right v w Hv Hwmu W2).
Qed.
End Step.

(* ---------------------------------------------------------------------------------------------- *)
(* 5. place_complete                                                                               *)

Lemma exists_worst v (l : list N) : NoDup v -> incl l v -> l <> [] -> exists x, bottom_in v l x.
Proof.
  intros Hv. induction l as [|a l IH]; intros Hin Hne; [congruence|].
  destruct l as [|b l'].
  - exists a. split; [now left|]. intros u [E|[]] Hn. congruence.
  - destruct IH as (x & Hx & Hbot); [intros y Hy; apply Hin; now right|discriminate|].
    destruct (lt_dec (rk v x) (rk v a)) as [L|L].
    + exists a. split; [now left|]. intros u [E|Hu] Hua; [congruence|].
      destruct (N.eq_dec u x) as [->|Hux]; [assumption|]. specialize (Hbot u Hu Hux). lia.
    + exists x. split; [now right|]. intros u [E|Hu] Hux; [subst u|now apply Hbot].
      assert (rk v a <> rk v x) by (apply rk_neq; auto; [apply Hin; now left|apply Hin; now right]). lia.
Qed.

Lemma bottom_unique v l x y : bottom_in v l x -> bottom_in v l y -> x = y.
Proof.
  intros [Hx Bx] [Hy By]. destruct (N.eq_dec x y) as [|Hne]; [assumption|exfalso].
  specialize (Bx y Hy (fun E => Hne (eq_sym E))). specialize (By x Hx Hne). lia.
Qed.

Lemma bottom_in_perm v l l' x : Permutation l l' -> bottom_in v l x -> bottom_in v l' x.
Proof.
  intros Hp [Hx Hb]. split; [eapply Permutation_in; eauto|]. intros u Hu. apply Hb.
  eapply Permutation_in; [apply Permutation_sym; exact Hp|exact Hu].
Qed.

Lemma all_or_ex {T} (P Q : T -> Prop) (l : list T) : (forall v, In v l -> P v \/ Q v) ->
  (forall v, In v l -> P v) \/ (exists v, In v l /\ Q v).
Proof.
  induction l as [|a l IH]; intros H; [left; intros v []|].
  destruct (H a (or_introl eq_refl)) as [Pa|Qa]; [|right; exists a; split; [now left|assumption]].
  destruct IH as [All|(v & Hv & Qv)]; [intros v Hv; apply H; now right| |].
  - left. intros v [<-|Hv]; auto.
  - right. exists v. split; [now right|assumption].
Qed.

Lemma two_ends {T} (l l1 l2 : list T) h t : l = h :: l1 -> l = l2 ++ [t] -> h <> t -> exists l0, l = h :: l0 ++ [t].
Proof.
  intros E1 E2 Hne. destruct l2 as [|h' l2']; rewrite E2 in E1; simpl in E1.
  - injection E1 as -> _. congruence.
  - injection E1 as -> _. exists l2'. rewrite E2. reflexivity.
Qed.

Lemma filter_not_mem_cons (X l : list N) x : ~ In x l -> In x X -> filter (fun u => negb (memN u X)) (x :: l) = filter (fun u => negb (memN u X)) l.
Proof. intros _ Hx. simpl. assert (E : memN x X = true) by now apply memN_In. now rewrite E. Qed.

(* the unplaced rest after removing the bottoms *)
Definition rest (X U : list N) : list N := filter (fun u => negb (memN u X)) U.

Variable pair_first : N -> N -> bool.

Theorem place_complete A U : U <> [] -> NoDup (pa_elems A ++ U) ->
  (forall v, In v votes -> NoDup v /\ incl (pa_elems A ++ U) v) -> completable A U ->
  exists x1 x2, isbottom U x1 /\ isbottom U x2 /\ (forall y, isbottom U y -> y = x1 \/ y = x2) /\
  exists A' ok, place pair_first A (mkset x1 x2) votes = (A', ok) /\
    pa_len A' = pa_len A + length (mkset x1 x2) /\
    Permutation (pa_elems A' ++ rest (mkset x1 x2) U) (pa_elems A ++ U) /\
    completable A' (rest (mkset x1 x2) U) /\
    (rest (mkset x1 x2) U <> [] -> ok = true) /\ pa_eqb A' A = false.
Proof.
  intros HUne Hnd Hwf (mu & Hperm & Hsp). destruct A as [M1 M2]. unfold pa_elems in *. cbn [fst snd] in *.
  assert (Hps : Permutation ((rev M1 ++ M2) ++ U) (rev M1 ++ mu ++ M2)).
  { rewrite <- app_assoc. apply Permutation_app_head. eapply perm_trans; [apply Permutation_app_comm|].
    now apply Permutation_app_tail. }
  assert (Hnds : NoDup (rev M1 ++ mu ++ M2)) by (eapply Permutation_NoDup; eauto).
  assert (Hwfs : forall v, In v votes -> NoDup v /\ incl (rev M1 ++ mu ++ M2) v).
  { intros v Hv. destruct (Hwf v Hv) as [N1 N2]. split; [assumption|]. intros a Ha. apply N2.
    eapply Permutation_in; [apply Permutation_sym; exact Hps|exact Ha]. }
  assert (Hnmu : NoDup mu) by (apply NoDup_app_r in Hnds; now apply NoDup_app_l in Hnds).
  assert (Hmune : mu <> []) by (intros ->; apply Permutation_sym, Permutation_nil in Hperm; congruence).
  assert (Hmuv : forall v, In v votes -> incl mu v).
  { intros v Hv a Ha. apply (proj2 (Hwfs v Hv)). apply in_or_app. right. apply in_or_app. now left. }
  (* every vote ranks last the first or the last alternative of mu *)
  destruct mu as [|h mu1] eqn:Emu; [congruence|]. rewrite <- Emu in *.
  destruct (exists_last Hmune) as (mu2 & t & Et).
  assert (Hends : forall v, In v votes -> bottom_in v mu h \/ bottom_in v mu t).
  { intros v Hv. destruct (Hwfs v Hv) as [N1 N2].
    destruct (exists_worst v mu N1 (Hmuv v Hv) Hmune) as (x & Bx).
    assert (Hspmu : spv v mu) by (specialize (Hsp v Hv); apply spv_app_r in Hsp; now apply spv_app_l in Hsp).
    destruct (bottom_at_end v mu x Hnmu Hspmu (proj1 Bx) (proj2 Bx)) as [(m0 & E)|(m0 & E)].
    - left. rewrite Emu in E. injection E as E _. now rewrite E.
    - right. rewrite Et in E. apply app_inj_tail in E. destruct E as [_ E]. now rewrite E. }
  assert (Hrest1 : forall x m0, (mu = x :: m0 \/ mu = m0 ++ [x]) -> Permutation (rest [x] U) m0).
  { intros x m0 Hm. unfold rest. eapply perm_trans; [apply Permutation_filter; exact Hperm|].
    assert (Hx0 : ~ In x m0).
    { destruct Hm as [E|E]; rewrite E in Hnmu; [now inversion Hnmu|].
      intros H. apply (NoDup_app_disj m0 [x] Hnmu x H). now left. }
    assert (F : filter (fun u => negb (memN u [x])) m0 = m0).
    { apply filter_all_true. intros u Hu. apply negb_true_iff, memN_false. intros [->|[]]. contradiction. }
    destruct Hm as [-> | ->].
    - rewrite filter_not_mem_cons; [now rewrite F|assumption|now left].
    - rewrite filter_app, F. simpl. unfold memN. simpl. rewrite N.eqb_refl. simpl. now rewrite app_nil_r. }
  assert (Hsingle : forall x m0, (mu = x :: m0 \/ mu = m0 ++ [x]) -> (forall v, In v votes -> bottom_in v mu x) ->
    exists x1 x2, isbottom U x1 /\ isbottom U x2 /\ (forall y, isbottom U y -> y = x1 \/ y = x2) /\
    exists A' ok, place pair_first (M1, M2) (mkset x1 x2) votes = (A', ok) /\
      pa_len A' = pa_len (M1, M2) + length (mkset x1 x2) /\
      Permutation ((rev (fst A') ++ snd A') ++ rest (mkset x1 x2) U) ((rev M1 ++ M2) ++ U) /\
      completable A' (rest (mkset x1 x2) U) /\
      (rest (mkset x1 x2) U <> [] -> ok = true) /\ pa_eqb A' (M1, M2) = false).
  { intros x m0 Hm Hall. destruct votes as [|v0 votes'] eqn:Ev; [congruence|]. rewrite <- Ev in *.
    assert (Hv0 : In v0 votes) by (rewrite Ev; now left).
    assert (Hbx : isbottom U x).
    { exists v0. split; [assumption|]. apply (bottom_in_perm v0 mu U); [now apply Permutation_sym|now apply Hall]. }
    exists x, x. split; [assumption|]. split; [assumption|]. split.
    { intros y (v & Hv & By). left. apply (bottom_unique v mu); [|now apply Hall].
      now apply (bottom_in_perm v U mu). }
    assert (Emk : mkset x x = [x]) by (unfold mkset; now rewrite N.eqb_refl). rewrite Emk. cbn [place].
    destruct (single_step M1 M2 mu Hnds Hwfs Hsp x m0 Hm Hall) as (A' & ok & Hc3 & HA' & Hsp' & Hok).
    exists A', ok. split; [exact Hc3|]. pose proof (Hrest1 x m0 Hm) as Pr.
    assert (Hx0 : ~ In x (rev M1 ++ M2)).
    { assert (Hxmu : In x mu) by (destruct Hm as [-> | ->]; [now left|apply in_or_app; right; now left]).
      intros H. apply in_app_or in H. destruct H as [H|H].
      - apply (NoDup_app_disj _ _ Hnds x H). apply in_or_app. now left.
      - apply NoDup_app_r in Hnds. apply (NoDup_app_disj _ _ Hnds x Hxmu H). }
    assert (PU : Permutation (x :: rest [x] U) U).
    { eapply perm_trans; [apply perm_skip; exact Pr|]. eapply perm_trans; [|apply Permutation_sym; exact Hperm].
      destruct Hm as [-> | ->]; [apply Permutation_refl|]. apply Permutation_cons_append. }
    split; [destruct HA' as [-> | ->]; unfold pa_len; simpl; lia|]. split.
    { destruct HA' as [-> | ->]; cbn [fst snd].
      - simpl. rewrite <- !app_assoc. simpl. apply Permutation_app_head.
        eapply perm_trans; [apply Permutation_middle|]. apply Permutation_app_head. exact PU.
      - rewrite <- !app_assoc. apply Permutation_app_head. simpl.
        eapply perm_trans; [apply Permutation_middle|]. apply Permutation_app_head. exact PU. }
    split; [exists m0; split; assumption|]. split.
    { intros Hne. apply Hok. intros ->. apply Hne. apply Permutation_sym in Pr. now apply Permutation_nil in Pr. }
    { unfold pa_eqb. destruct HA' as [-> | ->]; cbn [fst snd].
      - destruct (list_eq_dec N.eq_dec (x :: M1) M1) as [E|]; [|reflexivity].
        exfalso. apply (f_equal (@length N)) in E. simpl in E. lia.
      - destruct (list_eq_dec N.eq_dec (x :: M2) M2) as [E|]; [|apply andb_false_r].
        exfalso. apply (f_equal (@length N)) in E. simpl in E. lia. } }
  destruct (N.eq_dec h t) as [Eht|Hht].
  - (* a single unplaced alternative *)
    subst t. assert (Allh : forall v, In v votes -> bottom_in v mu h) by (intros v Hv; destruct (Hends v Hv); assumption).
    destruct (Hsingle h mu1 (or_introl Emu) Allh) as (x1 & x2 & R). exists x1, x2. exact R.
  - destruct (all_or_ex _ _ votes Hends) as [Allh|(vt & Hvt & Bt)].
    + destruct (Hsingle h mu1 (or_introl Emu) Allh) as (x1 & x2 & R). exists x1, x2. exact R.
    + assert (Hends' : forall v, In v votes -> bottom_in v mu t \/ bottom_in v mu h) by (intros v Hv; destruct (Hends v Hv); auto).
      destruct (all_or_ex (fun v => bottom_in v mu t) (fun v => bottom_in v mu h) votes Hends') as [Allt|(vh & Hvh & Bh)].
      * destruct (Hsingle t mu2 (or_intror Et) Allt) as (x1 & x2 & R). exists x1, x2. exact R.
      * (* two bottoms h (left end) and t (right end) *)
        destruct (two_ends mu mu1 mu2 h t Emu Et Hht) as (mu0 & Emu0).
        exists h, t.
        assert (Bh' : isbottom U h).
        { exists vh. split; [assumption|]. apply (bottom_in_perm vh mu U); [now apply Permutation_sym|assumption]. }
        assert (Bt' : isbottom U t).
        { exists vt. split; [assumption|]. apply (bottom_in_perm vt mu U); [now apply Permutation_sym|assumption]. }
        split; [assumption|]. split; [assumption|]. split.
        { intros y (v & Hv & By). apply (bottom_in_perm v U mu y Hperm) in By.
          destruct (Hends v Hv) as [B|B]; [left|right]; eapply bottom_unique; eauto. }
        assert (Hin2 : forall u, In u (mkset h t) <-> u = h \/ u = t).
        { intros u. unfold mkset. destruct (N.eqb_spec h t); [congruence|].
          destruct (N.ltb h t); simpl; intuition auto. }
        assert (Hc2 : exists x1 x2, ((x1 = h /\ x2 = t) \/ (x1 = t /\ x2 = h)) /\
                       place pair_first (M1, M2) (mkset h t) votes = case_2 (M1, M2) x1 x2 votes).
        { unfold mkset. destruct (N.eqb_spec h t); [congruence|]. destruct (N.ltb h t); cbn [place].
          - destruct (pair_first h t); [exists h, t|exists t, h]; auto.
          - destruct (pair_first t h); [exists t, h|exists h, t]; auto. }
        destruct Hc2 as (x1 & x2 & Hx & Epl).
        destruct (double_step M1 M2 mu Hnds Hwfs Hsp h t mu0 x1 x2 Emu0
                    (ex_intro _ vh (conj Hvh Bh)) (ex_intro _ vt (conj Hvt Bt)) Hx)
          as (A' & mu0' & Hc & HA' & Pm & Hsp').
        exists A', true. split; [now rewrite Epl|].
        assert (Hlen2 : length (mkset h t) = 2).
        { unfold mkset. destruct (N.eqb_spec h t); [congruence|]. destruct (N.ltb h t); reflexivity. }
        assert (Hh0 : ~ In h mu0 /\ ~ In t mu0).
        { rewrite Emu0 in Hnmu. inversion Hnmu as [|? ? Hn Hn2]; subst. split.
          - intros H. apply Hn. apply in_or_app. now left.
          - intros H. apply (NoDup_app_disj mu0 [t] Hn2 t H). now left. }
        assert (Pr : Permutation (rest (mkset h t) U) mu0).
        { unfold rest. eapply perm_trans; [apply Permutation_filter; exact Hperm|]. rewrite Emu0.
          assert (F : filter (fun u => negb (memN u (mkset h t))) mu0 = mu0).
          { apply filter_all_true. intros u Hu. apply negb_true_iff, memN_false. intros H. apply Hin2 in H.
            destruct H as [-> | ->]; tauto. }
          rewrite filter_not_mem_cons; [|intros H; apply in_app_or in H; destruct H as [H|[H|[]]]; [tauto|congruence]|apply Hin2; now left].
          rewrite filter_app, F. simpl. assert (E : memN t (mkset h t) = true) by (apply memN_In, Hin2; now right).
          rewrite E. simpl. now rewrite app_nil_r. }
        split; [destruct HA' as [-> | ->]; unfold pa_len; simpl; lia|]. split.
        { assert (PU : Permutation (h :: t :: rest (mkset h t) U) U).
          { eapply perm_trans; [|apply Permutation_sym; exact Hperm]. rewrite Emu0. apply perm_skip.
            eapply perm_trans; [apply perm_skip; exact Pr|]. apply Permutation_cons_append. }
          assert (G : forall u w, Permutation (h :: t :: rest (mkset h t) U) (u :: w :: rest (mkset h t) U) ->
                      Permutation ((rev (u :: M1) ++ (w :: M2)) ++ rest (mkset h t) U) ((rev M1 ++ M2) ++ U)).
          { intros u w Puw. simpl. rewrite <- !app_assoc. simpl. apply Permutation_app_head.
            change (u :: w :: M2 ++ rest (mkset h t) U) with ([u; w] ++ M2 ++ rest (mkset h t) U).
            eapply perm_trans; [apply Permutation_app_swap_app|]. apply Permutation_app_head.
            simpl. eapply perm_trans; [apply Permutation_sym; exact Puw|exact PU]. }
          destruct HA' as [-> | ->]; cbn [fst snd]; apply G; [apply Permutation_refl|apply perm_swap]. }
        split; [exists mu0'; split; [eapply perm_trans; eauto|assumption]|]. split; [reflexivity|].
        unfold pa_eqb. destruct HA' as [-> | ->]; cbn [fst snd].
        -- destruct (list_eq_dec N.eq_dec (h :: M1) M1) as [E|]; [|reflexivity].
           exfalso. apply (f_equal (@length N)) in E. simpl in E. lia.
        -- destruct (list_eq_dec N.eq_dec (t :: M1) M1) as [E|]; [|reflexivity].
           exfalso. apply (f_equal (@length N)) in E. simpl in E. lia.
Qed.
End Complete.
