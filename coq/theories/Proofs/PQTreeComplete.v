(* Proofs/PQTreeComplete.v — COMPLETENESS of the mirrored PQ-tree algorithm (Model/PQTree.v): if the family has an
   arrangement in which, for every element, the sets containing it are consecutive, the mirror returns an answer
   (so, by pq_reorder_total, Err ValueErr is returned only if no arrangement exists).
   Frontier semantics: Proofs/PQTree.v  Ord t o  ("o is one of the frontiers t represents").
   Step lemma (C): a frontier of t in which the sets containing v are consecutive is still a frontier of the tree
   returned by set_contiguous v t, and set_contiguous does not fail when t has such a frontier. *)
From Coq Require Import List Arith Bool Lia Permutation.
From PrefVerif Require Import Lib.Val Lib.Perms Model.C1P Model.PQTree Proofs.C1P Proofs.PQTree.
Import ListNotations.

Definition StepC : Prop :=
  forall f v t o, proper t = true -> length (ordering t) <= f -> Ord t o -> Interval (fun s => In v s) o ->
    exists t' st, set_contiguous f v t = Ok (t', st) /\ Ord t' o.

(* ------------------------------------------------------------------------------------------------ *)
(* the converse of Ref_flat_ret: _flatten loses no frontier *)
Lemma Forall2_map_same {X} (R : X -> X -> Prop) (g : X -> X) l : Forall (fun x => R x (g x)) l -> Forall2 R l (map g l).
Proof. induction 1; simpl; constructor; auto. Qed.

Lemma Ord_flat_ret_c t : forall o, Ord t o -> Ord (flat_ret t) o.
Proof.
  induction t as [s|k cs IH] using pq_ind'; intros o Ho; [exact Ho|].
  destruct cs as [|c [|c2 r]].
  - exact Ho.
  - inversion IH; subst. simpl. apply H1. now apply Ord_single in Ho.
  - change (Ord (Node k (map flat_ret (c :: c2 :: r))) o).
    revert o Ho. apply Ref_node. apply Forall2_map_same. exact IH.
Qed.

Lemma Ord_leaves_perm F o : Permutation F o -> Ord (Node KP (map Leaf F)) o.
Proof.
  intros HP. apply Ord_P. exists (map Leaf o). split; [now apply Permutation_map|].
  clear HP. induction o as [|s o IH]; simpl; [now apply OrdL_nil|].
  apply OrdL_cons. exists [s], o. repeat split; auto. constructor.
Qed.

(* ------------------------------------------------------------------------------------------------ *)
(* Stage A: the element loop and reorder_sets, relative to the step lemma *)
Section FromStep.
Hypothesis step : StepC.

Lemma pq_loop_complete fuel o : (forall v, Interval (fun s => In v s) o) ->
  forall elems t, proper t = true -> length (ordering t) <= fuel -> Ord t o -> 3 <= length o ->
  exists t', pq_loop fuel elems t = Ok t' /\ Ord t' o.
Proof.
  intros Hgood. induction elems as [|i rest IH]; intros t Hp Hlen Ho H3; simpl.
  - eauto.
  - destruct t as [s|k cs]; [inversion Ho; subst; simpl in H3; lia|].
    destruct (step fuel i (Node k cs) o Hp Hlen Ho (Hgood i)) as (t' & st & E & Ho').
    rewrite E. simpl.
    destruct (set_contiguous_post _ _ _ _ _ Hp E) as (_ & HAl & _ & Hperm & _).
    apply IH; auto.
    + now apply AlmostProper_flat.
    + now rewrite ordering_flat_ret, <- (Permutation_length Hperm).
    + now apply Ord_flat_ret_c.
Qed.

Theorem pq_reorder_complete_from_step elems F :
  (exists res, SetsOK F res) -> exists res', pq_reorder elems F = Ok res'.
Proof.
  intros (res & HP & Hgood). unfold pq_reorder.
  destruct (Nat.leb_spec (length F) 2) as [Hl|Hl]; [eauto|].
  assert (Hp : proper (Node KP (map Leaf F)) = true).
  { apply proper_node_iff. split; [rewrite map_length; lia|]. apply Forall_map, Forall_forall. reflexivity. }
  assert (Hleaves : ordering (Node KP (map Leaf F)) = F) by (simpl; apply ordering_leaves).
  destruct (pq_loop_complete (length F) res Hgood elems (Node KP (map Leaf F)) Hp) as (t' & E & Ho).
  - rewrite Hleaves. lia.
  - now apply Ord_leaves_perm.
  - rewrite <- (Permutation_length HP). lia.
  - rewrite E. destruct t' as [s|k cs]; [|eauto].
    inversion Ho; subst. apply Permutation_length in HP. simpl in HP. lia.
Qed.

Corollary pq_reorder_err_from_step elems F :
  pq_reorder elems F = Err ValueErr -> ~ exists res, SetsOK F res.
Proof. intros E H. destruct (pq_reorder_complete_from_step elems F H) as (r & Hr). congruence. Qed.
End FromStep.
