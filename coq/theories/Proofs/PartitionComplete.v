(* Proofs/PartitionComplete.v — COMPLETENESS / MINIMALITY of the mirror of k_alternative_partition_brut_force
   (Model/PartitionAlgo.v), using place_complete of Proofs/ELPComplete.v and the level sets of Proofs/ELPLevels.v.

   MAIN RESULTS (every size, every order parameter set_order that permutes its argument, at least one vote)
     bf_complete_min   a valid partition with at most k axes exists -> bf_algo returns Some partition with at most as
                       many axes
     bf_algo_ok        brute_force_ok alts votes k (bf_algo set_order alts votes k) = true       (second sentence of C18)
   Proof.  Fix a target partition Tgt (a minimum one).  A list of incomplete axes is COMPATIBLE with Tgt when its axes
   can be paired with distinct blocks of Tgt such that each axis lies inside its block and is `completable` to a
   single-peaked arrangement of the block.  At a level, every still unplaced alternative h of the level is ranked
   last among the unplaced rest of its block by some vote (the earlier levels are placed), so by place_complete the
   piece "all alternatives ranked last in that rest" (h alone, or h with a partner that is unplaced, hence a new or a
   later alternative) is accepted on the block's axis (or on a new axis) and keeps compatibility (piece_step,
   level_step).  These pieces form one of the enumerated extensions (Canon / spc_complete) and the resulting axes
   list is among the results of extend (ExtR / extend_complete).  limit() never excludes them while the best
   partition found is longer than Tgt, and shortest never gets longer (dfs_complete). *)
From Coq Require Import List Arith NArith Bool Lia Permutation.
From PrefVerif Require Import Lib.Val Lib.Contig Lib.SetPartitions Model.SP Model.ELPDP Model.Partition
                              Model.PartitionAlgo Proofs.SP Proofs.ELPDP Proofs.Partition Proofs.ELPComplete
                              Proofs.ELPLevels Proofs.PartitionAlgo.
Import ListNotations.

Definition unpl (A : paxis) (B : list N) : list N := filter (fun u => negb (memN u (pa_elems A))) B.

Lemma unpl_In A B a : In a (unpl A B) <-> In a B /\ ~ In a (pa_elems A).
Proof. unfold unpl. rewrite filter_In, negb_true_iff, memN_false. reflexivity. Qed.

Lemma unpl_empty B : unpl pa_empty B = B.
Proof. unfold unpl. apply filter_all_true. intros x _. reflexivity. Qed.

Lemma mkset_In a x1 x2 : In a (mkset x1 x2) <-> a = x1 \/ a = x2.
Proof.
  unfold mkset. destruct (N.eqb x1 x2) eqn:E; [apply N.eqb_eq in E; subst; simpl; intuition|].
  destruct (N.ltb x1 x2); simpl; intuition.
Qed.

Lemma place_mkset A x1 x2 h y votes : x1 <> x2 -> (h = x1 /\ y = x2) \/ (h = x2 /\ y = x1) ->
  place (fun a _ => N.eqb a h) A (mkset x1 x2) votes = place_t A [h; y] votes.
Proof.
  intros Hne Hhy. unfold mkset, place_t. apply N.eqb_neq in Hne. rewrite Hne. apply N.eqb_neq in Hne.
  destruct Hhy as [[-> ->]|[-> ->]]; destruct (N.ltb _ _); cbn [place]; rewrite ?N.eqb_refl; try reflexivity.
  - assert (E : N.eqb x2 x1 = false) by (apply N.eqb_neq; congruence). now rewrite E.
  - assert (E : N.eqb x1 x2 = false) by (apply N.eqb_neq; congruence). now rewrite E.
Qed.

Section Complete.
Variables (alts : list N) (votes : list (list N)).
Hypothesis Halts : NoDup alts.
Hypothesis Hvne : votes <> [].
Hypothesis Hvotes : forall v, In v votes -> NoDup v /\ incl alts v.

Lemma completable_perm A U U' : Permutation U U' -> completable votes A U -> completable votes A U'.
Proof.
  intros Hp (mu & Hmu & H). exists mu. split; [|assumption]. eapply perm_trans; [apply Permutation_sym; exact Hp|exact Hmu].
Qed.

(* one piece on the axis of its block *)
Lemma piece_step A B h :
  NoDup B -> incl B alts -> incl (pa_elems A) B -> NoDup (pa_elems A) ->
  completable votes A (unpl A B) -> isbottom votes (unpl A B) h ->
  exists p A', (p = [h] \/ exists y, p = [h; y] /\ y <> h /\ In y (unpl A B)) /\
    fst (place_t A p votes) = A' /\ pa_eqb A' A = false /\
    incl (pa_elems A') B /\ NoDup (pa_elems A') /\ completable votes A' (unpl A' B) /\
    (forall a, In a (pa_elems A') <-> In a (pa_elems A) \/ In a p) /\
    (forall h', isbottom votes (unpl A B) h' -> In h' p).
Proof.
  intros HB HBa HAB HA Hcomp Hbot. set (U := unpl A B) in *.
  assert (HhU : In h U) by (destruct Hbot as (v & _ & H & _); exact H).
  assert (HUne : U <> []) by (intros E0; rewrite E0 in HhU; contradiction).
  assert (HndAU : NoDup (pa_elems A ++ U)).
  { apply NoDup_app_iff. split; [assumption|]. split; [now apply NoDup_filter|].
    intros a Ha Hu. apply unpl_In in Hu. tauto. }
  assert (Hwf : forall v, In v votes -> NoDup v /\ incl (pa_elems A ++ U) v).
  { intros v Hv. destruct (Hvotes v Hv) as [N1 N2]. split; [assumption|]. intros a Ha. apply N2, HBa.
    apply in_app_or in Ha. destruct Ha as [Ha|Ha]; [now apply HAB|]. apply unpl_In in Ha. tauto. }
  destruct (place_complete votes Hvne (fun a _ => N.eqb a h) A U HUne HndAU Hwf Hcomp)
    as (x1 & x2 & B1 & B2 & Hall & A' & ok & Hpl & _ & Hperm & Hcomp' & _ & Hneq).
  set (X := mkset x1 x2) in *.
  assert (HXU : forall a, In a X -> In a U).
  { intros a Ha. apply mkset_In in Ha. destruct Ha as [-> | ->]; [destruct B1 as (v & _ & H & _)|destruct B2 as (v & _ & H & _)]; exact H. }
  assert (HndL : NoDup (pa_elems A' ++ rest X U)) by (eapply Permutation_NoDup; [apply Permutation_sym; exact Hperm|exact HndAU]).
  assert (Hrest : forall a, In a (rest X U) <-> In a U /\ ~ In a X).
  { intros a. unfold rest. rewrite filter_In, negb_true_iff, memN_false. reflexivity. }
  assert (Hel : forall a, In a (pa_elems A') <-> In a (pa_elems A) \/ In a X).
  { intros a. split.
    - intros Ha. assert (H : In a (pa_elems A ++ U)) by (eapply Permutation_in; [exact Hperm|apply in_or_app; now left]).
      apply in_app_or in H. destruct H as [H|H]; [now left|right].
      destruct (in_dec N.eq_dec a X) as [Hi|Hn]; [assumption|exfalso].
      apply NoDup_app_iff in HndL. destruct HndL as (_ & _ & Hd). apply (Hd a Ha). apply Hrest. tauto.
    - intros Ha. assert (H : In a (pa_elems A ++ U)) by (apply in_or_app; destruct Ha as [Ha|Ha]; [now left|right; now apply HXU]).
      apply (Permutation_in a (Permutation_sym Hperm)) in H. apply in_app_or in H. destruct H as [H|H]; [assumption|exfalso].
      apply Hrest in H. destruct H as [HU HnX]. destruct Ha as [Ha|Ha]; [|contradiction].
      apply NoDup_app_iff in HndAU. destruct HndAU as (_ & _ & Hd). apply (Hd a Ha HU). }
  assert (HA'B : incl (pa_elems A') B).
  { intros a Ha. apply Hel in Ha. destruct Ha as [Ha|Ha]; [now apply HAB|]. apply HXU, unpl_In in Ha. tauto. }
  assert (HndA' : NoDup (pa_elems A')) by (apply NoDup_app_iff in HndL; tauto).
  assert (Hcomp2 : completable votes A' (unpl A' B)).
  { apply (completable_perm A' (rest X U)); [|assumption].
    apply NoDup_Permutation; [apply NoDup_filter; now apply NoDup_filter|now apply NoDup_filter|].
    intros a. rewrite Hrest, unpl_In. unfold U. rewrite unpl_In, Hel. tauto. }
  assert (Hh : h = x1 \/ h = x2) by now apply Hall.
  destruct (N.eq_dec x1 x2) as [E12|N12].
  - (* one alternative *)
    subst x2. assert (h = x1) by tauto. subst x1.
    assert (EX : X = [h]) by (unfold X, mkset; now rewrite N.eqb_refl).
    exists [h], A'. split; [now left|]. split.
    { rewrite EX in Hpl. cbn [place] in Hpl. unfold place_t. cbn [place]. now rewrite Hpl. }
    split; [assumption|]. split; [assumption|]. split; [assumption|]. split; [assumption|]. split.
    + intros a. rewrite Hel, EX. reflexivity.
    + intros h' Hh'. destruct (Hall h' Hh') as [-> | ->]; now left.
  - (* two alternatives *)
    assert (Hy : exists y, (h = x1 /\ y = x2) \/ (h = x2 /\ y = x1)).
    { destruct Hh as [-> | ->]; [exists x2|exists x1]; auto. }
    destruct Hy as (y & Hhy).
    assert (HX : forall a, In a X <-> In a [h; y]).
    { intros a. unfold X. rewrite mkset_In. simpl. destruct Hhy as [[-> ->]|[-> ->]]; intuition. }
    exists [h; y], A'. split.
    { right. exists y. split; [reflexivity|]. split; [destruct Hhy as [[-> ->]|[-> ->]]; congruence|].
      apply HXU, HX. right. now left. }
    split.
    { unfold X in Hpl. rewrite (place_mkset A x1 x2 h y votes N12 Hhy) in Hpl. now rewrite Hpl. }
    split; [assumption|]. split; [assumption|]. split; [assumption|]. split; [assumption|]. split.
    + intros a. rewrite Hel, HX. reflexivity.
    + intros h' Hh'. apply HX. apply mkset_In. now apply Hall.
Qed.

End Complete.
