(* Properties/C06.v — placeholder (guards only) until Proofs/Scoring.v is complete *)
From Coq Require Import List NArith.
From PrefVerif Require Import Lib.Val Model.Scoring.
Import ListNotations.
Theorem plurality_guard : forall i, dt_in (dt i) [Soc; Toc; Soi; Toi] = false -> plurality_winner i = Err Incompatible.
Proof. intros i H. unfold plurality_winner. rewrite H. reflexivity. Qed.
Print Assumptions plurality_guard.
