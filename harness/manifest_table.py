"""Source of MANIFEST.json (bin/gen-manifest). One entry per claimed property."""

GENERIC_NOTE = ("Trusted: Coq 8.16.1 kernel; extraction (ExtrOcamlBasic only) + ocamlopt + coq/oracle/main.ml; the Python "
                "correspondence harness; CPython and the packages preflibtools imports. The theorems are about the "
                "hand-written Gallina model; the model is tied to /repo's working tree on every run by differential "
                "execution (exhaustive small ranges + seeded structured random), not by proof. ")

TECH = "machine-checked proof in Coq (mirror model, theorems for all inputs) + model/implementation correspondence check via extracted OCaml oracle"

CLAIMED = {
    "C20": {
        "text": "Theorems in Coq (all sizes) about a mirror model of distances.py; model tied to the code by "
                "exhaustive (n<=4/5) and random (n<=40) differential runs on every invocation.",
        "design_ref": "DESIGN.md §7 C20",
        "note": GENERIC_NOTE + "Final float division compared through exact rationals.",
        "technique": TECH,
    },
    "C07": {
        "text": "Coq theorems (all instances, all sizes, Closed under the global context) about a mirror model of "
                "pairwise_scores, copeland_scores, has_condorcet, borda_scores and order_to_pwg: closed forms of every table "
                "entry as voter-level counts on the expanded profile, the Condorcet iff, the pwg line/total/number clauses, "
                "regrouping invariance, type guards. The model is tied to the code by exhaustive (m<=3, <=2 ballots) and random "
                "(m<=7/9) differential runs on every invocation, tables compared entry by entry.",
        "design_ref": "DESIGN.md §7 C07",
        "note": GENERIC_NOTE + "Reading: a ballot that does not rank b does not compare a with b (stated as an Example). "
                "order_to_pwg text is re-read by the harness (split on newline/comma), not modelled character by character.",
        "technique": TECH,
    },
}


def _m(text, note, ref):
    return {"text": text, "design_ref": "DESIGN.md §7 " + ref, "note": GENERIC_NOTE + note, "technique": TECH}


def _r(text, note, ref):
    return {"text": text, "design_ref": "DESIGN.md §7 " + ref, "note": GENERIC_NOTE + note, "technique": TECH_R}


TECH_R = ("machine-checked proof in Coq of specification, witness checker, reference decider/optimiser and of a statement-by-statement "
          "mirror of the implementation's algorithm (sound and complete, all sizes) + differential execution: the implementation is compared "
          "with the extracted mirror at every size, with the extracted reference on bounded inputs, and its witnesses go through the proved checker")

CLAIMED.update({
    "C01": _m("Coq theorems (every well-formed instance, any size, Closed under the global context) about a mirror model of "
              "OrdinalInstance.write/parse and PrefLibInstance.parse_metadata: write->parse round trip through readlines and through "
              "splitlines (= the stably sorted view of the instance), non-increasing multiplicities in file order, byte-for-byte "
              "idempotence of the second write, tokenizer/class construction inverting the ballot printer for every tie arrangement. "
              "Tied to the code on every run: model-parse(impl-write), impl-parse(model-write), byte equality of both writers, "
              "tokenizer vs re.findall, histories on one object.",
              "Text = code points; ASCII digits only for int()/\\d; UTF-8 codec and CPython regex engine exercised, not proved. "
              "Instances with zero orders are outside the quantifier (shown not to survive: Example C01_example_no_order_fails).", "C01"),
    "C02": _m("Coq invariant proof over all histories of the four append entry points (and populate_* = append_vote_map of any map of "
              "strict orders): multiplicity table = counting function of the votes added, counters, alternative set/names, "
              "duplicate-free order list, full_profile/vote_map views, data_type = infer_type agreeing with is_strict/is_complete and "
              "the ballot-size statistics, sanity checker silent; regrouping/reordering invariance. Model tied to the code by replaying "
              "histories through the real methods with 24 observables after every operation.",
              "Reading: histories that add at least one vote (the fresh instance has data_type toi but infer_type soc: proved as "
              "C02_fresh_type_refuted / C02_type_empty_refuted and documented in DESIGN §8 as degenerate, not alarmed on). "
              "Set-iteration order of alternatives is not modelled (names compared as a set of pairs).", "C02"),
    "C04": _r("Coq theorems: the single-crossing specification, a sequence checker and a witness checker proved equivalent to it, a "
              "brute-force decider and a polynomial conflict-set decider both proved correct and complete for every size, heredity, "
              "relabelling/reordering invariance, and the link to the Kendall-tau additivity test the code uses. is_single_crossing and "
              "is_single_crossing_conflict_sets are compared with both references (exhaustive m<=4, chains with every choice of the first "
              "two stored orders, switch-back negatives, n<m and n>=m paths); every returned sequence goes through the verified checker.",
              "Deepening: is_single_crossing itself (scores, stable sort / bucket array, verification pass) is mirrored step by step and proved "
              "sound, complete and error-free (sc_algo_correct, sc_algo_no_error); is_single_crossing_conflict_sets is mirrored literally and proved equal to the "
              "reference (conflict_sets_algo_eq, conflict_sets_algo_correct); the mirrors are compared with the code on every case; sessions on one instance "
              "object / several instances in one process check purity and absence of cross-call state.", "C04"),
    "C06": _m("Coq theorems for the seven rules (mirror models of singlewinner.py + decorators + is_approval): winner set = exactly the "
              "maximisers (veto: minimisers) of the textbook per-voter score on the expanded profile (Copeland = contests won, SAV in exact "
              "rationals), regrouping invariance, type guards give PreferenceIncompatibleError. Exhaustive (m<=3) and tie-heavy random "
              "differential runs, every rule x every data type.",
              "Assumes instance.orders == list(instance.multiplicity) (the invariant proved under C02); empty orders/classes excluded by wf_inst.", "C06"),
    "C09": _m("Coq theorems (Section-generic in the weight codec, then instantiated for tokens): write->parse round trip of matching "
              "instances (same edge set, weights, incident nodes, names, counts, num_edges = |edges|, num_voters = num_alternatives), "
              "byte-for-byte idempotence, header_only, insertion sort correctness, type gate. Differential runs with random 64-bit "
              "weights compared bitwise, exponent-notation weights, overwrite histories on one object.",
              "Node ids are Z (either sign; named alternatives non-negative). float(repr(x)) == x and the character set of repr(x) are Section "
              "hypotheses tested on every generated weight, not proved.", "C09"),
    "C12": _r("Coq theorems: minimum alternative-deletion and voter-deletion numbers defined by verified enumeration over the proved "
              "single-peakedness decider (correct for every size), certificate checkers equivalent to 'deletion set of the reported size + "
              "remaining profile single-peaked on the returned axis', certificate => upper bound, monotonicity under restriction (lower "
              "bounds from small cores), invariance. Both ILPs (soc, toc) and k_alternative_deletion (soc) are compared with the reference "
              "for m<=5/6 and their certificates checked up to m=10/12.",
              "Deepening: the ILP constraint builders are mirrored and proved sound and complete (ILP optimum = reference optimum, decoding of axis "
              "and deletion set); the constraint multiset python-mip receives is compared with the mirror. the dynamic programme of k_alternative_deletion is mirrored and proved sound "
              "(elp_sound: valid certificate, upper bound) AND optimal for every size (place_complete, elp_optimal: the mirror returns exactly min_alt_del); the code is "
              "compared with the mirror at every size and with a fast verified reference (fast_min_alt = min_alt_del, proved) up to m = 15; CBC (max_gap 0.05) is trusted; fewer than 20 alternatives as the property requires. "
              "One open known finding (KF-C12-cbc-nondeterminism): multi-threaded CBC intermittently returns a non-minimum with status OPTIMAL; a failure that is not reproduced "
              "when the case is re-run alone is matched by that entry, a reproducible one is a violation.", "C12"),
    "C13": _r("Coq theorems: single-peaked-on-a-tree specification, connectivity test, tree and witness checkers proved equivalent to the "
              "spec (orientation/order of edges irrelevant), candidate-tree enumeration proved complete, decider correct for every size, "
              "invariance. is_single_peaked_on_tree compared with the decider (exhaustive m<=4, random m<=7/8), every returned edge list "
              "through the verified checker (planted trees up to m=30).",
              "Deepening: the algorithm itself (get_B, leaf removal loop, with Python's set iteration orders as parameters) is mirrored and proved "
              "terminating, sound and complete (Trick's theorem: trick_decides, trick_choice_independent); verdicts compared at every size.", "C13"),
    "C14": _m("Coq theorems for bucklin_voting_winner and fallback_voting_winner (mirror model with explicit fuel): winners = argmax of the "
              "top-k* counts at the least depth reaching the strict-majority quota on the expanded profile (fallback: full approval counts "
              "if none), fuel never exhausted (termination incl. single-alternative profiles), regrouping, guards. Exhaustive m<=3 and "
              "random differential runs under a 10 s watchdog.",
              "Termination of the real while loop is observed by the watchdog; the model proves the bounded loop never exhausts its fuel.", "C14"),
    "C16": _m("Coq theorems about the autocorrect path of the ordinal and categorical parser models: duplicate-free ballot list, "
              "multiplicity = sum over all lines of that ballot, counts recomputed, names pairwise distinct with first occurrences kept "
              "(distinct ids), clean content gives the same instance with and without autocorrect; an independent 'expected' description "
              "proved equal to the parser. Differential runs on generated dirty/clean text through parse_file and parse_str.",
              "Reservation of names happens in parse_lines: direct callers of parse() bypass it (proved as ac_direct_parse_refuted; outside the "
              "entry points the property names).", "C16"),
    "C17": _m("Coq theorems about a mirror model of CategoricalInstance.from_ordinal (three truncation modes) and factorise_instance: "
              "categories partition the ranked alternatives in rank order without splitting classes, the size rule for absolute truncators, "
              "the class-count rule, padding, voter conservation when orders collapse, duplicate-free ballot list, factorise counts, "
              "parameter guards. Exhaustive small and collapse-prone random differential runs.",
              "Relative truncators: the per-order integer sizes int(ceil(len*t)) are computed by the harness with the same float arithmetic and "
              "passed to the model; an empty truncator list is outside 'arbitrary positive values' (fo_partition_empty_list_refuted).", "C17"),
})


CLAIMED.update({
    "C03": _r("Coq theorems: single-peakedness specification for strict profiles, axis checker equivalent to 'every alternative exactly once "
              "and every voter single-peaked on it', brute-force decider correct and complete for every size, heredity (exact negatives "
              "from small cores), invariance. is_single_peaked compared with the decider (exhaustive m<=4 incl. all 2-voter profiles with "
              "non-contiguous ids and common bottoms, random m<=7/8), every returned axis through the checker (m up to 43).",
              "Deepening: is_single_peaked (Escoffier-Lang-Ozturk) is mirrored statement by statement and proved terminating, error-free, "
              "sound and complete (elo_correct, elo_agrees_reference); the implementation's verdict is compared with the mirror at every "
              "size (m up to 43).", "C03"),
    "C05": _r("Coq theorems: consecutive-ones checker and decider (any matrix), the eight approval-domain specifications with boolean "
              "witness checkers and deciders proved correct for every size, the mirrored reductions instance->matrix (CI, CEI via the "
              "prefix/suffix lemma, VI, VEI, WSC) and witness translations, dichotomous Euclidean <-> CI over Q in both directions with the "
              "code's construction as witness, is_part/is_2_part mirrored and proved; recognisers proved correct relative to a solver "
              "contract. solve_consecutive_ones/isC1P compared with the decider up to 7/8 columns and through the checker up to 40x40 "
              "(planted positives, Tucker-core negatives); all eight recognisers on exhaustive small and random instances.",
              "Deepening: the PQ-tree (reorder_sets, P/Q.set_contiguous with their two passes and in-place flatten, simplify, reverse) is mirrored "
              "and proved total and SOUND (pq_reorder_sound: every returned arrangement keeps each element's sets consecutive; chained down to "
              "solve_consecutive_ones, isC1P and the six recognisers: pq_*_sound); the implementation's reorder_sets result must equal the "
              "mirror's exactly on every family. PQ-tree COMPLETENESS is proved as well (pq_reorder_complete: ValueError only if no arrangement exists, "
              "for every visiting order; pq_contract, pq_solve_correct, pq_isC1P_correct, pq_*_complete for the six recognisers); the comparison with the "
              "proved references up to 7/8 columns and with planted certificates beyond stays as an independent cross-check.", "C05"),
    "C10": _m("Coq theorems about the entry-point layer on top of the three parser models: type gate (TypeError, nothing loaded), "
              "dispatch on the extension, the three line splitters give the same stripped lines, all parsers depend on a line only "
              "through strip (and remove-spaces for ballot lines), every entry point on every restyling (LF/CRLF/CR, padding, blanks at "
              "token boundaries) of a written file returns the round-trip instance, header_only gives the same metadata and no ballots. "
              "Differential runs on real files through parse_file, parse_str, parse_url (file: URL), get_parsed_instance, all flag "
              "combinations, every (class, extension) pair.",
              "Padding excludes the splitlines-only boundaries (U+001C-1E, U+0085, U+2028/9, VT, FF) per DESIGN §7.0 "
              "(C10_note_splitlines_only_boundary); blank lines are not a restyling of a line.", "C10"),
    "C11": _m("Coq theorems: the mirrored scan of is_single_peaked_axis accepts exactly the axes on which every union of top classes is "
              "contiguous (valley <-> level sets), sp_cons_ones_matrix mirrored with C1P(matrix) <-> weakly single-peaked, brute-force "
              "decider correct for every size, ILP constraint builders mirrored with feasibility <-> single-peakedness "
              "(ilp_sp_feasible_iff, decoding of the axis), strict agreement, TypeError gate, heredity, invariance. "
              "is_single_peaked_axis compared on every axis (m<=4) and random; PQ-tree and ILP verdicts vs the decider (thousands of "
              "near-axis profiles m=5..7); ILP axis through the checker; the constraints python-mip receives compared with the mirror.",
              "Deepening: is_single_peaked_pq_tree is mirrored on top of the mirrored PQ-tree and proved to decide weak-order single-peakedness "
              "(pq_tree_sp_sound, pq_tree_sp_complete, pq_tree_sp_correct); its verdict is compared with the code (c11.pq_exact). CBC is trusted "
              "(the ILP's answers are checked case by case); is_single_peaked (strict) has its own proved mirror under C03.", "C11"),
    "C18": _r("Coq theorems: partition checker equivalent to 'axes disjoint, cover every alternative once, each single-peaked for the "
              "restricted profile', set-partition enumeration sound and complete, minimum number of axes correct for every size, "
              "bounds 1 <= min <= ceil(m/2), the brute-force contract (valid + minimum iff <= k, else None), invariance. "
              "k_alt_partition_approx through the checker up to m=25; k_alternative_partition_brut_force vs the reference for every k "
              "(exhaustive m<=5, fixed case set m=6..9).",
              "Deepening: the repaired brute-force DFS is mirrored and proved sound for every size (bf_sound, bf_none_when_infeasible, "
              "bf_some_bounds) and minimum / complete for every size (bf_complete_min, bf_algo_ok: the mirror meets the brute-force contract); the code is "
              "compared with the mirror and with the proved reference for every k; the approx loop is mirrored and proved valid (approx_valid). A non-minimality "
              "defect of the brute force found by this check was repaired (175f7ec); no open finding.", "C18"),
    "C19": _r("Coq theorems: embedding checker over exact rationals equivalent to 'every voter ranks by strictly increasing distance', "
              "Euclidean => single-peaked and single-crossing (necessary conditions), and an exact decision procedure "
              "(Fourier-Motzkin feasibility proved sound and complete; eucl_decide_correct) for every size. is_one_euclidean compared "
              "with the exact decider up to m=6, n=12; every returned map converted exactly and checked; planted positives beyond.",
              "Deepening: is_one_euclidean itself (single-crossing precheck, colouring, axis, LP as a parameter, runs and distance bands) is "
              "mirrored and proved sound, complete and independent of Python's set iteration order (eucl_algo_sound, eucl_algo_complete, "
              "eucl_algo_verdict_exact: mirror verdict = eucl_decide); CBC is trusted to behave like a sound and complete LP oracle. The code is "
              "tied to the proved decider, mirror and checker by a deterministic campaign (constant seed; exact verdict comparison up to m=6, n=12, "
              "witness check and planted positives up to m=12). Four defects found this way were repaired (5a8bee2, 3211aad, 4ca33bd, "
              "74e9e2c); no open finding remains. Labels must be 1..m. ", "C19"),
})


CLAIMED.update({
    "C08": _m("Coq theorems (every well-formed categorical instance, any size) about a mirror model of CategoricalInstance.write/parse: "
              "write->parse round trip through readlines and splitlines (= the stably sorted view: same category count and names, "
              "alternative names, counts, metadata, ballots with empty categories in any position, multiplicities), non-increasing "
              "multiplicities in file order, byte-for-byte idempotence, tokenizer/category construction inverting the ballot printer. "
              "Tied to the code on every run: model-parse(impl-write), impl-parse(model-write), byte equality of both writers, tokenizer vs "
              "re.findall, write-mutate-write histories on one object, unsorted categories.",
              "Text = code points; ASCII digits only; category keys are the integers the parser produces; a ballot with zero categories is "
              "outside the quantifier.", "C08"),
})


CLAIMED.update({
    "C15": _m("Coq theorems (83, all sizes): for every injective relabelling f : N -> N and every permutation / regrouping of the ballot "
              "list — verdict invariance of every reference decider and optimum (single-peaked strict/weak, single-crossing (two), tree, "
              "the eight approval-domain deciders and C1P under row/column permutation, deletion optima, partition optimum, Euclidean "
              "spec), invariance of the mirrored algorithms (ELO, is_single_crossing, Trick's algorithm under every set-iteration "
              "order, ILP/PQ models), exact equivariance of the nine single-winner rules (winners(relabel f i) = map f (winners i)) and "
              "of the pairwise/Copeland/Borda tables, has_condorcet, and transport of witness validity through f. The correspondence is "
              "metamorphic on the implementation only: each case runs every function on a base input and on relabelled / reshuffled / "
              "regrouped twins (m<=30, n<=60; ILPs m<=6) and demands equal verdicts/optima, mapped winner sets and tables, and "
              "witnesses valid on their own variant via the verified checkers.",
              "k_alt_partition_approx is neither an exact decider nor an optimiser and is not compared. NOT PROVED (listed in "
              "Properties/C15.v): the list of parts returned by is_part under ballot reordering (its verdict is), eucl_decide as a boolean "
              "identity under relabelling (spec level only), invariance of the DP mirror's optimum.", "C15"),
})

_PENDING = "not claimed yet: the model and check for this property are still being built (see DESIGN.md §12)"
NOT_APPLICABLE = {f"C{i:02d}": _PENDING for i in range(1, 21) if f"C{i:02d}" not in CLAIMED}

NOTES = ("All checks share one Coq development (coq/) built by bin/setup; bin/check <ID> <tier> rebuilds what changed, "
         "re-captures Print Assumptions, runs the correspondence against /repo's working tree and rewrites "
         "evidence/<ID>.json. Known findings: known_findings.json. Design and trusted base: DESIGN.md.")
