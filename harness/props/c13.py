"""C13 — is_single_peaked_on_tree: exact verdict (against the proved reference decider spt_decide) and a valid
tree whenever it answers True (through the proved witness checker spt_check)."""
import itertools
import random

from . import common
from .common import case, guarded, ordinal_instance, strict, rand_perm, snapshot, snap_diff

ID = "C13"
COVER_FILES = ['properties/subdomains/ordinal/singlepeaked/single_peaked_tree.py']
RULE = ("history cases (op c13.hist, 7 templates): scripts on live OrdinalInstance objects inside one worker call - the "
        "same question twice; append_order / append_order_list / append_vote_map between two calls; the returned edge "
        "list poisoned in place and the question asked again; another profile (same ids, other m, rejected early) asked "
        "first, then the profile under test, then the first again; instances filled through the public API with "
        "recompute_cardinality_param / flatten_strict / full_profile / vote_map / infer_type in between (their results "
        "poisoned in place); instance.orders order decoupled from the key order of instance.multiplicity, "
        "alternatives_name in shuffled order, numpy.int64 ids; strict complete content under every data_type label "
        "soc / soi / toc / toi (set by hand on the instance, or declared to OrdinalInstance.parse_str as file extension, "
        "DATA TYPE header and argument): the answer must not depend on the label; every call is judged against the mirror for the "
        "profile as it should be at that point, the returned tree through c13.check, and common.snapshot before / "
        "after every call must agree. single-call cases: alternative ids are non-negative integers; every range below exists with ids 1..m and with the 0-based ids "
        "0..m-1, about half of the random id pools contain 0 and the planted trees are relabelled so that 0 is an "
        "inner vertex. exhaustive: m = 2; every non-empty set of distinct strict orders over 3 alternatives (both storage orders); "
        "every set of <= 3 (quick) / <= 4 (thorough) distinct strict orders over 4 alternatives, stored in increasing "
        "and in decreasing lexicographic order (thorough: also all sets of 5, one storage order); all sets of <= 2 orders over three non-contiguous id sets of size 4; "
        "m = 5: the identity order with every other order, and with every pair of other orders (quick: 1200 sampled "
        "pairs). random: m in 4..7 (thorough: also 120 cases with m = 8) with arbitrary positive ids and multiplicities, uniformly random votes / votes grown "
        "from a random tree (path, star, caterpillar, random) +- noise votes (uniform or an adjacent swap of a planted "
        "vote); verdict compared with the reference c13.decide, which enumerates all (m-1)^(m-1) parent assignments. "
        "planted m in 7..30, n <= 30: votes grown from a random tree which itself passes c13.check, so the verdict "
        "must be True and the returned edge list must pass c13.check; the same sizes with noise votes: only 'True => "
        "valid tree' through the checker; the same two kinds with 65..140 alternatives (64 planted positives with 2..6 "
        "votes, 12 near misses in quick). On EVERY case the verdict is also compared with the mirror of the algorithm "
        "(Model/TreeAlgo.v, ops c13.algo / c13.algo2 = two different instantiations of the unspecified set iteration "
        "orders), which is proved to return exactly spt_decide's verdict at every size (trick_decides), so the "
        "large noisy cases are judged exactly as well. non-trivial = at least 4 alternatives and at least 2 distinct "
        "orders")
EXHAUSTIVE = {"quick": "m = 2; all sets of distinct strict orders for m = 3 (63 sets x 2 storage orders); all sets of "
                       "1..3 distinct orders for m = 4 x 2 storage orders; m = 5: identity + each other order; "
                       "each of these ranges also with the 0-based ids 0..m-1",
              "thorough": "m = 2; all sets of distinct strict orders for m = 3; all sets of 1..4 distinct orders for "
                          "m = 4 x 2 storage orders and all sets of 5 orders (one storage order); m = 5: identity "
                          "+ each other order, identity + each pair of other orders; m = 2, 3, 4 (sets of 1..4), "
                          "m = 5 (identity + each other order) also with the 0-based ids 0..m-1"}
TRUSTED = ["the mirror Model/TreeAlgo.v of is_single_peaked_on_tree / get_B / get_bottom_alts / restrict_preferences is "
           "hand-written; it is proved sound, complete and terminating for every admissible iteration order of the two "
           "Python sets, and tied to the code by comparing verdicts on every case (edge lists are not compared, they "
           "depend on set order; the implementation's list goes through the proved checker). "
           "OrdinalInstance.flatten_strict is not modelled (strict orders are passed as singleton classes)"]
ASSUMPTIONS = ["profiles of strict complete orders (data_type soc) over >= 2 alternatives with distinct non-negative "
               "integer ids (0 included); alternatives_name lists exactly the alternatives of the orders"]
TIMEOUT_S = 10.0
CHUNK = 25
THEOREMS_FOR_OP = {"c13.decide": "spt_decide_correct, spt_check_correct, trick_decides",
                   "c13.check": "spt_check_correct, trick_decides", "c13.witness": "spt_check_correct, trick_decides"}


# ---------------------------------------------------------------------------------------------------------------
def _mk(alts, orders, mults=None, **tags):
    """payload = [alts, [[order, mult], ...]] in storage order"""
    if mults is None:
        mults = [1] * len(orders)
    op = tags.pop("op", "c13.decide")
    return case(op, [list(alts), [[list(o), mu] for o, mu in zip(orders, mults)]], **tags)


def _grow_vote(rng, alts, adj):
    """a ranking every prefix of which is connected in the tree given by adj"""
    start = rng.choice(alts)
    vote, seen, frontier = [start], {start}, []
    frontier.extend(adj[start])
    while len(vote) < len(alts):
        cand = [x for x in set(frontier) if x not in seen]
        x = rng.choice(sorted(cand))
        vote.append(x)
        seen.add(x)
        frontier.extend(adj[x])
    return vote


def _rand_tree(rng, alts, shape=None):
    alts = list(alts)
    rng.shuffle(alts)
    shape = shape or rng.choice(["random", "path", "star", "caterpillar", "random"])
    edges = []
    for i in range(1, len(alts)):
        if shape == "path":
            j = i - 1
        elif shape == "star":
            j = 0
        elif shape == "caterpillar":
            j = rng.randrange(max(0, i - 3), i) if i % 2 else max(0, i - 2)
        else:
            j = rng.randrange(i)
        edges.append((alts[j], alts[i]))
    adj = {a: [] for a in alts}
    for a, b in edges:
        adj[a].append(b)
        adj[b].append(a)
    return edges, adj


def _ids(rng, m):
    """alternative ids: non-negative integers; about half of the pools contain 0 (samplers are 0-based)"""
    mode = rng.randrange(8)
    if mode == 0:
        return list(range(1, m + 1))
    if mode == 1:
        return rng.sample(range(1, 3 * m + 5), m)
    if mode == 2:
        return rng.sample(range(1, 10 ** 6), m)
    if mode == 3:
        a = list(range(1, m + 1))
        rng.shuffle(a)
        return a
    if mode == 4:
        return list(range(0, m))
    if mode == 5:
        a = list(range(0, m))
        rng.shuffle(a)
        return a
    a = [0] + rng.sample(range(1, (3 * m + 5) if mode == 6 else 10 ** 6), m - 1)
    rng.shuffle(a)
    return a


def _zero_inside(rng, edges):
    """relabel so that alternative 0 (if present) is an inner vertex of the tree whenever there is one"""
    deg = {}
    for a, b in edges:
        deg[a] = deg.get(a, 0) + 1
        deg[b] = deg.get(b, 0) + 1
    if 0 not in deg or deg[0] >= 2:
        return edges
    inner = sorted(x for x, d in deg.items() if d >= 2)
    if not inner:
        return edges
    x = rng.choice(inner)
    sw = {0: x, x: 0}
    return [(sw.get(a, a), sw.get(b, b)) for a, b in edges]


def _planted(rng, m, n, noise, **tags):
    alts = _ids(rng, m)
    edges, _ = _rand_tree(rng, alts)
    edges = _zero_inside(rng, edges)
    adj = {a: [] for a in alts}
    for a, b in edges:
        adj[a].append(b)
        adj[b].append(a)
    if noise == 0:
        tags["planted_tree"] = [list(e) for e in edges]
    orders = []
    for _ in range(n):
        v = _grow_vote(rng, alts, adj)
        if v not in orders:
            orders.append(v)
    for _ in range(noise):
        v = rand_perm(rng, alts)
        if rng.random() < 0.5 and orders:
            # a near miss: swap two adjacent positions of a planted vote
            v = list(rng.choice(orders))
            i = rng.randrange(m - 1)
            v[i], v[i + 1] = v[i + 1], v[i]
        if v not in orders:
            orders.append(v)
    rng.shuffle(orders)
    mults = [rng.choice([1, 1, 2, 3, 7]) for _ in orders]
    names = list(alts)
    rng.shuffle(names)
    return _mk(names, orders, mults, **tags)


def generate(tier, seed):
    rng = random.Random(1000003 * seed + 13)
    out = []
    # m = 2
    for orders in ([(1, 2)], [(2, 1)], [(1, 2), (2, 1)], [(2, 1), (1, 2)]):
        out.append(_mk([1, 2], orders, exh=2))
    out.append(_mk([7, 3], [(3, 7), (7, 3)], [2, 5], exh=2))
    for orders in ([(0, 1)], [(1, 0)], [(0, 1), (1, 0)], [(1, 0), (0, 1)]):
        out.append(_mk([0, 1], orders, exh=2))
    out.append(_mk([5, 0], [(0, 5), (5, 0)], [3, 1], exh=2))
    # m = 3: every non-empty set of orders, both storage orders
    perms3 = list(itertools.permutations((1, 2, 3)))
    for k in range(1, 7):
        for sub in itertools.combinations(perms3, k):
            out.append(_mk([1, 2, 3], sub, exh=3))
            if k > 1:
                out.append(_mk([3, 1, 2], sub[::-1], exh=3))
    # the same with the 0-based ids 0..2 (alternative 0 is a legitimate id)
    perms3z = list(itertools.permutations((0, 1, 2)))
    for k in range(1, 7):
        for sub in itertools.combinations(perms3z, k):
            out.append(_mk([0, 1, 2], sub, exh=3))
            if k > 1:
                out.append(_mk([2, 0, 1], sub[::-1], exh=3))
    # m = 4: every set of <= nmax orders, both storage orders
    perms4 = list(itertools.permutations((1, 2, 3, 4)))
    nmax = 3 if tier == "quick" else 4
    for k in range(1, nmax + 1):
        for sub in itertools.combinations(perms4, k):
            out.append(_mk([1, 2, 3, 4], sub, exh=4))
            if k > 1:
                out.append(_mk([1, 2, 3, 4], sub[::-1], exh=4))
    # the same sets over the 0-based ids 0..3, one storage order
    perms4z = list(itertools.permutations((0, 1, 2, 3)))
    for k in range(1, nmax + 1):
        for sub in itertools.combinations(perms4z, k):
            out.append(_mk([0, 1, 2, 3], sub, exh=4))
    if tier != "quick":      # all sets of 5 orders, one storage order
        for sub in itertools.combinations(perms4, 5):
            out.append(_mk([1, 2, 3, 4], sub, exh=4))
    # m = 4, sets of <= 2 orders over non-contiguous / unsorted ids (set iteration order differs)
    for ids in ([10, 3, 7, 22], [8, 16, 24, 32], [5, 4, 2, 9], [6, 0, 12, 3]):
        pp = list(itertools.permutations(ids))
        for k in (1, 2):
            for sub in itertools.combinations(pp, k):
                out.append(_mk(ids, sub, exh=4))
    # m = 5: the identity order plus one / two other orders (all of them in thorough, a sample in quick)
    perms5 = list(itertools.permutations((1, 2, 3, 4, 5)))
    ident, others = perms5[0], perms5[1:]
    for o in others:
        out.append(_mk([1, 2, 3, 4, 5], [ident, o], exh=5))
        out.append(_mk([0, 1, 2, 3, 4], [[a - 1 for a in o], [a - 1 for a in ident]], exh=5))
    pairs5 = list(itertools.combinations(others, 2))
    if tier == "quick":
        pairs5 = rng.sample(pairs5, 1200)
    for j, (o1, o2) in enumerate(pairs5):
        out.append(_mk([1, 2, 3, 4, 5], [o2, ident, o1], exh=5))
        if j % 2 == 0:      # 0-based copy
            out.append(_mk([0, 1, 2, 3, 4], [[a - 1 for a in o2], [a - 1 for a in ident], [a - 1 for a in o1]], exh=5))
    # random small, verdict compared with the reference
    nrand = 1500 if tier == "quick" else 10000
    for i in range(nrand):
        m = rng.choice([4, 5, 5, 6, 6, 7])
        if tier != "quick" and i % 83 == 41:
            m = 8                      # ~1 s and 200 MB per reference call: a few, thorough only
        kind = rng.randrange(5)
        if kind == 0:      # uniformly random orders (mostly negative beyond 3 votes)
            alts = _ids(rng, m)
            n = rng.randint(1, 4)
            orders = []
            for _ in range(n):
                v = rand_perm(rng, alts)
                if v not in orders:
                    orders.append(v)
            out.append(_mk(alts, orders, [rng.randint(1, 4) for _ in orders], rnd=1))
        elif kind in (1, 2):  # planted positives
            out.append(_planted(rng, m, rng.randint(2, 8), 0, rnd=1))
        else:              # planted + noise
            out.append(_planted(rng, m, rng.randint(2, 6), rng.randint(1, 2), rnd=1))
    # planted large: the profile is single-peaked on the planted tree (confirmed by c13.check on that tree),
    # so the verdict must be True and the returned edge list must pass c13.check
    nbig = 300 if tier == "quick" else 2500
    for i in range(nbig):
        m = rng.randint(7, 30)
        n = rng.randint(2, 30)
        out.append(_planted(rng, m, n, 0, op="c13.check", big=1))
    # large with noise votes: the reference cannot be run; only "True => valid tree" is checked
    nnoisy = 150 if tier == "quick" else 1500
    for i in range(nnoisy):
        m = rng.randint(7, 30)
        n = rng.randint(2, 20)
        out.append(_planted(rng, m, n, rng.randint(1, 2), op="c13.witness", big=1))
    # more than 64 alternatives (a bit-set rewrite on 64-bit words breaks there): planted positives, verdict must be
    # True and the tree must pass c13.check; a few near misses judged by the mirror
    nhuge = 64 if tier == "quick" else 500
    for i in range(nhuge):
        m = rng.choice([65, 66, 70, 80, 100, 130, 140]) if i % 2 else rng.randint(65, 140)
        out.append(_planted(rng, m, rng.randint(2, 6), 0, op="c13.check", big=2))
    for i in range(12 if tier == "quick" else 100):
        out.append(_planted(rng, rng.randint(65, 140), rng.randint(2, 5), 1, op="c13.witness", big=2))
    # histories on live objects (purity, aliasing of the returned list, object lifetime, storage order, numpy ids,
    # maintenance API in the middle)
    nhist = 1600 if tier == "quick" else 12000
    for i in range(nhist):
        hc = _hist_case(rng, i)
        if _hist_valid(hc["payload"]):
            out.append(hc)
    # the oracle side is split into contiguous chunks: spread the expensive reference calls (m >= 7) evenly
    random.Random(seed + 7).shuffle(out)
    return out



# ---------------------------------------------------------------------------------------------------------------
# History cases (op "c13.hist"): a script run inside ONE worker call on live instance objects.
# payload = [step, ...]; steps (nested ints only):
#   [0, alts, [[order, mult], ...], flags]  new instance by direct field assignment; flags: 1 = reverse instance.orders
#                                            in place, 2 = rotate the key order of instance.multiplicity,
#                                            4 = ids are numpy.int64, (flags >> 3) & 3 = the data_type LABEL set on
#                                            the instance: 0 soc, 1 soi, 2 toc, 3 toi (the content is strict and
#                                            complete whatever the label); the new instance becomes the current one
#   [9, alts, [[order, mult], ...], label]   new instance read by OrdinalInstance.parse_str from PrefLib text declared
#                                            with that label (file name extension, DATA TYPE header, parse_str argument)
#   [1, flags]                               new empty OrdinalInstance() (filled through the public API)
#   [2, order]                               current.append_order(order)
#   [3, [order, ...]]                        current.append_order_list(orders as tuples of singleton tuples)
#   [8, [[order, mult], ...]]                current.append_vote_map({...})
#   [4, which]                               maintenance call, result poisoned in place: 0 recompute_cardinality_param,
#                                            1 flatten_strict, 2 full_profile, 3 vote_map, 4 infer_type
#   [5]                                      CALL is_single_peaked_on_tree(current) (snapshot before / after)
#   [6]                                      poison the edge list returned by the last call in place
#   [7, k]                                   make the k-th instance created by this script the current one
# The judge simulates the script (what the profile of each instance should be at each CALL) and asks the model.
# ---------------------------------------------------------------------------------------------------------------
def _hist_sim(steps):
    """[(alts, orders)] at each CALL step: the profile the current instance should hold at that point"""
    insts, cur, calls = [], None, []

    def add(st, order):
        for a in order:
            if a not in st[0]:
                st[0].append(a)
        if list(order) not in st[1]:
            st[1].append(list(order))

    for stp in steps:
        k = stp[0]
        if k in (0, 9):
            st = [list(stp[1]), []]
            for o, _ in stp[2]:
                add(st, o)
            insts.append(st)
            cur = st
        elif k == 1:
            insts.append([[], []])
            cur = insts[-1]
        elif k == 2:
            add(cur, stp[1])
        elif k == 3:
            for o in stp[1]:
                add(cur, o)
        elif k == 8:
            for o, _ in stp[1]:
                add(cur, o)
        elif k == 5:
            calls.append((list(cur[0]), [list(o) for o in cur[1]]))
        elif k == 7:
            cur = insts[stp[1]]
    return calls


_LABELS = ["soc", "soi", "toc", "toi"]


def _hist_impl(c):
    import numpy as np
    from preflibtools.instances import OrdinalInstance
    from preflibtools.properties.subdomains.ordinal.singlepeaked.single_peaked_tree import is_single_peaked_on_tree
    insts, flags_of, cur, last_tree = [], [], None, None
    results, diffs = [], []

    def conv(x, fl):
        return np.int64(x) if fl & 4 else x

    for si, stp in enumerate(c["payload"]):
        k = stp[0]
        if k == 0:
            fl = stp[3]
            inst = ordinal_instance([([[conv(a, fl)] for a in o], mu) for o, mu in stp[2]], data_type="soc",
                                    alts=[conv(a, fl) for a in stp[1]])
            if fl & 1:
                inst.orders.reverse()                      # in place: `preferences` stays an alias
            if fl & 2 and len(inst.multiplicity) > 1:
                k0 = next(iter(inst.multiplicity))
                inst.multiplicity[k0] = inst.multiplicity.pop(k0)
            inst.data_type = _LABELS[(fl >> 3) & 3]
            insts.append(inst)
            flags_of.append(fl)
            cur = len(insts) - 1
        elif k == 9:
            dt = _LABELS[stp[3] & 3]
            prof = stp[2]
            lines = ["# FILE NAME: x." + dt, "# TITLE: t", "# DATA TYPE: " + dt,
                     "# NUMBER ALTERNATIVES: %d" % len(stp[1]), "# NUMBER VOTERS: %d" % sum(mu for _, mu in prof),
                     "# NUMBER UNIQUE ORDERS: %d" % len(prof)]
            for a in stp[1]:
                lines.append("# ALTERNATIVE NAME %d: Alternative %d" % (a, a))
            for o, mu in prof:
                lines.append("%d: %s" % (mu, ",".join(str(a) for a in o)))
            inst = OrdinalInstance()
            inst.parse_str("\n".join(lines) + "\n", dt)
            insts.append(inst)
            flags_of.append(0)
            cur = len(insts) - 1
        elif k == 1:
            insts.append(OrdinalInstance())
            flags_of.append(stp[1])
            cur = len(insts) - 1
        elif k == 2:
            insts[cur].append_order(tuple(conv(a, flags_of[cur]) for a in stp[1]))
        elif k == 3:
            insts[cur].append_order_list([tuple((conv(a, flags_of[cur]),) for a in o) for o in stp[1]])
        elif k == 8:
            insts[cur].append_vote_map({tuple((conv(a, flags_of[cur]),) for a in o): mu for o, mu in stp[1]})
        elif k == 4:
            inst = insts[cur]
            w = stp[1]
            if w == 0:
                inst.recompute_cardinality_param()
            elif w == 1:
                res = inst.flatten_strict()
                res.reverse()
                res.append(((-1,), 99))
                del res[:1]
            elif w == 2:
                res = inst.full_profile()
                res.append(((-1,),))
                res.reverse()
                res.clear()
            elif w == 3:
                res = inst.vote_map()
                res[((-1,),)] = 5
                for key in list(res)[:1]:
                    res.pop(key)
            else:
                inst.infer_type()
        elif k == 5:
            inst = insts[cur]
            before = snapshot(inst)
            r = guarded(is_single_peaked_on_tree, inst)
            d = snap_diff(before, snapshot(inst))
            if d:
                diffs.append([si, d])
            if r[0] != 0:
                results.append(["err", r])
                last_tree = None
                continue
            res = r[1]
            if not (isinstance(res, tuple) and len(res) == 2):
                results.append(["err", "returned %r" % (res,)])
                continue
            verdict, tree = res
            last_tree = tree
            if isinstance(verdict, (bool, np.bool_)) and bool(verdict):
                try:
                    results.append([1, [[int(a), int(b)] for a, b in tree]])
                except Exception:
                    results.append(["err", "returned tree is not a list of pairs: %r" % (tree,)])
            elif isinstance(verdict, (bool, np.bool_)):
                results.append([0, []] if tree is None else ["err", "verdict False with a tree %r" % (tree,)])
            else:
                results.append(["err", "verdict is not a bool: %r" % (verdict,)])
        elif k == 6:
            if isinstance(last_tree, list):
                last_tree.append((-7, -7))
                last_tree.reverse()
                if len(last_tree) > 1:
                    last_tree[1] = last_tree[0]
                del last_tree[2:]
        elif k == 7:
            cur = stp[1]
    return {"hist": results, "diff": diffs}


def _hist_requests(c, r):
    calls = _hist_sim(c["payload"])
    reqs = []
    res = r.get("hist", []) if isinstance(r, dict) else []
    for i, (alts, orders) in enumerate(calls):
        reqs.append(("c13.algo", [alts, orders]))
        edges = res[i][1] if i < len(res) and res[i][0] == 1 else []
        reqs.append(("c13.check", [alts, orders, edges]))
    return reqs


def _hist_judge(c, r, mres):
    if not (isinstance(r, dict) and "hist" in r):
        return {"kind": "exception", "reason": "history script failed: %r" % (r,)}
    calls = _hist_sim(c["payload"])
    res = r["hist"]
    if len(res) != len(calls):
        return {"kind": "broken-correspondence", "reason": "history: %d calls, %d results" % (len(calls), len(res))}
    for i, (alts, orders) in enumerate(calls):
        a, chk = mres[2 * i], mres[2 * i + 1]
        if a[0] != 0:
            return {"kind": "broken-correspondence", "reason": "mirror ran out of fuel on call %d" % i}
        av = a[1][0]
        if res[i][0] == "err":
            return {"kind": "exception", "reason": "call %d of the history (profile %r over %r): %r"
                                                   % (i, orders, alts, res[i][1])}
        if res[i][0] != av:
            return {"kind": "mismatch", "theorem": "trick_decides",
                    "reason": "call %d of the history: verdict %s, but the profile at that point (%r over %r) gives %s"
                              % (i, bool(res[i][0]), orders, alts, bool(av))}
        if res[i][0] == 1 and chk != 1:
            return {"kind": "mismatch", "theorem": "spt_check_correct",
                    "reason": "call %d of the history: verdict True but the edge list %r is rejected by spt_check for "
                              "the profile at that point (%r over %r)" % (i, res[i][1], orders, alts)}
    if r["diff"]:
        si, d = r["diff"][0]
        return {"kind": "mismatch", "theorem": "purity (the next call on the same object must see the same profile)",
                "reason": "is_single_peaked_on_tree modified the instance it was asked about (step %d): %s" % (si, d)}
    return None


def _hist_profile(rng, alts, kind):
    """(orders, adj or None): distinct strict complete orders over alts"""
    m = len(alts)
    if kind == "random":
        orders = []
        for _ in range(rng.randint(1, 4)):
            v = rand_perm(rng, alts)
            if v not in orders:
                orders.append(v)
        return orders, None
    edges, _ = _rand_tree(rng, alts)
    edges = _zero_inside(rng, edges)
    adj = {a: [] for a in alts}
    for a, b in edges:
        adj[a].append(b)
        adj[b].append(a)
    orders = []
    for _ in range(rng.randint(1, 6)):
        v = _grow_vote(rng, alts, adj)
        if v not in orders:
            orders.append(v)
    if kind == "noisy":
        v = list(rng.choice(orders))
        i = rng.randrange(m - 1)
        v[i], v[i + 1] = v[i + 1], v[i]
        if rng.random() < 0.5:
            v = rand_perm(rng, alts)
        if v not in orders:
            orders.append(v)
    rng.shuffle(orders)
    return orders, adj


def _hist_case(rng, i):
    m = rng.choice([3, 4, 4, 5, 5, 6, 7, 9, 12])
    alts = _ids(rng, m)
    kind = rng.choice(["planted", "planted", "noisy", "random"])
    orders, adj = _hist_profile(rng, alts, kind)
    names = list(alts)
    rng.shuffle(names)                                  # alternatives_name not ascending
    fl = rng.choice([0, 1, 2, 3, 3, 4, 5, 6, 7])
    if rng.random() < 0.3:
        fl |= rng.randrange(1, 4) << 3                  # label soi / toc / toi on strict complete content
    prof = [[o, rng.choice([1, 1, 2, 5])] for o in orders]
    build = [0, names, prof, fl]

    def extra_vote():
        if adj is not None and rng.random() < 0.6:
            return _grow_vote(rng, alts, adj)
        return rand_perm(rng, alts)

    t = i % 8
    if t == 7:      # every data_type label on strict complete content, set by hand and declared to parse_str
        lab = (i // 8) % 4
        if (i // 32) % 2:
            build = [9, names, prof, lab]
        else:
            build = [0, names, prof, (fl & 7) | (lab << 3)]
        steps = [build, [5], [5]]
    elif t == 0:      # the same question twice on one object
        steps = [build, [5], [5]]
    elif t == 1:    # an append in between (the answer may change)
        steps = [build, [5], [2, extra_vote()], [5], [3, [extra_vote(), extra_vote()]], [5]]
    elif t == 2:    # poison the returned edge list and re-ask
        steps = [build, [5], [6], [5], [6], [5]]
    elif t == 3:    # another profile first (same ids / other m / rejected early), then the profile under test, then back
        m2 = rng.choice([m, m, max(3, m - 1), m + 1])
        pool = list(alts) + [x for x in range(0, 40) if x not in alts]
        alts2 = pool[:m2] if rng.random() < 0.7 else rng.sample(pool, m2)
        o2, _ = _hist_profile(rng, alts2, rng.choice(["random", "random", "noisy", "planted"]))
        n2 = list(alts2)
        rng.shuffle(n2)
        steps = [[0, n2, [[o, 1] for o in o2], rng.choice([0, 3])], [5], build, [5], [7, 0], [5], [7, 1], [5]]
    elif t == 4:    # public API, maintenance calls in the middle of the history
        k = rng.randint(1, len(orders))
        p1, p2 = orders[:k], orders[k:] + [extra_vote()]
        steps = [[1, fl & 4], [3, p1], [4, 0], [3, p2], [4, rng.choice([1, 2, 3])], [5],
                 [4, rng.choice([0, 1, 2, 3, 4])], [5]]
    elif t == 5:    # append_order / append_vote_map, accessors poisoned
        steps = [[1, fl & 4]] + [[2, o] for o in orders] + [[4, 1], [5], [8, [[extra_vote(), 2]]], [4, 0], [4, 3], [5]]
    else:           # maintenance on a directly built instance with decoupled storage orders
        steps = [build, [4, rng.choice([0, 1, 2, 3, 4])], [5], [4, 0], [2, extra_vote()], [4, 1], [5], [6], [5]]
    return case("c13.hist", steps, hist=t)


# ---------------------------------------------------------------------------------------------------------------
def impl(c):
    if c["op"] == "c13.hist":
        return _hist_impl(c)
    from preflibtools.properties.subdomains.ordinal.singlepeaked.single_peaked_tree import is_single_peaked_on_tree
    alts, prof = c["payload"]
    inst = ordinal_instance([(strict(o), mu) for o, mu in prof], data_type="soc", alts=alts)
    salt = common.salt_of(c["payload"])
    if salt % 3 == 0:       # call / in-place edit / call: the same object held a decoy profile of the same shape first
        inst, _ = common.prime_stale(inst, [is_single_peaked_on_tree], salt // 3)
    r = guarded(is_single_peaked_on_tree, inst)
    if r[0] != 0:
        return r
    res = r[1]
    if not (isinstance(res, tuple) and len(res) == 2):
        return {"crash": "is_single_peaked_on_tree returned %r" % (res,)}
    verdict, tree = res
    if verdict is True:
        try:
            edges = [[int(a), int(b)] for a, b in tree]
        except Exception:
            return {"crash": "returned tree is not a list of pairs of alternatives: %r" % (tree,)}
        return [0, [1, edges]]
    if verdict is False:
        if tree is not None:
            return {"crash": "verdict False with a tree %r" % (tree,)}
        return [0, [0, []]]
    return {"crash": "verdict is not a bool: %r" % (verdict,)}


def _orders(c):
    return [o for o, _ in c["payload"][1]]


def _plan(c):
    """labels of the oracle requests of a case, in order"""
    plan = []
    if c["op"] == "c13.decide":
        plan.append("decide")
    plan.append("check")
    plan.append("algo")
    plan.append("algo2")
    if c["tags"].get("planted_tree"):
        plan.append("planted")
    if len(c["payload"][0]) <= 4:
        plan.append("check_slow")
        if c["op"] == "c13.decide":
            plan.append("decide_slow")
    return plan


def oracle_requests(c, r):
    if c["op"] == "c13.hist":
        return _hist_requests(c, r)
    alts = c["payload"][0]
    orders = _orders(c)
    edges = []
    if isinstance(r, list) and r and r[0] == 0 and r[1][0] == 1:
        edges = r[1][1]
    reqs = []
    for lb in _plan(c):
        if lb == "decide":
            reqs.append(("c13.decide", [alts, orders]))
        elif lb == "decide_slow":
            reqs.append(("c13.decide_slow", [alts, orders]))
        elif lb == "check":
            reqs.append(("c13.check", [alts, orders, edges]))
        elif lb == "check_slow":
            reqs.append(("c13.check_slow", [alts, orders, edges]))
        elif lb == "planted":
            reqs.append(("c13.check", [alts, orders, c["tags"]["planted_tree"]]))
        elif lb == "algo":
            reqs.append(("c13.algo", [alts, orders]))
        elif lb == "algo2":
            reqs.append(("c13.algo2", [alts, orders]))
    return reqs


def _m(c, mres):
    return dict(zip(_plan(c), mres))


def judge(c, r, mres):
    if c["op"] == "c13.hist":
        return _hist_judge(c, r, mres)
    if not (isinstance(r, list) and r and r[0] == 0):
        return {"kind": "exception", "reason": "is_single_peaked_on_tree raised: %r" % (r,)}
    verdict, edges = r[1]
    m = _m(c, mres)
    if "planted" in m and m["planted"] != 1:
        return {"kind": "broken-correspondence", "reason": "generator: planted tree rejected by spt_check"}
    if "check_slow" in m and m["check_slow"] != m["check"]:
        return {"kind": "broken-correspondence", "reason": "spt_checkf and spt_check disagree"}
    if "decide_slow" in m and m["decide_slow"] != m["decide"]:
        return {"kind": "broken-correspondence", "reason": "spt_decide and spt_decide_slow disagree"}
    # the mirror of the algorithm (Model/TreeAlgo.v), two instantiations of the unspecified set orders
    for lb in ("algo", "algo2"):
        a = m[lb]
        if a[0] != 0:
            return {"kind": "broken-correspondence", "reason": "mirror %s ran out of fuel (trick_terminates)" % lb}
        av, aedges, achk = a[1]
        if av == 1 and achk != 1:
            return {"kind": "broken-correspondence",
                    "reason": "mirror %s answers True with an edge list rejected by spt_check (trick_sound)" % lb}
        if "decide" in m and av != m["decide"]:
            return {"kind": "broken-correspondence",
                    "reason": "mirror %s verdict %s, reference %s (trick_sound / trick_complete)" % (lb, av, m["decide"])}
        if av != verdict:
            return {"kind": "mismatch", "theorem": "trick_sound, trick_complete",
                    "reason": "verdict %s, mirror of the algorithm (%s) says %s" % (bool(verdict), lb, bool(av))}
    if "decide" in m:
        if m.get("planted") == 1 and m["decide"] != 1:
            return {"kind": "broken-correspondence", "reason": "spt_decide rejects a profile with a checked witness"}
        if verdict != m["decide"]:
            return "verdict %s, reference spt_decide says %s" % (bool(verdict), bool(m["decide"]))
    elif c["op"] == "c13.check":
        # the planted tree passed the proved checker, hence the profile is single-peaked on a tree
        if verdict != 1:
            return "verdict False on a profile that is single-peaked on the tree %r (accepted by spt_check)" \
                   % (c["tags"]["planted_tree"],)
    if verdict == 1 and m["check"] != 1:
        return "verdict True but the returned edge list %r is rejected by spt_check" % (edges,)
    return None


def _hist_valid(steps):
    try:
        calls = _hist_sim(steps)
    except Exception:
        return False
    if not calls:
        return False
    for alts, orders in calls:
        if len(alts) < 2 or not orders or any(sorted(o) != sorted(alts) for o in orders):
            return False
    return True


def nontrivial(c, r, m):
    if c["op"] == "c13.hist":
        calls = _hist_sim(c["payload"])
        return len(calls) >= 2 and any(len(a) >= 4 and len(o) >= 2 for a, o in calls)
    return len(c["payload"][0]) >= 4 and len(c["payload"][1]) >= 2


def stats(c, r, m):
    if c["op"] == "c13.hist":
        names = ["twice", "append between", "poisoned tree", "other profile first", "API + maintenance",
                 "append_order/vote_map + accessors", "direct + maintenance", "data_type labels"]
        out = ["history: %s" % names[c["tags"].get("hist", 0) % 8]]
        for stp in c["payload"]:
            if stp[0] == 0:
                out.append("label %s set by hand" % _LABELS[(stp[3] >> 3) & 3])
            elif stp[0] == 9:
                out.append("label %s declared to parse_str" % _LABELS[stp[3] & 3])
        try:
            vs = "".join("T" if x[0] == 1 else "F" for x in r["hist"])
            out.append("history verdicts %s" % ("constant" if len(set(vs)) == 1 else "change along the history"))
            if any(stp[0] in (0, 1) and (stp[-1] & 4) for stp in c["payload"]):
                out.append("history with numpy.int64 ids")
        except Exception:
            pass
        return out
    mm = len(c["payload"][0])
    n = len(c["payload"][1])
    d = _m(c, m)
    v = "?"
    if isinstance(r, list) and r and r[0] == 0:
        v = "T" if r[1][0] == 1 else "F"
    zero = ["id 0 %s, verdict %s" % ("present" if 0 in c["payload"][0] else "absent", v)]
    mirror = []
    try:
        a1, a2 = d["algo"][1], d["algo2"][1]
        mirror.append("mirror verdicts (first/last, fwd/bwd) %s" % ("agree" if a1[0] == a2[0] else "DIFFER"))
        if a1[0] == 1:
            mirror.append("mirror edge lists %s" % ("equal" if a1[1] == a2[1] else "differ (both valid)"))
    except Exception:
        mirror.append("mirror error")
    if c["op"] == "c13.decide":
        ref = "T" if d["decide"] == 1 else "F"
        return ["decide m=%d ref=%s" % (mm, ref), "decide n=%s ref=%s" % (n if n <= 4 else ">4", ref)] + mirror + zero
    size = "7-15" if mm <= 15 else ("16-30" if mm <= 30 else "65-140")
    if c["op"] == "c13.check":
        return ["planted m=%s verdict=%s witness=%s" % (size, v, "ok" if d["check"] == 1 else "bad")] + mirror + zero
    return ["noisy-large m=%s verdict=%s%s" % (size, v, " witness=ok" if (v == "T" and d["check"] == 1) else "")] + mirror + zero


def describe(c):
    if c["op"] == "c13.hist":
        return {"script (see the comment above _hist_sim in harness/props/c13.py)": c["payload"],
                "profile at each call": _hist_sim(c["payload"])}
    return {"alternatives_name keys": c["payload"][0],
            "orders (storage order) with multiplicities": c["payload"][1],
            "call": "is_single_peaked_on_tree(instance)", "compared_with": c["op"]}


def shrink(c):
    if c["op"] == "c13.hist":
        steps = c["payload"]
        cands = []
        for i, stp in enumerate(steps):
            if stp[0] not in (0, 1, 7, 9):
                cands.append(steps[:i] + steps[i + 1:])
        for i, stp in enumerate(steps):
            if stp[0] == 0:
                for j in range(len(stp[2])):
                    cands.append(steps[:i] + [[0, stp[1], stp[2][:j] + stp[2][j + 1:], stp[3]]] + steps[i + 1:])
                if stp[3]:
                    cands.append(steps[:i] + [[0, stp[1], stp[2], 0]] + steps[i + 1:])
            if stp[0] == 3 and len(stp[1]) > 1:
                for j in range(len(stp[1])):
                    cands.append(steps[:i] + [[3, stp[1][:j] + stp[1][j + 1:]]] + steps[i + 1:])
        for cand in cands:
            if _hist_valid(cand):
                yield dict(c, payload=cand)
        return
    alts, prof = c["payload"]
    for i in range(len(prof)):
        if len(prof) > 1:
            yield dict(c, payload=[alts, prof[:i] + prof[i + 1:]])     # a sub-profile keeps the planted witness
    for i in range(len(prof)):
        if prof[i][1] > 1:
            yield dict(c, payload=[alts, prof[:i] + [[prof[i][0], 1]] + prof[i + 1:]])
    if len(alts) > 2 and c["op"] == "c13.decide":
        for x in alts:
            na = [a for a in alts if a != x]
            seen, np_ = [], []
            for o, mu in prof:
                o2 = [a for a in o if a != x]
                if o2 not in seen:
                    seen.append(o2)
                    np_.append([o2, mu])
            yield dict(c, payload=[na, np_])
