"""C17 — CategoricalInstance.from_ordinal / factorise_instance / recompute_cardinality_param conserve voters."""
import itertools
import random
from math import ceil

from core import proto
from .common import case, guarded, ordinal_instance, weak_orders, rand_weak_order, snapshot, snap_diff

ID = "C17"
COVER_FILES = ['instances/preflibinstance/categorical.py']
RULE = ("exhaustive: every source made of 1-2 distinct weak (possibly incomplete) orders over <= 3 alternatives x "
        "every list of 1-2 positive truncators <= 3 for size_truncators and for num_indif_classes x a fixed set of "
        "relative truncator lists; the parameter-combination guards; random: weak incomplete instances (m <= 7, "
        "n <= 6) whose orders share flattened sequences and differ in their tie structure, with coarse truncation, "
        "so that different orders collapse to one ballot; factorise_instance on random raw ballot lists with "
        "repetitions; histories on one object / two objects alive at once (see ASSUMPTIONS). non-trivial = at least two source orders collapse to one ballot (from_ordinal) / the raw list "
        "contains a repeated ballot (factorise_instance)")
EXHAUSTIVE = {
    "quick": "sources of 1-2 distinct orders (all 25 non-empty weak orders over subsets of {1,2,3}; multiplicities "
             "1,2 / (1,1),(1,2)) and all 75 complete weak orders over {1,2,3,4} as single-order sources x all truncator "
             "lists of length 1-2 over {1,2,3} (absolute sizes, class counts) x 6 relative lists; all 8 None/non-None "
             "parameter combinations; factorise_instance on all lists of length <= 4 over 3 ballots",
    "thorough": "same with multiplicities in {1,2}^k and truncator lists of length 1-3 over {1,2,3}, 9 relative "
                "lists; factorise_instance on all lists of length <= 5 over 3 ballots",
}
TRUSTED = [
    "modelled: CategoricalInstance.from_ordinal (guards, the three per-order category constructions, padding, "
    "accumulation into preferences/multiplicity, counters), factorise_instance, recompute_cardinality_param",
    "relative_size_truncators are floats: the harness repeats the normalisation `t / sum(ts)` when sum(ts) != 1 and "
    "tabulates n -> int(ceil(n * t)) with the same Python float arithmetic; the model receives these integer tables "
    "(the theorems hold for arbitrary tables); IEEE arithmetic and math.ceil are trusted. If the implementation's "
    "result differs from the model's in this mode it is still accepted when the verified checker conv_check "
    "(conv_check_correct: sound and complete for ValidConversion) accepts it, every empty category is trailing "
    "(trailing_ok_correct / fo_empty_categories_trailing) and the counters are consistent, because the property "
    "claims no category sizes for relative truncators",
]
ASSUMPTIONS = [
    "history cases (c17.fo_hist / c17.two_alive / c17.fact_hist): the source instance and the argument lists of "
    "from_ordinal are inputs only (semantic snapshot before/after, same argument objects used for a second call); "
    "results are independent objects (modifying one conversion changes neither the source, nor an earlier "
    "conversion, nor a fresh CategoricalInstance()); numpy.int64 multiplicities / truncators and numpy.float64 "
    "relative truncators are accepted like equal Python numbers; storage order of orders / multiplicity / "
    "alternatives_name is not an input; maintenance calls on the source (recompute_cardinality_param, flatten_strict, "
    "vote_map, full_profile, infer_type) and the modification of their results do not change a later conversion; in "
    "factorise histories every factorisation is judged by the model on the state the instance had just before it",
    "category_name (documented, never read by the current code) is None or a list of str of any length; it is passed "
    "in about 20 % of the from_ordinal cases; the model ignores it (fo_category_name_ignored) and the names "
    "themselves are not compared (the property does not name them), only len(categories_name) = num_categories. "
    "When names are given and the result differs from the model's, it is accepted iff it differs only by a larger "
    "COMMON padding width (same ballots and multiplicities after stripping trailing empty categories, counters "
    "consistent); that every ballot has exactly num_categories categories is checked directly on every result",
    "source instances are non-empty, orders are non-empty tuples of non-empty classes of non-negative integer ids, "
    "no alternative twice in an order, multiplicities >= 1, multiplicity keys distinct",
    "truncator lists are non-empty lists of positive values (an EMPTY list passes the guards and produces ballots "
    "with zero categories: reported, not part of the campaign)",
    "factorise_instance(reset_multiplicity=False) is exercised only with an empty multiplicity table (with a stale "
    "table the code adds the counts to the stale values; stated as a theorem, not compared)",
]
TIMEOUT_S = 30.0
CHUNK = 400

REL_LISTS_QUICK = [[0.5, 0.5], [1, 1, 2], [0.3, 0.3, 0.4], [1.0], [0.25, 0.75], [2, 1]]
REL_LISTS_MORE = [[0.2, 0.8], [1 / 3, 1 / 3, 1 / 3], [0.1, 0.2, 0.3, 0.4]]


# ---------------------------------------------------------------------------------------------------------
def normalise(rel):
    """the same statements as in from_ordinal"""
    if rel and sum(rel) != 1:
        total = sum(rel)
        rel = [trunc / total for trunc in rel]
    return rel


def rel_tables(rel, maxlen):
    rel = normalise(list(rel))
    return [[int(ceil(n * t)) for n in range(maxlen + 1)] for t in rel]


def opt(x):
    return [] if x is None else [x]


CAT_WORDS = ["Top", "Middle", "Low", "Rest", "Extra", "More", "Spare", "Last"]


def cat_names(n):
    return [CAT_WORDS[i % len(CAT_WORDS)] + ("" if i < len(CAT_WORDS) else str(i)) for i in range(n)]


def with_names(c, variant):
    """the same case with a category_name argument: variant 0: None (explicitly), 1: one name per truncator
    (the extra "rest" category has no name: too few whenever some order is not exhausted), 2: one name per
    truncator + 1, 3: a single name, 4: three names too many, 5: the empty list"""
    pl = list(c["payload"])
    nt = 0
    for k in (3, 4):
        if pl[k]:
            nt = len(pl[k][0])
    if pl[5]:
        nt = len(pl[5][0])
    n = [None, nt, nt + 1, 1, nt + 4, 0][variant]
    pl = pl[:6] + [[] if n is None else [[proto.text(w) for w in cat_names(n)]]]
    return dict(c, payload=proto.norm(pl), tags=dict(c["tags"], names=variant))


def fo_case(src, nic=None, st=None, rel=None, alts=None, num_alts=None, **tags):
    """src: list of (order, mult)."""
    if alts is None:
        alts = sorted({a for o, _ in src for c in o for a in c})
    names = [[a, proto.text("Alt %d" % a)] for a in alts]
    if num_alts is None:
        num_alts = len(alts)
    maxlen = max([len(o) for o, _ in src] + [0])
    rst = None if rel is None else rel_tables(rel, maxlen)
    payload = [num_alts, names, [[o, m] for o, m in src], opt(nic), opt(st), opt(rst), []]
    if rel is not None:
        tags["rel"] = list(rel)
    return case("c17.from_ordinal", payload, **tags)


def all_small_orders(universe):
    out = []
    for k in range(1, len(universe) + 1):
        for sub in itertools.combinations(universe, k):
            out.extend(weak_orders(sub))
    return out


def trunc_lists(values, maxlen):
    out = []
    for k in range(1, maxlen + 1):
        out.extend(list(t) for t in itertools.product(values, repeat=k))
    return out


def retie(rng, flat, p_tie):
    out = [[flat[0]]]
    for x in flat[1:]:
        if rng.random() < p_tie:
            out[-1].append(x)
        else:
            out.append([x])
    return out


def retie_mask(flat, mask):
    """mask[i] = 1: flat[i+1] is tied with flat[i]"""
    out = [[flat[0]]]
    for x, tie in zip(flat[1:], mask):
        if tie:
            out[-1].append(x)
        else:
            out.append([x])
    return out


def random_source(rng):
    m = rng.randint(2, 7)
    alts = rng.sample(range(1, 40), m)
    n = rng.randint(1, 6)
    nbase = rng.randint(1, 2)
    bases = []
    for _ in range(nbase):
        b = list(alts)
        rng.shuffle(b)
        if rng.random() < 0.6:
            b = b[: rng.randint(1, m)]
        bases.append(b)
    orders = []
    for _ in range(n):
        if rng.random() < 0.8:
            o = retie(rng, rng.choice(bases), rng.choice([0.2, 0.5, 0.8]))
        else:
            o = rand_weak_order(rng, alts, p_tie=0.4, complete=False)
        if o not in orders:
            orders.append(o)
    src = [(o, rng.randint(1, 4)) for o in orders]
    extra = rng.sample(range(41, 60), rng.randint(0, 2))
    return src, sorted(alts + extra)


def random_ballot(rng, alts):
    a = list(alts)
    rng.shuffle(a)
    a = a[: rng.randint(0, len(a))]
    k = rng.randint(1, 3)
    cats = [[] for _ in range(k)]
    for x in a:
        cats[rng.randrange(k)].append(x)
    return cats


def _generate2(tier, seed):
    out = _generate(tier, seed)
    # category_name (documented, currently ignored) on ~20 % of the from_ordinal cases, all variants, all modes
    res, k = [], 0
    for c in out:
        res.append(c)
        if c["op"] == "c17.from_ordinal" and not c["tags"].get("guard"):
            k += 1
            if k % 5 == 0:
                res[-1] = with_names(c, (k // 5) % 6)
    # incomplete instances whose ballots have different lengths before padding, every naming variant, every mode
    rng = random.Random(1000003 * seed + 1717)
    base = [([[1], [2], [3], [4], [5], [6], [7]], 3), ([[7], [6], [5], [4], [3], [2], [1]], 2),
            ([[1, 2], [3], [4, 5], [6]], 4), ([[2], [1], [3]], 2), ([[2], [1]], 5), ([[1], [2]], 1)]
    fam = [dict(st=[2, 2]), dict(nic=[1, 1]), dict(rel=[0.25, 0.25]), dict(st=[3]), dict(nic=[2]), dict(rel=[0.5, 0.5])]
    for kw in fam:
        for v in range(6):
            res.append(with_names(fo_case(base, alts=[1, 2, 3, 4, 5, 6, 7], exh=1, **kw), v))
    for i in range(150 if tier == "quick" else 1500):
        src, alts = random_source(rng)
        src = src + [([[alts[0]]], 1)] if all(o != [[alts[0]]] for o, _ in src) else src
        mode = i % 3
        t = [rng.randint(1, 3) for _ in range(rng.randint(1, 3))]
        kw = [dict(st=t), dict(nic=t), dict(rel=rng.choice(REL_LISTS_QUICK + REL_LISTS_MORE))][mode]
        res.append(with_names(fo_case(src, alts=alts, rnd=1, **kw), 1 + i % 5))
    return res


def _generate(tier, seed):
    rng = random.Random(1000003 * seed + 17)
    quick = tier == "quick"
    out = []
    # ---- parameter guards: all 8 None / non-None combinations, plus falsy-but-not-None variants -------------
    gsrc = [([[1], [2, 3]], 2), ([[2], [1]], 1)]
    for a, b, c in itertools.product([0, 1], repeat=3):
        out.append(fo_case(gsrc, nic=[1] if a else None, st=[2] if b else None, rel=[0.5, 0.5] if c else None,
                           guard=1, exh=1))
    # ---- exhaustive small ------------------------------------------------------------------------------------
    orders = all_small_orders([1, 2, 3])
    sources = []
    mults1 = [1, 2]
    mults2 = [(1, 1), (1, 2)] if quick else [(1, 1), (1, 2), (2, 1), (2, 2)]
    for o in orders:
        for m in mults1:
            sources.append([(o, m)])
    for o1, o2 in itertools.permutations(orders, 2):
        for m1, m2 in mults2:
            sources.append([(o1, m1), (o2, m2)])
    tl = trunc_lists([1, 2, 3], 2 if quick else 3)
    rels = REL_LISTS_QUICK if quick else REL_LISTS_QUICK + REL_LISTS_MORE
    for src in sources:
        for t in tl:
            out.append(fo_case(src, st=t, alts=[1, 2, 3], exh=1))
            out.append(fo_case(src, nic=t, alts=[1, 2, 3], exh=1))
        for r in rels:
            out.append(fo_case(src, rel=r, alts=[1, 2, 3], exh=1))
    # single orders over <= 4 alternatives (a truncation point of 3 inside a longer order)
    for o in all_small_orders([1, 2, 3, 4]):
        if sum(len(c) for c in o) < 4:
            continue
        for t in tl:
            out.append(fo_case([(o, 2)], st=t, alts=[1, 2, 3, 4], exh=1))
            out.append(fo_case([(o, 2)], nic=t, alts=[1, 2, 3, 4], exh=1))
        for r in rels:
            out.append(fo_case([(o, 2)], rel=r, alts=[1, 2, 3, 4], exh=1))
    # every complete weak order over 5 alternatives x two or three absolute truncators: all the ways in which an
    # indifference class can overshoot a truncation point while another truncator follows
    tl5 = trunc_lists([1, 2, 3], 2)[3:] if quick else trunc_lists([1, 2, 3], 3)[3:]
    for o in weak_orders([0, 1, 2, 3, 4]):
        for t in tl5:
            out.append(fo_case([(o, 3)], st=t, alts=[0, 1, 2, 3, 4], exh=1))
    out.append(fo_case([([[0], [1, 2], [3], [4]], 2)], st=[2, 2], exh=1))
    out.append(fo_case([([[0, 1], [2]], 1)], st=[1, 1], exh=1))
    # same flattening, different tie structure, DIFFERENT multiplicities, one truncator: collapses in all three modes
    for m in range(2, 5 if quick else 6):
        flat = list(range(1, m + 1))
        ties = [retie_mask(flat, mask) for mask in itertools.product([0, 1], repeat=m - 1)]
        for o1, o2 in itertools.permutations(ties, 2):
            src = [(o1, 2), (o2, 5)]
            for t in range(1, m + 1):
                out.append(fo_case(src, st=[t], alts=flat, exh=1))
                out.append(fo_case(src, nic=[t], alts=flat, exh=1))
            for r in ([1.0], [0.5, 0.5], [1, 1, 2]):
                out.append(fo_case(src, rel=r, alts=flat, exh=1))
    # ---- random, collapse-prone ------------------------------------------------------------------------------
    nrand = 3000 if quick else 40000
    for i in range(nrand):
        src, alts = random_source(rng)
        mode = i % 3
        num_alts = len(alts) if rng.random() < 0.9 else len(alts) + rng.randint(1, 3)
        if mode == 0:
            t = [rng.randint(1, 4) for _ in range(rng.randint(1, 3))]
            out.append(fo_case(src, st=t, alts=alts, num_alts=num_alts, rnd=1))
        elif mode == 1:
            t = [rng.randint(1, 3) for _ in range(rng.randint(1, 3))]
            out.append(fo_case(src, nic=t, alts=alts, num_alts=num_alts, rnd=1))
        else:
            if rng.random() < 0.6:
                r = rng.choice(REL_LISTS_QUICK + REL_LISTS_MORE)
            else:
                r = [rng.choice([0.1, 0.25, 0.5, 1, 2, 3, 0.7]) for _ in range(rng.randint(1, 3))]
            out.append(fo_case(src, rel=r, alts=alts, num_alts=num_alts, rnd=1))
    # ---- factorise_instance ----------------------------------------------------------------------------------
    # exhaustive: all lists of length <= 4 over 3 ballots (two of which differ only by an empty category)
    pool = [[[1], [2]], [[1, 2], []], [[1, 2]]]
    for k in range(0, 5 if quick else 6):
        for seq in itertools.product(range(3), repeat=k):
            bs = [pool[j] for j in seq]
            out.append(case("c17.factorise", [1, bs, [[pool[0], 7]]], exh=1))
            out.append(case("c17.factorise", [0, bs, []], exh=1))
    nf = 400 if quick else 5000
    for i in range(nf):
        alts = rng.sample(range(1, 30), rng.randint(1, 5))
        distinct = []
        for _ in range(rng.randint(1, 4)):
            b = random_ballot(rng, alts)
            if b not in distinct:
                distinct.append(b)
        bs = [rng.choice(distinct) for _ in range(rng.randint(0, 10))]
        if i % 2 == 0:
            stale = [[b, rng.randint(1, 9)] for b in distinct if rng.random() < 0.5]
            out.append(case("c17.factorise", [1, bs, stale], rnd=1))
        else:
            out.append(case("c17.factorise", [0, bs, []], rnd=1))
    return out


# ---------------------------------------------------------------------------------------------------------
def tup2(b):
    return tuple(tuple(c) for c in b)


def _is_tuple2(b):
    return isinstance(b, tuple) and all(isinstance(c, tuple) and all(isinstance(a, int) for a in c) for c in b)


def _impl_basic(c):
    from preflibtools.instances import CategoricalInstance
    op, pl = c["op"], c["payload"]
    if op == "c17.factorise":
        reset, bs, mult = pl
        inst = CategoricalInstance()
        inst.preferences = [tup2(b) for b in bs]
        inst.multiplicity = {tup2(b): m for b, m in mult}
        if reset:
            inst.factorise_instance(reset_multiplicity=True)
        else:
            inst.factorise_instance()
        inst.recompute_cardinality_param()
        if not all(_is_tuple2(b) for b in inst.preferences) or not all(_is_tuple2(b) for b in inst.multiplicity):
            return {"crash": "ballots are no longer tuples of tuples of ints"}
        return [[list(map(list, b)) for b in inst.preferences],
                [[list(map(list, b)), m] for b, m in inst.multiplicity.items()],
                inst.num_voters, inst.num_unique_preferences]
    num_alts, names, src, nic, st, rst = pl[:6]
    cn = pl[6] if len(pl) > 6 else []
    inst = ordinal_instance([(o, m) for o, m in src], alts=[a for a, _ in names])
    inst.alternatives_name = {a: proto.untext(t) for a, t in names}
    inst.num_alternatives = num_alts
    kw = {}
    if nic:
        kw["num_indif_classes"] = list(nic[0])
    if st:
        kw["size_truncators"] = list(st[0])
    if rst:
        kw["relative_size_truncators"] = list(c["tags"]["rel"])
    if cn:
        kw["category_name"] = [proto.untext(t) for t in cn[0]]
    elif c["tags"].get("names") == 0:
        kw["category_name"] = None

    def run():
        ci = CategoricalInstance.from_ordinal(inst, **kw)
        if not all(_is_tuple2(b) for b in ci.preferences) or not all(_is_tuple2(b) for b in ci.multiplicity):
            raise AssertionError("ballots are not tuples of tuples of ints")
        return [[list(map(list, b)) for b in ci.preferences],
                [[list(map(list, b)), m] for b, m in ci.multiplicity.items()],
                ci.num_voters, ci.num_unique_preferences, ci.num_categories, len(ci.categories_name),
                ci.num_alternatives, [[a, proto.text(n)] for a, n in ci.alternatives_name.items()]]
    return guarded(run)


def _canon_ballots(bs):
    return sorted(tup2(b) for b in bs)


def _canon_mult(ms):
    return sorted((tup2(b), m) for b, m in ms)


def _cmp_tables(prefs_i, mult_i, prefs_m, mult_m):
    ci = _canon_ballots(prefs_i)
    if len(set(ci)) != len(ci):
        return "the ballot list contains a ballot twice: %r" % (prefs_i,)
    if ci != _canon_ballots(prefs_m):
        return "ballot set: impl %r, model %r" % (prefs_i, prefs_m)
    if _canon_mult(mult_i) != _canon_mult(mult_m):
        return "multiplicity: impl %r, model %r" % (mult_i, mult_m)
    return None


def _reqs_basic(c, r):
    """relative mode: additionally ask the verified checker (conv_check_correct) about the implementation's own
    result, so that category SIZES other than the model's (the property claims none in this mode) do not alarm"""
    reqs = [(c["op"], c["payload"])]
    if c["op"] == "c17.from_ordinal" and c["payload"][5] and isinstance(r, list) and r[0] == 0:
        ri = r[1]
        reqs.append(("c17.conv_check", [c["payload"][2], ri[0], ri[1], ri[4]]))
    return reqs


def _relative_fallback(c, ri, mres):
    """the implementation's result differs from the model's in the relative mode: accept it iff it is a valid
    conversion (verified checker) with consistent counters"""
    if len(mres) < 2 or mres[1][0] != 1:
        return "not a valid conversion of the source (conv_check = false)"
    if mres[1][1] != 1:
        return "an empty category is followed by a non-empty one (trailing_ok = false)"
    src = c["payload"][2]
    if sorted({len(b) for b in ri[0]} | {len(b) for b, _ in ri[1]}) != [ri[4]]:
        return "ballots are not padded to num_categories"
    if ri[2] != sum(m for _, m in src):
        return "num_voters %r, source has %r voters" % (ri[2], sum(m for _, m in src))
    if ri[3] != len(ri[0]):
        return "num_unique_preferences %r, %d ballots listed" % (ri[3], len(ri[0]))
    if ri[5] != ri[4]:
        return "len(categories_name) %r, num_categories %r" % (ri[5], ri[4])
    if ri[6] != c["payload"][0]:
        return "num_alternatives not copied"
    if sorted((a, tuple(t)) for a, t in ri[7]) != sorted((a, tuple(t)) for a, t in c["payload"][1]):
        return "alternatives_name not copied"
    return None


def _strip(b):
    b = [list(x) for x in b]
    while b and b[-1] == []:
        b.pop()
    return tup2(b)


def _names_fallback(c, ri, mi):
    """category_name is a list and the implementation's result differs from the model's (which, like the current
    code, ignores the argument): accept a different COMMON padding width — same ballots and multiplicities as the
    model once trailing empty categories are stripped, consistent counters. (The direct check that all ballots
    have num_categories categories has already passed.)"""
    si = sorted((_strip(b), m) for b, m in ri[1])
    sm = sorted((_strip(b), m) for b, m in mi[1])
    if si != sm or sorted(_strip(b) for b in ri[0]) != sorted(_strip(b) for b in mi[0]):
        return "ballots differ from the model's by more than the padding width"
    if len({_strip(b) for b in ri[0]}) != len(ri[0]):
        return "a ballot is listed twice"
    if ri[4] < mi[4]:
        return "num_categories %r is smaller than the longest unpadded ballot (%r)" % (ri[4], mi[4])
    if [ri[2], ri[3], ri[6]] != [mi[2], mi[3], mi[6]] or ri[5] != ri[4]:
        return "counters: impl %r, model %r" % (ri[2:7], mi[2:7])
    if sorted((a, tuple(t)) for a, t in ri[7]) != sorted((a, tuple(t)) for a, t in mi[7]):
        return "alternatives_name not copied"
    return None


def _padding_direct(ri):
    """directly on the implementation's result: all ballots padded to one common number of categories = num_categories"""
    lens = sorted({len(b) for b in ri[0]} | {len(b) for b, _ in ri[1]})
    if lens != [ri[4]] or ri[5] != ri[4]:
        return {"kind": "mismatch", "theorem": "fo_padding",
                "reason": "ballots are not padded to a common number of categories = num_categories: ballot lengths %r, "
                          "num_categories %r, len(categories_name) %r; ballots %r" % (lens, ri[4], ri[5], ri[0])}
    return None


def _judge_basic(c, r, mres):
    both_ok = (c["op"] == "c17.from_ordinal" and mres[0][0] == 0 and isinstance(r, list) and r[0] == 0)
    if both_ok:
        bad = _padding_direct(r[1])
        if bad:
            return bad
    bad = _judge(c, r, mres)
    if bad and both_ok and sum(map(bool, c["payload"][3:6])) == 1:
        pl = c["payload"]
        why = []
        if len(pl) > 6 and pl[6]:
            b2 = _names_fallback(c, r[1], mres[0][1])
            if b2 is None:
                return None
            why.append(b2)
        if pl[5]:
            b2 = _relative_fallback(c, r[1], mres)
            if b2 is None:
                return None
            why.append(b2)
            bad = dict(bad, theorem="fo_output_valid / conv_check_correct")
        if why:
            bad = dict(bad, reason=bad["reason"] + " | and: " + "; ".join(why))
    return bad


def _judge(c, r, mres):
    m = mres[0]
    if c["op"] == "c17.factorise":
        bad = _cmp_tables(r[0], r[1], m[0], m[1])
        if bad:
            return {"kind": "mismatch", "reason": bad, "theorem": "factorise_correct"}
        if r[2] != m[2]:
            return {"kind": "mismatch", "reason": "num_voters impl %r model %r" % (r[2], m[2]),
                    "theorem": "factorise_correct"}
        if r[3] != m[3]:
            return {"kind": "mismatch", "reason": "num_unique_preferences impl %r model %r" % (r[3], m[3]),
                    "theorem": "factorise_correct"}
        return None
    # sanity of the case itself: the tables in the payload are the ones the floats in the tags give
    rst = c["payload"][5]
    if rst:
        maxlen = max([len(o) for o, _ in c["payload"][2]] + [0])
        if [t[:maxlen + 1] for t in rst[0]] != rel_tables(c["tags"]["rel"], maxlen):
            return {"kind": "broken-correspondence", "reason": "relative tables of the case do not match its floats"}
    if m[0] == 1 or r[0] == 1:
        if r[:2] != m[:2]:
            return {"kind": "mismatch", "reason": "impl %r, model %r" % (r, m), "theorem": "fo_guards"}
        return None
    ri, mi = r[1], m[1]
    bad = _cmp_tables(ri[0], ri[1], mi[0], mi[1])
    if bad:
        return {"kind": "mismatch", "reason": bad, "theorem": "fo_conserve / fo_partition"}
    names = ["num_voters", "num_unique_preferences", "num_categories", "len(categories_name)", "num_alternatives"]
    got = [ri[2], ri[3], ri[4], ri[5], ri[6]]
    exp = [mi[2], mi[3], mi[4], len(mi[5]), mi[6]]
    for nme, g, e in zip(names, got, exp):
        if g != e:
            return {"kind": "mismatch", "reason": "%s: impl %r, model %r" % (nme, g, e),
                    "theorem": "fo_conserve / fo_padding"}
    if sorted(map(tuple, [(a, tuple(t)) for a, t in ri[7]])) != sorted(map(tuple, [(a, tuple(t)) for a, t in mi[7]])):
        return {"kind": "mismatch", "reason": "alternatives_name not copied", "theorem": "fo_conserve"}
    return None


def _collapsed(c, m):
    return m[0] == 0 and len(m[1][0]) < len(c["payload"][2])


def _nontrivial_basic(c, r, mres):
    m = mres[0]
    if c["op"] == "c17.factorise":
        bs = [tup2(b) for b in c["payload"][1]]
        return len(set(bs)) < len(bs)
    return _collapsed(c, m)


def _mode(c):
    pl = c["payload"]
    k = [bool(pl[3]), bool(pl[4]), bool(pl[5])]
    if sum(k) != 1:
        return "params=%d" % sum(k)
    return ["classes", "sizes", "relative"][k.index(True)]


def _overshoot(o, ts):
    """some category exceeds its truncation point while alternatives remain and another truncator follows"""
    idx = 0
    for j, t in enumerate(ts):
        size = 0
        while size < t and idx < len(o):
            size += len(o[idx])
            idx += 1
        if idx >= len(o):
            return False
        if size > t and j + 1 < len(ts):
            return True
    return False


def _stats_basic(c, r, mres):
    m = mres[0]
    if c["op"] == "c17.factorise":
        bs = [tup2(b) for b in c["payload"][1]]
        return ["factorise reset=%d %s" % (c["payload"][0], "repeats" if len(set(bs)) < len(bs) else "no-repeat")]
    kind = "exh" if c["tags"].get("exh") else ("rnd" if c["tags"].get("rnd") else "corpus")
    if m[0] == 1:
        return ["from_ordinal %s %s refused(%d)" % (kind, _mode(c), m[1])]
    if len(mres) > 1:
        same = (r[0] == 0 and _cmp_tables(r[1][0], r[1][1], m[1][0], m[1][1]) is None)
        extra = ["from_ordinal relative: %s, conv_check=%r" % ("same ballots as the model" if same else
                                                               "ballots differ from the model", mres[1])]
    else:
        extra = []
    lab = extra + ["from_ordinal %s %s %s" % (kind, _mode(c), "collapse" if _collapsed(c, m) else "no-collapse"),
           "from_ordinal orders=%d" % len(c["payload"][2]),
           "from_ordinal num_categories=%d" % m[1][4]]
    if any(b and b[-1] == [] for b in m[1][0]):
        lab.append("from_ordinal some ballot padded")
    pl = c["payload"]
    src = pl[2]
    if "names" in c["tags"]:
        n = len(pl[6][0]) if len(pl) > 6 and pl[6] else None
        k = m[1][4]
        rel = "None" if n is None else ("fewer names than" if n < k else ("as many names as" if n == k else "more names than"))
        unequal = len({len([x for x in b if x]) for b in m[1][8]}) > 1 and any(b and b[-1] == [] for b in m[1][0])
        lab.append("from_ordinal category_name: %s num_categories%s" % (rel, ", some ballot padded" if unequal else ""))
        lab.append("from_ordinal category_name given (%s)" % _mode(c))
    if _mode(c) == "sizes" and any(_overshoot(o, pl[4][0]) for o, _ in src):
        lab.append("from_ordinal sizes: a class overshoots t_j, another truncator follows")
    if _mode(c) == "relative" and any(_overshoot(o, [tab[len(o)] for tab in pl[5][0]]) for o, _ in src):
        lab.append("from_ordinal relative: a class overshoots t_j, another truncator follows")
    if len(m[1]) > 8:
        groups = {}
        for (o, mu), b in zip(src, m[1][8]):
            groups.setdefault(tup2(b), []).append(mu)
        gmax = max(len(g) for g in groups.values())
        if gmax > 1:
            lab.append("from_ordinal %s: largest collapse group=%d" % (_mode(c), min(gmax, 4)))
        if any(len(set(g)) > 1 for g in groups.values()):
            lab.append("from_ordinal %s: collapse merges DIFFERENT multiplicities" % _mode(c))
    return lab


def _describe_basic(c):
    pl = c["payload"]
    if c["op"] == "c17.factorise":
        return {"op": c["op"], "reset_multiplicity": bool(pl[0]), "preferences": pl[1], "multiplicity_before": pl[2]}
    return {"op": c["op"], "num_alternatives": pl[0], "alternatives": [a for a, _ in pl[1]],
            "multiplicity (order, count)": pl[2],
            "num_indif_classes": pl[3][0] if pl[3] else None,
            "size_truncators": pl[4][0] if pl[4] else None,
            "relative_size_truncators": c["tags"].get("rel") if pl[5] else None,
            "relative tables n -> int(ceil(n*t))": pl[5][0] if pl[5] else None,
            "category_name": ([proto.untext(t) for t in pl[6][0]] if len(pl) > 6 and pl[6] else None)}


def _shrink_basic(c):
    pl = c["payload"]
    if c["op"] == "c17.factorise":
        reset, bs, mult = pl
        for i in range(len(bs)):
            yield dict(c, payload=[reset, bs[:i] + bs[i + 1:], mult])
        for i in range(len(mult)):
            yield dict(c, payload=[reset, bs, mult[:i] + mult[i + 1:]])
        return
    num_alts, names, src, nic, st, rst = pl[:6]
    tail = pl[6:]
    if len(src) > 1:
        for i in range(len(src)):
            yield dict(c, payload=[num_alts, names, src[:i] + src[i + 1:], nic, st, rst] + tail)
    for i, (o, m) in enumerate(src):
        if m > 1:
            yield dict(c, payload=[num_alts, names, src[:i] + [[o, 1]] + src[i + 1:], nic, st, rst] + tail)
    ranked = sorted({a for o, _ in src for cl in o for a in cl})
    for a in ranked:
        new = []
        for o, m in src:
            o2 = [[x for x in cl if x != a] for cl in o]
            o2 = [cl for cl in o2 if cl]
            new.append([o2, m])
        if all(o for o, _ in new) and len({repr(o) for o, _ in new}) == len(new):
            yield dict(c, payload=[num_alts, names, new, nic, st, rst] + tail)
    for which, p in ((3, nic), (4, st)):
        if p and len(p[0]) > 1:
            for i in range(len(p[0])):
                q = list(pl)
                q[which] = [p[0][:i] + p[0][i + 1:]]
                yield dict(c, payload=q)


# =========================================================================================================
# Round-5 lessons: purity, aliasing, object lifetime, storage order, foreign number types, maintenance API.
# Three history ops; every single answer inside a history is judged by the extracted model through the
# ordinary ops (c17.from_ordinal / c17.conv_check / c17.factorise), the rest are before/after comparisons.
#   c17.fo_hist    one source, from_ordinal called TWICE with the same argument objects; source snapshot and
#                  argument lists compared before/after; first result poisoned before the second call
#   c17.two_alive  A = from_ordinal(src1, ...), B = from_ordinal(src2, ...), B poisoned, A re-read
#   c17.fact_hist  factorise / append raw ballots / recompute / factorise again on ONE instance, another
#                  instance factorised in between
# =========================================================================================================
HIST_OPS = ("c17.fo_hist", "c17.two_alive", "c17.fact_hist")


def _source_and_kwargs(pl, tags):
    """tags: decouple (storage order of orders / multiplicity / alternatives_name decoupled), np (numpy number
    types), maint (maintenance API of the source called, and its results poisoned, before converting)"""
    import warnings
    num_alts, names, src, nic, st, rst = pl[:6]
    cn = pl[6] if len(pl) > 6 else []
    inst = ordinal_instance([(o, m) for o, m in src], alts=[a for a, _ in names])
    names = list(names)
    if tags.get("decouple"):
        names = names[1:][::-1] + names[:1]
    inst.alternatives_name = {a: proto.untext(t) for a, t in names}
    inst.num_alternatives = num_alts
    if tags.get("np"):
        import numpy as np
        for k in list(inst.multiplicity):
            inst.multiplicity[k] = np.int64(inst.multiplicity[k])
        inst.num_voters = sum(inst.multiplicity.values())
    if tags.get("decouple") and inst.orders:
        inst.orders.reverse()
        k0 = next(iter(inst.multiplicity))          # multiplicity key order != orders list order != payload order
        inst.multiplicity[k0] = inst.multiplicity.pop(k0)
    if tags.get("maint"):
        with warnings.catch_warnings():
            warnings.simplefilter("ignore")
            inst.recompute_cardinality_param()
            fs = inst.flatten_strict()
            vm = inst.vote_map()
            fp = inst.full_profile()
            inst.infer_type()
        fs.clear()
        vm.clear()
        fp.clear()
    kw = {}
    if tags.get("np"):
        import numpy as np
        conv_i = lambda l: [np.int64(x) for x in l]
        conv_f = lambda l: [np.float64(x) for x in l]
    else:
        conv_i = conv_f = list
    if nic:
        kw["num_indif_classes"] = conv_i(nic[0])
    if st:
        kw["size_truncators"] = conv_i(st[0])
    if rst:
        kw["relative_size_truncators"] = conv_f(tags["rel"])
    if cn:
        kw["category_name"] = [proto.untext(t) for t in cn[0]]
    return inst, kw


def _canon_ci(ci):
    if not all(_is_tuple2(b) for b in ci.preferences) or not all(_is_tuple2(b) for b in ci.multiplicity):
        raise AssertionError("ballots are not tuples of tuples of ints")
    return [[list(map(list, b)) for b in ci.preferences],
            [[list(map(list, b)), int(m)] for b, m in ci.multiplicity.items()],
            int(ci.num_voters), int(ci.num_unique_preferences), int(ci.num_categories), len(ci.categories_name),
            int(ci.num_alternatives), [[a, proto.text(n)] for a, n in ci.alternatives_name.items()]]


def _poison_ci(ci):
    ci.preferences.append(((424242,),))
    ci.multiplicity[((424242,),)] = 99
    for k in list(ci.multiplicity)[:1]:
        ci.multiplicity[k] += 1000
    ci.alternatives_name[424242] = "poison"
    for k in list(ci.alternatives_name)[:1]:
        ci.alternatives_name[k] = "poisoned name"
    ci.categories_name["poison"] = "poison"
    ci.num_categories += 7


def _args_state(kw):
    return [(k, [(type(x).__name__, x) for x in v] if isinstance(v, list) else v) for k, v in sorted(kw.items())]


def _impl_fo_hist(c):
    from preflibtools.instances import CategoricalInstance
    inst, kw = _source_and_kwargs(c["payload"], c["tags"])
    before, args_before = snapshot(inst), _args_state(kw)
    purity = []
    keep = []

    def run():
        ci = CategoricalInstance.from_ordinal(inst, **kw)
        keep.append(ci)
        return _canon_ci(ci)
    res = []
    for turn in (1, 2):
        res.append(guarded(run))
        d = snap_diff(before, snapshot(inst))
        if d:
            purity.append("call %d of from_ordinal changed the SOURCE instance: %s" % (turn, d))
        if _args_state(kw) != args_before:
            purity.append("call %d of from_ordinal changed its argument lists: %r -> %r" % (turn, args_before, _args_state(kw)))
        if keep:
            _poison_ci(keep[-1])
            d = snap_diff(before, snapshot(inst))
            if d:
                purity.append("modifying the result of call %d changed the SOURCE instance (shared object): %s" % (turn, d))
    if c["tags"].get("np"):
        # the same call with plain Python ints / floats: the number TYPE of counts and truncators is not an input
        inst0, kw0 = _source_and_kwargs(c["payload"], dict(c["tags"], np=0))
        r0 = guarded(lambda: _canon_ci(CategoricalInstance.from_ordinal(inst0, **kw0)))

        def key(r):
            if r[0] != 0:
                return r[:2]
            v = r[1]
            return [sorted(map(repr, v[0])), sorted(map(repr, v[1])), v[2:7], sorted(map(repr, v[7]))]
        if key(r0) != key(res[0]):
            purity.append("numpy.int64 / numpy.float64 arguments give a different result than equal Python numbers: "
                          "%r vs %r" % (res[0], r0))
    return [res[0], res[1], proto.text(" | ".join(purity)[:900])]


def _impl_two_alive(c):
    from preflibtools.instances import CategoricalInstance
    plA, plB = c["payload"]
    ta = dict(c["tags"], rel=c["tags"].get("relA"))
    tb = dict(c["tags"], rel=c["tags"].get("relB"))
    instA, kwA = _source_and_kwargs(plA, ta)
    instB, kwB = _source_and_kwargs(plB, tb)
    box = {}

    def runA():
        box["A"] = CategoricalInstance.from_ordinal(instA, **kwA)
        return _canon_ci(box["A"])

    def runB():
        box["B"] = CategoricalInstance.from_ordinal(instB, **kwB)
        return _canon_ci(box["B"])
    a1 = guarded(runA)
    b1 = guarded(runB)
    a2 = guarded(lambda: _canon_ci(box["A"])) if "A" in box else a1
    if "B" in box:
        _poison_ci(box["B"])
    a3 = guarded(lambda: _canon_ci(box["A"])) if "A" in box else a1
    fresh = CategoricalInstance()
    leak = []
    if fresh.preferences or fresh.multiplicity or fresh.categories_name or fresh.alternatives_name:
        leak = proto.text("a fresh CategoricalInstance() is not empty after the conversions: %r %r %r" % (
            fresh.preferences, fresh.categories_name, fresh.alternatives_name))
    return [a1, b1, a2, a3, leak]


def _canon_fact(inst):
    if not all(_is_tuple2(b) for b in inst.preferences) or not all(_is_tuple2(b) for b in inst.multiplicity):
        raise AssertionError("ballots are no longer tuples of tuples of ints")
    return [[list(map(list, b)) for b in inst.preferences],
            [[list(map(list, b)), int(m)] for b, m in inst.multiplicity.items()]]


def _impl_fact_hist(c):
    from preflibtools.instances import CategoricalInstance
    raw, steps, other = c["payload"]
    inst = CategoricalInstance()
    handed = [tup2(b) for b in raw]
    inst.preferences = handed
    records, purity = [], []
    for kind, arg in steps:
        if kind == 0:                       # factorise_instance(reset_multiplicity=arg), then recompute
            before = _canon_fact(inst)
            handed = inst.preferences
            handed_copy = list(handed)
            if arg:
                inst.factorise_instance(reset_multiplicity=True)
            else:
                inst.factorise_instance()
            if handed != handed_copy:
                purity.append("factorise_instance modified the list object it was given in place")
            after = _canon_fact(inst)
            if inst.preferences is not handed:
                handed.append(((424242,),))     # poison the old list object: the instance must not see it
                handed.reverse()
                if _canon_fact(inst) != after:
                    purity.append("the instance still shares the ballot list object it was given")
            inst.recompute_cardinality_param()
            records.append([int(bool(arg)), before[0], before[1],
                            after + [int(inst.num_voters), int(inst.num_unique_preferences)]])
        elif kind == 1:                     # raw ballots appended by the user
            for b in arg:
                inst.preferences.append(tup2(b))
        elif kind == 2:
            inst.recompute_cardinality_param()
        elif kind == 3:                     # another instance built and factorised in between
            state = _canon_fact(inst)
            o = CategoricalInstance()
            o.preferences = [tup2(b) for b in other]
            o.factorise_instance(reset_multiplicity=bool(arg))
            o.multiplicity[((424242,),)] = 5
            o.preferences.append(((424242,),))
            if _canon_fact(inst) != state:
                purity.append("factorising ANOTHER instance changed this one: %r -> %r" % (state, _canon_fact(inst)))
    return [records, proto.text(" | ".join(purity)[:600])]


def impl(c):
    op = c["op"]
    if op == "c17.fo_hist":
        return _impl_fo_hist(c)
    if op == "c17.two_alive":
        return _impl_two_alive(c)
    if op == "c17.fact_hist":
        try:
            return _impl_fact_hist(c)
        except Exception as e:  # noqa
            return {"crash": "%s: %s" % (type(e).__name__, str(e)[:200])}
    return _impl_basic(c)


def _fo_pseudo(c, pl, rel):
    tags = dict(c["tags"])
    if rel is not None:
        tags["rel"] = rel
    return {"op": "c17.from_ordinal", "payload": pl, "tags": tags}


def _hist_parts(c, r):
    """[(pseudo case, implementation result)] for the from_ordinal answers inside a history"""
    if c["op"] == "c17.fo_hist":
        pc = _fo_pseudo(c, c["payload"], c["tags"].get("rel"))
        return [(pc, r[0]), (pc, r[1])]
    pa = _fo_pseudo(c, c["payload"][0], c["tags"].get("relA"))
    pb = _fo_pseudo(c, c["payload"][1], c["tags"].get("relB"))
    return [(pa, r[0]), (pb, r[1])]


def oracle_requests(c, r):
    if c["op"] == "c17.fact_hist":
        if not isinstance(r, list):
            return [("c17.factorise", [1, [], []])]
        return [("c17.factorise", [rec[0], rec[1], rec[2]]) for rec in r[0]] or [("c17.factorise", [1, [], []])]
    if c["op"] in HIST_OPS:
        if not isinstance(r, list):
            return [("c17.from_ordinal", c["payload"] if c["op"] == "c17.fo_hist" else c["payload"][0])]
        reqs = []
        for pc, ri in _hist_parts(c, r):
            reqs.extend(_reqs_basic(pc, ri))
        return reqs
    return _reqs_basic(c, r)


def judge(c, r, mres):
    op = c["op"]
    if op == "c17.fact_hist":
        for k, rec in enumerate(r[0]):
            bad = _judge({"op": "c17.factorise", "payload": rec[:3], "tags": {}}, rec[3], [mres[k]])
            if bad:
                return dict(bad, reason="factorisation %d of the history (state before it: %r): %s" % (k + 1, rec[1:3], bad["reason"]))
        if r[1]:
            return {"kind": "mismatch", "theorem": "factorise_correct", "reason": proto.untext(r[1])}
        return None
    if op in HIST_OPS:
        i = 0
        for k, (pc, ri) in enumerate(_hist_parts(c, r)):
            n = len(_reqs_basic(pc, ri))
            bad = _judge_basic(pc, ri, mres[i:i + n])
            i += n
            if bad:
                return dict(bad, reason="answer %d of the history: %s" % (k + 1, bad["reason"]))
        if op == "c17.fo_hist":
            if r[2]:
                return {"kind": "mismatch", "theorem": "fo_conserve (source and arguments are inputs only)",
                        "reason": proto.untext(r[2])}
            return None
        if r[2] != r[0]:
            return {"kind": "mismatch", "theorem": "fo_conserve",
                    "reason": "the first conversion changed when a second one was made: %r -> %r" % (r[0], r[2])}
        if r[3] != r[0]:
            return {"kind": "mismatch", "theorem": "fo_conserve",
                    "reason": "the first conversion changed when the second one was modified: %r -> %r" % (r[0], r[3])}
        if r[4]:
            return {"kind": "mismatch", "theorem": "fo_conserve", "reason": proto.untext(r[4])}
        return None
    return _judge_basic(c, r, mres)


def nontrivial(c, r, mres):
    if c["op"] == "c17.fact_hist":
        return len(r[0]) >= 2
    if c["op"] in HIST_OPS:
        return mres[0][0] == 0
    return _nontrivial_basic(c, r, mres)


def stats(c, r, mres):
    op = c["op"]
    if op == "c17.fact_hist":
        return ["fact_hist factorisations=%d%s" % (len(r[0]), " other-instance" if any(k == 3 for k, _ in c["payload"][1]) else "")]
    if op == "c17.fo_hist":
        t = c["tags"]
        pc = _fo_pseudo(c, c["payload"], t.get("rel"))
        lab = ["fo_hist %s decouple=%d np=%d maint=%d" % (_mode(pc), t.get("decouple", 0), t.get("np", 0), t.get("maint", 0)),
               "fo_hist %s" % ("refused" if mres[0][0] == 1 else ("collapse" if _collapsed(pc, mres[0]) else "no-collapse"))]
        return lab
    if op == "c17.two_alive":
        ms = [m for m in mres if isinstance(m, list) and len(m) == 2 and m[0] in (0, 1) and isinstance(m[1], (list, int))]
        oks = [m for m in mres if isinstance(m, list) and m and m[0] == 0 and isinstance(m[1], list) and len(m[1]) > 4]
        if len(oks) >= 2:
            return ["two_alive num_categories %s" % ("differ" if oks[0][1][4] != oks[1][1][4] else "equal")]
        return ["two_alive one call refused"]
    return _stats_basic(c, r, mres)


def describe(c):
    op = c["op"]
    if op == "c17.fact_hist":
        return {"op": op, "raw ballots": c["payload"][0],
                "steps (0 factorise(reset) / 1 append ballots / 2 recompute / 3 factorise another instance)": c["payload"][1],
                "other instance": c["payload"][2]}
    if op == "c17.fo_hist":
        return dict(_describe_basic(_fo_pseudo(c, c["payload"], c["tags"].get("rel"))), op=op, history=
                    "from_ordinal called twice with the same argument objects; source snapshot before/after; first "
                    "result modified before the second call", flags={k: c["tags"].get(k, 0) for k in ("decouple", "np", "maint")})
    if op == "c17.two_alive":
        return {"op": op, "A": _describe_basic(_fo_pseudo(c, c["payload"][0], c["tags"].get("relA"))),
                "B": _describe_basic(_fo_pseudo(c, c["payload"][1], c["tags"].get("relB")))}
    return _describe_basic(c)


def shrink(c):
    op = c["op"]
    if op == "c17.fo_hist":
        for k in ("decouple", "np", "maint"):
            if c["tags"].get(k):
                yield dict(c, tags=dict(c["tags"], **{k: 0}))
        for c2 in _shrink_basic(_fo_pseudo(c, c["payload"], c["tags"].get("rel"))):
            yield dict(c, payload=c2["payload"])
        return
    if op == "c17.fact_hist":
        raw, steps, other = c["payload"]
        for i in range(len(steps)):
            if not (steps[i][0] == 0 and i == 0):
                yield dict(c, payload=[raw, steps[:i] + steps[i + 1:], other])
        for i in range(len(raw)):
            yield dict(c, payload=[raw[:i] + raw[i + 1:], steps, other])
        return
    if op == "c17.two_alive":
        return
    for x in _shrink_basic(c):
        yield x


def generate(tier, seed):
    base = _generate2(tier, seed)
    quick = tier == "quick"
    rng = random.Random(1000003 * seed + 5005)
    fo = [c for c in base if c["op"] == "c17.from_ordinal"]
    out = list(base)
    # ---- fo_hist: per mode, collapse-prone random cases and exhaustive small cases, all guards; flags cycling --
    def mode_of(c):
        pl = c["payload"]
        return 0 if pl[3] else (1 if pl[4] else 2)
    sample = [c for c in fo if c["tags"].get("guard")]
    for mde in range(3):
        for tag, n in (("rnd", 260 if quick else 2500), ("exh", 260 if quick else 2500)):
            cand = [c for c in fo if not c["tags"].get("guard") and c["tags"].get(tag) and mode_of(c) == mde]
            sample.extend(rng.sample(cand, min(n, len(cand))))
    for i, c in enumerate(sample):
        flags = {"decouple": i & 1, "np": (i >> 1) & 1, "maint": (i >> 2) & 1}
        out.append({"op": "c17.fo_hist", "payload": c["payload"], "tags": dict(c["tags"], **flags)})
    # ---- two_alive: pairs over the same alternatives with (mostly) different numbers of categories ----------
    pool = [c for c in rng.sample(fo, min(len(fo), 6000)) if not c["tags"].get("guard")]
    guards = [c for c in fo if c["tags"].get("guard")]
    for i in range(1200 if quick else 8000):
        a, b = rng.choice(pool), rng.choice(pool)
        if i % 25 == 0:
            a = rng.choice(guards)           # the first call is refused, the second must not notice
        tags = {"relA": a["tags"].get("rel"), "relB": b["tags"].get("rel"), "decouple": i & 1, "np": (i >> 1) & 1,
                "maint": 0}
        out.append({"op": "c17.two_alive", "payload": [a["payload"], b["payload"]], "tags": tags})
    # ---- fact_hist ------------------------------------------------------------------------------------------
    pool3 = [[[1], [2]], [[1, 2], []], [[1, 2]], [[2], [1]]]
    for i in range(500 if quick else 4000):
        alts = rng.sample(range(1, 30), rng.randint(1, 4))
        distinct = [b for b in pool3] if i % 3 == 0 else []
        while len(distinct) < rng.randint(2, 4):
            b = random_ballot(rng, alts)
            if b not in distinct:
                distinct.append(b)
        raw = [rng.choice(distinct) for _ in range(rng.randint(1, 8))]
        other = [rng.choice(distinct) for _ in range(rng.randint(1, 5))]
        steps = [[0, rng.randint(0, 1)]]        # reset=False only on the empty table of a fresh instance
        for _ in range(rng.randint(1, 4)):
            k = rng.choice([0, 0, 1, 1, 2, 3])
            if k == 0:
                steps.append([0, 1])
            elif k == 1:
                steps.append([1, [rng.choice(distinct) for _ in range(rng.randint(1, 4))]])
            elif k == 2:
                steps.append([2, 0])
            else:
                steps.append([3, rng.randint(0, 1)])
        if steps[-1][0] != 0:
            steps.append([0, 1])
        out.append(case("c17.fact_hist", [raw, steps, other], rnd=1))
    return out
