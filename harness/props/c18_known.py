"""DORMANT TOOL.  KF-C18-a was repaired in /repo by 175f7ec and is recorded as `fixed` in known_findings.json; nothing of
property C18 is suppressed any more and this module is not used by bin/check.  It is kept so that an input-matched
known-finding entry can be regenerated quickly should an open finding of the brute force ever have to be recorded again:

    cd <verif> && PYTHONPATH=/repo:harness /venv/bin/python -m props.c18_known [--write]

It runs the fixed core of the m >= 6 brute-force campaign (c18.det_bf_cases) and the c18.bf cases of corpus/C18 through
the implementation and the extracted model, keeps the inputs on which the judge reports a mismatch of the kind
"sound but not minimum" (every answer is None or a partition accepted by the verified checker with at most k axes; only
minimality / the None contract is wrong; optimum < ceil(m/2)) and prints an entry with the sha-256 of exactly these
inputs; failing inputs of any other kind are listed separately and left out (they stay VIOLATIONs).  --write replaces /
appends the entry in known_findings.json (do not use while the finding is recorded as fixed)."""
import glob
import json
import os
import sys

from core import check, oracle, proto
from . import c18

ENTRY_ID = "KF-C18-a"
WHERE = ("preflibtools/properties/subdomains/ordinal/singlepeaked/k_alternative_partition.py:63 "
         "(L_segmented = singleton_pair_combinations of each L-set separately)")
WHAT = ("k_alternative_partition_brut_force only pairs alternatives of the same L-set, so it misses partitions in which "
        "an axis receives, as its two next end points, an alternative of one L-set and one of a later L-set: it answers "
        "None or a valid but non-minimum partition; smallest input m = 6 alternatives, 3 orders "
        "([1,2,3,4,5,6], [5,1,4,6,3,2], [2,5,3,4,1,6]: optimum 2 = [[1,5],[2,3,4,6]], answered None for k = 2 and "
        "3 axes for k >= 3)")


def sound_but_not_minimum(c, r, mres):
    """classification of a failing c18.bf case from the model's answers"""
    if not (isinstance(r, list) and r[0] == 0) or not mres or not isinstance(mres[0], list):
        return False
    mn, oks = mres[0]
    m = len(c["payload"][0])
    if mn >= (m + 1) // 2:
        return False
    seen = []
    for k, opt in r[1]:
        if opt and opt[0] not in seen:
            seen.append(opt[0])
    for (k, opt), okk in zip(r[1], oks):
        if opt:
            if mres[2 + seen.index(opt[0])] != 1 or len(opt[0]) > k:
                return False
        elif mn > k and okk != 1:
            return False
    return any(o != 1 for o in oks)


def main(argv):
    cases = []
    for f in sorted(glob.glob(os.path.join(oracle.VERIF, "corpus", "C18", "*.json"))):
        d = json.load(open(f))
        for c in (d if isinstance(d, list) else [d]):
            if c["op"] == "c18.bf":
                cases.append(c)
    cases.extend(c18.det_bf_cases("thorough"))
    res, timing = check.evaluate(c18, cases, c18.TIMEOUT_S, 16)
    shas, other = [], []
    hist = {}
    for c, r, m, f in res:
        if not f:
            continue
        if f.get("kind") == "mismatch" and sound_but_not_minimum(c, r, m):
            h = proto.sha(c["op"], c["payload"])
            if h not in shas:
                shas.append(h)
            key = "m=%d" % len(c["payload"][0])
            hist[key] = hist.get(key, 0) + 1
        else:
            other.append((c, f))
    entry = {"id": ENTRY_ID, "property": "C18", "status": "open", "where": WHERE, "what": WHAT,
             "repro": "notes/c18_bruteforce_not_minimum_repro.py",
             "match": {"ops": ["c18.bf"], "kind": "mismatch", "sha256": sorted(shas)}}
    sys.stderr.write("cases %d  failing-of-this-kind %d %r  other failures %d  %r\n"
                     % (len(cases), len(shas), hist, len(other), timing))
    for c, f in other[:5]:
        sys.stderr.write("OTHER FAILURE (not matched): %s %r\n" % (f.get("reason"), c["payload"][:2]))
    if "--write" in argv:
        path = os.path.join(oracle.VERIF, "known_findings.json")
        doc = json.load(open(path))
        doc["findings"] = [k for k in doc["findings"] if k.get("id") != ENTRY_ID] + [entry]
        json.dump(doc, open(path, "w"), indent=1)
        sys.stderr.write("wrote %s\n" % path)
    else:
        print(json.dumps(entry, indent=1))
    return 0


if __name__ == "__main__":
    sys.exit(main(sys.argv[1:]))
