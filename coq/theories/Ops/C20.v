(* Ops/C20.v — protocol entry points for the C20 model (distances). *)
From Coq Require Import List ZArith NArith String.
From PrefVerif Require Import Lib.Val Model.Distances.
Import ListNotations.
Open Scope string_scope.

Definition d_order (v : val) : list N := dlist dN v.
Definition e_frac (p : nat * nat) : val := VL [enat (fst p); enat (snd p)].

Definition op_kt (v : val) : val :=
  eresult enat (kendall_tau (d_order (dnth 0 v)) (d_order (dnth 1 v))).
Definition op_footrule (v : val) : val :=
  eresult e_frac (spearman_footrule (d_order (dnth 0 v)) (d_order (dnth 1 v))).
Definition op_sertel (v : val) : val :=
  eresult e_frac (sertel (d_order (dnth 0 v)) (d_order (dnth 1 v))).

(* payload: (which profile) with which ∈ {0 kt, 1 footrule, 2 sertel}; profile = ((order mult) ...) *)
Definition frac0 : result (nat * nat) := Ok (0, 1).
Definition op_dm (v : val) : val :=
  let which := dnat (dnth 0 v) in
  let prof := expand_profile (dlist (dpair d_order dN) (dnth 1 v)) in
  match which with
  | 0 => elist (elist (eresult enat)) (distance_matrix (Ok 0) kendall_tau prof)
  | 1 => elist (elist (eresult e_frac)) (distance_matrix frac0 spearman_footrule prof)
  | _ => elist (elist (eresult e_frac)) (distance_matrix frac0 sertel prof)
  end.

Definition ops : optable :=
  [ ("c20.kt", op_kt); ("c20.footrule", op_footrule); ("c20.sertel", op_sertel); ("c20.dm", op_dm) ].
