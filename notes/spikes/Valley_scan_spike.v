From Coq Require Import List Arith Lia Bool.
Import ListNotations.

(* positions of the axis elements in one voter's weak order (class index, 0 = best) *)

Fixpoint nondec (q : nat) (ps : list nat) : bool :=
  match ps with [] => true | p :: r => (q <=? p) && nondec p r end.

(* mirror of the repaired scan in is_single_peaked_axis *)
Fixpoint scan (q : nat) (passed : bool) (ps : list nat) : bool :=
  match ps with
  | [] => true
  | p :: r => if q <? p then scan p true r
              else if (p <? q) && passed then false
              else scan p passed r
  end.
Definition axis_ok (ps : list nat) : bool :=
  match ps with [] => true | q :: r => scan q false r end.

(* x .. y .. z appear in this order *)
Definition sub3 (x y z : nat) (l : list nat) : Prop :=
  exists l1 l2 l3 l4, l = l1 ++ x :: l2 ++ y :: l3 ++ z :: l4.
Definition bad (l : list nat) : Prop := exists x y z, sub3 x y z l /\ x < y /\ z < y.

Lemma scan_passed q ps : scan q true ps = nondec q ps.
Proof.
  revert q; induction ps as [|p r IH]; intros q; simpl; [reflexivity|].
  destruct (q <? p) eqn:E1.
  - apply Nat.ltb_lt in E1. rewrite IH. replace (q <=? p) with true; [reflexivity|].
    symmetry; apply Nat.leb_le; lia.
  - apply Nat.ltb_ge in E1. destruct (p <? q) eqn:E2; simpl.
    + apply Nat.ltb_lt in E2. replace (q <=? p) with false; [reflexivity|].
      symmetry; apply Nat.leb_gt; lia.
    + apply Nat.ltb_ge in E2. rewrite IH. replace (q <=? p) with true; [reflexivity|].
      symmetry; apply Nat.leb_le; lia.
Qed.

Lemma nondec_in q ps : nondec q ps = true -> forall z, In z ps -> q <= z.
Proof.
  revert q; induction ps as [|p r IH]; intros q H z Hz; simpl in *; [contradiction|].
  apply andb_true_iff in H. destruct H as [H1 H2]. apply Nat.leb_le in H1.
  destruct Hz as [<-|Hz]; [assumption|]. specialize (IH p H2 z Hz). lia.
Qed.

Lemma nondec_no_desc q ps : nondec q ps = true ->
  forall l1 y l3 z l4, q :: ps = l1 ++ y :: l3 ++ z :: l4 -> y <= z.
Proof.
  revert q; induction ps as [|p r IH]; intros q H l1 y l3 z l4 E.
  - destruct l1 as [|a l1]; simpl in E.
    + injection E as _ E. destruct l3; discriminate.
    + injection E as _ E. destruct l1; discriminate.
  - destruct l1 as [|a l1]; simpl in E.
    + injection E as <- E. apply (nondec_in _ _ H). rewrite E. apply in_or_app. right. now left.
    + injection E as _ E. simpl in H. apply andb_true_iff in H. destruct H as [_ H].
      eapply IH; eauto.
Qed.

Lemma nondec_false q ps : nondec q ps = false ->
  exists l1 y z l4, q :: ps = l1 ++ y :: z :: l4 /\ z < y /\ (forall w, In w l1 -> w <= y) .
Proof.
  revert q; induction ps as [|p r IH]; intros q H; simpl in H; [discriminate|].
  destruct (q <=? p) eqn:E; simpl in H.
  - apply Nat.leb_le in E. destruct (IH p H) as (l1 & y & z & l4 & E' & Hlt & Hle).
    exists (q :: l1), y, z, l4. split; [simpl; now rewrite E'|]. split; [assumption|].
    intros w [<-|Hw]; [|now apply Hle].
    destruct l1 as [|a l1]; simpl in E'; injection E' as -> _; [lia|].
    specialize (Hle a (or_introl eq_refl)). lia.
  - apply Nat.leb_gt in E. exists [], q, p, r. repeat split; auto. intros w [].
Qed.

Theorem scan_correct : forall ps q, scan q false ps = true <-> ~ bad (q :: ps).
Proof.
  induction ps as [|p r IH]; intros q.
  - simpl. split; [|reflexivity]. intros _ (x & y & z & (l1 & l2 & l3 & l4 & E) & _).
    destruct l1 as [|a l1]; simpl in E; injection E as _ E.
    + destruct l2; discriminate.
    + destruct l1; discriminate.
  - simpl. destruct (q <? p) eqn:E1.
    + apply Nat.ltb_lt in E1. rewrite scan_passed. split.
      * intros H (x & y & z & (l1 & l2 & l3 & l4 & E) & Hxy & Hzy).
        (* y and z both lie in p :: r after position of x, nondecreasing from p *)
        destruct l1 as [|a l1]; simpl in E; injection E as E0 E.
        -- (* x = q; y,z inside p::r *)
           assert (Hyz : y <= z).
           { eapply (nondec_no_desc p r H l2 y l3 z l4). exact E. }
           lia.
        -- assert (Hyz : y <= z).
           { eapply (nondec_no_desc p r H (l1 ++ x :: l2) y l3 z l4).
             rewrite E. now rewrite <- app_assoc. }
           lia.
      * intros Hnb. destruct (nondec p r) eqn:Hn; [reflexivity|exfalso].
        destruct (nondec_false _ _ Hn) as (l1 & y & z & l4 & E & Hlt & Hle).
        apply Hnb. exists q, y, z. split.
        -- exists [], l1, [], l4. simpl. now rewrite E.
        -- split; [|assumption].
           destruct l1 as [|a l1]; simpl in E; injection E as E0 E.
           ++ lia.
           ++ specialize (Hle a (or_introl eq_refl)). lia.
    + apply Nat.ltb_ge in E1. rewrite andb_false_r. rewrite IH. split.
      * intros Hnb (x & y & z & (l1 & l2 & l3 & l4 & E) & Hxy & Hzy). apply Hnb.
        destruct l1 as [|a l1]; simpl in E; injection E as E0 E.
        -- subst x. destruct l2 as [|b l2]; simpl in E.
           ++ injection E as E _. lia.
           ++ injection E as Eb E. subst b. exists p, y, z. split; [|lia].
              exists [], l2, l3, l4. simpl. now rewrite E.
        -- exists x, y, z. split; [|lia]. exists l1, l2, l3, l4. exact E.
      * intros Hnb (x & y & z & (l1 & l2 & l3 & l4 & E) & Hxy & Hzy). apply Hnb.
        exists x, y, z. split; [|lia]. exists (q :: l1), l2, l3, l4. simpl. now rewrite E.
Qed.
Print Assumptions scan_correct.
