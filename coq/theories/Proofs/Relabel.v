(* Proofs/Relabel.v — lemmas for property C15 (label and storage-order invariance) that the owners of the
   individual models did not already prove.  Every lemma is on top of the owners' definitions.

   Part 1: the mirror models of C06 / C14 / C07 are EQUIVARIANT under an injective renaming f of the alternatives:
           running a rule on the renamed instance gives exactly the renamed result — as lists, in the same iteration
           order, for every instance (no well-formedness needed): the models only ever compare alternatives with
           N.eqb, and N.eqb (f a) (f b) = N.eqb a b.
   Part 2: witness checkers and reference deciders of C03 / C11 / C05 / C13 / C19 under renaming and reordering. *)
From Coq Require Import List Arith NArith ZArith QArith Qcanon Bool Lia Permutation.
From PrefVerif Require Import Lib.Val Model.Relabel.
From PrefVerif Require Model.Scoring Model.Bucklin Model.Pairwise.
From PrefVerif Require Import Lib.Perms Lib.Contig.
From PrefVerif Require Model.SP Model.SC Model.Tree Model.Euclid Model.C1P Model.Approval.
From PrefVerif Require Proofs.SP Proofs.SC Proofs.Tree Proofs.Euclid Proofs.C1P Proofs.Approval.
From PrefVerif Require Model.SCAlgo Model.TreeAlgo Proofs.SCAlgo Proofs.TreeAlgo Proofs.Pairwise.
From PrefVerif Require Model.ELO Proofs.ELO.
From PrefVerif Require Model.ELPDP Model.PartitionAlgo Model.Partition Model.Deletion Model.EuclidLP Model.EuclidAlgo.
From PrefVerif Require Proofs.Deletion Proofs.Partition Proofs.ELPOptimal Proofs.PartitionComplete Proofs.EuclidLP
  Proofs.EuclidAlgoComplete Proofs.EuclidLPSolve.
Import ListNotations.
Local Close Scope Qc_scope.
Local Close Scope Q_scope.

Lemma map_order_id o : map_order (fun x => x) o = o.
Proof. unfold map_order. induction o as [|c r IH]; [reflexivity|]. simpl. now rewrite map_id, IH. Qed.

(* ------------------------------------------------------------------------------------------------------------ *)
(* generic list facts                                                                                          *)
Lemma map_keys_snd {V} f (t : list (N * V)) : map snd (map_keys f t) = map snd t.
Proof. unfold map_keys. rewrite map_map. reflexivity. Qed.
Lemma map_keys_fst {V} f (t : list (N * V)) : map fst (map_keys f t) = map f (map fst t).
Proof. unfold map_keys. rewrite !map_map. reflexivity. Qed.
Lemma map_keys_filter_snd {V} f (p : V -> bool) (t : list (N * V)) :
  filter (fun e => p (snd e)) (map_keys f t) = map_keys f (filter (fun e => p (snd e)) t).
Proof.
  induction t as [|[a x] t IH]; simpl; [reflexivity|]. destruct (p x); simpl; now rewrite IH.
Qed.
Lemma map_keys_app {V} f (t u : list (N * V)) : map_keys f (t ++ u) = map_keys f t ++ map_keys f u.
Proof. apply map_app. Qed.
Lemma map_keys_length {V} f (t : list (N * V)) : length (map_keys f t) = length t.
Proof. apply map_length. Qed.
Lemma last_map {A B} (g : A -> B) l d : last (map g l) (g d) = g (last l d).
Proof. induction l as [|x l IH]; [reflexivity|]. destruct l; [reflexivity|]. exact IH. Qed.
Lemma hd_map {A B} (g : A -> B) l d : hd (g d) (map g l) = g (hd d l).
Proof. destruct l; reflexivity. Qed.
Lemma filter_map_comm {A B} (g : A -> B) (p : B -> bool) l : filter p (map g l) = map g (filter (fun x => p (g x)) l).
Proof. induction l as [|x l IH]; simpl; [reflexivity|]. destruct (p (g x)); simpl; now rewrite IH. Qed.
Lemma filter_ext' {A} (p q : A -> bool) l : (forall x, p x = q x) -> filter p l = filter q l.
Proof. intros E. induction l as [|x l IH]; simpl; [reflexivity|]. now rewrite E, IH. Qed.
Lemma existsb_map' {A B} (g : B -> bool) (h : A -> B) l : existsb g (map h l) = existsb (fun x => g (h x)) l.
Proof. induction l as [|x l IH]; simpl; [reflexivity|]. now rewrite IH. Qed.
Lemma forallb_map' {A B} (g : B -> bool) (h : A -> B) l : forallb g (map h l) = forallb (fun x => g (h x)) l.
Proof. induction l as [|x l IH]; simpl; [reflexivity|]. now rewrite IH. Qed.
Lemma existsb_ext' {A} (g h : A -> bool) l : (forall x, g x = h x) -> existsb g l = existsb h l.
Proof. intros E. induction l as [|x l IH]; simpl; [reflexivity|]. now rewrite E, IH. Qed.
Lemma forallb_ext' {A} (g h : A -> bool) l : (forall x, g x = h x) -> forallb g l = forallb h l.
Proof. intros E. induction l as [|x l IH]; simpl; [reflexivity|]. now rewrite E, IH. Qed.
Lemma forallb_ext_in {A} (g h : A -> bool) l : (forall x, In x l -> g x = h x) -> forallb g l = forallb h l.
Proof.
  intros E. induction l as [|x l IH]; simpl; [reflexivity|].
  rewrite E by (now left). rewrite IH; [reflexivity|]. intros y Hy. apply E. now right.
Qed.
Lemma forallb_perm' {A} (g : A -> bool) l l' : Permutation l l' -> forallb g l = forallb g l'.
Proof.
  induction 1 as [|x l l' _ IH|x y l|l l' l'' _ IH1 _ IH2]; simpl; try congruence.
  destruct (g x), (g y); reflexivity.
Qed.
Lemma existsb_perm' {A} (g : A -> bool) l l' : Permutation l l' -> existsb g l = existsb g l'.
Proof.
  induction 1 as [|x l l' _ IH|x y l|l l' l'' _ IH1 _ IH2]; simpl; try congruence.
  destruct (g x), (g y); reflexivity.
Qed.

Ltac dgate :=
  match goal with |- context [Scoring.dt_in ?a ?b] => destruct (Scoring.dt_in a b); [|reflexivity] end.

Section Inj.
Variable f : N -> N.
Hypothesis f_inj : forall x y, f x = f y -> x = y.

Lemma eqb_f a b : N.eqb (f a) (f b) = N.eqb a b.
Proof.
  destruct (N.eqb_spec a b) as [->|n]; [apply N.eqb_refl|].
  apply N.eqb_neq. intros E. apply n. now apply f_inj.
Qed.

Lemma mem_f a l : existsb (N.eqb (f a)) (map f l) = existsb (N.eqb a) l.
Proof. rewrite existsb_map'. apply existsb_ext'. intros x. apply eqb_f. Qed.

(* ============================================================================================================ *)
(* Part 1a — Model/Scoring.v (C06)                                                                              *)
Section ScoreTables.
  Import PrefVerif.Model.Scoring.
  Context {S : Type}.
  Variables (add : S -> S -> S) (zero : S) (leb : S -> S -> bool).

  Lemma tbl_add_relabel t a s :
    tbl_add add zero (map_keys f t) (f a) s = map_keys f (tbl_add add zero t a s).
  Proof.
    induction t as [|[b x] t IH]; simpl; [reflexivity|].
    rewrite eqb_f. destruct (N.eqb b a); simpl; [reflexivity|]. now rewrite IH.
  Qed.

  Lemma tbl_adds_relabel evs : forall t,
    tbl_adds add zero (map_keys f t) (map_keys f evs) = map_keys f (tbl_adds add zero t evs).
  Proof.
    unfold tbl_adds. induction evs as [|[a s] evs IH]; intros t; simpl; [reflexivity|].
    rewrite tbl_add_relabel. apply IH.
  Qed.

  Lemma tbl_winners_relabel t : tbl_winners leb (map_keys f t) = rmap (map f) (tbl_winners leb t).
  Proof.
    destruct t as [|[a x] t]; [reflexivity|].
    change (map_keys f ((a, x) :: t)) with ((f a, x) :: map_keys f t).
    unfold tbl_winners, rmap. f_equal. rewrite map_keys_snd.
    set (b := best_of leb x (map snd t)).
    change ((f a, x) :: map_keys f t) with (map_keys f ((a, x) :: t)).
    rewrite (map_keys_filter_snd f (fun v => leb b v && leb v b)). apply map_keys_fst.
  Qed.
End ScoreTables.

Import PrefVerif.Model.Scoring.

Lemma hd_map_order o : hd [] (map_order f o) = map f (hd [] o).
Proof. destruct o; reflexivity. Qed.
Lemma last_map_order o : last (map_order f o) [] = map f (last o []).
Proof. unfold map_order. change (@nil N) with (map f []) at 1. apply last_map. Qed.

Lemma flat_map_map_mult {B} (g : order * N -> list B) (h : order * N -> list B) p :
  (forall om, g (map_order f (fst om), snd om) = h om) ->
  flat_map g (map_mult f p) = flat_map h p.
Proof.
  intros E. unfold map_mult. induction p as [|om p IH]; simpl; [reflexivity|]. now rewrite E, IH.
Qed.

Lemma flat_map_keys {A V} (g : A -> list (N * V)) l :
  flat_map (fun x => map_keys f (g x)) l = map_keys f (flat_map g l).
Proof. induction l as [|x l IH]; simpl; [reflexivity|]. now rewrite IH, map_keys_app. Qed.

Lemma plur_events_relabel p : plur_events (map_mult f p) = map_keys f (plur_events p).
Proof.
  unfold plur_events. rewrite <- flat_map_keys. apply flat_map_map_mult. intros [o k]. simpl.
  rewrite hd_map_order. unfold map_keys. rewrite !map_map. reflexivity.
Qed.

Lemma veto_events_relabel p : veto_events (map_mult f p) = map_keys f (veto_events p).
Proof.
  unfold veto_events. rewrite <- flat_map_keys. apply flat_map_map_mult. intros [o k]. simpl.
  rewrite last_map_order. unfold map_keys. rewrite !map_map. reflexivity.
Qed.

Lemma heads_relabel k o : heads k (map_order f o) = map f (heads k o).
Proof.
  unfold heads, map_order. rewrite firstn_map. induction (firstn k o) as [|c r IH]; simpl; [reflexivity|].
  rewrite IH, map_app. f_equal. destruct c; reflexivity.
Qed.

Lemma kapp_events_relabel k p : kapp_events k (map_mult f p) = map_keys f (kapp_events k p).
Proof.
  unfold kapp_events. rewrite <- flat_map_keys. apply flat_map_map_mult. intros [o n]. simpl.
  rewrite heads_relabel. unfold map_keys. rewrite !map_map. reflexivity.
Qed.

Lemma borda_ev_relabel k o : forall i, borda_ev i k (map_order f o) = map_keys f (borda_ev i k o).
Proof.
  induction o as [|c r IH]; intros i; simpl; [reflexivity|].
  rewrite map_length, IH, map_keys_app. f_equal. unfold map_keys. rewrite !map_map. reflexivity.
Qed.

Lemma borda_events_relabel m p : borda_events m (map_mult f p) = map_keys f (borda_events m p).
Proof.
  unfold borda_events. rewrite <- flat_map_keys. apply flat_map_map_mult. intros [o n]. simpl.
  apply borda_ev_relabel.
Qed.

Theorem plurality_winner_relabel i :
  plurality_winner (relabel_inst f i) = rmap (map f) (plurality_winner i).
Proof.
  unfold plurality_winner, plurality_core. change (dt (relabel_inst f i)) with (dt i). dgate. simpl.
  rewrite plur_events_relabel. change (@nil (N * N)) with (map_keys f (@nil (N * N))).
  rewrite tbl_adds_relabel. apply tbl_winners_relabel.
Qed.

Theorem veto_winner_relabel i : veto_winner (relabel_inst f i) = rmap (map f) (veto_winner i).
Proof.
  unfold veto_winner. change (dt (relabel_inst f i)) with (dt i). dgate. simpl.
  rewrite veto_events_relabel.
  replace (map (fun a => (a, 0%N)) (map f (alts i))) with (map_keys f (map (fun a => (a, 0%N)) (alts i)))
    by (unfold map_keys; rewrite !map_map; reflexivity).
  rewrite tbl_adds_relabel. apply tbl_winners_relabel.
Qed.

Theorem k_approval_winner_relabel i k :
  k_approval_winner (relabel_inst f i) k = rmap (map f) (k_approval_winner i k).
Proof.
  unfold k_approval_winner. change (dt (relabel_inst f i)) with (dt i). dgate. simpl.
  rewrite kapp_events_relabel. change (@nil (N * N)) with (map_keys f (@nil (N * N))).
  rewrite tbl_adds_relabel. apply tbl_winners_relabel.
Qed.

Theorem borda_scores_relabel i : borda_scores (relabel_inst f i) = rmap (map_keys f) (borda_scores i).
Proof.
  unfold borda_scores. change (dt (relabel_inst f i)) with (dt i). dgate. simpl. simpl. f_equal.
  rewrite borda_events_relabel. change (@nil (N * Z)) with (map_keys f (@nil (N * Z))).
  apply tbl_adds_relabel.
Qed.

Theorem borda_winner_relabel i : borda_winner (relabel_inst f i) = rmap (map f) (borda_winner i).
Proof.
  unfold borda_winner. change (dt (relabel_inst f i)) with (dt i). destruct (dt_in (dt i) [Soc; Toc]); [|reflexivity].
  rewrite borda_scores_relabel. destruct (borda_scores i) as [t|e]; simpl; [|reflexivity].
  apply tbl_winners_relabel.
Qed.

(* Copeland: nested table *)
Definition map_ctable (t : ctable) : ctable := map (fun xr => (f (fst xr), map_keys f (snd xr))) t.

Lemma cop_init_relabel al : cop_init (map f al) = map_ctable (cop_init al).
Proof.
  unfold cop_init, map_ctable. rewrite !map_map. apply map_ext. intros a. simpl. f_equal.
  rewrite filter_map_comm. unfold map_keys. rewrite !map_map. simpl.
  f_equal. apply filter_ext'. intros b. now rewrite eqb_f.
Qed.

Lemma cop_add_relabel t w b d : cop_add (map_ctable t) (f w) (f b) d = map_ctable (cop_add t w b d).
Proof.
  unfold cop_add, map_ctable. rewrite !map_map. apply map_ext. intros [x r]. simpl.
  rewrite eqb_f. destruct (N.eqb x w); simpl; [|reflexivity]. f_equal.
  unfold map_keys. rewrite !map_map. apply map_ext. intros [y z]. simpl.
  rewrite eqb_f. destruct (N.eqb y b); reflexivity.
Qed.

Lemma cop_inner_relabel k b before : forall t,
  fold_left (fun t w => cop_add (cop_add t w (f b) k) (f b) w (- k)%Z) (map f before) (map_ctable t)
  = map_ctable (fold_left (fun t w => cop_add (cop_add t w b k) b w (- k)%Z) before t).
Proof.
  induction before as [|w r IH]; intros t; simpl; [reflexivity|]. rewrite !cop_add_relabel. apply IH.
Qed.

Lemma cop_outer_relabel k before c : forall t,
  fold_left (fun t b => fold_left (fun t w => cop_add (cop_add t w b k) b w (- k)%Z) (map f before) t)
            (map f c) (map_ctable t)
  = map_ctable (fold_left (fun t b => fold_left (fun t w => cop_add (cop_add t w b k) b w (- k)%Z) before t) c t).
Proof.
  induction c as [|b r IH]; intros t; simpl; [reflexivity|]. rewrite cop_inner_relabel. apply IH.
Qed.

Lemma cop_order_relabel k o : forall before t,
  cop_order k (map f before) (map_order f o) (map_ctable t) = map_ctable (cop_order k before o t).
Proof.
  induction o as [|c r IH]; intros before t; simpl; [reflexivity|].
  rewrite cop_outer_relabel, <- map_app. apply IH.
Qed.

Lemma copeland_table_relabel al p : copeland_table (map f al) (map_mult f p) = map_ctable (copeland_table al p).
Proof.
  unfold copeland_table. rewrite cop_init_relabel. generalize (cop_init al) as t.
  induction p as [|[o k] p IH]; intros t; simpl; [reflexivity|].
  change (@nil N) with (map f []). rewrite cop_order_relabel. apply IH.
Qed.

Theorem copeland_scores_relabel i : copeland_scores (relabel_inst f i) = rmap map_ctable (copeland_scores i).
Proof.
  unfold copeland_scores. change (dt (relabel_inst f i)) with (dt i). dgate. simpl. simpl. f_equal.
  apply copeland_table_relabel.
Qed.

Lemma cop_wins_relabel r : cop_wins (map_keys f r) = cop_wins r.
Proof.
  unfold cop_wins. f_equal. rewrite (map_keys_filter_snd f (fun z => (0 <? z)%Z)). apply map_keys_length.
Qed.

Theorem copeland_winner_relabel i : copeland_winner (relabel_inst f i) = rmap (map f) (copeland_winner i).
Proof.
  unfold copeland_winner. change (dt (relabel_inst f i)) with (dt i). destruct (dt_in (dt i) [Soc]); [|reflexivity].
  rewrite copeland_scores_relabel. destruct (copeland_scores i) as [t|e]; simpl; [|reflexivity].
  replace (map (fun xr => (fst xr, cop_wins (snd xr))) (map_ctable t))
    with (map_keys f (map (fun xr => (fst xr, cop_wins (snd xr))) t)).
  - apply tbl_winners_relabel.
  - unfold map_keys, map_ctable. rewrite !map_map. apply map_ext. intros [x r]. simpl.
    now rewrite cop_wins_relabel.
Qed.

(* approval guard *)
Lemma ballot_size_relabel o : ballot_size (map_order f o) = ballot_size o.
Proof. induction o as [|c r IH]; simpl; [reflexivity|]. now rewrite map_length, IH. Qed.

Lemma is_complete_relabel i : is_complete (relabel_inst f i) = is_complete i.
Proof.
  unfold is_complete. change (dt (relabel_inst f i)) with (dt i). dgate. simpl.
  unfold map_mult. rewrite map_map. simpl.
  rewrite (map_ext (fun om => ballot_size (map_order f (fst om))) (fun om => ballot_size (fst om)))
    by (intros om; apply ballot_size_relabel). reflexivity.
Qed.

Lemma is_approval_relabel i : is_approval (relabel_inst f i) = is_approval i.
Proof.
  unfold is_approval. change (dt (relabel_inst f i)) with (dt i). dgate.
  change (prof (relabel_inst f i)) with (map_mult f (prof i)).
  unfold map_mult. rewrite map_map. simpl.
  rewrite (map_ext (fun om => length (map_order f (fst om))) (fun om => length (fst om)))
    by (intros om; apply map_length).
  destruct (map (fun om => length (fst om)) (prof i)) as [|x l]; [reflexivity|].
  destruct (max_list x l =? 1); [reflexivity|]. destruct (max_list x l =? 2); [|reflexivity].
  apply is_complete_relabel.
Qed.

Theorem approval_winner_relabel i : approval_winner (relabel_inst f i) = rmap (map f) (approval_winner i).
Proof.
  unfold approval_winner, requires_approval. rewrite is_approval_relabel.
  destruct (is_approval i) as [[|]|e]; simpl; try reflexivity. apply plurality_winner_relabel.
Qed.

Lemma sav_events_relabel p : sav_events (map_mult f p) = map_keys f (sav_events p).
Proof.
  unfold sav_events. rewrite <- flat_map_keys. apply flat_map_map_mult. intros [o k]. simpl.
  rewrite hd_map_order. unfold map_keys, sav_weight. rewrite !map_map, map_length. reflexivity.
Qed.

Theorem sav_winner_relabel i : sav_winner (relabel_inst f i) = rmap (map f) (sav_winner i).
Proof.
  unfold sav_winner, requires_approval. rewrite is_approval_relabel.
  destruct (is_approval i) as [[|]|e]; simpl; try reflexivity.
  unfold sav_core. rewrite sav_events_relabel. change (@nil (N * Qc)) with (map_keys f (@nil (N * Qc))).
  rewrite tbl_adds_relabel. apply tbl_winners_relabel.
Qed.

(* ============================================================================================================ *)
(* Part 1b — Model/Bucklin.v (C14)                                                                              *)
Import PrefVerif.Model.Bucklin.

Lemma tbl_get_relabel t a : tbl_get (map_keys f t) (f a) = tbl_get t a.
Proof.
  unfold tbl_get. induction t as [|[b x] t IH]; simpl; [reflexivity|].
  rewrite eqb_f. destruct (N.eqb b a); [reflexivity|]. exact IH.
Qed.

Definition st_map (st : list (N * N) * Z) : list (N * N) * Z := (map_keys f (fst st), snd st).

Lemma round_step_relabel pos st o k :
  round_step pos (st_map st) (map_order f o, k) = st_map (round_step pos st (o, k)).
Proof.
  unfold round_step. simpl. unfold map_order. rewrite nth_error_map.
  destruct (nth_error o pos) as [[|a c]|]; simpl; try reflexivity.
  unfold st_map. simpl. rewrite tbl_add_relabel, tbl_get_relabel. reflexivity.
Qed.

Lemma round_relabel pos p : forall st, round pos (map_mult f p) (st_map st) = st_map (round pos p st).
Proof.
  unfold round. induction p as [|[o k] p IH]; intros st; simpl; [reflexivity|].
  rewrite round_step_relabel. apply IH.
Qed.

Lemma level_loop_relabel fuel p q m : forall pos st,
  level_loop fuel (map_mult f p) q m pos (st_map st) = rmap (map_keys f) (level_loop fuel p q m pos st).
Proof.
  induction fuel as [|n IH]; intros pos st; simpl.
  - destruct ((snd st <? q)%Z && (pos <? m)); reflexivity.
  - destruct ((snd st <? q)%Z && (pos <? m)); [|reflexivity]. rewrite round_relabel. apply IH.
Qed.

Lemma level_core_relabel i : level_core (relabel_inst f i) = rmap (map f) (level_core i).
Proof.
  unfold level_core, quota_of. simpl.
  change (@nil (N * N), (-1)%Z) with (st_map ([], (-1)%Z)). rewrite level_loop_relabel.
  destruct (level_loop _ _ _ _ _ _) as [t|e]; simpl; [|reflexivity]. apply tbl_winners_relabel.
Qed.

Theorem fallback_winner_relabel i : fallback_winner (relabel_inst f i) = rmap (map f) (fallback_winner i).
Proof.
  unfold fallback_winner. change (dt (relabel_inst f i)) with (dt i). dgate.
  apply level_core_relabel.
Qed.

Theorem bucklin_winner_relabel i : bucklin_winner (relabel_inst f i) = rmap (map f) (bucklin_winner i).
Proof.
  unfold bucklin_winner. change (dt (relabel_inst f i)) with (dt i). dgate.
  apply level_core_relabel.
Qed.

(* ============================================================================================================ *)
(* Part 1c — Model/Pairwise.v (C07)                                                                             *)
Section PairwiseTables.
Import PrefVerif.Model.Pairwise.

Lemma pw_alts_relabel i : Pairwise.alts (relabel_pw_inst f i) = map f (Pairwise.alts i).
Proof. unfold Pairwise.alts. simpl. apply map_keys_fst. Qed.

Lemma row_add_relabel r b d : row_add (map_keys f r) (f b) d = map_keys f (row_add r b d).
Proof.
  induction r as [|[x v] r IH]; simpl; [reflexivity|].
  rewrite eqb_f. destruct (N.eqb x b); simpl; [reflexivity|]. now rewrite IH.
Qed.

Lemma ptbl_add_relabel t w b d : Pairwise.tbl_add (map_table f t) (f w) (f b) d = map_table f (Pairwise.tbl_add t w b d).
Proof.
  induction t as [|[x r] t IH]; simpl; [reflexivity|].
  rewrite eqb_f. destruct (N.eqb x w); simpl; [now rewrite row_add_relabel|]. now rewrite IH.
Qed.

Lemma init_table_relabel al : init_table (map f al) = map_table f (init_table al).
Proof.
  unfold init_table, map_table, others. rewrite !map_map. apply map_ext. intros a. simpl. f_equal.
  rewrite filter_map_comm. unfold map_keys. rewrite !map_map. simpl.
  f_equal. apply filter_ext'. intros b. now rewrite eqb_f.
Qed.

Lemma rget_relabel r b : rget (map_keys f r) (f b) = rget r b.
Proof.
  induction r as [|[x v] r IH]; simpl; [reflexivity|]. rewrite eqb_f. destruct (N.eqb x b); [reflexivity|]. exact IH.
Qed.

Lemma tget_row_relabel t a : tget_row (map_table f t) (f a) = option_map (map_keys f) (tget_row t a).
Proof.
  induction t as [|[x r] t IH]; simpl; [reflexivity|]. rewrite eqb_f. destruct (N.eqb x a); [reflexivity|]. exact IH.
Qed.

Theorem tget_relabel t a b : tget (map_table f t) (f a) (f b) = tget t a b.
Proof.
  unfold tget. rewrite tget_row_relabel. destruct (tget_row t a) as [r|]; simpl; [|reflexivity]. apply rget_relabel.
Qed.

(* the three double loops differ only in the step g and in which list is the outer one *)
Section Loops.
  Variable g : table -> N -> N -> table.
  Hypothesis g_relabel : forall t x y, g (map_table f t) (f x) (f y) = map_table f (g t x y).

  Lemma fold_inner_relabel x l2 : forall t,
    fold_left (fun t y => g t (f x) y) (map f l2) (map_table f t) = map_table f (fold_left (fun t y => g t x y) l2 t).
  Proof. induction l2 as [|y r IH]; intros t; simpl; [reflexivity|]. rewrite g_relabel. apply IH. Qed.

  Lemma fold_outer_relabel l1 l2 : forall t,
    fold_left (fun t x => fold_left (fun t y => g t x y) (map f l2) t) (map f l1) (map_table f t)
    = map_table f (fold_left (fun t x => fold_left (fun t y => g t x y) l2 t) l1 t).
  Proof. induction l1 as [|x r IH]; intros t; simpl; [reflexivity|]. rewrite fold_inner_relabel. apply IH. Qed.
End Loops.

Definition pst_map (st : table * list N) : table * list N := (map_table f (fst st), map f (snd st)).

Lemma pw_class_relabel k st cls : pw_class k (pst_map st) (map f cls) = pst_map (pw_class k st cls).
Proof.
  destruct st as [t before]. unfold pw_class, pst_map. simpl. f_equal; [|symmetry; apply map_app].
  apply (fold_outer_relabel (fun t beaten winning => Pairwise.tbl_add t winning beaten k)).
  intros t' x y. apply ptbl_add_relabel.
Qed.

Lemma cp_class_relabel k st cls : cp_class k (pst_map st) (map f cls) = pst_map (cp_class k st cls).
Proof.
  destruct st as [t before]. unfold cp_class, pst_map. simpl. f_equal; [|symmetry; apply map_app].
  apply (fold_outer_relabel (fun t beaten winning =>
           Pairwise.tbl_add (Pairwise.tbl_add t winning beaten k) beaten winning (- k)%Z)).
  intros t' x y. now rewrite !ptbl_add_relabel.
Qed.

Lemma cd_class_relabel k st cls : cd_class k (pst_map st) (map f cls) = pst_map (cd_class k st cls).
Proof.
  destruct st as [t before]. unfold cd_class, pst_map. simpl. f_equal; [|symmetry; apply map_app].
  apply (fold_outer_relabel (fun t winning beaten =>
           Pairwise.tbl_add (Pairwise.tbl_add t winning beaten k) beaten winning (- k)%Z)).
  intros t' x y. now rewrite !ptbl_add_relabel.
Qed.

Section Orders.
  Variable cl : Z -> table * list N -> list N -> table * list N.
  Hypothesis cl_relabel : forall k st cls, cl k (pst_map st) (map f cls) = pst_map (cl k st cls).

  Lemma fold_classes_relabel k o : forall st,
    fold_left (cl k) (map_order f o) (pst_map st) = pst_map (fold_left (cl k) o st).
  Proof. induction o as [|c r IH]; intros st; simpl; [reflexivity|]. rewrite cl_relabel. apply IH. Qed.

  Lemma fold_orders_relabel p : forall t,
    fold_left (fun t ok => fst (fold_left (cl (Z.of_N (snd ok))) (fst ok) (t, []))) (map_mult f p) (map_table f t)
    = map_table f (fold_left (fun t ok => fst (fold_left (cl (Z.of_N (snd ok))) (fst ok) (t, []))) p t).
  Proof.
    induction p as [|[o k] p IH]; intros t; simpl; [reflexivity|].
    change (map_table f t, @nil N) with (pst_map (t, [])). rewrite fold_classes_relabel. apply IH.
  Qed.
End Orders.

Theorem pairwise_table_relabel i : pairwise_table (relabel_pw_inst f i) = map_table f (pairwise_table i).
Proof.
  unfold pairwise_table. rewrite pw_alts_relabel, init_table_relabel.
  apply (fold_orders_relabel pw_class pw_class_relabel).
Qed.

Theorem copeland_table_pw_relabel i : Pairwise.copeland_table (relabel_pw_inst f i) = map_table f (Pairwise.copeland_table i).
Proof.
  unfold Pairwise.copeland_table. rewrite pw_alts_relabel, init_table_relabel.
  apply (fold_orders_relabel cp_class cp_class_relabel).
Qed.

Theorem condorcet_table_relabel i : condorcet_table (relabel_pw_inst f i) = map_table f (condorcet_table i).
Proof.
  unfold condorcet_table. rewrite pw_alts_relabel, init_table_relabel.
  apply (fold_orders_relabel cd_class cd_class_relabel).
Qed.

Theorem pairwise_scores_relabel i : pairwise_scores (relabel_pw_inst f i) = rmap (map_table f) (pairwise_scores i).
Proof.
  unfold pairwise_scores. change (data_type (relabel_pw_inst f i)) with (data_type i).
  destruct (is_ordinal (data_type i)); [|reflexivity]. simpl. f_equal. apply pairwise_table_relabel.
Qed.

Theorem copeland_scores_pw_relabel i :
  Pairwise.copeland_scores (relabel_pw_inst f i) = rmap (map_table f) (Pairwise.copeland_scores i).
Proof.
  unfold Pairwise.copeland_scores. change (data_type (relabel_pw_inst f i)) with (data_type i).
  destruct (is_ordinal (data_type i)); [|reflexivity]. simpl. f_equal. apply copeland_table_pw_relabel.
Qed.

Lemma row_ok_relabel weak r : row_ok weak (map_keys f r) = row_ok weak r.
Proof. unfold row_ok, map_keys. rewrite forallb_map'. reflexivity. Qed.

Theorem has_condorcet_relabel i weak : has_condorcet (relabel_pw_inst f i) weak = has_condorcet i weak.
Proof.
  unfold has_condorcet. change (data_type (relabel_pw_inst f i)) with (data_type i).
  destruct (is_ordinal (data_type i)); [|reflexivity]. f_equal. rewrite condorcet_table_relabel.
  unfold map_table. rewrite existsb_map'. apply existsb_ext'. intros [a r]. simpl. apply row_ok_relabel.
Qed.

(* borda_scores of pairwisecomparisons.py *)
Lemma dd_add_relabel r a d : dd_add (map_keys f r) (f a) d = map_keys f (dd_add r a d).
Proof.
  induction r as [|[x v] r IH]; simpl; [reflexivity|].
  rewrite eqb_f. destruct (N.eqb x a); simpl; [reflexivity|]. now rewrite IH.
Qed.

Definition bst_map (st : row * Z) : row * Z := (map_keys f (fst st), snd st).

Lemma bd_class_relabel k st cls : bd_class k (bst_map st) (map f cls) = bst_map (bd_class k st cls).
Proof.
  destruct st as [r i]. unfold bd_class, bst_map. simpl. rewrite map_length. f_equal.
  generalize ((i - Z.of_nat (length cls)) * k)%Z as d. intros d. revert r.
  induction cls as [|a c IH]; intros r; simpl; [reflexivity|]. rewrite dd_add_relabel. apply IH.
Qed.

Lemma bd_fold_relabel k o : forall st,
  fold_left (bd_class k) (map_order f o) (bst_map st) = bst_map (fold_left (bd_class k) o st).
Proof.
  induction o as [|c o IH]; intros st; [reflexivity|].
  change (map_order f (c :: o)) with (map f c :: map_order f o). cbn [fold_left].
  rewrite bd_class_relabel. apply IH.
Qed.

Lemma bd_order_relabel m r o k : bd_order m (map_keys f r) (map_order f o, k) = map_keys f (bd_order m r (o, k)).
Proof.
  unfold bd_order. simpl. change (map_keys f r, m) with (bst_map (r, m)). rewrite bd_fold_relabel. reflexivity.
Qed.

Theorem borda_table_relabel i : borda_table (relabel_pw_inst f i) = map_keys f (borda_table i).
Proof.
  unfold borda_table. simpl. change (@nil (N * Z)) with (map_keys f (@nil (N * Z))) at 1.
  generalize (@nil (N * Z)) as r. induction (mult i) as [|[o k] p IH]; intros r; simpl; [reflexivity|].
  rewrite bd_order_relabel. apply IH.
Qed.

Theorem borda_scores_pw_relabel i :
  Pairwise.borda_scores (relabel_pw_inst f i) = rmap (map_keys f) (Pairwise.borda_scores i).
Proof.
  unfold Pairwise.borda_scores. change (data_type (relabel_pw_inst f i)) with (data_type i).
  destruct (is_complete_type (data_type i)); [|reflexivity]. simpl. f_equal. apply borda_table_relabel.
Qed.

End PairwiseTables.

(* ============================================================================================================ *)
(* Part 2a — single-peakedness (C03 / C11): checkers, the mirrored axis test and matrix, the three (R)-models   *)
Section SPpart.
Import PrefVerif.Model.SP.

Lemma memN_f a l : memN (f a) (map f l) = memN a l.
Proof. apply mem_f. Qed.

Lemma nodupN_relabel l : nodupN (map f l) = nodupN l.
Proof. induction l as [|a r IH]; simpl; [reflexivity|]. now rewrite memN_f, IH. Qed.

Lemma valid_axis_relabel alts axis : valid_axis (map f alts) (map f axis) = valid_axis alts axis.
Proof.
  unfold valid_axis. rewrite !map_length, nodupN_relabel, !forallb_map'.
  f_equal; [f_equal|]; apply forallb_ext'; intros a; apply memN_f.
Qed.

Theorem spw_check_axis_relabel alts p axis :
  spw_check_axis (map f alts) (map_profile f p) (map f axis) = spw_check_axis alts p axis.
Proof.
  unfold spw_check_axis. rewrite valid_axis_relabel. f_equal.
  apply (Proofs.SP.sp_axis_profile_map f f_inj).
Qed.

Lemma strictify_relabel rs : map strictify (map_rankings f rs) = map_profile f (map strictify rs).
Proof.
  unfold map_rankings, map_profile. rewrite !map_map. apply map_ext. intros r.
  apply (Proofs.SP.strictify_map f).
Qed.

Theorem sp_check_axis_relabel alts rs axis :
  sp_check_axis (map f alts) (map_rankings f rs) (map f axis) = sp_check_axis alts rs axis.
Proof. unfold sp_check_axis. rewrite strictify_relabel. apply spw_check_axis_relabel. Qed.

Theorem axis_test_relabel d p axis :
  is_single_peaked_axis_model d (map_profile f p) (map f axis) = is_single_peaked_axis_model d p axis.
Proof.
  unfold is_single_peaked_axis_model. destruct (dt_soc_toc d); [|reflexivity]. f_equal.
  apply (Proofs.SP.sp_axis_profile_map f f_inj).
Qed.

(* the 0/1 matrix handed to the PQ-tree / ILP code is literally the same matrix *)
Theorem sp_matrix_relabel alts p : sp_matrix (map f alts) (map_profile f p) = sp_matrix alts p.
Proof.
  unfold sp_matrix, map_profile. induction p as [|o p IH]; simpl; [reflexivity|]. rewrite IH. f_equal.
  unfold map_order at 2. rewrite map_length. apply map_ext. intros lvl.
  unfold sp_matrix_row. rewrite map_map. apply map_ext. intros a.
  unfold map_order. rewrite firstn_map, <- concat_map. apply memN_f.
Qed.

Theorem pq_tree_model_relabel d alts p :
  is_single_peaked_pq_tree_model d (map f alts) (map_profile f p) = is_single_peaked_pq_tree_model d alts p.
Proof. unfold is_single_peaked_pq_tree_model. now rewrite sp_matrix_relabel, map_length. Qed.

Theorem ilp_model_relabel d alts p :
  is_single_peaked_ILP_model d (map f alts) (map_profile f p) = is_single_peaked_ILP_model d alts p.
Proof.
  unfold is_single_peaked_ILP_model. destruct (dt_soc_toc d); [|reflexivity]. f_equal.
  apply (Proofs.SP.spw_decide_relabel f f_inj).
Qed.

Theorem elo_model_relabel d alts rs :
  is_single_peaked_model d (map f alts) (map_rankings f rs) = is_single_peaked_model d alts rs.
Proof.
  unfold is_single_peaked_model. destruct (dt_soc d); [|reflexivity]. f_equal.
  apply (Proofs.SP.sp_decide_relabel f f_inj).
Qed.
End SPpart.

(* ============================================================================================================ *)
(* Part 2b — single-crossing (C04): the witness checker                                                         *)
Section SCpart.
Import PrefVerif.Model.SC.

Lemma pair_ok_relabel s a b : pair_ok (map (map f) s) (f a) (f b) = pair_ok s a b.
Proof.
  unfold pair_ok. rewrite eqb_f. destruct (N.eqb a b); [reflexivity|]. f_equal.
  rewrite map_map. apply map_ext. intros o. apply (Proofs.SC.prefers_relabel f f_inj).
Qed.

Theorem sc_seq_check_relabel alts s : sc_seq_check (map f alts) (map (map f) s) = sc_seq_check alts s.
Proof.
  unfold sc_seq_check. rewrite forallb_map'. apply forallb_ext'. intros a.
  rewrite forallb_map'. apply forallb_ext'. intros b. apply pair_ok_relabel.
Qed.

Lemma order_eqb_relabel o1 : forall o2, order_eqb (map f o1) (map f o2) = order_eqb o1 o2.
Proof.
  induction o1 as [|x t IH]; intros [|y u]; simpl; try reflexivity. now rewrite eqb_f, IH.
Qed.

Lemma mem_order_relabel o l : mem_order (map f o) (map (map f) l) = mem_order o l.
Proof. unfold mem_order. rewrite existsb_map'. apply existsb_ext'. intros x. apply order_eqb_relabel. Qed.

Lemma nodup_b_relabel l : nodup_b (map (map f) l) = nodup_b l.
Proof. induction l as [|x t IH]; simpl; [reflexivity|]. now rewrite mem_order_relabel, IH. Qed.

Lemma same_orders_relabel orders s : same_orders (map (map f) orders) (map (map f) s) = same_orders orders s.
Proof.
  unfold same_orders. rewrite nodup_b_relabel, !forallb_map'.
  f_equal; [f_equal|]; apply forallb_ext'; intros o; apply mem_order_relabel.
Qed.

Theorem sc_witness_check_relabel alts orders s :
  sc_witness_check (map f alts) (map (map f) orders) (map (map f) s) = sc_witness_check alts orders s.
Proof. unfold sc_witness_check. now rewrite same_orders_relabel, sc_seq_check_relabel. Qed.
End SCpart.

(* ============================================================================================================ *)
(* Part 2c — single-peaked on a tree (C13): an accepted tree stays accepted after renaming                      *)
Theorem spt_check_relabel alts p T :
  Tree.spt_check alts p T = true -> Tree.spt_check (map f alts) (map_rankings f p) (map_edges f T) = true.
Proof.
  rewrite !Proofs.Tree.spt_check_correct. intros H.
  apply (Proofs.Tree.spt_spec_map f alts p T); [|exact H]. intros a b _ _. apply f_inj.
Qed.

Theorem spt_checkf_relabel alts p T :
  Tree.spt_checkf alts p T = true -> Tree.spt_checkf (map f alts) (map_rankings f p) (map_edges f T) = true.
Proof. rewrite !Proofs.Tree.spt_checkf_eq. apply spt_check_relabel. Qed.

(* ============================================================================================================ *)
(* Part 2d — 1-Euclidean (C19): the checker accepts the renamed embedding iff it accepts the original           *)
Section EuclPart.
Import PrefVerif.Model.Euclid.

Lemma apos_lookup_relabel apos a : apos_lookup (map_keys f apos) (f a) = apos_lookup apos a.
Proof.
  induction apos as [|[b x] t IH]; simpl; [reflexivity|]. rewrite eqb_f. destruct (N.eqb b a); [reflexivity|]. exact IH.
Qed.

Lemma dists_relabel v apos r : dists v (map_keys f apos) (map f r) = dists v apos r.
Proof. induction r as [|a t IH]; simpl; [reflexivity|]. now rewrite apos_lookup_relabel, IH. Qed.

Lemma forallb2_relabel apos : forall (vpos : list Q) profile,
  forallb2 (fun v r => eucl_vote_ok v (map_keys f apos) r) vpos (map (map f) profile)
  = forallb2 (fun v r => eucl_vote_ok v apos r) vpos profile.
Proof.
  induction vpos as [|x t IH]; intros [|r p]; simpl; try reflexivity.
  unfold eucl_vote_ok at 1 3. now rewrite dists_relabel, IH.
Qed.

Theorem eucl_check_relabel alts profile vpos apos :
  eucl_check (map f alts) (map_rankings f profile) vpos (map_keys f apos) = eucl_check alts profile vpos apos.
Proof.
  unfold eucl_check, map_rankings. rewrite forallb_map', map_length, forallb2_relabel. f_equal. f_equal.
  apply forallb_ext'. intros a. unfold has_pos. now rewrite apos_lookup_relabel.
Qed.

Theorem eucl_refuted_relabel alts profile :
  eucl_refuted (map f alts) (map_rankings f profile) = eucl_refuted alts profile.
Proof.
  unfold eucl_refuted, map_rankings.
  now rewrite (Proofs.SP.sp_decide_relabel f f_inj), (Proofs.SC.sc_decide_relabel f f_inj).
Qed.
End EuclPart.

(* ============================================================================================================ *)
(* Part 2e — approval domains (C05): checkers and reference deciders under renaming                             *)
Section ApprovalPart.
Import PrefVerif.Model.C1P PrefVerif.Model.Approval.

Lemma amem_f a l : mem (f a) (map f l) = mem a l.
Proof. apply mem_f. Qed.

Lemma count_f a l : count (f a) (map f l) = count a l.
Proof.
  unfold count. rewrite filter_map_comm, map_length. f_equal. apply filter_ext'. intros x. apply eqb_f.
Qed.

Lemma perm_of_relabel alts order : perm_of (map f alts) (map f order) = perm_of alts order.
Proof.
  unfold perm_of. rewrite <- map_app, forallb_map'. apply forallb_ext'. intros a. now rewrite !count_f.
Qed.

Lemma ballot_word_relabel (b order : list N) :
  map (fun a => mem a (map f b)) (map f order) = map (fun a => mem a b) order.
Proof. rewrite map_map. apply map_ext. intros a. apply amem_f. Qed.

Theorem ci_check_relabel alts ballots order :
  ci_check (map f alts) (map_rankings f ballots) (map f order) = ci_check alts ballots order.
Proof.
  unfold ci_check, map_rankings. rewrite perm_of_relabel, forallb_map'. f_equal.
  apply forallb_ext'. intros b. now rewrite ballot_word_relabel.
Qed.

Theorem cei_check_relabel alts ballots order :
  cei_check (map f alts) (map_rankings f ballots) (map f order) = cei_check alts ballots order.
Proof.
  unfold cei_check, map_rankings. rewrite perm_of_relabel, forallb_map'. f_equal.
  apply forallb_ext'. intros b. now rewrite ballot_word_relabel.
Qed.

Lemma ballot_at_relabel ballots i : ballot_at (map (map f) ballots) i = map f (ballot_at ballots i).
Proof. unfold ballot_at. change (@nil N) with (map f []) at 1. apply map_nth. Qed.

Theorem vi_check_relabel alts ballots border :
  vi_check (map f alts) (map_rankings f ballots) border = vi_check alts ballots border.
Proof.
  unfold vi_check, map_rankings. rewrite map_length, forallb_map'. f_equal. apply forallb_ext'. intros a.
  f_equal. apply map_ext. intros i. now rewrite ballot_at_relabel, amem_f.
Qed.

Theorem vei_check_relabel alts ballots border :
  vei_check (map f alts) (map_rankings f ballots) border = vei_check alts ballots border.
Proof.
  unfold vei_check, map_rankings. rewrite map_length, forallb_map'. f_equal. apply forallb_ext'. intros a.
  f_equal. apply map_ext. intros i. now rewrite ballot_at_relabel, amem_f.
Qed.

Theorem wsc_check_relabel alts ballots border :
  wsc_check (map f alts) (map_rankings f ballots) border = wsc_check alts ballots border.
Proof.
  unfold wsc_check, map_rankings. rewrite map_length, forallb_map'. f_equal. apply forallb_ext'. intros a.
  rewrite forallb_map'. apply forallb_ext'. intros b.
  f_equal. apply map_ext. intros i. now rewrite ballot_at_relabel, !amem_f.
Qed.

Lemma lookupQ_relabel a ap : lookupQ (f a) (map_keys f ap) = lookupQ a ap.
Proof.
  induction ap as [|[k v] t IH]; simpl; [reflexivity|]. rewrite eqb_f. destruct (N.eqb a k); [reflexivity|]. exact IH.
Qed.

Theorem de_check_relabel alts ballots vpr ap :
  de_check (map f alts) (map_rankings f ballots) vpr (map_keys f ap) = de_check alts ballots vpr ap.
Proof.
  unfold de_check, map_rankings. rewrite map_length. f_equal.
  revert vpr. induction ballots as [|b bs IH]; intros [|v vs]; simpl; try reflexivity.
  rewrite IH. f_equal. rewrite forallb_map'. apply forallb_ext'. intros a.
  rewrite lookupQ_relabel, amem_f. reflexivity.
Qed.

Lemma subset_relabel s t : subset (map f s) (map f t) = subset s t.
Proof. unfold subset. rewrite forallb_map'. apply forallb_ext'. intros x. apply amem_f. Qed.
Lemma set_eq_relabel s t : set_eq (map f s) (map f t) = set_eq s t.
Proof. unfold set_eq. now rewrite !subset_relabel. Qed.
Lemma meets_relabel s t : meets (map f s) (map f t) = meets s t.
Proof. unfold meets. rewrite existsb_map'. apply existsb_ext'. intros x. apply amem_f. Qed.

Lemma pairwise_relabel (r r' : list N -> list N -> bool) l :
  (forall s t, r' (map f s) (map f t) = r s t) -> pairwise r' (map (map f) l) = pairwise r l.
Proof.
  intros E. induction l as [|x t IH]; simpl; [reflexivity|]. rewrite IH, forallb_map'. f_equal.
  apply forallb_ext'. intros y. apply E.
Qed.

Theorem part_check_relabel ballots parts :
  part_check (map_rankings f ballots) (map_rankings f parts) = part_check ballots parts.
Proof.
  unfold part_check, map_rankings. rewrite !forallb_map'. f_equal; [f_equal|].
  - apply forallb_ext'. intros b. rewrite existsb_map'. apply existsb_ext'. intros s. apply set_eq_relabel.
  - apply forallb_ext'. intros s. rewrite existsb_map'. apply existsb_ext'. intros b. apply set_eq_relabel.
  - apply pairwise_relabel. intros s t. now rewrite set_eq_relabel, meets_relabel.
Qed.

Theorem part2_check_relabel alts ballots parts :
  part2_check (map f alts) (map_rankings f ballots) (map_rankings f parts) = part2_check alts ballots parts.
Proof.
  unfold part2_check. rewrite part_check_relabel. unfold map_rankings. rewrite map_length, <- concat_map, set_eq_relabel.
  reflexivity.
Qed.

(* reference deciders *)
Theorem ci_decide_relabel alts ballots : ci_decide (map f alts) (map_rankings f ballots) = ci_decide alts ballots.
Proof.
  unfold ci_decide. rewrite Proofs.SP.perms_map, existsb_map'. apply existsb_ext'. intros order. apply ci_check_relabel.
Qed.
Theorem cei_decide_relabel alts ballots : cei_decide (map f alts) (map_rankings f ballots) = cei_decide alts ballots.
Proof.
  unfold cei_decide. rewrite Proofs.SP.perms_map, existsb_map'. apply existsb_ext'. intros order. apply cei_check_relabel.
Qed.
Theorem vi_decide_relabel alts ballots : vi_decide (map f alts) (map_rankings f ballots) = vi_decide alts ballots.
Proof.
  unfold vi_decide. unfold map_rankings at 2. rewrite map_length. apply existsb_ext'. intros b. apply vi_check_relabel.
Qed.
Theorem vei_decide_relabel alts ballots : vei_decide (map f alts) (map_rankings f ballots) = vei_decide alts ballots.
Proof.
  unfold vei_decide. unfold map_rankings at 2. rewrite map_length. apply existsb_ext'. intros b. apply vei_check_relabel.
Qed.
Theorem wsc_decide_relabel alts ballots : wsc_decide (map f alts) (map_rankings f ballots) = wsc_decide alts ballots.
Proof.
  unfold wsc_decide. unfold map_rankings at 2. rewrite map_length. apply existsb_ext'. intros b. apply wsc_check_relabel.
Qed.

Lemma index_of_relabel a l : index_of (f a) (map f l) = index_of a l.
Proof. induction l as [|y ys IH]; simpl; [reflexivity|]. rewrite eqb_f. destruct (N.eqb a y); [reflexivity|]. now rewrite IH. Qed.
Lemma alt_pos_relabel order a : alt_pos (map f order) (f a) = alt_pos order a.
Proof. unfold alt_pos. now rewrite index_of_relabel. Qed.
Lemma de_voter_relabel order b : de_voter (map f order) (map f b) = de_voter order b.
Proof.
  destruct b as [|a [|a' rest]]; simpl; try reflexivity.
  - now rewrite alt_pos_relabel.
  - rewrite !alt_pos_relabel, !map_map.
    rewrite (map_ext (fun x => alt_pos (map f order) (f x)) (alt_pos order)) by (intros x; apply alt_pos_relabel).
    reflexivity.
Qed.
Lemma de_construct_relabel ballots order :
  de_construct (map_rankings f ballots) (map f order)
  = (fst (de_construct ballots order), map_keys f (snd (de_construct ballots order))).
Proof.
  unfold de_construct, map_rankings, map_keys. simpl. f_equal.
  - rewrite map_map. apply map_ext. intros b. apply de_voter_relabel.
  - rewrite !map_map. apply map_ext. intros a. simpl. now rewrite alt_pos_relabel.
Qed.

Theorem de_decide_relabel alts ballots : de_decide (map f alts) (map_rankings f ballots) = de_decide alts ballots.
Proof.
  unfold de_decide. rewrite Proofs.SP.perms_map, existsb_map'. apply existsb_ext'. intros order.
  rewrite de_construct_relabel. cbn [fst snd]. apply de_check_relabel.
Qed.

Theorem part_decide_relabel ballots : part_decide (map_rankings f ballots) = part_decide ballots.
Proof.
  unfold part_decide, map_rankings. rewrite forallb_map'. apply forallb_ext'. intros b1.
  rewrite forallb_map'. apply forallb_ext'. intros b2. now rewrite set_eq_relabel, meets_relabel.
Qed.

Theorem part2_decide_relabel alts ballots :
  part2_decide (map f alts) (map_rankings f ballots) = part2_decide alts ballots.
Proof.
  unfold part2_decide. rewrite part_decide_relabel. f_equal. unfold map_rankings.
  destruct ballots as [|s bs]; [reflexivity|]. cbn [map].
  change (map f s :: map (map f) bs) with (map (map f) (s :: bs)).
  rewrite existsb_map'. apply existsb_ext'. intros t. rewrite forallb_map'. f_equal.
  - apply forallb_ext'. intros b. now rewrite !set_eq_relabel.
  - now rewrite <- map_app, !set_eq_relabel.
Qed.

(* the mirrored partition recognisers *)
Lemma to_set_relabel l : to_set (map f l) = map f (to_set l).
Proof. induction l as [|x t IH]; simpl; [reflexivity|]. rewrite amem_f, IH. destruct (mem x t); reflexivity. Qed.

Lemma part_scan_relabel parts s : part_scan (map (map f) parts) (map f s) = part_scan parts s.
Proof.
  induction parts as [|p r IH]; simpl; [reflexivity|]. rewrite set_eq_relabel, meets_relabel, IH. reflexivity.
Qed.

Lemma part_loop_relabel ballots : forall parts,
  part_loop (map (map f) ballots) (map (map f) parts) = option_map (map (map f)) (part_loop ballots parts).
Proof.
  induction ballots as [|b bs IH]; intros parts; simpl; [reflexivity|].
  rewrite to_set_relabel, part_scan_relabel. destruct (part_scan parts (to_set b)) as [[|]|]; [| |reflexivity].
  - rewrite <- IH. f_equal. now rewrite map_app.
  - apply IH.
Qed.

Theorem is_part_relabel ballots : is_part (map_rankings f ballots) = option_map (map_rankings f) (is_part ballots).
Proof. unfold is_part. apply (part_loop_relabel ballots []). Qed.

Theorem is_2_part_relabel alts ballots :
  is_2_part (map f alts) (map_rankings f ballots) = option_map (map_rankings f) (is_2_part alts ballots).
Proof.
  unfold is_2_part. rewrite is_part_relabel. destruct (is_part ballots) as [parts|]; [|reflexivity]. simpl.
  unfold map_rankings. rewrite map_length. destruct (length parts <=? 1); [reflexivity|].
  unfold union_all. rewrite <- concat_map, !to_set_relabel, set_eq_relabel.
  destruct ((length parts =? 2) && _); reflexivity.
Qed.
End ApprovalPart.

End Inj.

(* ============================================================================================================ *)
(* Part 3 — storage order (no renaming involved)                                                                *)
Section Reorder.
Import PrefVerif.Model.C1P PrefVerif.Model.Approval.

Theorem ci_check_reorder alts ballots ballots' order :
  Permutation ballots ballots' -> ci_check alts ballots order = ci_check alts ballots' order.
Proof. intros H. unfold ci_check. f_equal. now apply forallb_perm'. Qed.
Theorem cei_check_reorder alts ballots ballots' order :
  Permutation ballots ballots' -> cei_check alts ballots order = cei_check alts ballots' order.
Proof. intros H. unfold cei_check. f_equal. now apply forallb_perm'. Qed.

Theorem ci_decide_reorder alts ballots ballots' :
  Permutation ballots ballots' -> ci_decide alts ballots = ci_decide alts ballots'.
Proof. intros H. unfold ci_decide. apply existsb_ext'. intros o. now apply ci_check_reorder. Qed.
Theorem cei_decide_reorder alts ballots ballots' :
  Permutation ballots ballots' -> cei_decide alts ballots = cei_decide alts ballots'.
Proof. intros H. unfold cei_decide. apply existsb_ext'. intros o. now apply cei_check_reorder. Qed.

Theorem part_decide_reorder ballots ballots' :
  Permutation ballots ballots' -> part_decide ballots = part_decide ballots'.
Proof.
  intros H. unfold part_decide. rewrite (forallb_perm' _ _ _ H). apply forallb_ext'. intros b1. now apply forallb_perm'.
Qed.

Lemma bool_eq_iff' (a b : bool) : (a = true <-> b = true) -> a = b.
Proof. destruct a, b; intuition congruence. Qed.

(* alternatives_name in another order: same verdicts *)
Theorem ci_decide_alts_perm alts alts' ballots : Permutation alts alts' -> ci_decide alts ballots = ci_decide alts' ballots.
Proof.
  intros H. apply bool_eq_iff'. rewrite !Proofs.Approval.ci_decide_correct. unfold Proofs.Approval.CI, Proofs.Approval.CI_order.
  split; intros (o & Ho & Hf); exists o; (split; [|exact Hf]).
  - eapply perm_trans; [apply Permutation_sym; exact H|exact Ho].
  - eapply perm_trans; eassumption.
Qed.
Theorem cei_decide_alts_perm alts alts' ballots : Permutation alts alts' -> cei_decide alts ballots = cei_decide alts' ballots.
Proof.
  intros H. apply bool_eq_iff'. rewrite !Proofs.Approval.cei_decide_correct. unfold Proofs.Approval.CEI, Proofs.Approval.CEI_order.
  split; intros (o & Ho & Hf); exists o; (split; [|exact Hf]).
  - eapply perm_trans; [apply Permutation_sym; exact H|exact Ho].
  - eapply perm_trans; eassumption.
Qed.
Theorem vi_decide_alts_perm alts alts' ballots : Permutation alts alts' -> vi_decide alts ballots = vi_decide alts' ballots.
Proof.
  intros H. unfold vi_decide. apply existsb_ext'. intros b. unfold vi_check. f_equal. now apply forallb_perm'.
Qed.
Theorem vei_decide_alts_perm alts alts' ballots : Permutation alts alts' -> vei_decide alts ballots = vei_decide alts' ballots.
Proof.
  intros H. unfold vei_decide. apply existsb_ext'. intros b. unfold vei_check. f_equal. now apply forallb_perm'.
Qed.
Theorem wsc_decide_alts_perm alts alts' ballots : Permutation alts alts' -> wsc_decide alts ballots = wsc_decide alts' ballots.
Proof.
  intros H. unfold wsc_decide. apply existsb_ext'. intros b. unfold wsc_check. f_equal.
  rewrite (forallb_perm' _ _ _ H). apply forallb_ext'. intros a. now apply forallb_perm'.
Qed.

(* rows of a 0/1 matrix in another order *)
Theorem c1p_decide_rows_perm rows rows' nc : Permutation rows rows' -> c1p_decide rows nc = c1p_decide rows' nc.
Proof. intros H. unfold c1p_decide. apply existsb_ext'. intros p. now apply forallb_perm'. Qed.
Theorem c1p_check_rows_perm rows rows' nc perm : Permutation rows rows' -> c1p_check rows nc perm = c1p_check rows' nc perm.
Proof. intros H. unfold c1p_check. f_equal. now apply forallb_perm'. Qed.

(* ballots in another order, voter-side domains: a ballot order for one storage order is translated into one for
   the other through the index permutation (Proofs/C1P.v: Permutation_index) *)
Lemma transport_border (ballots : list (list N)) p border' :
  Permutation (seq 0 (length ballots)) p -> perm_of_seq (length ballots) border' = true ->
  perm_of_seq (length ballots) (map (fun i => nth i p 0) border') = true /\
  length (map (fun i => nth i ballots []) p) = length ballots /\
  forall i, In i border' ->
    ballot_at (map (fun i => nth i ballots []) p) i = ballot_at ballots (nth i p 0).
Proof.
  intros Hp Hb. apply Proofs.C1P.perm_of_seq_correct in Hb.
  assert (Hlen : length p = length ballots) by (rewrite <- (Permutation_length Hp); apply seq_length).
  split; [|split].
  - apply Proofs.C1P.perm_of_seq_correct. transitivity p; [exact Hp|].
    rewrite <- (Proofs.C1P.map_nth_seq p 0) at 1. rewrite Hlen. now apply Permutation_map.
  - now rewrite map_length.
  - intros i Hi. apply (Permutation_in _ (Permutation_sym Hb)) in Hi. apply in_seq in Hi.
    unfold ballot_at. rewrite (nth_indep _ [] (nth 0 ballots [])) by (rewrite map_length; lia).
    apply (map_nth (fun i => nth i ballots [])).
Qed.

Section VoterSide.
Variables (ballots ballots' : list (list N)).
Hypothesis HP : Permutation ballots ballots'.
Variable Q : (nat -> list N) -> list nat -> bool.
Hypothesis Q_nat : forall B B' border h, (forall i, In i border -> B' i = B (h i)) -> Q B' border = Q B (map h border).

Lemma voter_side_transport :
  existsb (fun border => perm_of_seq (length ballots') border && Q (ballot_at ballots') border)
          (perms (seq 0 (length ballots'))) = true ->
  existsb (fun border => perm_of_seq (length ballots) border && Q (ballot_at ballots) border)
          (perms (seq 0 (length ballots))) = true.
Proof.
  destruct (Proofs.C1P.Permutation_index [] ballots ballots' HP) as (p & Hp & E).
  rewrite !existsb_exists. intros (border' & _ & H). apply andb_true_iff in H. destruct H as [Hb Hw].
  assert (Hl : length ballots' = length ballots) by (symmetry; now apply Permutation_length).
  rewrite Hl in Hb. destruct (transport_border ballots p border' Hp Hb) as (H1 & H2 & H3). rewrite <- E in H3.
  exists (map (fun i => nth i p 0) border'). split.
  - apply perms_iff. now apply Proofs.C1P.perm_of_seq_correct.
  - rewrite H1. simpl. rewrite <- Hw. symmetry. apply Q_nat. exact H3.
Qed.
End VoterSide.

Definition vi_Q (alts : list N) (B : nat -> list N) (border : list nat) : bool :=
  forallb (fun a => contig01 (map (fun i => mem a (B i)) border)) alts.
Definition vei_Q (alts : list N) (B : nat -> list N) (border : list nat) : bool :=
  forallb (fun a => extremal01 (map (fun i => mem a (B i)) border)) alts.
Definition wsc_Q (alts : list N) (B : nat -> list N) (border : list nat) : bool :=
  forallb (fun a => forallb (fun b => contig01 (map (fun i => mem a (B i) && negb (mem b (B i))) border)) alts) alts.

Lemma vi_Q_nat alts B B' border h : (forall i, In i border -> B' i = B (h i)) -> vi_Q alts B' border = vi_Q alts B (map h border).
Proof.
  intros H. unfold vi_Q. apply forallb_ext'. intros a. f_equal. rewrite map_map. apply map_ext_in.
  intros i Hi. now rewrite H.
Qed.
Lemma vei_Q_nat alts B B' border h : (forall i, In i border -> B' i = B (h i)) -> vei_Q alts B' border = vei_Q alts B (map h border).
Proof.
  intros H. unfold vei_Q. apply forallb_ext'. intros a. f_equal. rewrite map_map. apply map_ext_in.
  intros i Hi. now rewrite H.
Qed.
Lemma wsc_Q_nat alts B B' border h : (forall i, In i border -> B' i = B (h i)) -> wsc_Q alts B' border = wsc_Q alts B (map h border).
Proof.
  intros H. unfold wsc_Q. apply forallb_ext'. intros a. apply forallb_ext'. intros b. f_equal. rewrite map_map.
  apply map_ext_in. intros i Hi. now rewrite H.
Qed.

Theorem vi_decide_reorder alts ballots ballots' :
  Permutation ballots ballots' -> vi_decide alts ballots = vi_decide alts ballots'.
Proof.
  intros H. apply bool_eq_iff'. split.
  - apply (voter_side_transport ballots' ballots (Permutation_sym H) (vi_Q alts) (vi_Q_nat alts)).
  - apply (voter_side_transport ballots ballots' H (vi_Q alts) (vi_Q_nat alts)).
Qed.

Theorem vei_decide_reorder alts ballots ballots' :
  Permutation ballots ballots' -> vei_decide alts ballots = vei_decide alts ballots'.
Proof.
  intros H. apply bool_eq_iff'. split.
  - apply (voter_side_transport ballots' ballots (Permutation_sym H) (vei_Q alts) (vei_Q_nat alts)).
  - apply (voter_side_transport ballots ballots' H (vei_Q alts) (vei_Q_nat alts)).
Qed.

Theorem wsc_decide_reorder alts ballots ballots' :
  Permutation ballots ballots' -> wsc_decide alts ballots = wsc_decide alts ballots'.
Proof.
  intros H. apply bool_eq_iff'. split.
  - apply (voter_side_transport ballots' ballots (Permutation_sym H) (wsc_Q alts) (wsc_Q_nat alts)).
  - apply (voter_side_transport ballots ballots' H (wsc_Q alts) (wsc_Q_nat alts)).
Qed.

(* DE: through DE <-> CI (ballots over the alternatives) *)
Theorem de_decide_eq_ci alts ballots : Forall (fun b => incl b alts) ballots -> de_decide alts ballots = ci_decide alts ballots.
Proof.
  intros Hwf. apply bool_eq_iff'.
  rewrite (Proofs.Approval.de_decide_correct alts ballots Hwf), Proofs.Approval.ci_decide_correct.
  now apply Proofs.Approval.de_iff_ci.
Qed.

Theorem de_decide_reorder alts ballots ballots' : Forall (fun b => incl b alts) ballots ->
  Permutation ballots ballots' -> de_decide alts ballots = de_decide alts ballots'.
Proof.
  intros Hwf H. rewrite !de_decide_eq_ci; [now apply ci_decide_reorder| |exact Hwf].
  rewrite Forall_forall in *. intros b Hb. apply Hwf. eapply Permutation_in; [apply Permutation_sym; exact H|exact Hb].
Qed.

(* 2PART: the specification only speaks of membership in the ballot list *)
Theorem part2_decide_reorder alts ballots ballots' :
  Permutation ballots ballots' -> part2_decide alts ballots = part2_decide alts ballots'.
Proof.
  assert (D : forall b b', Permutation b b' -> Proofs.Approval.TwoPart alts b -> Proofs.Approval.TwoPart alts b').
  { intros b b' H [Hp Ht]. assert (Hin : forall x, In x b' -> In x b).
    { intros x Hx. eapply Permutation_in; [apply Permutation_sym; exact H|exact Hx]. }
    split.
    - intros b1 b2 H1 H2. apply Hp; now apply Hin.
    - destruct Ht as [->|(s & t & Hs & Ht & Hall & Hc)]; [left; now apply Permutation_nil|right].
      exists s, t. repeat split; try (eapply Permutation_in; eassumption); [|exact Hc].
      intros x Hx. apply Hall. now apply Hin. }
  intros H. apply bool_eq_iff'. rewrite !Proofs.Approval.part2_decide_correct. split; apply D; [exact H|now apply Permutation_sym].
Qed.
End Reorder.

(* ============================================================================================================ *)
(* Part 4 — consequences                                                                                        *)

(* "maps winner sets through the bijection", as sets: from the exact equivariance  r' = rmap (map f) r *)
Lemma winners_as_sets (f : N -> N) (r r' : result (list N)) :
  (forall x y, f x = f y -> x = y) -> r' = rmap (map f) r ->
  (forall e, r = Err e -> r' = Err e) /\
  (forall w, r = Ok w -> exists w', r' = Ok w' /\ (forall a, In a w <-> In (f a) w') /\
                                    (forall b, In b w' -> exists a, b = f a /\ In a w)).
Proof.
  intros Hf ->. split.
  - intros e ->. reflexivity.
  - intros w ->. exists (map f w). split; [reflexivity|]. split.
    + intros a. rewrite in_map_iff. split; [intros H; now exists a|]. intros (x & E & Hx). apply Hf in E. now subst.
    + intros b Hb. apply in_map_iff in Hb. destruct Hb as (a & <- & Ha). now exists a.
Qed.

(* has_condorcet only depends on the multiset of voters *)
Theorem has_condorcet_regroup i i' w :
  Pairwise.wf_inst i -> Pairwise.wf_inst i' -> Pairwise.alts i = Pairwise.alts i' ->
  Pairwise.data_type i = Pairwise.data_type i' ->
  Permutation (Pairwise.expand (Pairwise.mult i)) (Pairwise.expand (Pairwise.mult i')) ->
  Pairwise.has_condorcet i w = Pairwise.has_condorcet i' w.
Proof.
  intros H H' Ea Ed Hp. destruct (Proofs.Pairwise.tables_regroup i i' H H' Ea Hp) as (_ & _ & E).
  unfold Pairwise.has_condorcet. now rewrite E, Ed.
Qed.

(* the mirror of is_single_crossing (Model/SCAlgo.v) answers the same on every storage order / labelling *)
Theorem sc_algo_verdict_perm alts alts' orders orders' :
  SC.wf_profile alts orders -> SC.wf_profile alts' orders' ->
  Permutation alts alts' -> Permutation orders orders' ->
  SCAlgo.sc_algo_verdict alts orders = SCAlgo.sc_algo_verdict alts' orders'.
Proof.
  intros W W' Ha Ho. rewrite !Proofs.SCAlgo.sc_algo_verdict_correct by assumption. now apply Proofs.SC.sc_decide_perm.
Qed.

Theorem sc_algo_verdict_relabel (f : N -> N) alts orders : (forall x y, f x = f y -> x = y) ->
  SC.wf_profile alts orders -> SC.wf_profile (map f alts) (map (map f) orders) ->
  SCAlgo.sc_algo_verdict (map f alts) (map (map f) orders) = SCAlgo.sc_algo_verdict alts orders.
Proof.
  intros Hf W W'. rewrite !Proofs.SCAlgo.sc_algo_verdict_correct by assumption. now apply Proofs.SC.sc_decide_relabel.
Qed.

(* the mirror of is_single_peaked_on_tree (Model/TreeAlgo.v): whatever the set-iteration choices, the storage order
   of the ballots and of the alternatives, the verdict is the same *)
Theorem trick_verdict_invariant alts alts' p p' enumL pickB enumL' pickB' b E b' E' :
  Proofs.TreeAlgo.profile_on alts p -> Proofs.TreeAlgo.profile_on alts' p' ->
  Proofs.TreeAlgo.admissible enumL pickB -> Proofs.TreeAlgo.admissible enumL' pickB' ->
  Permutation alts alts' -> Permutation p p' ->
  TreeAlgo.trick enumL pickB alts p = Ok (b, E) -> TreeAlgo.trick enumL' pickB' alts' p' = Ok (b', E') -> b = b'.
Proof.
  intros Hpo Hpo' Had Had' Ha Hp H1 H2.
  destruct (Proofs.TreeAlgo.trick_decides alts p enumL pickB Hpo Had) as (E1 & HE1 & _).
  destruct (Proofs.TreeAlgo.trick_decides alts' p' enumL' pickB' Hpo' Had') as (E2 & HE2 & _).
  rewrite H1 in HE1. rewrite H2 in HE2. injection HE1 as -> _. injection HE2 as -> _.
  rewrite (Proofs.Tree.spt_decide_profile_perm alts p p' Hp).
  apply Proofs.Tree.spt_decide_alts_perm; [apply Hpo|exact Ha].
Qed.

(* ============================================================================================================ *)
(* Part 5 — consecutive ones: the columns of the matrix in another order                                        *)
Section C1PColumns.
Import PrefVerif.Model.C1P.

Lemma pick_permute_row q row j : j < length q -> pick (permute_row q row) j = pick row (nth j q 0).
Proof.
  intros Hj. unfold pick at 1, permute_row.
  rewrite (nth_indep _ false (pick row 0)) by (now rewrite map_length). apply (map_nth (pick row)).
Qed.

Lemma permute_row_compose q perm row : Forall (fun j => j < length q) perm ->
  permute_row perm (permute_row q row) = permute_row (map (fun j => nth j q 0) perm) row.
Proof.
  intros H. unfold permute_row at 1 3. rewrite map_map. apply map_ext_in. intros j Hj.
  apply pick_permute_row. rewrite Forall_forall in H. now apply H.
Qed.

Lemma C1P_cols_forward rows nc q : Permutation (seq 0 nc) q ->
  Proofs.C1P.C1P (map (permute_row q) rows) nc -> Proofs.C1P.C1P rows nc.
Proof.
  intros Hq (perm & Hperm & Hrows).
  assert (Hlen : length q = nc) by (rewrite <- (Permutation_length Hq); apply seq_length).
  assert (Hrange : Forall (fun j => j < length q) perm).
  { rewrite Hlen. now apply Proofs.C1P.perm_of_seq_range. }
  exists (map (fun j => nth j q 0) perm). split.
  - transitivity q; [exact Hq|]. rewrite <- (Proofs.C1P.map_nth_seq q 0) at 1. rewrite Hlen. now apply Permutation_map.
  - rewrite Forall_forall in Hrows. apply Forall_forall. intros row Hrow. unfold row_contig.
    rewrite <- (permute_row_compose q perm row Hrange). apply (Hrows (permute_row q row)). now apply in_map.
Qed.

Lemma permute_row_seq row : permute_row (seq 0 (length row)) row = row.
Proof. unfold permute_row, pick. apply Proofs.C1P.map_nth_seq. Qed.

Lemma cols_perm_inverse nc q : Permutation (seq 0 nc) q ->
  exists p, Permutation (seq 0 nc) p /\ forall row, length row = nc -> permute_row p (permute_row q row) = row.
Proof.
  intros Hq.
  assert (Hlen : length q = nc) by (rewrite <- (Permutation_length Hq); apply seq_length).
  destruct (Proofs.C1P.Permutation_index 0 q (seq 0 nc) (Permutation_sym Hq)) as (p & Hp & E).
  rewrite Hlen in Hp. exists p. split; [exact Hp|]. intros row Hrow.
  rewrite permute_row_compose by (rewrite Hlen; now apply Proofs.C1P.perm_of_seq_range).
  rewrite <- E, <- Hrow. apply permute_row_seq.
Qed.

Theorem C1P_cols_perm rows nc q : Permutation (seq 0 nc) q -> Forall (fun r => length r = nc) rows ->
  (Proofs.C1P.C1P (map (permute_row q) rows) nc <-> Proofs.C1P.C1P rows nc).
Proof.
  intros Hq Hlen. split; [now apply C1P_cols_forward|].
  destruct (cols_perm_inverse nc q Hq) as (p & Hp & Hinv). intros H.
  apply (C1P_cols_forward (map (permute_row q) rows) nc p Hp).
  rewrite map_map. rewrite (map_ext_in _ (fun r => r)); [now rewrite map_id|].
  intros row Hrow. apply Hinv. rewrite Forall_forall in Hlen. now apply Hlen.
Qed.

Theorem c1p_decide_cols_perm rows nc q : Permutation (seq 0 nc) q -> Forall (fun r => length r = nc) rows ->
  c1p_decide (map (permute_row q) rows) nc = c1p_decide rows nc.
Proof.
  intros Hq Hlen. apply bool_eq_iff'. rewrite !Proofs.C1P.c1p_decide_correct. now apply C1P_cols_perm.
Qed.
End C1PColumns.

(* ============================================================================================================ *)
(* Part 6 — the mirror of is_single_peaked (Escoffier-Lang-Ozturk, Model/ELO.v): its verdict is the reference's
   (Proofs/ELO.v: elo_agrees_reference), hence invariant under storage order and renaming                       *)
Theorem elo_verdict_perm alts alts' prefs prefs' b ax b' ax' :
  Proofs.ELO.wf_strict_profile alts prefs -> Proofs.ELO.wf_strict_profile alts' prefs' ->
  Permutation alts alts' -> Permutation prefs prefs' ->
  ELO.elo alts prefs = Ok (b, ax) -> ELO.elo alts' prefs' = Ok (b', ax') -> b = b'.
Proof.
  intros W W' Ha Hp E E'.
  destruct (Proofs.ELO.elo_agrees_reference alts prefs W) as (x & Hx).
  destruct (Proofs.ELO.elo_agrees_reference alts' prefs' W') as (x' & Hx').
  rewrite E in Hx. rewrite E' in Hx'. injection Hx as -> _. injection Hx' as -> _.
  rewrite (Proofs.SP.sp_decide_reorder alts prefs prefs' Hp). unfold SP.sp_decide.
  now apply Proofs.SP.spw_decide_alts_perm.
Qed.

Theorem elo_verdict_relabel (f : N -> N) alts prefs b ax b' ax' : (forall x y, f x = f y -> x = y) ->
  Proofs.ELO.wf_strict_profile alts prefs -> Proofs.ELO.wf_strict_profile (map f alts) (map (map f) prefs) ->
  ELO.elo alts prefs = Ok (b, ax) -> ELO.elo (map f alts) (map (map f) prefs) = Ok (b', ax') -> b = b'.
Proof.
  intros Hf W W' E E'.
  destruct (Proofs.ELO.elo_agrees_reference alts prefs W) as (x & Hx).
  destruct (Proofs.ELO.elo_agrees_reference _ _ W') as (x' & Hx').
  rewrite E in Hx. rewrite E' in Hx'. injection Hx as -> _. injection Hx' as -> _.
  symmetry. now apply Proofs.SP.sp_decide_relabel.
Qed.

(* ============================================================================================================ *)
(* Part 7 — the remaining mirrors and references (round 3)                                                       *)

(* ---- (b) the exact 1-Euclidean reference eucl_decide: a boolean reflecting an invariant Prop ---- *)
Theorem Euclidean_relabel_inj (f : N -> N) profile : (forall x y, f x = f y -> x = y) ->
  (Proofs.Euclid.Euclidean (map (map f) profile) <-> Proofs.Euclid.Euclidean profile).
Proof.
  intros Hf. split; [apply Proofs.Euclid.Euclidean_relabel|]. intros H.
  set (U := concat profile). apply (Proofs.Euclid.Euclidean_relabel (Proofs.Tree.inv_on f U)).
  assert (E : map (map (Proofs.Tree.inv_on f U)) (map (map f) profile) = profile).
  { rewrite map_map. rewrite <- (map_id profile) at 2. apply map_ext_in. intros v Hv.
    apply Proofs.Tree.map_inv_on; [exact Hf|]. intros x Hx. apply in_concat. exists v. split; assumption. }
  now rewrite E.
Qed.

Lemma ranked_on_perm alts alts' p p' : Permutation alts alts' -> Permutation p p' ->
  Proofs.Euclid.ranked_on alts p -> Proofs.Euclid.ranked_on alts' p'.
Proof.
  unfold Proofs.Euclid.ranked_on. intros Ha Hp H. rewrite Forall_forall in *. intros r Hr.
  transitivity alts; [now apply Permutation_sym|]. apply H. eapply Permutation_in; [apply Permutation_sym; exact Hp|exact Hr].
Qed.

Lemma ranked_on_map (f : N -> N) alts p :
  Proofs.Euclid.ranked_on alts p -> Proofs.Euclid.ranked_on (map f alts) (map (map f) p).
Proof.
  unfold Proofs.Euclid.ranked_on. intros H. rewrite Forall_forall in *. intros r Hr. apply in_map_iff in Hr.
  destruct Hr as (r0 & <- & Hr0). apply Permutation_map. now apply H.
Qed.

Theorem eucl_decide_perm alts alts' p p' : NoDup alts -> Proofs.Euclid.ranked_on alts p ->
  Permutation alts alts' -> Permutation p p' -> EuclidLP.eucl_decide alts p = EuclidLP.eucl_decide alts' p'.
Proof.
  intros Hnd Hrk Ha Hp. apply bool_eq_iff'.
  rewrite (Proofs.EuclidLP.eucl_decide_correct alts p Hnd Hrk).
  rewrite (Proofs.EuclidLP.eucl_decide_correct alts' p' (Permutation_NoDup Ha Hnd) (ranked_on_perm _ _ _ _ Ha Hp Hrk)).
  split; apply Proofs.Euclid.Euclidean_perm; [exact Hp|now apply Permutation_sym].
Qed.

Theorem eucl_decide_relabel (f : N -> N) alts p : (forall x y, f x = f y -> x = y) ->
  NoDup alts -> Proofs.Euclid.ranked_on alts p ->
  EuclidLP.eucl_decide (map f alts) (map (map f) p) = EuclidLP.eucl_decide alts p.
Proof.
  intros Hf Hnd Hrk. apply bool_eq_iff'.
  rewrite (Proofs.EuclidLP.eucl_decide_correct alts p Hnd Hrk).
  rewrite (Proofs.EuclidLP.eucl_decide_correct _ _ (Proofs.Tree.NoDup_map_injective f alts Hf Hnd) (ranked_on_map f alts p Hrk)).
  now apply Euclidean_relabel_inj.
Qed.

(* ---- the mirror of is_one_euclidean: for every sound and complete LP oracle its verdict is eucl_decide ---- *)
Theorem eucl_algo_verdict_perm lp lp' alts alts' orders orders' :
  Proofs.EuclidAlgoComplete.lp_sound_spec lp -> Proofs.EuclidAlgoComplete.lp_complete lp ->
  Proofs.EuclidAlgoComplete.lp_sound_spec lp' -> Proofs.EuclidAlgoComplete.lp_complete lp' ->
  SC.wf_profile alts orders -> SC.wf_profile alts' orders' -> orders <> [] -> alts <> [] ->
  Permutation alts alts' -> Permutation orders orders' ->
  EuclidAlgo.eucl_algo_verdict lp alts orders = EuclidAlgo.eucl_algo_verdict lp' alts' orders'.
Proof.
  intros S1 C1 S2 C2 W W' Ho Hal Ha Hp.
  rewrite (Proofs.EuclidAlgoComplete.eucl_algo_verdict_exact lp alts orders S1 C1 W Ho Hal).
  rewrite (Proofs.EuclidAlgoComplete.eucl_algo_verdict_exact lp' alts' orders' S2 C2 W').
  - destruct W as (Hnd & _ & Hrk). now apply eucl_decide_perm.
  - intros ->. apply Permutation_sym, Permutation_nil in Hp. contradiction.
  - intros ->. apply Permutation_sym, Permutation_nil in Ha. contradiction.
Qed.

Theorem eucl_algo_verdict_relabel (f : N -> N) lp lp' alts orders : (forall x y, f x = f y -> x = y) ->
  Proofs.EuclidAlgoComplete.lp_sound_spec lp -> Proofs.EuclidAlgoComplete.lp_complete lp ->
  Proofs.EuclidAlgoComplete.lp_sound_spec lp' -> Proofs.EuclidAlgoComplete.lp_complete lp' ->
  SC.wf_profile alts orders -> SC.wf_profile (map f alts) (map (map f) orders) -> orders <> [] -> alts <> [] ->
  EuclidAlgo.eucl_algo_verdict lp' (map f alts) (map (map f) orders) = EuclidAlgo.eucl_algo_verdict lp alts orders.
Proof.
  intros Hf S1 C1 S2 C2 W W' Ho Hal.
  rewrite (Proofs.EuclidAlgoComplete.eucl_algo_verdict_exact lp alts orders S1 C1 W Ho Hal).
  rewrite (Proofs.EuclidAlgoComplete.eucl_algo_verdict_exact lp' _ _ S2 C2 W').
  - destruct W as (Hnd & _ & Hrk). now apply eucl_decide_relabel.
  - destruct orders; [contradiction|discriminate].
  - destruct alts; [contradiction|discriminate].
Qed.

(* the extracted mirror (exact Fourier-Motzkin oracle, no hypothesis on the LP) *)
Theorem eucl_algo_exact_verdict_perm alts alts' orders orders' :
  SC.wf_profile alts orders -> SC.wf_profile alts' orders' -> orders <> [] -> alts <> [] ->
  Permutation alts alts' -> Permutation orders orders' ->
  EuclidAlgo.eucl_algo_verdict EuclidAlgo.lp_checked alts orders = EuclidAlgo.eucl_algo_verdict EuclidAlgo.lp_checked alts' orders'.
Proof.
  intros W W' Ho Hal Ha Hp.
  rewrite (Proofs.EuclidLPSolve.eucl_algo_exact_verdict alts orders W Ho Hal).
  rewrite (Proofs.EuclidLPSolve.eucl_algo_exact_verdict alts' orders' W').
  - destruct W as (Hnd & _ & Hrk). now apply eucl_decide_perm.
  - intros ->. apply Permutation_sym, Permutation_nil in Hp. contradiction.
  - intros ->. apply Permutation_sym, Permutation_nil in Ha. contradiction.
Qed.

(* ---- (c) the mirror of k_alternative_deletion (dynamic programme): its optimum is min_alt_del ---- *)
Section DPMirror.
Variables (pair_first pair_first' : N -> N -> bool) (ext_order ext_order' : list (list N) -> list (list N)).
Hypothesis ext_ok : forall l X, In X (ext_order l) <-> In X l.
Hypothesis ext_ok' : forall l X, In X (ext_order' l) <-> In X l.

Theorem elp_optimum_perm alts alts' votes votes' :
  NoDup alts -> votes <> [] -> (forall v, In v votes -> Permutation alts v) ->
  Permutation alts alts' -> Permutation votes votes' ->
  length (snd (ELPDP.k_alternative_deletion pair_first ext_order alts votes))
  = length (snd (ELPDP.k_alternative_deletion pair_first' ext_order' alts' votes')).
Proof.
  intros Hnd Hne Hv Ha Hp.
  assert (Hv' : forall v, In v votes' -> Permutation alts' v).
  { intros v Hin. transitivity alts; [now apply Permutation_sym|]. apply Hv.
    eapply Permutation_in; [apply Permutation_sym; exact Hp|exact Hin]. }
  assert (Hne' : votes' <> []) by (intros ->; apply Permutation_sym, Permutation_nil in Hp; contradiction).
  rewrite (Proofs.ELPOptimal.elp_optimal pair_first ext_order ext_ok alts votes Hnd Hne Hv).
  rewrite (Proofs.ELPOptimal.elp_optimal pair_first' ext_order' ext_ok' alts' votes' (Permutation_NoDup Ha Hnd) Hne' Hv').
  rewrite (Proofs.Deletion.min_alt_del_reorder alts (map SP.strictify votes) (map SP.strictify votes'))
    by (now apply Permutation_map).
  apply Proofs.Deletion.min_alt_del_alts_perm; [exact Hnd| |exact Ha].
  apply Proofs.SP.complete_on_strict_profile; [exact Hnd|]. apply Forall_forall. intros r Hr. apply Hv.
  eapply Permutation_in; [apply Permutation_sym; exact Hp|exact Hr].
Qed.

Theorem elp_optimum_relabel (f : N -> N) alts votes : (forall x y, f x = f y -> x = y) ->
  NoDup alts -> votes <> [] -> (forall v, In v votes -> Permutation alts v) ->
  length (snd (ELPDP.k_alternative_deletion pair_first' ext_order' (map f alts) (map (map f) votes)))
  = length (snd (ELPDP.k_alternative_deletion pair_first ext_order alts votes)).
Proof.
  intros Hf Hnd Hne Hv.
  rewrite (Proofs.ELPOptimal.elp_optimal pair_first ext_order ext_ok alts votes Hnd Hne Hv).
  rewrite (Proofs.ELPOptimal.elp_optimal pair_first' ext_order' ext_ok' (map f alts) (map (map f) votes)
             (Proofs.Tree.NoDup_map_injective f alts Hf Hnd)).
  - rewrite <- (Proofs.Deletion.min_alt_del_relabel f Hf alts (map SP.strictify votes)). f_equal.
    rewrite !map_map. apply map_ext. intros r. apply (Proofs.SP.strictify_map f).
  - destruct votes; [contradiction|discriminate].
  - intros v Hin. apply in_map_iff in Hin. destruct Hin as (v0 & <- & Hv0). apply Permutation_map. now apply Hv.
Qed.
End DPMirror.

(* ---- the mirror of k_alternative_partition_brut_force: found / not found and the number of axes ---- *)
Lemma brute_force_ok_size alts votes k res : Partition.brute_force_ok alts votes k res = true ->
  option_map (@length (list N)) res
  = if Partition.min_partition alts votes <=? k then Some (Partition.min_partition alts votes) else None.
Proof.
  unfold Partition.brute_force_ok, Partition.brute_force_ok_with.
  destruct (Partition.min_partition alts votes <=? k); destruct res as [axes|]; try discriminate; [|reflexivity].
  intros H. apply andb_true_iff in H. destruct H as [_ H]. apply Nat.eqb_eq in H. simpl. now rewrite H.
Qed.

Section BFMirror.
Variables set_order set_order' : list N -> list N.
Hypothesis so_ok : forall L, Permutation L (set_order L).
Hypothesis so_ok' : forall L, Permutation L (set_order' L).

Theorem bf_algo_size_perm alts alts' votes votes' k :
  Proofs.Partition.wf_profile alts votes -> votes <> [] -> Permutation alts alts' -> Permutation votes votes' ->
  option_map (@length (list N)) (PartitionAlgo.bf_algo set_order alts votes k)
  = option_map (@length (list N)) (PartitionAlgo.bf_algo set_order' alts' votes' k).
Proof.
  intros W Hne Ha Hp.
  assert (W' : Proofs.Partition.wf_profile alts' votes').
  { destruct W as [Hnd Hf]. split; [exact (Permutation_NoDup Ha Hnd)|]. rewrite Forall_forall in *. intros r Hr.
    transitivity alts; [now apply Permutation_sym|]. apply Hf.
    eapply Permutation_in; [apply Permutation_sym; exact Hp|exact Hr]. }
  assert (Hne' : votes' <> []) by (intros ->; apply Permutation_sym, Permutation_nil in Hp; contradiction).
  rewrite (brute_force_ok_size _ _ _ _ (Proofs.PartitionComplete.bf_algo_ok set_order alts votes k W Hne so_ok)).
  rewrite (brute_force_ok_size _ _ _ _ (Proofs.PartitionComplete.bf_algo_ok set_order' alts' votes' k W' Hne' so_ok')).
  rewrite (Proofs.Partition.min_partition_profile_perm alts votes votes' Hp).
  assert (W2 : Proofs.Partition.wf_profile alts votes').
  { destruct W as [Hnd Hf]. split; [exact Hnd|]. rewrite Forall_forall in *. intros r Hr. apply Hf.
    eapply Permutation_in; [apply Permutation_sym; exact Hp|exact Hr]. }
  now rewrite (Proofs.Partition.min_partition_alts_perm alts alts' votes' W2 Ha).
Qed.

Theorem bf_algo_size_relabel (f : N -> N) alts votes k : (forall x y, f x = f y -> x = y) ->
  Proofs.Partition.wf_profile alts votes -> votes <> [] ->
  option_map (@length (list N)) (PartitionAlgo.bf_algo set_order' (map f alts) (map (map f) votes) k)
  = option_map (@length (list N)) (PartitionAlgo.bf_algo set_order alts votes k).
Proof.
  intros Hf W Hne.
  assert (W' : Proofs.Partition.wf_profile (map f alts) (map (map f) votes)).
  { destruct W as [Hnd Hr]. split; [now apply Proofs.Tree.NoDup_map_injective|]. rewrite Forall_forall in *.
    intros r Hin. apply in_map_iff in Hin. destruct Hin as (r0 & <- & Hr0). apply Permutation_map. now apply Hr. }
  assert (Hne' : map (map f) votes <> []) by (destruct votes; [contradiction|discriminate]).
  rewrite (brute_force_ok_size _ _ _ _ (Proofs.PartitionComplete.bf_algo_ok set_order alts votes k W Hne so_ok)).
  rewrite (brute_force_ok_size _ _ _ _ (Proofs.PartitionComplete.bf_algo_ok set_order' _ _ k W' Hne' so_ok')).
  now rewrite (Proofs.Partition.min_partition_relabel f Hf alts votes).
Qed.
End BFMirror.

(* ---- (a) is_part when the ballots are stored in another order: same verdict, and the same partition as a SET OF SETS
        (the LIST of parts follows the first occurrences, see is_part_list_order_refuted in Properties/C15.v) ---- *)
Lemma is_part_cover ballots ballots' parts parts' : Permutation ballots ballots' ->
  Approval.is_part ballots = Some parts -> Approval.is_part ballots' = Some parts' ->
  forall s, In s parts -> exists s', In s' parts' /\ Proofs.Approval.SetEq s s'.
Proof.
  intros Hp E E' s Hs.
  apply Proofs.Approval.part_witness, Proofs.Approval.part_check_spec in E. destruct E as (_ & E2 & _).
  apply Proofs.Approval.part_witness, Proofs.Approval.part_check_spec in E'. destruct E' as (E1' & _ & _).
  destruct (E2 s Hs) as (b & Hb & Hsb). destruct (E1' b (Permutation_in _ Hp Hb)) as (s' & Hs' & Hs'b).
  exists s'. split; [exact Hs'|]. eapply Proofs.Approval.SetEq_trans; [exact Hsb|]. now apply Proofs.Approval.SetEq_sym.
Qed.

Theorem is_part_reorder ballots ballots' : Permutation ballots ballots' ->
  match Approval.is_part ballots, Approval.is_part ballots' with
  | Some parts, Some parts' =>
      (forall s, In s parts -> exists s', In s' parts' /\ Proofs.Approval.SetEq s s') /\
      (forall s', In s' parts' -> exists s, In s parts /\ Proofs.Approval.SetEq s' s)
  | None, None => True
  | _, _ => False
  end.
Proof.
  intros Hp.
  assert (D : forall b b', Permutation b b' -> Proofs.Approval.PartOK b -> Proofs.Approval.PartOK b').
  { intros b b' H Hok x y Hx Hy. apply Hok; eapply Permutation_in; try (apply Permutation_sym; exact H); assumption. }
  destruct (Approval.is_part ballots) as [parts|] eqn:E; destruct (Approval.is_part ballots') as [parts'|] eqn:E'.
  - split; [now apply (is_part_cover ballots ballots')|apply (is_part_cover ballots' ballots); auto using Permutation_sym].
  - assert (H : exists q, Approval.is_part ballots' = Some q).
    { apply Proofs.Approval.part_correct. apply (D ballots ballots' Hp). apply Proofs.Approval.part_correct. now exists parts. }
    destruct H as (q & Hq). congruence.
  - assert (H : exists q, Approval.is_part ballots = Some q).
    { apply Proofs.Approval.part_correct. apply (D ballots' ballots (Permutation_sym Hp)).
      apply Proofs.Approval.part_correct. now exists parts'. }
    destruct H as (q & Hq). congruence.
  - exact I.
Qed.
