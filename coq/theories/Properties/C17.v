(* Properties/C17.v — placeholder until Proofs/FromOrdinal.v exists *)
From Coq Require Import List Arith NArith.
From PrefVerif Require Import Lib.Val Model.FromOrdinal.
Theorem fo_guard_all_none : forall src, from_ordinal src None None None = Err ValueErr.
Proof. reflexivity. Qed.
Print Assumptions fo_guard_all_none.
