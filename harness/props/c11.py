"""C11 — weak-order single-peakedness: is_single_peaked_axis, is_single_peaked_pq_tree, is_single_peaked_ILP.

Cases
  c11.axes      payload [dt, alts, profile, axes]      is_single_peaked_axis(instance, axis) for every listed axis
                                                       = model c11.axis_test (theorem axis_test_correct)
  c11.deciders  payload [dt, alts, profile, flags]     verdict of is_single_peaked_pq_tree (flags & 1),
                                                       is_single_peaked_ILP (flags & 2), is_single_peaked (flags & 4,
                                                       strict profiles only) = model c11.decide (spw_decide_correct);
                                                       ILP axis through c11.check_axis (check_axis_correct)
  c11.gate      payload [dt, alts, profile, axis]      TypeError of the three functions on soi / toi / cat instances
dt codes: 0 soc, 1 soi, 2 toc, 3 toi, 4 cat (a CategoricalInstance)."""
import itertools
import random

from core import proto
from .common import case, guarded, ordinal_instance, weak_orders, rand_weak_order, rand_perm

ID = "C11"
RULE = ("exhaustive: is_single_peaked_axis on every axis for every profile of 1-2 distinct complete weak orders over "
        "m <= 3 alternatives (thorough: also every single weak order and every pair over m = 4); PQ-tree and ILP on every "
        "profile of <= 3 distinct weak orders over m <= 3; near-axis profiles (planted + one perturbed vote, m 5-7, n 3-5, "
        "strict and weak) for the PQ-tree against the reference; many-ballot profiles (10-22 distinct ballots, m 5-7, 54-140 "
        "matrix rows) in which two alternatives are separated only by the first 1-3 stored ballots; sampled profiles of "
        "1-4 weak orders for m = 4 on all 24 axes, random m <= 6 on sampled axes; PQ-tree verdict for all of these "
        "profiles and random m <= 5 (thorough 6), ILP on a budgeted subset; planted single-plateaued profiles, ties at "
        "the top, complete indifference; type gate on soi/toi/cat. non-trivial = >= 3 alternatives and >= 2 distinct orders")
EXHAUSTIVE = {"quick": "all profiles of 1-2 distinct complete weak orders, m<=3, every axis; every single weak order m=4, every axis",
              "thorough": "all profiles of 1-2 distinct complete weak orders, m<=4, every axis; all 3-order profiles m=3"}
TRUSTED = ["(R) not verified, compared with the verified reference spw_decide on bounded inputs: is_single_peaked_pq_tree "
           "(isC1P / PQ-tree internals of consecutive_ones.py), is_single_peaked_ILP (constraint builders + python-mip/CBC), "
           "is_single_peaked (ELO); is_single_peaked_axis and sp_cons_ones_matrix are mirrored (Model/SP.v)"]
ASSUMPTIONS = ["ids may be negative Python ints: such profiles are sent to the model relabelled by the injective shift "
               "id -> id - min id (the axis test only compares ids for equality)",
               "orders are complete over the instance's alternatives, classes non-empty, axis = permutation of the "
               "alternatives (quantifier of C11); instance.orders holds distinct orders"]
COVER_FILES = ['properties/subdomains/ordinal/singlepeaked/singlepeakedness.py', 'properties/subdomains/consecutive_ones.py']
TIMEOUT_S = 180.0            # per chunk of CHUNK cases (ILP-heavy chunks on a loaded machine)
CHUNK = 8

DT = {0: "soc", 1: "soi", 2: "toc", 3: "toi", 4: "cat"}
# other values of instance.data_type set on an ordinal instance (codes >= 5 are "other" for the model: TypeError)
ODD_TYPES = ["", "t", "o", "c", "s", "oc", "so", "to", "cs", "ocs", "ocso", "tocsoc", "soc ", " soc", "SOC", "Toc", "toi", "soi",
             "cat", "wmd", "pwg", "dat", "soctoc", "toc,soc"]
for _k, _v in enumerate(ODD_TYPES):
    DT[5 + _k] = _v
THEOREMS_FOR_OP = {"c11.hist": "axis_test_correct / spw_decide_correct on the orders the instance holds", "c11.pq_exact": "pq_tree_sp_sound (Proofs/PQTreeSP.v)", "c11.elo_exact": "strict_agree / elo_correct (Proofs/ELO.v)", "c11.axes": "axis_test_correct", "c11.deciders": "spw_decide_correct / check_axis_correct / strict_agree",
                   "c11.gate": "C11_gate"}


# ------------------------------------------------------------------------------------------------ generators
def planted_weak(rng, axis, p_big=0.35):
    """a weak order single-plateaued w.r.t. axis: nested intervals grown from a random plateau"""
    m = len(axis)
    l = rng.randrange(m)
    r = l if rng.random() > p_big else rng.randrange(l, m)
    order = [list(axis[l:r + 1])]
    while l > 0 or r < m - 1:
        dl = dr = 0
        while dl == 0 and dr == 0:
            dl = 0 if l == 0 else (rng.randint(0, min(l, 2)) if rng.random() > p_big else rng.randint(0, l))
            dr = 0 if r == m - 1 else (rng.randint(0, min(m - 1 - r, 2)) if rng.random() > p_big else rng.randint(0, m - 1 - r))
        cls = list(axis[l - dl:l]) + list(axis[r + 1:r + 1 + dr])
        rng.shuffle(cls)
        order.append(cls)
        l, r = l - dl, r + dr
    return order


def strictify_sp(rng, order, axis):
    """break the ties of a planted weak order so that the result stays single-peaked on axis: inside a class the
    left part is read towards the left, the right part towards the right, interleaved at random"""
    pos = {a: i for i, a in enumerate(axis)}
    out = []
    lo = hi = None
    for cls in order:
        cs = sorted(cls, key=lambda a: pos[a])
        if lo is None:                       # plateau: start at a random member, grow outwards
            s = rng.randrange(len(cs))
            seq, l, r = [cs[s]], s - 1, s + 1
            while l >= 0 or r < len(cs):
                if r >= len(cs) or (l >= 0 and rng.random() < 0.5):
                    seq.append(cs[l]); l -= 1
                else:
                    seq.append(cs[r]); r += 1
            lo, hi = pos[cs[0]], pos[cs[-1]]
        else:
            left = [a for a in cs if pos[a] < lo][::-1]
            right = [a for a in cs if pos[a] > hi]
            seq = []
            while left or right:
                if not right or (left and rng.random() < 0.5):
                    seq.append(left.pop(0))
                else:
                    seq.append(right.pop(0))
            lo, hi = min(lo, pos[cs[0]]), max(hi, pos[cs[-1]])
        out.extend([a] for a in seq)
    return out


def is_strict(profile):
    return all(len(c) == 1 for o in profile for c in o)


def dtype_of(profile):
    return 0 if is_strict(profile) else 2


def distinct(orders):
    out, seen = [], set()
    for o in orders:
        key = tuple(tuple(c) for c in o)
        if key not in seen:
            seen.add(key)
            out.append(o)
    return out


def canon_classes(o):
    return tuple(frozenset(c) for c in o)


def distinct_semantic(orders):
    out, seen = [], set()
    for o in orders:
        k = canon_classes(o)
        if k not in seen:
            seen.add(k)
            out.append(o)
    return out


def rand_profile(rng, alts, style):
    m = len(alts)
    n = rng.randint(1, 4)
    axis = rand_perm(rng, alts)
    if style == "planted":
        orders = [planted_weak(rng, axis) for _ in range(n)]
    elif style == "planted+noise":
        orders = [planted_weak(rng, axis) for _ in range(n)] + [rand_weak_order(rng, alts, p_tie=rng.choice([0.2, 0.5]))]
        rng.shuffle(orders)
    elif style == "strict-planted":
        orders = [planted_weak(rng, axis, p_big=0.0) for _ in range(n)]
        orders = [[[a] for c in o for a in c] for o in orders]      # break ties arbitrarily (may lose SP: fine)
    elif style == "toptie":
        orders = []
        for _ in range(n):
            a = rand_perm(rng, alts)
            k = rng.randint(2, m) if m >= 2 else 1
            orders.append([a[:k]] + [[x] for x in a[k:]])
    elif style == "indiff":
        orders = [[rand_perm(rng, alts)]] + [rand_weak_order(rng, alts, p_tie=0.6) for _ in range(n - 1)]
    else:
        orders = [rand_weak_order(rng, alts, p_tie=rng.choice([0.0, 0.3, 0.6])) for _ in range(n)]
    return distinct_semantic(orders)


def generate(tier, seed):
    rng = random.Random(1000003 * seed + 11)
    out = []
    thorough = tier != "quick"
    ilp_budget = [700 if not thorough else 3000]

    def add_profile(alts, profile, axes=None, exh=0, pq=True, ilp=False, tag=None):
        dt = dtype_of(profile)
        alts = list(alts)
        if axes is not None:
            out.append(case("c11.axes", [dt, alts, profile, [list(a) for a in axes]], exh=exh, m=len(alts), kind=tag))
        flags = 0
        if pq:
            flags |= 1
        if ilp and ilp_budget[0] > 0:
            flags |= 2
            ilp_budget[0] -= 1
        if dt == 0:
            flags |= 4
        if flags & 3:
            out.append(case("c11.deciders", [dt, alts, profile, flags], exh=exh, m=len(alts), kind=tag))

    # ---- exhaustive part: m <= 3, every profile of <= 3 distinct weak orders, every axis, PQ-tree AND ILP on all of
    #      them (tied top classes whose contiguity excludes every axis, e.g. {0,2}>1, 0>1>2, 2>1>0)
    for m in (1, 2, 3):
        alts = list(range(0, m))
        axes = list(itertools.permutations(alts))
        wos = list(weak_orders(alts))
        for o in wos:
            add_profile(alts, [o], axes, exh=1, ilp=True, tag="exh1")
        for o1, o2 in itertools.combinations(wos, 2):
            add_profile(alts, [o1, o2], axes, exh=1, ilp=True, tag="exh2")
        for tr in itertools.combinations(wos, 3):
            add_profile(alts, list(tr), axes if thorough else None, exh=1, ilp=True, tag="exh3")
    alts4 = [1, 2, 3, 4]
    axes4 = list(itertools.permutations(alts4))
    wos4 = list(weak_orders(alts4))
    for o in wos4:
        add_profile(alts4, [o], axes4, exh=1, ilp=(rng.random() < 0.1), tag="exh1")
    pairs4 = list(itertools.combinations(wos4, 2))
    if not thorough:
        pairs4 = rng.sample(pairs4, 250)
    for o1, o2 in pairs4:
        add_profile(alts4, [o1, o2], axes4, exh=1 if thorough else 0, ilp=(rng.random() < 0.05), tag="pairs4")
    # sampled profiles of 3-4 orders, m = 4, every axis
    for _ in range(150 if not thorough else 1500):
        k = rng.randint(3, 4)
        prof = distinct_semantic(rng.sample(wos4, k))
        add_profile(alts4, prof, axes4, ilp=(rng.random() < 0.1), tag="m4-sampled")

    # ---- structured random, arbitrary ids, m <= 6 for the axis test, m <= 5 (6) for the deciders
    styles = ["planted", "planted", "planted+noise", "strict-planted", "toptie", "indiff", "random"]
    nrand = 500 if not thorough else 5000
    for i in range(nrand):
        m = rng.randint(2, 6)
        alts = rng.sample(range(1, rng.choice([8, 50, 10 ** 6])), m)
        prof = rand_profile(rng, alts, styles[i % len(styles)])
        allax = list(itertools.permutations(alts))
        axes = allax if m <= 4 else rng.sample(allax, 24)
        dec = m <= (5 if not thorough else 6)
        add_profile(alts, prof, axes, pq=dec, ilp=dec and m <= 5 and (rng.random() < (0.2 if not thorough else 0.25)),
                    tag=styles[i % len(styles)])

    # ---- near-axis profiles (nested structure): planted votes on a hidden axis + one vote perturbed by one or two
    #      adjacent swaps or one displaced alternative; m = 5..7, n = 3..5, strict and weak; PQ-tree (fast) against the
    #      reference on thousands of them, is_single_peaked cross-checked on the strict ones
    nnear = 4000 if not thorough else 60000
    for i in range(nnear):
        m = 5 + i % 3
        alts = rng.sample(range(0, rng.choice([m, 12, 1000])), m)
        axis = rand_perm(rng, alts)
        n = rng.randint(3, 5)
        weak = (i % 2 == 1)
        votes = []
        for _ in range(n):
            o = planted_weak(rng, axis, p_big=(0.25 if weak else 0.0))
            if not weak:
                o = [[a] for c in o for a in c] if all(len(c) == 1 for c in o) else strictify_sp(rng, o, axis)
            votes.append(o)
        # perturb one vote
        k = rng.randrange(len(votes))
        flat = [a for c in votes[k] for a in c]
        sizes = [len(c) for c in votes[k]]
        if rng.random() < 0.6:
            for _ in range(rng.randint(1, 2)):
                j = rng.randrange(m - 1)
                flat[j], flat[j + 1] = flat[j + 1], flat[j]
        else:
            a = flat.pop(rng.randrange(m))
            flat.insert(rng.randrange(m), a)
        o, j = [], 0
        for sz in sizes:
            o.append(flat[j:j + sz])
            j += sz
        votes[k] = o
        prof = distinct_semantic(votes)
        add_profile(rand_perm(rng, alts), prof, None, pq=True, ilp=(i % 40 == 0), tag="near-axis")

    # ---- MANY ballots (10-20 distinct ballots, m = 5..7: 54-140 rows of the consecutive-ones matrix): two alternatives
    #      p, q are tied (weak) or adjacent and never separated (strict) in all but the first 1-3 stored ballots, and those
    #      first ballots decide single-peakedness (planted on the hidden axis: SP; planted on the axis with q moved away
    #      from p, or random: mostly not SP).  PQ-tree (fast) against the reference; both verdicts.
    nmany = 1200 if not thorough else 8000
    for i in range(nmany):
        m = rng.randint(5, 7)
        alts = rng.sample(range(0, rng.choice([m, 12, 1000])), m)
        axis = rand_perm(rng, alts)
        j = rng.randrange(m - 1)
        pa, qa = axis[j], axis[j + 1]
        contracted = [a for a in axis if a != qa]
        weak = (i % 3 != 0)
        target_rows = rng.choice([56, 60, 66, 70, 80, 100, 130])
        later, rows, guard = [], 0, 0
        while (rows < target_rows or len(later) < 9) and len(later) < 19 and guard < 400:
            guard += 1
            o = planted_weak(rng, contracted, p_big=(0.3 if weak else 0.0))
            if weak:
                o = [cl + [qa] if pa in cl else cl for cl in o]            # p and q always tied
            else:
                flat = [a for cl in o for a in cl] if all(len(cl) == 1 for cl in o) else \
                    [a for cl in strictify_sp(rng, o, contracted) for a in cl]
                k = flat.index(pa)                    # q right below p (peak at / left of p) or right above p: never separated
                flat.insert(k + (1 if contracted.index(flat[0]) <= contracted.index(pa) else 0), qa)
                o = [[a] for a in flat]
            if canon_classes(o) not in [canon_classes(q_) for q_ in later]:
                later.append(o)
                rows += len(o)
        nfirst = rng.randint(1, 3)
        kind = i % 4
        if kind == 0:            # consistent with the hidden axis: single-peaked
            ax1 = axis
        else:                    # q moved away from p
            ax1 = [a for a in axis if a != qa]
            pos = [t for t in range(len(ax1) + 1) if abs(t - ax1.index(pa)) > 1 or t < ax1.index(pa)]
            pos = [t for t in pos if t not in (ax1.index(pa), ax1.index(pa) + 1)] or [0]
            ax1.insert(rng.choice(pos), qa)
        first = []
        for _ in range(nfirst):
            if kind == 3 and rng.random() < 0.5:
                o = rand_weak_order(rng, alts, p_tie=(0.3 if weak else 0.0))
            else:
                o = planted_weak(rng, ax1, p_big=(0.15 if weak else 0.0))
                if not weak:
                    o = [[a] for cl in (o if all(len(cl) == 1 for cl in o) else strictify_sp(rng, o, ax1)) for a in cl]
            first.append(o)
        prof = distinct_semantic(first + later)
        add_profile(rand_perm(rng, alts), prof, None, pq=True, ilp=False, tag="many-ballots")

    # ---- near-axis strict profiles with many ballots (m = 7, 9-14 ballots: 63-98 rows)
    for i in range(300 if not thorough else 3000):
        m = 7
        alts = rng.sample(range(0, 50), m)
        axis = rand_perm(rng, alts)
        votes = []
        for _ in range(rng.randint(9, 14)):
            o = planted_weak(rng, axis, p_big=0.0)
            o = [[a] for c in o for a in c] if all(len(c) == 1 for c in o) else strictify_sp(rng, o, axis)
            votes.append(o)
        if i % 2:
            k = rng.randrange(len(votes))
            flat = [c[0] for c in votes[k]]
            jj = rng.randrange(m - 1)
            flat[jj], flat[jj + 1] = flat[jj + 1], flat[jj]
            votes[k] = [[a] for a in flat]
        rng.shuffle(votes)
        add_profile(rand_perm(rng, alts), distinct_semantic(votes), None, pq=True, ilp=False, tag="many-strict")

    # ---- type gate (soi, toi with complete and incomplete orders; a CategoricalInstance)
    for i in range(24 if not thorough else 120):
        m = rng.randint(2, 5)
        alts = rng.sample(range(1, 30), m)
        dt = [1, 3, 1, 3, 4][i % 5]
        complete = (i % 2 == 0)
        n = rng.randint(1, 3)
        prof = distinct_semantic([rand_weak_order(rng, alts, p_tie=(0.0 if dt == 1 else 0.5), complete=complete)
                                  for _ in range(n)])
        out.append(case("c11.gate", [dt, alts, prof, rand_perm(rng, alts)], gate=1))
    # ---- negative / mixed-sign ids for the axis test (relabelled by an injective shift for the model)
    for i in range(300 if not thorough else 2000):
        m = rng.randint(2, 6)
        lo_ = rng.choice([-1, -m, -m // 2, -10 ** 6, -2])
        alts = rng.sample(range(lo_, lo_ + rng.choice([m, m, 12])), m)
        prof = rand_profile(rng, alts, styles[i % len(styles)])
        allax = list(itertools.permutations(alts))
        add_axes = allax if m <= 4 else rng.sample(allax, 24)
        out.append(case("c11.axes", [dtype_of(prof), list(alts), prof, [list(a) for a in add_axes]], m=m, kind="negative-ids"))

    # ---- LONG weak orders (class indices, ids, class sizes beyond 256 - CPython caches the ints -5..256): one voter
    #      single-plateaued on the axis with >= 258 indifference classes and ties between neighbours of the axis at class
    #      indices >= 257 on the far side of the peak; also a plateau of > 256 tied alternatives, ids > 256
    for i in range(36 if not thorough else 200):
        m = rng.randint(300, 400)
        base = rng.choice([0, 0, 1000, 10 ** 6])
        axis = [base + 3 * t for t in range(m)] if i % 3 else list(range(m))
        if i % 4 == 3:
            rng.shuffle(axis)
        if i % 6 == 5:                        # a plateau of 257..300 tied alternatives, then singletons / pairs
            l = rng.randint(0, 10)
            r = l + rng.randint(257, 300)
        else:
            l = r = rng.randint(0, 15) if i % 2 == 0 else rng.randint(m - 16, m - 1)
        order = [list(axis[l:r + 1])]
        while l > 0 or r < m - 1:
            room_l, room_r = l, m - 1 - r
            if room_r and (not room_l or rng.random() < (0.93 if room_r > room_l else 0.07)):
                k = 2 if (room_r >= 2 and rng.random() < 0.25) else 1
                order.append(list(axis[r + 1:r + 1 + k]))
                r += k
            else:
                k = 2 if (room_l >= 2 and rng.random() < 0.25) else 1
                order.append(list(axis[l - k:l]))
                l -= k
        prof = [order]
        if i % 5 == 0:                        # a second voter with the mirrored shape
            prof.append([list(cl) for cl in order[:1]] + [list(cl) for cl in order[1:]][::1])
            prof = distinct_semantic(prof)
        axes = [list(axis), list(axis[::-1])]
        bad = list(axis)
        j = rng.randrange(m - 1)
        bad[j], bad[j + 1] = bad[j + 1], bad[j]
        axes.append(bad)
        bad2 = list(axis)
        a_ = bad2.pop(rng.randrange(m))
        bad2.insert(rng.randrange(m), a_)
        axes.append(bad2)
        out.append(case("c11.axes", [dtype_of(prof), list(axis), prof, axes], m=m, kind="long"))

    # ---- histories: one object built in phases through the public API with maintenance calls in between, then every
    #      recogniser asked twice in varying order (purity), judged against the model of the profile the object holds
    from . import c03 as C03H
    for i in range(500 if not thorough else 4000):
        m = rng.randint(3, 6)
        alts = rng.sample(range(0, rng.choice([m, 30, 1000])), m)
        axis = rand_perm(rng, alts)
        weak = (i % 3 != 0)
        votes = []
        for _ in range(rng.randint(2, 5)):
            o = planted_weak(rng, axis, p_big=(0.3 if weak else 0.0))
            if not weak:
                o = [[a] for c_ in o for a in c_] if all(len(c_) == 1 for c_ in o) else strictify_sp(rng, o, axis)
            votes.append(o)
        if i % 4 == 1:
            votes.append(rand_weak_order(rng, alts, p_tie=(0.3 if weak else 0.0)))
        nph = rng.randint(2, 3)
        phases = [[] for _ in range(nph)]
        for v in votes:
            phases[rng.randrange(nph)].append([v, rng.choice([1, 1, 2, 300])])
        for k in range(nph):
            if not phases[k]:
                phases[k].append([rng.choice(votes), 1])
        maint = [[rng.randrange(len(C03H.MAINT)) for _ in range(rng.randint(0, 3))] for _ in range(nph)]
        if rng.random() < 0.6:
            maint[rng.randrange(nph - 1)].insert(0, 0)
        how = [rng.choice([1, 2]) for _ in range(nph)]
        axes = [axis, rand_perm(rng, alts)]
        script = [rng.randrange(4) for _ in range(6)]      # 0 axis test #0, 1 axis test #1, 2 pq-tree, 3 is_single_peaked
        out.append(case("c11.hist", [alts, phases, maint, how, axes, script], hist=1))

    # every odd data_type string on an ordinal instance with strict complete / weak complete content (the guard must be
    # a membership test in {"soc", "toc"}: substrings, the empty string, other cases and other types are refused),
    # for the five guarded functions; positive controls: soc / toc are not refused
    for k_, name in enumerate(ODD_TYPES):
        for rep in range(2):
            m = rng.randint(2, 4)
            alts = rng.sample(range(0, 30), m)
            axis = rand_perm(rng, alts)
            prof = distinct_semantic([planted_weak(rng, axis, p_big=(0.0 if rep == 0 else 0.4)) for _ in range(rng.randint(1, 3))])
            if rep == 0:
                prof = distinct_semantic([[[a] for cl in o for a in cl] for o in prof])
            out.append(case("c11.gate", [5 + k_, alts, prof, axis], gate=2))
    for rep in range(6 if not thorough else 30):
        m = 3
        alts = rng.sample(range(0, 30), m)
        axis = rand_perm(rng, alts)
        prof = distinct_semantic([planted_weak(rng, axis, p_big=(0.0 if rep % 2 == 0 else 0.4)) for _ in range(2)])
        if rep % 2 == 0:
            prof = distinct_semantic([[[a] for cl in o for a in cl] for o in prof])
        out.append(case("c11.gate", [dtype_of(prof), alts, prof, axis], gate=3))

    # ---- is_single_peaked_pq_tree against the ALGORITHM it runs (Model/PQTreeSP.v: sp_matrix, isC1P's duplicate
    #      removal, the mirrored PQ-tree of Model/PQTree.v): exact agreement of the verdict at EVERY size; the mirror is
    #      proved sound (Proofs/PQTreeSP.v pq_tree_sp_sound), so a True answer confirmed by it is a proved True
    for k_, c in enumerate(list(out)):
        if c["op"] == "c11.deciders" and c["payload"][3] & 1 and (not thorough or k_ % 4 == 0):
            out.append(case("c11.pq_exact", c["payload"][:3] + [0], m=len(c["payload"][1]), kind=c["tags"].get("kind")))
    for i in range(300 if not thorough else 3000):
        m = rng.randint(8, 12)       # the implementation's running time doubles with every level of the PQ-tree

        alts = rng.sample(range(0, 200), m)
        axis = rand_perm(rng, alts)
        weak = (i % 2 == 0)
        votes = []
        for _ in range(rng.randint(2, 10)):
            o = planted_weak(rng, axis, p_big=(0.3 if weak else 0.0))
            if not weak:
                o = [[a] for c_ in o for a in c_] if all(len(c_) == 1 for c_ in o) else strictify_sp(rng, o, axis)
            votes.append(o)
        if i % 3 == 0:                      # a near miss: swap two neighbours somewhere
            k = rng.randrange(len(votes))
            flat = [list(c_) for c_ in votes[k]]
            if len(flat) >= 2:
                jj = rng.randrange(len(flat) - 1)
                flat[jj], flat[jj + 1] = flat[jj + 1], flat[jj]
                votes[k] = flat
        rng.shuffle(votes)
        prof = distinct_semantic(votes)
        out.append(case("c11.pq_exact", [dtype_of(prof), rand_perm(rng, alts), prof, 0], m=m, kind="large"))

    # ---- VOLUME for c11.pq_exact at m = 8..10, n = 3..5, strict and weak, planted on a hidden axis / near-axis (one vote
    #      perturbed): nested P/Q structures only appear there (~1e-4 .. 1e-3 of such profiles).  The 4th payload field
    #      carries the planted axis: if it passes the verified checker c11.check_axis, a False answer of the
    #      implementation is a violation whatever the mirror says.
    from . import c03 as C03
    npqv = 8000 if not thorough else 40000
    for i in range(npqv):
        m = rng.randint(8, 10)
        alts = rng.sample(range(0, rng.choice([m, 40, 1000])), m)
        axis = rand_perm(rng, alts)
        n = rng.randint(3, 5)
        g = i % 20
        if g < 12:
            flat = C03.corr_votes(rng, axis, n, rng.choice([0.3, 0.5, 0.6, 0.7, 0.8]))
        elif g < 17:
            flat = [C03.walsh(rng, axis) for _ in range(n)]
        elif g < 18:
            flat = [C03.conitzer(rng, axis) for _ in range(n)]
        else:
            flat = None
        weak = (i % 3 == 1)
        if flat is not None:
            votes = []
            for v in flat:
                o = [[v[0]]]
                for a in v[1:]:            # merging adjacent ranks of a single-peaked ranking keeps it single-peaked
                    if weak and rng.random() < 0.3:
                        o[-1].append(a)
                    else:
                        o.append([a])
                votes.append(o)
        else:
            votes = []
            for _ in range(n):
                o = planted_weak(rng, axis, p_big=(0.25 if weak else 0.0))
                if not weak:
                    o = [[a] for c_ in o for a in c_] if all(len(c_) == 1 for c_ in o) else strictify_sp(rng, o, axis)
                votes.append(o)
        if (i // 3) % 4 == 3:              # near-axis: one vote perturbed (adjacent swaps or one displaced alternative)
            k = rng.randrange(len(votes))
            fl = [a for c_ in votes[k] for a in c_]
            sizes = [len(c_) for c_ in votes[k]]
            if rng.random() < 0.6:
                for _ in range(rng.randint(1, 2)):
                    j = rng.randrange(m - 1)
                    fl[j], fl[j + 1] = fl[j + 1], fl[j]
            else:
                a = fl.pop(rng.randrange(m))
                fl.insert(rng.randrange(m), a)
            o, j = [], 0
            for sz in sizes:
                o.append(fl[j:j + sz])
                j += sz
            votes[k] = o
        rng.shuffle(votes)
        prof = distinct_semantic(votes)
        out.append(case("c11.pq_exact", [dtype_of(prof), rand_perm(rng, alts), prof, axis], m=m, kind="volume"))

    # ---- is_single_peaked against its mirror c03.elo (proved = the definition) and the planted axis on strict planted
    #      profiles, m = 7..10, n = 2..3 (clause "agree with is_single_peaked on strict profiles"): Walsh / Conitzer /
    #      correlated bottom-up votes, topped up with elimination schedules alternating single- and two-candidate rounds
    nelo = 4000 if not thorough else 20000
    nalt = 1500 if not thorough else 8000
    made_alt, i = 0, 0
    while i < nelo or made_alt < nalt:
        m = rng.randint(7, 10)
        n = rng.choice([2, 2, 3])
        alts = rng.sample(range(0, rng.choice([m, 30, 10 ** 6])), m)
        axis = rand_perm(rng, alts)
        g = i % 3
        if g == 0:
            votes = [C03.walsh(rng, axis) for _ in range(n)]
        elif g == 1:
            votes = [C03.conitzer(rng, axis) for _ in range(n)]
        else:
            votes = C03.corr_votes(rng, axis, n, rng.choice([0.3, 0.6, 0.8]))
        votes = C03.distinct(votes)
        isalt = C03.alternating(C03.rounds_pattern(votes))
        if i < nelo or isalt:
            out.append(case("c11.elo_exact", [rand_perm(rng, alts), votes, axis], m=m, alt=int(isalt)))
            made_alt += isalt
        i += 1
        if i > 60 * (nelo + nalt):
            break
    return out


# ------------------------------------------------------------------------------------------------ implementation side
def _instance(dt, alts, profile):
    if dt == 4:
        from preflibtools.instances import CategoricalInstance
        inst = CategoricalInstance()
        return inst
    return ordinal_instance([(o, 1) for o in profile], data_type=DT[dt], alts=list(alts))


def _ilp(fn, *a):
    """python-mip models are freed by the cyclic GC; if that happens while cffi is inside a later solver call,
    Model.__del__ re-enters cffi's non-reentrant lock and the process deadlocks (observed by the C15 agent).  Collect
    before the call, keep the collector off during it.  (environment, not /repo)"""
    import gc
    gc.collect()
    gc.disable()
    try:
        return guarded(fn, *a)
    finally:
        gc.enable()
        gc.collect()


def impl(c):
    from preflibtools.properties.subdomains.ordinal.singlepeaked import singlepeakedness as SPM
    op, pl = c["op"], c["payload"]
    if op == "c11.axes":
        dt, alts, profile, axes = pl
        inst = _instance(dt, alts, profile)
        res = []
        for ax in axes:
            r = guarded(SPM.is_single_peaked_axis, inst, list(ax))
            if r[0] == 0:
                if not isinstance(r[1], bool):
                    return {"crash": "is_single_peaked_axis returned %r" % (r[1],)}
                r = [0, int(r[1])]
            res.append(r)
        return res
    if op == "c11.deciders":
        dt, alts, profile, flags = pl
        res = {}
        if flags & 1:
            r = guarded(SPM.is_single_peaked_pq_tree, _instance(dt, alts, profile))
            res["pq"] = [0, int(bool(r[1]))] if r[0] == 0 else r
        if flags & 2:
            r = _ilp(SPM.is_single_peaked_ILP, _instance(dt, alts, profile))
            if r[0] == 0:
                v, status, axis = r[1]
                res["ilp"] = [0, int(bool(v)), [int(a) for a in axis] if axis is not None else None, str(status)]
            else:
                res["ilp"] = r
        if flags & 4:
            r = guarded(SPM.is_single_peaked, _instance(dt, alts, profile))
            res["elo"] = [0, int(bool(r[1][0]))] if r[0] == 0 else r
        return res
    if op == "c11.hist":
        from . import c03 as C03H
        from .common import snapshot, snap_diff
        alts, phases, maint, how, axes, script = pl
        inst = C03H.history_build(phases, maint, how)
        res = {"dt": str(inst.data_type), "calls": []}
        for code in script:
            before = snapshot(inst)
            if code in (0, 1):
                ax = list(axes[code])
                r = guarded(SPM.is_single_peaked_axis, inst, ax)
                r = [0, int(bool(r[1]))] if r[0] == 0 else r
                C03H._poison(ax)
            elif code == 2:
                r = guarded(SPM.is_single_peaked_pq_tree, inst)
                r = [0, int(bool(r[1]))] if r[0] == 0 else r
            else:
                if inst.data_type != "soc":
                    res["calls"].append([code, [2], None])
                    continue
                r = guarded(SPM.is_single_peaked, inst)
                if r[0] == 0:
                    ax = r[1][1]
                    r = [0, int(bool(r[1][0]))]
                    if isinstance(ax, list):
                        C03H._poison(ax)
            res["calls"].append([code, r, snap_diff(before, snapshot(inst))])
        return res
    if op == "c11.elo_exact":
        alts, rankings, planted = pl
        inst = ordinal_instance([([[a] for a in v], 1) for v in rankings], data_type="soc", alts=list(alts))
        r = guarded(SPM.is_single_peaked, inst)
        if r[0] == 1:
            return {"elo": r}
        return {"elo": [0, int(bool(r[1][0]))], "axis": [int(a) for a in r[1][1]] if r[1][0] else []}
    if op == "c11.pq_exact":
        dt, alts, profile, _ = pl
        inst = _instance(dt, alts, profile)
        r = guarded(SPM.is_single_peaked_pq_tree, inst)
        if r[0] == 1:
            return {"pq": r, "elems": []}
        # the order in which reorder_sets visits the elements: isC1P hands it the distinct column sets (tuples of row
        # indices) and reorder_sets iterates over set().union(*sets) - CPython's set order, a parameter of the mirror
        alt_map = {n_: k_ for k_, n_ in enumerate(inst.alternatives_name)}
        matrix = SPM.sp_cons_ones_matrix(inst, alt_map)
        sets = []
        for col in zip(*matrix):
            s_ = tuple(i_ for i_ in range(len(col)) if col[i_] == 1)
            if s_ not in sets:
                sets.append(s_)
        elems = [int(x) for x in set().union(*sets)] if sets else []
        return {"pq": [0, int(bool(r[1]))], "elems": elems}
    if op == "c11.gate":
        dt, alts, profile, axis = pl
        res = {}
        fns = [("axis", SPM.is_single_peaked_axis, (list(axis),)),
               ("pq", SPM.is_single_peaked_pq_tree, ()),
               ("ilp", SPM.is_single_peaked_ILP, ())]
        if c["tags"].get("gate", 1) >= 2:
            fns += [("vdel", SPM.approx_SP_voter_deletion_ILP, ()), ("adel", SPM.approx_SP_alternative_deletion_ILP, ())]
        for name, fn, args in fns:
            r = guarded(fn, _instance(dt, alts, profile), *args)
            res[name] = r if r[0] == 1 else [0, 0]
        return res
    return {"crash": "unknown op " + op}


# ------------------------------------------------------------------------------------------------ model side
def oracle_requests(c, r):
    op, pl = c["op"], c["payload"]
    if op == "c11.axes":
        dt, alts, profile, axes = pl
        off = max(0, -min(alts)) if alts else 0       # negative ids: injective shift into N (relabelling invariance)
        sh = (lambda x: [sh(y) for y in x] if isinstance(x, list) else x + off)
        return [("c11.axis_test", [dt, sh(profile), sh(ax)]) for ax in axes]
    if op == "c11.deciders":
        dt, alts, profile, flags = pl
        reqs = [("c11.decide", [alts, profile]), ("c11.pq_tree", [dt, alts, profile]), ("c11.ilp", [dt, alts, profile])]
        if isinstance(r, dict) and "ilp" in r and r["ilp"][0] == 0 and r["ilp"][2] is not None:
            reqs.append(("c11.check_axis", [alts, profile, r["ilp"][2]]))
        return reqs
    if op == "c11.gate":
        dt, alts, profile, axis = pl
        return [("c11.axis_test", [dt, profile, axis]), ("c11.pq_tree", [dt, alts, profile]), ("c11.ilp", [dt, alts, profile])]
    if op == "c11.pq_exact":
        dt, alts, profile, planted = pl
        reqs = [("c11.pq_algo", [dt, alts, profile, r["elems"] if isinstance(r, dict) and "elems" in r else []])]
        if isinstance(planted, list) and planted:
            reqs.append(("c11.check_axis", [alts, profile, planted]))
        return reqs
    if op == "c11.hist":
        from . import c03 as C03H
        alts, phases, maint, how, axes, script = pl
        orders, _ = C03H.history_expected(phases)
        dt = dtype_of(orders)
        return [("c11.axis_test", [dt, orders, axes[0]]), ("c11.axis_test", [dt, orders, axes[1]]),
                ("c11.decide", [alts, orders])]
    if op == "c11.elo_exact":
        alts, rankings, planted = pl
        reqs = [("c03.elo", [alts, rankings]), ("c11.check_axis", [alts, [[[a] for a in v] for v in rankings], planted])]
        if isinstance(r, dict) and r.get("axis"):
            reqs.append(("c03.check_axis", [alts, rankings, r["axis"]]))
        return reqs
    return []


def judge(c, r, mres):
    op, pl = c["op"], c["payload"]
    if op == "c11.axes":
        axes = pl[3]
        if len(r) != len(mres):
            return "result count"
        for ax, ri, mi in zip(axes, r, mres):
            if ri != mi:
                return {"kind": "mismatch", "theorem": "axis_test_correct",
                        "reason": "is_single_peaked_axis(axis=%r) -> %r, model %r" % (ax, ri, mi)}
        return None
    if op == "c11.deciders":
        dec = mres[0]
        if mres[1] != [0, dec] or mres[2] != [0, dec]:
            return {"kind": "broken-correspondence",
                    "reason": "model: matrix/C1P reduction %r or ILP model %r differ from spw_decide %r" % (mres[1], mres[2], dec)}
        for k, fn in (("pq", "is_single_peaked_pq_tree"), ("ilp", "is_single_peaked_ILP"), ("elo", "is_single_peaked")):
            if k in r and r[k][0] == 1:
                msg = proto.untext(r[k][2]) if len(r[k]) > 2 else "error code %r" % (r[k][1],)
                return {"kind": "exception", "theorem": "spw_decide_correct",
                        "reason": "%s raised on an in-domain instance: %s" % (fn, msg)}
        if "pq" in r and r["pq"] != [0, dec]:
            return {"kind": "mismatch", "theorem": "spw_decide_correct / sp_matrix_correct",
                    "reason": "is_single_peaked_pq_tree -> %r, reference %r" % (r["pq"], dec)}
        if "ilp" in r:
            ri = r["ilp"]
            if ri[0] != 0 or ri[1] != dec:
                return {"kind": "mismatch", "theorem": "spw_decide_correct",
                        "reason": "is_single_peaked_ILP -> %r, reference %r" % (ri, dec)}
            if ri[1] == 1:
                if ri[2] is None or len(mres) < 4 or mres[3] != 1:
                    return {"kind": "mismatch", "theorem": "check_axis_correct",
                            "reason": "is_single_peaked_ILP returned axis %r which is not a permutation of the "
                                      "alternatives passing the axis test" % (ri[2],)}
        if "elo" in r and r["elo"] != [0, dec]:
            return {"kind": "mismatch", "theorem": "strict_agree",
                    "reason": "is_single_peaked (strict profile) -> %r, weak-order reference %r" % (r["elo"], dec)}
        return None
    if op == "c11.pq_exact":
        if r["pq"][0] == 1:
            msg = proto.untext(r["pq"][2]) if len(r["pq"]) > 2 else "error code %r" % (r["pq"][1],)
            return {"kind": "exception", "theorem": "pq_tree_sp_sound",
                    "reason": "is_single_peaked_pq_tree raised on an in-domain instance: %s" % msg}
        if len(mres) > 1 and mres[1] == 1 and r["pq"] != [0, 1]:
            return {"kind": "mismatch", "theorem": "check_axis_correct / spw_decide_correct",
                    "reason": "is_single_peaked_pq_tree -> %r although the planted axis %r passes the verified checker"
                              % (r["pq"], pl[3])}
        if r["pq"] != mres[0]:
            return {"kind": "mismatch", "theorem": "Model/PQTreeSP.v is_single_peaked_pq_tree_algo (mirror) / pq_tree_sp_sound",
                    "reason": "is_single_peaked_pq_tree -> %r, the mirrored algorithm (sp_matrix + isC1P + PQ-tree) -> %r"
                              % (r["pq"], mres[0])}
        return None
    if op == "c11.hist":
        from . import c03 as C03H
        alts, phases, maint, how, axes, script = pl
        orders, _ = C03H.history_expected(phases)
        want_dt = DT[dtype_of(orders)]
        if r["dt"] != want_dt:
            return {"kind": "mismatch", "theorem": "C11 quantifier (soc/toc instance built through the public API)",
                    "reason": "data_type %r after the construction, expected %r" % (r["dt"], want_dt)}
        names = ["is_single_peaked_axis(axis #0)", "is_single_peaked_axis(axis #1)", "is_single_peaked_pq_tree", "is_single_peaked"]
        for j, (code, ans, diff) in enumerate(r["calls"]):
            if ans == [2]:
                continue
            if diff:
                return {"kind": "mismatch", "theorem": "purity of the recognisers",
                        "reason": "call %d (%s) modified the instance: %s" % (j + 1, names[code], diff)}
            exp = mres[code] if code in (0, 1) else [0, mres[2]]
            if ans != exp:
                return {"kind": "mismatch" if ans[0] == 0 else "exception",
                        "theorem": "axis_test_correct" if code in (0, 1) else "spw_decide_correct / strict_agree",
                        "reason": "call %d on the same object: %s -> %r, model of the profile the object holds -> %r"
                                  % (j + 1, names[code], ans, exp)}
        return None
    if op == "c11.elo_exact":
        if r["elo"][0] == 1:
            msg = proto.untext(r["elo"][2]) if len(r["elo"]) > 2 else "error code %r" % (r["elo"][1],)
            return {"kind": "exception", "theorem": "elo_no_error", "reason": "is_single_peaked raised on a soc instance: %s" % msg}
        if mres[1] == 1 and r["elo"] != [0, 1]:
            return {"kind": "mismatch", "theorem": "sp_decide_correct / strict_agree",
                    "reason": "is_single_peaked -> False although the planted axis %r passes the verified checker" % (pl[2],)}
        if mres[0][0] != 0 or r["elo"][1] != mres[0][1][0]:
            return {"kind": "mismatch", "theorem": "elo_correct (mirror of is_single_peaked) / strict_agree",
                    "reason": "is_single_peaked -> %r, its mirror -> %r" % (r["elo"], mres[0])}
        if r["elo"][1] == 1 and (len(mres) < 3 or mres[2] != 1):
            return {"kind": "mismatch", "theorem": "sp_check_axis_correct",
                    "reason": "is_single_peaked returned the axis %r, not a valid single-peaked axis" % (r.get("axis"),)}
        return None
    if op == "c11.gate":
        refuse = pl[0] not in (0, 2)
        for name, mi in zip(("axis", "pq", "ilp"), mres):
            if (mi == [1, 1]) != refuse:
                return {"kind": "broken-correspondence", "reason": "model gate %r for data type %r" % (mi, DT[pl[0]])}
        for name in ("axis", "pq", "ilp", "vdel", "adel"):
            if name not in r:
                continue
            if refuse and r[name] != [1, 1]:
                return {"kind": "mismatch", "theorem": "C11_gate",
                        "reason": "%s on an instance with data_type %r: %r, expected TypeError" % (name, DT[pl[0]], r[name])}
            if not refuse and r[name][0] == 1:
                return {"kind": "mismatch", "theorem": "C11_gate",
                        "reason": "%s on a %s instance was refused / raised: %r" % (name, DT[pl[0]], r[name])}
        return None
    return "unknown op"


def nontrivial(c, r, m):
    pl = c["payload"]
    if c["op"] == "c11.gate":
        return False
    if c["op"] == "c11.elo_exact":
        return len(pl[0]) >= 3 and len(pl[1]) >= 2
    if c["op"] == "c11.hist":
        return True
    return len(pl[1]) >= 3 and len(pl[2]) >= 2


def stats(c, r, m):
    op, pl = c["op"], c["payload"]
    if op == "c11.axes" and c["tags"].get("kind") == "long":
        return ["long weak order: %d classes%s" % (len(pl[2][0]) // 50 * 50, ", plateau > 256" if len(pl[2][0][0]) > 256 else ""),
                "long weak order: axis tests accepted %d / rejected %d" % (sum(1 for x in m if x == [0, 1]), sum(1 for x in m if x == [0, 0]))]
    if op == "c11.axes":
        t = sum(1 for x in m if x == [0, 1])
        return ["axis_test m=%d" % len(pl[1]), "axis_test calls", ] + \
               ["axis_test accepted"] * t + ["axis_test rejected"] * (len(m) - t)
    if op == "c11.deciders":
        v = "SP" if m[0] == 1 else "notSP"
        lab = ["decide m=%d %s" % (len(pl[1]), v), "decide %s %s" % ("strict" if pl[0] == 0 else "weak", v)]
        for k in ("pq", "ilp", "elo"):
            if isinstance(r, dict) and k in r:
                lab.append("%s %s" % (k, v))
        nrows = sum(len(o) for o in pl[2])
        if isinstance(r, dict) and "pq" in r:
            lab.append("pq_tree matrix rows %s: %s" % ("<=53" if nrows <= 53 else ("54-64" if nrows <= 64 else ">64"), v))
        if c["tags"].get("kind") in ("many-ballots", "many-strict"):
            lab.append("%s %s %s" % (c["tags"]["kind"], "strict" if pl[0] == 0 else "weak", v))
            lab.append("%s ballots=%s" % (c["tags"]["kind"], len(pl[2]) if len(pl[2]) < 10 else ("10-14" if len(pl[2]) < 15 else "15-22")))
        if c["tags"].get("kind") == "near-axis":
            lab.append("near-axis %s %s" % ("strict" if pl[0] == 0 else "weak", v))
            lab.append("near-axis m=%d n=%d" % (len(pl[1]), len(pl[2])))
        if any(len(o[0]) >= 2 for o in pl[2]) and len(pl[1]) == 3:
            lab.append("m=3 with tied top: %s%s" % (v, " (ILP run)" if "ilp" in r else ""))
        if any(len(o) == 1 for o in pl[2]):
            lab.append("has complete indifference")
        if any(len(o[0]) >= 2 for o in pl[2]):
            lab.append("has tied top")
        return lab
    if op == "c11.hist":
        return ["history: %d phases, %d recogniser calls on one object" % (len(pl[1]), len(pl[5])),
                "history: verdict %s" % ("SP" if m[2] == 1 else "notSP")]
    if op == "c11.elo_exact":
        return ["elo_exact (is_single_peaked == its mirror) m=%d n=%d" % (len(pl[0]), len(pl[1])),
                "elo_exact %s%s" % ("SP" if m[0][0] == 0 and m[0][1][0] == 1 else "notSP",
                                    " alternating rounds" if c["tags"].get("alt") else "")]
    if op == "c11.pq_exact" and c["tags"].get("kind") == "volume":
        return ["pq_exact volume m=%d %s %s" % (len(pl[1]), "strict" if pl[0] == 0 else "weak",
                                                "SP" if m and m[0] == [0, 1] else "notSP"),
                "pq_exact volume n=%d" % len(pl[2]),
                "pq_exact volume: planted axis %s" % ("passes the checker" if len(m) > 1 and m[1] == 1 else "does not pass (perturbed vote)")]
    if op == "c11.pq_exact":
        mm = len(pl[1])
        return ["pq_exact (verdict == mirrored algorithm) m=%s: %s" % (mm if mm <= 7 else ("8-15" if mm <= 15 else "16-30"),
                                                                      "SP" if m and m[0] == [0, 1] else "notSP")]
    return ["gate data_type=%r%s" % (DT[pl[0]], " (5 functions)" if c["tags"].get("gate", 1) >= 2 else "")]


def describe(c):
    pl = c["payload"]
    if c["op"] == "c11.hist":
        from . import c03 as C03H
        return {"op": c["op"], "alternatives": pl[0], "phases ([order, multiplicity] per phase)": pl[1],
                "calls after each phase": [[C03H.MAINT[x] for x in mk] for mk in pl[2]],
                "append method per phase (1 append_order_list, 2 append_vote_map)": pl[3], "axes": pl[4],
                "recogniser calls (0/1 axis test on axis #0/#1, 2 pq-tree, 3 is_single_peaked)": pl[5]}
    if c["op"] == "c11.elo_exact":
        return {"op": c["op"], "data_type": "soc", "alternatives": pl[0], "orders (best first)": pl[1], "planted_axis": pl[2]}
    d = {"op": c["op"], "data_type": DT[pl[0]], "alternatives": pl[1], "orders": pl[2]}
    if c["op"] == "c11.axes":
        d["axes"] = pl[3]
    elif c["op"] == "c11.deciders":
        d["functions"] = [n for b, n in ((1, "is_single_peaked_pq_tree"), (2, "is_single_peaked_ILP"), (4, "is_single_peaked")) if pl[3] & b]
    elif c["op"] == "c11.pq_exact":
        d["planted_axis"] = pl[3]
    else:
        d["axis"] = pl[3]
    return d


def shrink(c):
    op, pl = c["op"], c["payload"]
    if op == "c11.hist":
        alts, phases, maint, how, axes, script = pl
        if len(script) > 1:
            for i in range(len(script)):
                yield dict(c, payload=[alts, phases, maint, how, axes, script[:i] + script[i + 1:]])
        for k in range(len(maint)):
            if maint[k]:
                yield dict(c, payload=[alts, phases, maint[:k] + [maint[k][1:]] + maint[k + 1:], how, axes, script])
        for k in range(len(phases)):
            if len(phases[k]) > 1:
                for t in range(len(phases[k])):
                    yield dict(c, payload=[alts, phases[:k] + [phases[k][:t] + phases[k][t + 1:]] + phases[k + 1:], maint, how, axes, script])
        return
    if op == "c11.elo_exact":
        alts, rankings, planted = pl
        if len(rankings) > 1:
            for i in range(len(rankings)):
                yield dict(c, payload=[alts, rankings[:i] + rankings[i + 1:], planted])
        if len(alts) > 1:
            for a in alts:
                nr = []
                for v in rankings:
                    q = [x for x in v if x != a]
                    if q not in nr:
                        nr.append(q)
                yield dict(c, payload=[[x for x in alts if x != a], nr, [x for x in planted if x != a]])
        return
    dt, alts, profile = pl[0], pl[1], pl[2]
    if op == "c11.gate":
        return
    if op == "c11.pq_exact":
        planted = pl[3] if isinstance(pl[3], list) else []
        if len(profile) > 1:
            for i in range(len(profile)):
                yield dict(c, payload=[dt, alts, profile[:i] + profile[i + 1:], planted or 0])
        if len(alts) > 1:
            for a in alts:
                np_ = []
                for o in profile:
                    o2 = [cl for cl in ([x for x in cl if x != a] for cl in o) if cl]
                    if o2 and canon_classes(o2) not in [canon_classes(q) for q in np_]:
                        np_.append(o2)
                if np_:
                    yield dict(c, payload=[dtype_of(np_), [x for x in alts if x != a], np_,
                                           [x for x in planted if x != a] or 0])
        return
    # fewer axes
    if op == "c11.axes" and len(pl[3]) > 1:
        for ax in pl[3]:
            yield dict(c, payload=[dt, alts, profile, [ax]])
        return
    # drop an order
    if len(profile) > 1:
        for i in range(len(profile)):
            yield dict(c, payload=[dt, alts, profile[:i] + profile[i + 1:], pl[3]])
    # drop an alternative
    if len(alts) > 1:
        for a in alts:
            na = [x for x in alts if x != a]
            np_ = []
            for o in profile:
                o2 = [[x for x in cl if x != a] for cl in o]
                o2 = [cl for cl in o2 if cl]
                if o2 and canon_classes(o2) not in [canon_classes(q) for q in np_]:
                    np_.append(o2)
            if not np_:
                continue
            if op == "c11.axes":
                yield dict(c, payload=[dtype_of(np_) if dt in (0, 2) else dt, na, np_, [[x for x in ax if x != a] for ax in pl[3]]])
            else:
                nd = dtype_of(np_)
                fl = pl[3] & (7 if nd == 0 else 3)
                yield dict(c, payload=[nd, na, np_, fl])
