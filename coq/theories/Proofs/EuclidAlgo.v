(* Proofs/EuclidAlgo.v — the mirror of is_one_euclidean (Model/EuclidAlgo.v) is SOUND: whenever it answers
   (True, y), the map y is accepted by the verified witness checker eucl_check, i.e. the construction
   (LP positions for the coloured alternatives, bands 8*i*delta for the later groups) realises every vote.
   The LP is a Section parameter with the hypothesis that a returned solution satisfies the constraints
   mirrored from _one_euclidean_solve_lp. *)
From Coq Require Import List Arith NArith ZArith QArith Qabs Qfield Bool Lia Lqa Permutation Sorted.
From PrefVerif Require Import Lib.Val Lib.Perms Lib.Contig Model.SP Model.SC Model.SCAlgo Model.Euclid Model.EuclidLP
                              Model.EuclidAlgo Proofs.SP Proofs.SC Proofs.SCAlgo Proofs.Euclid Proofs.EuclidLP.
Import ListNotations.
Open Scope Q_scope.

(* ============================================================================================== *)
(* 1. `before` (comparison of first positions)                                                     *)
(* ============================================================================================== *)
Lemma aidx_lt_In r a : (aidx r a < length r)%nat <-> In a r.
Proof.
  induction r as [|x t IH]; cbn [aidx length]; [split; [lia|intros []]|].
  destruct (N.eqb x a) eqn:E.
  - apply N.eqb_eq in E. split; [now left|lia].
  - apply N.eqb_neq in E. rewrite <- Nat.succ_lt_mono, IH. split; [now right|intros [?|?]; [congruence|assumption]].
Qed.

Lemma aidx_le r a : (aidx r a <= length r)%nat.
Proof. induction r as [|x t IH]; cbn [aidx length]; [lia|]. destruct (N.eqb x a); lia. Qed.

Lemma before_irrefl r a : before r a a = false.
Proof. unfold before. apply Nat.ltb_irrefl. Qed.

Lemma before_asym r a b : before r a b = true -> before r b a = false.
Proof. unfold before. rewrite Nat.ltb_lt, Nat.ltb_ge. lia. Qed.

Lemma before_trans r a b c : before r a b = true -> before r b c = true -> before r a c = true.
Proof. unfold before. rewrite !Nat.ltb_lt. lia. Qed.

Lemma before_total r a b : In a r -> In b r -> a <> b -> before r a b = false -> before r b a = true.
Proof.
  unfold before. rewrite Nat.ltb_lt, Nat.ltb_ge. intros Ha Hb Hne Hle.
  destruct (Nat.eq_dec (aidx r a) (aidx r b)) as [E|E]; [|lia].
  exfalso. apply Hne. now apply (aidx_inj r).
Qed.

Lemma before_In r a b : before r a b = true -> In a r.
Proof. unfold before. rewrite Nat.ltb_lt. intros H. apply aidx_lt_In. pose proof (aidx_le r b). lia. Qed.

Lemma before_prefers r a b : In a r -> before r a b = prefers r a b.
Proof.
  unfold before. induction r as [|x t IH]; intros Ha; [destruct Ha|]. cbn [aidx prefers].
  destruct (N.eqb x a) eqn:Exa.
  - destruct (N.eqb x b) eqn:Exb; reflexivity.
  - apply N.eqb_neq in Exa. destruct Ha as [->|Ha]; [congruence|].
    destruct (N.eqb x b) eqn:Exb; [reflexivity|]. now apply IH.
Qed.

Lemma before_app_l l1 l2 a b : In a l1 -> ~ In b l1 -> before (l1 ++ l2) a b = true.
Proof.
  unfold before. intros Ha Hb. apply Nat.ltb_lt. induction l1 as [|x t IH]; [destruct Ha|]. cbn [app aidx].
  destruct (N.eqb x a) eqn:Exa.
  - destruct (N.eqb x b) eqn:Exb; [|lia]. apply N.eqb_eq in Exb. exfalso. apply Hb. now left.
  - apply N.eqb_neq in Exa. destruct Ha as [->|Ha]; [congruence|].
    destruct (N.eqb x b) eqn:Exb; [apply N.eqb_eq in Exb; exfalso; apply Hb; now left|].
    apply -> Nat.succ_lt_mono. apply IH; [assumption|]. intros H. apply Hb. now right.
Qed.

Lemma before_filter (f : N -> bool) r a b : f a = true -> f b = true ->
  before (filter f r) a b = before r a b.
Proof.
  unfold before. intros Ha Hb. induction r as [|x t IH]; [reflexivity|]. cbn [filter aidx].
  destruct (f x) eqn:Ex; cbn [aidx].
  - destruct (N.eqb x a), (N.eqb x b); try reflexivity. exact IH.
  - destruct (N.eqb x a) eqn:Exa; [apply N.eqb_eq in Exa; congruence|].
    destruct (N.eqb x b) eqn:Exb; [apply N.eqb_eq in Exb; congruence|]. exact IH.
Qed.

(* two arrangements of the same alternatives that agree on every pair are equal *)
Lemma before_ext l1 l2 : NoDup l1 -> Permutation l1 l2 ->
  (forall a b, In a l1 -> In b l1 -> before l1 a b = before l2 a b) -> l1 = l2.
Proof.
  revert l2. induction l1 as [|x t IH]; intros l2 Hnd HP Hag.
  - apply Permutation_nil in HP. now subst.
  - destruct l2 as [|y t2]; [apply Permutation_sym, Permutation_nil in HP; discriminate|].
    assert (Hxy : x = y).
    { destruct (N.eq_dec x y) as [E|E]; [assumption|]. exfalso.
      assert (Hy : In y (x :: t)) by (eapply Permutation_in; [apply Permutation_sym; exact HP|now left]).
      specialize (Hag y x Hy (or_introl eq_refl)). unfold before in Hag. cbn [aidx] in Hag.
      rewrite N.eqb_refl in Hag. destruct (N.eqb x y) eqn:Exy; [apply N.eqb_eq in Exy; congruence|].
      destruct (N.eqb y x) eqn:Eyx; [apply N.eqb_eq in Eyx; congruence|]. rewrite N.eqb_refl in Hag.
      cbn in Hag. discriminate. }
    subst y. f_equal. inversion Hnd as [|? ? Hnin Hnd']; subst. apply IH; [assumption|eapply Permutation_cons_inv; exact HP|].
    intros a b Ha Hb. specialize (Hag a b (or_intror Ha) (or_intror Hb)). unfold before in *. cbn [aidx] in Hag.
    destruct (N.eqb x a) eqn:Exa; [apply N.eqb_eq in Exa; subst; contradiction|].
    destruct (N.eqb x b) eqn:Exb; [apply N.eqb_eq in Exb; subst; contradiction|]. exact Hag.
Qed.

(* ============================================================================================== *)
(* 2. along a single-crossing sequence, a pair on which the two ends agree is ranked alike by all  *)
(* ============================================================================================== *)
Lemma changes_ends (l : list bool) d :
  (changes l <= 1)%nat -> hd d l = last l d -> forall x, In x l -> x = hd d l.
Proof.
  induction l as [|x t IH]; intros Hc He y Hy; [destruct Hy|].
  destruct t as [|z t']; [destruct Hy as [<-|[]]; reflexivity|].
  rewrite changes_cons2 in Hc. cbn [hd] in *. change (last (x :: z :: t') d) with (last (z :: t') d) in He.
  destruct (Bool.eqb x z) eqn:E.
  - apply eqb_prop in E. subst z. destruct Hy as [<-|Hy]; [reflexivity|].
    apply (IH ltac:(cbn in *; lia) He y Hy).
  - assert (H0 : changes (z :: t') = 0%nat) by lia. apply const_changes in H0.
    assert (Hl : last (z :: t') d = z).
    { rewrite forallb_forall in H0. clear -H0. revert z H0. induction t' as [|w t IH]; intros z H0; [reflexivity|].
      assert (w = z) by (symmetry; apply eqb_prop, H0; now left). subst w.
      change (last (z :: z :: t) d) with (last (z :: t) d). apply IH. intros u Hu. apply H0. now right. }
    rewrite Hl in He. subst z. rewrite eqb_reflx in E. discriminate.
Qed.

Lemma sc_ends_agree alts s v1 a b :
  single_crossing_seq alts s -> In a alts -> In b alts -> a <> b ->
  prefers (hd v1 s) a b = prefers (last s v1) a b ->
  forall r, In r s -> prefers r a b = prefers (hd v1 s) a b.
Proof.
  intros Hsc Ha Hb Hne He r Hr. specialize (Hsc a b Ha Hb Hne). rewrite switches_changes in Hsc.
  set (l := map (fun o => prefers o a b) s) in *.
  assert (Hhd : hd (prefers v1 a b) l = prefers (hd v1 s) a b) by (unfold l; destruct s; reflexivity).
  assert (Hla : last l (prefers v1 a b) = prefers (last s v1) a b).
  { unfold l. clear. induction s as [|x t IH]; [reflexivity|]. destruct t; [reflexivity|]. exact IH. }
  rewrite <- Hhd. apply (changes_ends l (prefers v1 a b) Hsc); [congruence|]. unfold l.
  apply (in_map (fun o => prefers o a b)). exact Hr.
Qed.

(* ============================================================================================== *)
(* 3. the colouring loop: an alternative that stays grey is in no swapped pair                     *)
(* ============================================================================================== *)
Lemma colour_fold_none v1 vn l : fold_left (colour_step v1 vn) l None = None.
Proof. induction l; [reflexivity|assumption]. Qed.

Lemma recolour_spec (g : gamma) a c : c <> Grey ->
  let g' := if is_grey (g a) then gset g a c else g in
  (forall x, g x <> Grey -> g' x <> Grey) /\ g' a <> Grey.
Proof.
  intros Hc. cbv zeta. destruct (is_grey (g a)) eqn:E.
  - unfold gset. split.
    + intros x Hx. destruct (N.eqb x a); assumption.
    + now rewrite N.eqb_refl.
  - split; [auto|]. intros H. rewrite H in E. discriminate.
Qed.

Lemma colour_step_inv v1 vn g ab g' : colour_step v1 vn (Some g) ab = Some g' ->
  (forall x, g x <> Grey -> g' x <> Grey) /\
  (swapped v1 vn (fst ab) (snd ab) = true -> g' (fst ab) <> Grey /\ g' (snd ab) <> Grey).
Proof.
  unfold colour_step. cbv zeta. destruct (swapped v1 vn (fst ab) (snd ab)).
  - destruct (is_blue (g (fst ab)) || is_green (g (snd ab))); [discriminate|]. intros H. injection H as <-.
    destruct (recolour_spec g (fst ab) Green ltac:(discriminate)) as (Hm1 & Ha1).
    set (g1 := if is_grey (g (fst ab)) then gset g (fst ab) Green else g) in *.
    destruct (recolour_spec g1 (snd ab) Blue ltac:(discriminate)) as (Hm2 & Hb2).
    split; [intros x Hx; now apply Hm2, Hm1|]. intros _. split; [now apply Hm2|assumption].
  - intros H. injection H as <-. split; [auto|discriminate].
Qed.

Lemma colour_fold_inv v1 vn l : forall g g', fold_left (colour_step v1 vn) l (Some g) = Some g' ->
  (forall x, g x <> Grey -> g' x <> Grey) /\
  (forall ab, In ab l -> swapped v1 vn (fst ab) (snd ab) = true -> g' (fst ab) <> Grey /\ g' (snd ab) <> Grey).
Proof.
  induction l as [|ab t IH]; intros g g' H.
  - cbn in H. injection H as <-. split; [auto|intros ? []].
  - cbn [fold_left] in H. destruct (colour_step v1 vn (Some g) ab) as [g1|] eqn:E; [|rewrite colour_fold_none in H; discriminate].
    destruct (colour_step_inv _ _ _ _ _ E) as (Hm1 & Hs1). destruct (IH _ _ H) as (Hm2 & Hs2). split.
    + intros x Hx. apply Hm2, Hm1, Hx.
    + intros ab' [<-|Hin] Hsw; [|now apply Hs2]. destruct (Hs1 Hsw). split; now apply Hm2.
Qed.

Lemma in_perm2 l a b : In a l -> In b l -> a <> b -> In (a, b) (perm2 l).
Proof.
  intros Ha Hb Hne. unfold perm2. apply in_flat_map. exists a. split; [assumption|].
  apply in_map. apply filter_In. split; [assumption|]. apply negb_true_iff, N.eqb_neq. congruence.
Qed.

Lemma grey_not_swapped v1 vn alts g0 g c b : colour_loop v1 vn alts g0 = Some g ->
  In c alts -> In b alts -> c <> b -> g c = Grey ->
  swapped v1 vn c b = false /\ swapped v1 vn b c = false.
Proof.
  intros H Hc Hb Hne Hg. destruct (colour_fold_inv _ _ _ _ _ H) as (_ & Hs). split.
  - destruct (swapped v1 vn c b) eqn:E; [|reflexivity]. exfalso.
    destruct (Hs (c, b) (in_perm2 _ _ _ Hc Hb Hne) E) as (H1 & _). now apply H1.
  - destruct (swapped v1 vn b c) eqn:E; [|reflexivity]. exfalso.
    destruct (Hs (b, c) (in_perm2 _ _ _ Hb Hc (not_eq_sym Hne)) E) as (_ & H1). now apply H1.
Qed.

Lemma coloured_stays v1 vn alts g0 g c : colour_loop v1 vn alts g0 = Some g -> g0 c <> Grey -> g c <> Grey.
Proof. intros H. now apply (proj1 (colour_fold_inv _ _ _ _ _ H)). Qed.

(* ============================================================================================== *)
(* 4. lists of rationals, association lists                                                        *)
(* ============================================================================================== *)
Lemma Qle_bool_false x y : Qle_bool x y = false -> y < x.
Proof. intros H. apply Qnot_le_lt. intros Hle. apply Qle_bool_iff in Hle. congruence. Qed.

Lemma qmaxl_spec x l : In (qmaxl x l) (x :: l) /\ forall y, In y (x :: l) -> y <= qmaxl x l.
Proof.
  revert x. induction l as [|z t IH]; intros x; cbn [qmaxl].
  - split; [now left|]. intros y [<-|[]]. lra.
  - destruct (IH z) as (Hin & Hmx). destruct (Qle_bool (qmaxl z t) x) eqn:E.
    + apply Qle_bool_iff in E. split; [now left|]. intros y [<-|Hy]; [lra|]. specialize (Hmx y Hy). lra.
    + apply Qle_bool_false in E. split; [now right|]. intros y [<-|Hy]; [lra|now apply Hmx].
Qed.

Lemma qminl_spec x l : In (qminl x l) (x :: l) /\ forall y, In y (x :: l) -> qminl x l <= y.
Proof.
  revert x. induction l as [|z t IH]; intros x; cbn [qminl].
  - split; [now left|]. intros y [<-|[]]. lra.
  - destruct (IH z) as (Hin & Hmn). destruct (Qle_bool x (qminl z t)) eqn:E.
    + apply Qle_bool_iff in E. split; [now left|]. intros y [<-|Hy]; [lra|]. specialize (Hmn y Hy). lra.
    + apply Qle_bool_false in E. split; [now right|]. intros y [<-|Hy]; [lra|now apply Hmn].
Qed.

Lemma ordered_pairs_nth {T} (l : list T) i j x y :
  (i < j)%nat -> nth_error l i = Some x -> nth_error l j = Some y -> In (x, y) (ordered_pairs l).
Proof.
  revert i j. induction l as [|z t IH]; intros i j Hij Hi Hj; [destruct i; discriminate|].
  cbn [ordered_pairs]. apply in_or_app. destruct j as [|j]; [lia|]. cbn in Hj. destruct i as [|i].
  - cbn in Hi. injection Hi as ->. left. apply in_map. eapply nth_error_In; eassumption.
  - right. apply (IH i j); [lia|assumption|assumption].
Qed.

Lemma max_abs_diff_bound l x y : In x l -> In y l -> Qabs (x - y) <= max_abs_diff l.
Proof.
  intros Hx Hy. unfold max_abs_diff.
  assert (Hpair : forall u v, In (u, v) (ordered_pairs l) ->
            Qabs (u - v) <= match map (fun xy => Qabs (fst xy - snd xy)) (ordered_pairs l) with
                            | [] => 0 | d :: ds => qmaxl d ds end).
  { intros u v Huv. apply (in_map (fun xy => Qabs (fst xy - snd xy))) in Huv. cbn [fst snd] in Huv.
    destruct (map (fun xy => Qabs (fst xy - snd xy)) (ordered_pairs l)) as [|d ds]; [destruct Huv|].
    now apply qmaxl_spec. }
  apply In_nth_error in Hx, Hy. destruct Hx as (i & Hi), Hy as (j & Hj).
  destruct (lt_eq_lt_dec i j) as [[Hlt|Heq]|Hgt].
  - apply Hpair. eapply ordered_pairs_nth; eassumption.
  - subst j. rewrite Hi in Hj. injection Hj as <-.
    assert (E : Qabs (x - x) == 0) by (rewrite Qabs_pos; [ring|]; assert (x - x == 0) by ring; lra). rewrite E.
    clear Hpair. destruct (ordered_pairs l) as [|uv t]; [cbn; lra|]. cbn [map].
    pose proof (proj2 (qmaxl_spec (Qabs (fst uv - snd uv)) (map (fun xy => Qabs (fst xy - snd xy)) t)) _ (or_introl eq_refl)).
    pose proof (Qabs_nonneg (fst uv - snd uv)). lra.
  - rewrite Qabs_Qminus. apply Hpair. eapply ordered_pairs_nth; eassumption.
Qed.

Lemma apos_lookup_In l c q : NoDup (map fst l) -> In (c, q) l -> apos_lookup l c = Some q.
Proof.
  induction l as [|[b x] t IH]; intros Hnd Hin; [destruct Hin|]. cbn [apos_lookup map fst] in *.
  inversion Hnd as [|? ? Hnin Hnd']; subst. destruct Hin as [E|Hin].
  - injection E as -> ->. now rewrite N.eqb_refl.
  - destruct (N.eqb b c) eqn:Ebc; [|now apply IH]. apply N.eqb_eq in Ebc. subst b. exfalso. apply Hnin.
    apply (in_map fst) in Hin. exact Hin.
Qed.

Lemma in_combine_seq {T} (l : list T) s k x :
  In (k, x) (combine (seq s (length l)) l) <-> (s <= k)%nat /\ nth_error l (k - s) = Some x.
Proof.
  revert s. induction l as [|y t IH]; intros s; cbn [length seq combine].
  - split; [intros []|]. intros (_ & H). destruct (k - s)%nat; discriminate.
  - cbn [In]. rewrite IH. split.
    + intros [E|(Hle & Hn)].
      * injection E as <- <-. split; [lia|]. now rewrite Nat.sub_diag.
      * split; [lia|]. replace (k - s)%nat with (S (k - S s)) by lia. exact Hn.
    + intros (Hle & Hn). destruct (Nat.eq_dec s k) as [->|Hne].
      * left. rewrite Nat.sub_diag in Hn. cbn in Hn. now injection Hn as ->.
      * right. split; [lia|]. replace (k - s)%nat with (S (k - S s)) in Hn by lia. exact Hn.
Qed.

Lemma map_snd_combine_seq {T} (l : list T) s : map snd (combine (seq s (length l)) l) = l.
Proof. revert s. induction l as [|y t IH]; intros s; [reflexivity|]. cbn. now rewrite IH. Qed.

Lemma aidx_nth r i a : NoDup r -> nth_error r i = Some a -> aidx r a = i.
Proof.
  revert i. induction r as [|x t IH]; intros i Hnd Hi; [destruct i; discriminate|]. cbn [aidx].
  inversion Hnd as [|? ? Hnin Hnd']; subst. destruct i as [|i]; cbn in Hi.
  - injection Hi as ->. now rewrite N.eqb_refl.
  - destruct (N.eqb x a) eqn:E; [apply N.eqb_eq in E; subst; exfalso; apply Hnin; eapply nth_error_In; eassumption|].
    f_equal. now apply IH.
Qed.

Lemma qnat_S k : qnat (S k) == qnat k + 1.
Proof. unfold qnat. rewrite Nat2Z.inj_succ, <- Z.add_1_r, inject_Z_plus. reflexivity. Qed.

Lemma qnat_nonneg k : 0 <= qnat k.
Proof. unfold qnat. change 0 with (inject_Z 0). rewrite <- Zle_Qle. lia. Qed.

Lemma qnat_lt j k : (j < k)%nat -> qnat j < qnat k.
Proof. intros H. unfold qnat. rewrite <- Zlt_Qlt. lia. Qed.

Lemma qnat_frac j m : (j < m)%nat -> 0 <= qnat j / qnat m /\ qnat j / qnat m < 1.
Proof.
  intros H. assert (Hm : 0 < qnat m) by (pose proof (qnat_lt 0 m ltac:(lia)); exact H0).
  split.
  - apply Qle_shift_div_l; [assumption|]. pose proof (qnat_nonneg j). lra.
  - apply Qlt_shift_div_r; [assumption|]. pose proof (qnat_lt j m H). lra.
Qed.

Lemma qnat_frac_lt j k m : (j < k)%nat -> (0 < m)%nat -> qnat j / qnat m < qnat k / qnat m.
Proof.
  intros H Hm0. assert (Hm : 0 < qnat m) by (apply (qnat_lt 0 m Hm0)).
  unfold Qdiv. apply Qmult_lt_compat_r; [now apply Qinv_lt_0_compat|now apply qnat_lt].
Qed.

(* ============================================================================================== *)
(* 5. geometry of the bands                                                                        *)
(* ============================================================================================== *)
Lemma shift_dist p a xl xr s : xl <= p -> p <= xr -> a < xl \/ xr < a -> 0 <= s ->
  qdist p (if Qltb a xl then a - s else a + s) == qdist p a + s.
Proof.
  intros H1 H2 Ho Hs. unfold qdist. destruct (Qltb a xl) eqn:E.
  - apply Qltb_lt in E. rewrite (Qabs_pos (p - (a - s))), (Qabs_pos (p - a)); lra.
  - assert (Ha : xr < a).
    { destruct Ho as [Ho|Ho]; [|assumption]. apply Qltb_lt in Ho. congruence. }
    rewrite (Qabs_neg (p - (a + s))), (Qabs_neg (p - a)); lra.
Qed.

Lemma right_dist p xr q : p <= xr -> xr <= q -> qdist p q == q - p.
Proof. intros H1 H2. unfold qdist. rewrite Qabs_neg; lra. Qed.

Lemma Qmult_frac_bounds t d : 0 <= t -> t < 1 -> 0 < d -> 0 <= t * d /\ t * d < d.
Proof.
  intros H0 H1 Hd. split.
  - apply Qmult_le_0_compat; lra.
  - assert (H : t * d < 1 * d) by (apply Qmult_lt_compat_r; assumption). lra.
Qed.

(* ============================================================================================== *)
(* 6. runs of coloured / grey alternatives                                                         *)
(* ============================================================================================== *)
Fixpoint alt_from (b : bool) (runs : list (bool * list N)) : Prop :=
  match runs with
  | [] => True
  | run :: rest => fst run = b /\ alt_from (negb b) rest
  end.

Lemma gen_runs_cons plus c t :
  gen_runs plus (c :: t) =
  match gen_runs plus t with
  | (b, r) :: rest => if Bool.eqb b (plus c) then (b, c :: r) :: rest else (plus c, [c]) :: (b, r) :: rest
  | [] => [(plus c, [c])]
  end.
Proof. reflexivity. Qed.

Lemma gen_runs_concat plus l : concat (map snd (gen_runs plus l)) = l.
Proof.
  induction l as [|c t IH]; [reflexivity|]. rewrite gen_runs_cons.
  destruct (gen_runs plus t) as [|[b r] rest]; [cbn in *; now subst|].
  destruct (Bool.eqb b (plus c)); cbn in *; now rewrite IH.
Qed.

Lemma gen_runs_flags plus l :
  Forall (fun run => snd run <> [] /\ forall c, In c (snd run) -> plus c = fst run) (gen_runs plus l).
Proof.
  induction l as [|c t IH]; [constructor|]. rewrite gen_runs_cons.
  destruct (gen_runs plus t) as [|[b r] rest].
  - constructor; [|constructor]. cbn. split; [discriminate|]. intros x [<-|[]]. reflexivity.
  - inversion IH as [|? ? (Hne & Hfl) Hrest]; subst. cbn [fst snd] in *. destruct (Bool.eqb b (plus c)) eqn:E.
    + apply eqb_prop in E. constructor; [|assumption]. cbn [fst snd]. split; [discriminate|].
      intros x [<-|Hx]; [now symmetry|now apply Hfl].
    + constructor; [|now constructor]. cbn. split; [discriminate|]. intros x [<-|[]]. reflexivity.
Qed.

Lemma gen_runs_alt plus c t :
  (exists r rest, gen_runs plus (c :: t) = (plus c, r) :: rest) /\ alt_from (plus c) (gen_runs plus (c :: t)).
Proof.
  revert c. induction t as [|d t IH]; intros c.
  - cbn. split; [now exists [c], []|]. auto.
  - destruct (IH d) as ((r & rest & E) & Ha). rewrite gen_runs_cons, E. rewrite E in Ha.
    cbn [alt_from fst] in Ha. destruct Ha as (_ & Ha). destruct (Bool.eqb (plus d) (plus c)) eqn:Eb.
    + apply eqb_prop in Eb. rewrite Eb in *. split; [now exists (c :: r), rest|]. cbn [alt_from fst]. now split.
    + split; [now exists [c], ((plus d, r) :: rest)|]. cbn [alt_from fst]. split; [reflexivity|].
      assert (Hd : plus d = negb (plus c)) by (revert Eb; destruct (plus d), (plus c); cbn; congruence).
      split; [assumption|]. rewrite <- Hd. exact Ha.
Qed.

(* the placement as one pass over the runs *)
Definition Fval (alt : N -> Q) (xl delta : Q) (i : nat) (c : N) : Q :=
  match i with
  | O => alt c
  | _ => if Qltb (alt c) xl then alt c - 8 * qnat i * delta else alt c + 8 * qnat i * delta
  end.
Definition Gval (xr delta : Q) (m : nat) (i l : nat) : Q :=
  xr + (8 * qnat i + 6) * delta + (qnat l / qnat m) * delta.
Definition Fpart alt xl delta i (rk : list N) : list (N * Q) := map (fun c => (c, Fval alt xl delta i c)) rk.
Definition Gpart xr delta m i (rk : list N) : list (N * Q) :=
  map (fun lc => (snd lc, Gval xr delta m i (fst lc))) (combine (seq 0 (length rk)) rk).

Fixpoint place_r alt xl xr delta m (i : nat) (runs : list (bool * list N)) : list (N * Q) :=
  match runs with
  | [] => []
  | (true, rk) :: rest => Fpart alt xl delta i rk ++ place_r alt xl xr delta m i rest
  | (false, rk) :: rest => Gpart xr delta m i rk ++ place_r alt xl xr delta m (S i) rest
  end.

Lemma place_groups_runs alt xl xr delta m runs : forall i,
  (alt_from true runs ->
   place_groups alt xl xr delta m i (f_groups runs) (g_groups runs) = place_r alt xl xr delta m i runs) /\
  (alt_from false runs -> forall fi,
   place_groups alt xl xr delta m i (fi :: f_groups runs) (g_groups runs)
   = Fpart alt xl delta i fi ++ place_r alt xl xr delta m i runs).
Proof.
  induction runs as [|[fl rk] rest IH]; intros i.
  - split; [reflexivity|]. intros _ fi. cbn. reflexivity.
  - split.
    + intros (Hfl & Ha). cbn [fst] in Hfl. subst fl. cbn [negb] in Ha.
      change (f_groups ((true, rk) :: rest)) with (rk :: f_groups rest).
      change (g_groups ((true, rk) :: rest)) with (g_groups rest).
      rewrite (proj2 (IH i) Ha). reflexivity.
    + intros (Hfl & Ha) fi. cbn [fst] in Hfl. subst fl. cbn [negb] in Ha.
      change (f_groups ((false, rk) :: rest)) with (f_groups rest).
      change (g_groups ((false, rk) :: rest)) with (rk :: g_groups rest).
      cbn [place_groups place_r]. rewrite (proj1 (IH (S i)) Ha). reflexivity.
Qed.

Lemma place_r_keys alt xl xr delta m runs : forall i,
  map fst (place_r alt xl xr delta m i runs) = concat (map snd runs).
Proof.
  induction runs as [|[fl rk] rest IH]; intros i; [reflexivity|]. destruct fl; cbn [place_r map snd concat];
    rewrite map_app, IH; f_equal.
  - unfold Fpart. rewrite map_map. cbn. apply map_id.
  - unfold Gpart. rewrite map_map. cbn [fst]. apply map_snd_combine_seq.
Qed.

Lemma in_Fpart alt xl delta i rk c q : In (c, q) (Fpart alt xl delta i rk) <-> In c rk /\ q = Fval alt xl delta i c.
Proof.
  unfold Fpart. rewrite in_map_iff. split.
  - intros (x & E & Hx). injection E as <- <-. now split.
  - intros (Hc & ->). now exists c.
Qed.

Lemma in_Gpart xr delta m i rk c q :
  In (c, q) (Gpart xr delta m i rk) <-> exists l, nth_error rk l = Some c /\ q = Gval xr delta m i l.
Proof.
  unfold Gpart. rewrite in_map_iff. split.
  - intros ([l x] & E & Hx). cbn [fst snd] in E. injection E as <- <-. apply in_combine_seq in Hx.
    rewrite Nat.sub_0_r in Hx. exists l. now split.
  - intros (l & Hl & ->). exists (l, c). split; [reflexivity|]. apply in_combine_seq. rewrite Nat.sub_0_r. split; [lia|assumption].
Qed.

(* ============================================================================================== *)
(* 7. the bands: one voter, the placement of all runs                                              *)
(* ============================================================================================== *)
Section Bands.
Variable alt : N -> Q.
Variables xl xr delta : Q.
Variable m : nat.
Variable p : Q.                       (* the voter's position *)
Variable r : list N.                  (* the voter's ranking *)
Variable col : N -> bool.             (* coloured = placed by the LP *)

Hypothesis Hd : 0 < delta.
Hypothesis Hm : (0 < m)%nat.
Hypothesis Hpl : xl <= p.
Hypothesis Hpr : p <= xr.
Hypothesis Hxr : xr - p <= delta.
Hypothesis Hdist : forall c, col c = true -> qdist p (alt c) <= delta.
Hypothesis Hlp : forall a b, col a = true -> col b = true -> before r a b = true ->
                             qdist p (alt a) < qdist p (alt b).

Definition outside (c : N) : Prop := alt c < xl \/ xr < alt c.

Definition wf_runs (runs : list (bool * list N)) : Prop :=
  Forall (fun run => (forall c, In c (snd run) -> col c = fst run) /\
                     (fst run = false -> (length (snd run) <= m)%nat /\
                                         StronglySorted (fun a b => before r a b = true) (snd run))) runs.

Definition all_out (runs : list (bool * list N)) : Prop :=
  forall run, In run runs -> fst run = true -> forall c, In c (snd run) -> outside c.

Definition outs (i : nat) (runs : list (bool * list N)) : Prop :=
  match runs with
  | [] => True
  | (true, rk) :: rest => (i = 0%nat \/ forall c, In c rk -> outside c) /\ all_out rest
  | (false, _) :: rest => all_out rest
  end.

Fixpoint cross (runs : list (bool * list N)) : Prop :=
  match runs with
  | [] => True
  | run :: rest => (forall a b, In a (snd run) -> In b (concat (map snd rest)) -> before r a b = true) /\ cross rest
  end.

Lemma all_out_outs i runs : all_out runs -> outs i runs.
Proof.
  intros H. destruct runs as [|[[|] rk] rest]; cbn; [exact I| |].
  - split; [right; intros c Hc; apply (H (true, rk)); [now left|reflexivity|assumption]|].
    intros run Hr. apply H. now right.
  - intros run Hr. apply H. now right.
Qed.

Lemma scale_nonneg i : 0 <= 8 * qnat i * delta.
Proof. apply Qmult_le_0_compat; [|lra]. pose proof (qnat_nonneg i). lra. Qed.

Lemma F_dist_eq i c : i = 0%nat \/ outside c ->
  qdist p (Fval alt xl delta i c) == qdist p (alt c) + 8 * qnat i * delta.
Proof.
  intros H. destruct i as [|i].
  - cbn [Fval]. change (qnat 0) with 0. ring.
  - destruct H as [H|H]; [discriminate|]. cbn [Fval]. apply (shift_dist p (alt c) xl xr); try assumption.
    apply scale_nonneg.
Qed.

Lemma G_dist_eq i l : qdist p (Gval xr delta m i l) == Gval xr delta m i l - p /\
  ((l < m)%nat -> (8 * qnat i + 6) * delta <= Gval xr delta m i l - p /\
                  Gval xr delta m i l - p < (8 * qnat i + 8) * delta).
Proof.
  assert (Hf0 : 0 <= (qnat l / qnat m) * delta).
  { apply Qmult_le_0_compat; [|lra]. apply Qle_shift_div_l; [apply (qnat_lt 0 m Hm)|].
    pose proof (qnat_nonneg l). lra. }
  assert (Hs : 0 <= (8 * qnat i + 6) * delta).
  { apply Qmult_le_0_compat; [|lra]. pose proof (qnat_nonneg i). lra. }
  split.
  - apply (right_dist p xr); [assumption|]. unfold Gval. lra.
  - intros Hl. destruct (qnat_frac l m Hl) as (H0 & H1).
    destruct (Qmult_frac_bounds _ _ H0 H1 Hd) as (Ha & Hb). unfold Gval. split; lra.
Qed.

Lemma wf_runs_tail run rest : wf_runs (run :: rest) -> wf_runs rest.
Proof. intros H. now inversion H. Qed.

Lemma band_lower runs : forall i, wf_runs runs -> outs i runs ->
  forall c q, In (c, q) (place_r alt xl xr delta m i runs) -> 8 * qnat i * delta <= qdist p q.
Proof.
  induction runs as [|[fl rk] rest IH]; intros i Hwf Ho c q Hin; [destruct Hin|].
  pose proof (wf_runs_tail _ _ Hwf) as Hwf'. inversion Hwf as [|? ? (Hcol & Hg) _]; subst. cbn [fst snd] in *.
  destruct fl; cbn [place_r] in Hin; apply in_app_or in Hin; destruct Hin as [Hin|Hin].
  - apply in_Fpart in Hin. destruct Hin as (Hc & ->). destruct Ho as (Ho & _).
    rewrite F_dist_eq; [|destruct Ho as [Ho|Ho]; [now left|right; now apply Ho]].
    unfold qdist. pose proof (Qabs_nonneg (p - alt c)). lra.
  - refine (IH i Hwf' _ c q Hin). apply all_out_outs. exact (proj2 Ho).
  - apply in_Gpart in Hin. destruct Hin as (l & Hl & ->). destruct (Hg eq_refl) as (Hlen & _).
    assert (Hlm : (l < m)%nat) by (assert (l < length rk)%nat by (apply nth_error_Some; congruence); lia).
    destruct (G_dist_eq i l) as (E & Hb). rewrite E. destruct (Hb Hlm). pose proof (scale_nonneg i). lra.
  - assert (H8 : 8 * qnat (S i) * delta <= qdist p q).
    { refine (IH (S i) Hwf' _ c q Hin). apply all_out_outs. exact Ho. }
    rewrite qnat_S in H8. lra.
Qed.

Lemma band_lower_G rk rest i : wf_runs ((false, rk) :: rest) -> all_out rest ->
  forall c q, In (c, q) (place_r alt xl xr delta m i ((false, rk) :: rest)) -> (8 * qnat i + 6) * delta <= qdist p q.
Proof.
  intros Hwf Ho c q Hin. pose proof (wf_runs_tail _ _ Hwf) as Hwf'.
  inversion Hwf as [|? ? (Hcol & Hg) _]; subst. cbn [fst snd] in *.
  cbn [place_r] in Hin. apply in_app_or in Hin. destruct Hin as [Hin|Hin].
  - apply in_Gpart in Hin. destruct Hin as (l & Hl & ->). destruct (Hg eq_refl) as (Hlen & _).
    assert (Hlm : (l < m)%nat) by (assert (l < length rk)%nat by (apply nth_error_Some; congruence); lia).
    destruct (G_dist_eq i l) as (E & Hb). rewrite E. destruct (Hb Hlm). lra.
  - pose proof (band_lower rest (S i) Hwf' (all_out_outs _ _ Ho) c q Hin) as H8. rewrite qnat_S in H8. lra.
Qed.

Lemma in_place_keys runs i c q : In (c, q) (place_r alt xl xr delta m i runs) -> In c (concat (map snd runs)).
Proof. intros H. rewrite <- (place_r_keys alt xl xr delta m runs i). apply (in_map fst) in H. exact H. Qed.

(* the whole placement orders the alternatives as the voter does *)
Lemma band_order runs : forall i b, alt_from b runs -> wf_runs runs -> outs i runs -> cross runs ->
  forall a qa b' qb, In (a, qa) (place_r alt xl xr delta m i runs) -> In (b', qb) (place_r alt xl xr delta m i runs) ->
    before r a b' = true -> qdist p qa < qdist p qb.
Proof.
  induction runs as [|[fl rk] rest IH]; intros i b Halt Hwf Ho Hcross a qa b' qb Ha Hb Hbef; [destruct Ha|].
  destruct Hcross as (Hcr & Hcr').
  pose proof (wf_runs_tail _ _ Hwf) as Hwf'. inversion Hwf as [|? ? (Hcol & Hg) _]; subst. cbn [fst snd] in *.
  destruct Halt as (Hb0 & Halt'). cbn [fst] in Hb0. subst b.
  destruct fl; cbn [place_r] in Ha, Hb; apply in_app_or in Ha; apply in_app_or in Hb.
  - destruct Ho as (Ho & Hao).
    assert (HF : forall c, In c rk -> qdist p (Fval alt xl delta i c) == qdist p (alt c) + 8 * qnat i * delta).
    { intros c Hc. apply F_dist_eq. destruct Ho as [Ho|Ho]; [now left|right; now apply Ho]. }
    destruct Ha as [Ha|Ha], Hb as [Hb|Hb].
    + apply in_Fpart in Ha, Hb. destruct Ha as (Ha & ->), Hb as (Hb & ->). rewrite (HF a Ha), (HF b' Hb).
      pose proof (Hlp a b' (Hcol a Ha) (Hcol b' Hb) Hbef). lra.
    + apply in_Fpart in Ha. destruct Ha as (Ha & ->). rewrite (HF a Ha).
      pose proof (Hdist a (Hcol a Ha)) as Hda.
      destruct rest as [|[[|] rk2] rest2]; [destruct Hb| |].
      * destruct Halt' as (Hfl & _). cbn in Hfl. discriminate.
      * pose proof (band_lower_G rk2 rest2 i Hwf' (fun run Hr => Hao run (or_intror Hr)) b' qb Hb). lra.
    + exfalso. apply in_Fpart in Hb. destruct Hb as (Hb & _). apply in_place_keys in Ha.
      rewrite (before_asym _ _ _ (Hcr b' a Hb Ha)) in Hbef. discriminate.
    + exact (IH i _ Halt' Hwf' (all_out_outs _ _ Hao) Hcr' a qa b' qb Ha Hb Hbef).
  - destruct (Hg eq_refl) as (Hlen & Hsort).
    destruct Ha as [Ha|Ha], Hb as [Hb|Hb].
    + apply in_Gpart in Ha, Hb. destruct Ha as (la & Hla & ->), Hb as (lb & Hlb & ->).
      destruct (G_dist_eq i la) as (Ea & _), (G_dist_eq i lb) as (Eb & _). rewrite Ea, Eb.
      destruct (lt_eq_lt_dec la lb) as [[Hlt|Heq]|Hgt].
      * unfold Gval. pose proof (qnat_frac_lt la lb m Hlt Hm) as Hf.
        assert ((qnat la / qnat m) * delta < (qnat lb / qnat m) * delta) by (apply Qmult_lt_compat_r; assumption). lra.
      * subst lb. rewrite Hla in Hlb. injection Hlb as <-. rewrite before_irrefl in Hbef. discriminate.
      * exfalso. pose proof (proj1 (SS_nth _ rk) Hsort lb la b' a Hgt Hlb Hla) as Hba. cbn beta in Hba.
        rewrite (before_asym _ _ _ Hba) in Hbef. discriminate.
    + apply in_Gpart in Ha. destruct Ha as (la & Hla & ->).
      assert (Hlm : (la < m)%nat) by (assert (la < length rk)%nat by (apply nth_error_Some; congruence); lia).
      destruct (G_dist_eq i la) as (Ea & Hba). rewrite Ea. destruct (Hba Hlm) as (_ & Hup).
      pose proof (band_lower rest (S i) Hwf' (all_out_outs _ _ Ho) b' qb Hb) as H8. rewrite qnat_S in H8. lra.
    + exfalso. apply in_Gpart in Hb. destruct Hb as (lb & Hlb & _). apply in_place_keys in Ha.
      rewrite (before_asym _ _ _ (Hcr b' a (nth_error_In _ _ Hlb) Ha)) in Hbef. discriminate.
    + exact (IH (S i) _ Halt' Hwf' (all_out_outs _ _ Ho) Hcr' a qa b' qb Ha Hb Hbef).
Qed.
End Bands.

(* ============================================================================================== *)
(* 8. later coloured alternatives lie outside the span of the voters and of F_1                    *)
(* ============================================================================================== *)
Lemma outside_lemma (V T : list Q) (c : Q) v0 V' t0 T' :
  V = v0 :: V' -> T = t0 :: T' ->
  (forall p t, In p V -> In t T -> qdist p t < qdist p c) ->
  let xl := qminl v0 (V' ++ T) in
  let xr := qmaxl v0 (V' ++ T) in
  c < xl \/ xr < c.
Proof.
  intros EV ET H xl xr.
  destruct (Qlt_le_dec c xl) as [Hl|Hl]; [now left|]. destruct (Qlt_le_dec xr c) as [Hr|Hr]; [now right|]. exfalso.
  assert (Hxl : In xl (V ++ T)) by (subst V; apply (qminl_spec v0 (V' ++ T))).
  assert (Hxr : In xr (V ++ T)) by (subst V; apply (qmaxl_spec v0 (V' ++ T))).
  assert (Hv0 : In v0 V) by (subst V; now left). assert (Ht0 : In t0 T) by (subst T; now left).
  apply in_app_or in Hxl, Hxr. destruct Hxl as [Hxl|Hxl], Hxr as [Hxr|Hxr].
  - pose proof (H xl t0 Hxl Ht0) as H1. pose proof (H xr t0 Hxr Ht0) as H2.
    destruct (qdist_cases xl t0) as [[? E1]|[? E1]], (qdist_cases xl c) as [[? E2]|[? E2]],
             (qdist_cases xr t0) as [[? E3]|[? E3]], (qdist_cases xr c) as [[? E4]|[? E4]]; lra.
  - pose proof (H xl xr Hxl Hxr) as H1.
    destruct (qdist_cases xl xr) as [[? E1]|[? E1]], (qdist_cases xl c) as [[? E2]|[? E2]]; lra.
  - pose proof (H xr xl Hxr Hxl) as H1.
    destruct (qdist_cases xr xl) as [[? E1]|[? E1]], (qdist_cases xr c) as [[? E2]|[? E2]]; lra.
  - pose proof (H v0 xl Hv0 Hxl) as H1. pose proof (H v0 xr Hv0 Hxr) as H2.
    destruct (qdist_cases v0 xl) as [[? E1]|[? E1]], (qdist_cases v0 xr) as [[? E3]|[? E3]],
             (qdist_cases v0 c) as [[? E2]|[? E2]]; lra.
Qed.

(* ============================================================================================== *)
(* 9. small facts about lists used in the assembly                                                 *)
(* ============================================================================================== *)
Lemma last_in_tail {T} (x : T) t d : t <> [] -> In (last (x :: t) d) t.
Proof.
  revert x. induction t as [|y t IH]; intros x H; [congruence|]. destruct t as [|z t'].
  - now left.
  - right. change (last (x :: y :: z :: t') d) with (last (y :: z :: t') d). apply IH. discriminate.
Qed.

Lemma last_In {T} (x : T) t d : In (last (x :: t) d) (x :: t).
Proof. destruct t as [|y t]; [now left|]. right. apply last_in_tail. discriminate. Qed.

Lemma memb_In c l : memb c l = true <-> In c l.
Proof.
  unfold memb. rewrite existsb_exists. split.
  - intros (x & Hx & E). apply N.eqb_eq in E. now subst.
  - intros H. exists c. split; [assumption|apply N.eqb_refl].
Qed.

Lemma Forall2_map_r {A B C} (P : A -> C -> Prop) (f : B -> C) l1 l2 :
  Forall2 P l1 (map f l2) <-> Forall2 (fun a b => P a (f b)) l1 l2.
Proof.
  revert l1. induction l2 as [|b t IH]; intros l1; cbn [map].
  - split; intros H; inversion H; constructor.
  - split; intros H; inversion H; subst; constructor; try assumption; now apply IH.
Qed.

Lemma ordered_pairs_total (l : list N) a b : In a l -> In b l -> a <> b ->
  In (a, b) (ordered_pairs l) \/ In (b, a) (ordered_pairs l).
Proof.
  intros Ha Hb Hne. apply In_nth_error in Ha, Hb. destruct Ha as (i & Hi), Hb as (j & Hj).
  destruct (lt_eq_lt_dec i j) as [[Hlt|Heq]|Hgt].
  - left. eapply ordered_pairs_nth; eassumption.
  - subst j. rewrite Hi in Hj. congruence.
  - right. eapply ordered_pairs_nth; eassumption.
Qed.

Lemma nonempty_cons {T} (l : list T) : l <> [] -> exists x t, l = x :: t.
Proof. destruct l as [|x t]; [congruence|]. intros _. now exists x, t. Qed.

Lemma nth_combine {A B} (l1 : list A) (l2 : list B) i a b :
  nth_error l1 i = Some a -> nth_error l2 i = Some b -> In (a, b) (combine l1 l2).
Proof.
  revert l2 i. induction l1 as [|x t IH]; intros l2 i Hi Hj; [destruct i; discriminate|].
  destruct l2 as [|y t2]; [destruct i; discriminate|]. destruct i as [|i]; cbn in Hi, Hj.
  - injection Hi as ->. injection Hj as ->. now left.
  - right. now apply (IH t2 i).
Qed.

Lemma sorted_before_segment (v1 pre rk post : list N) : NoDup v1 -> v1 = pre ++ rk ++ post ->
  StronglySorted (fun a b => before v1 a b = true) rk.
Proof.
  intros Hnd E. apply SS_nth. intros i j a b Hij Hi Hj. unfold before. apply Nat.ltb_lt.
  assert (Ha : nth_error v1 (length pre + i) = Some a).
  { rewrite E, nth_error_app2 by lia. replace (length pre + i - length pre)%nat with i by lia.
    rewrite nth_error_app1; [assumption|]. apply nth_error_Some. congruence. }
  assert (Hb : nth_error v1 (length pre + j) = Some b).
  { rewrite E, nth_error_app2 by lia. replace (length pre + j - length pre)%nat with j by lia.
    rewrite nth_error_app1; [assumption|]. apply nth_error_Some. congruence. }
  rewrite (aidx_nth _ _ _ Hnd Ha), (aidx_nth _ _ _ Hnd Hb). lia.
Qed.

(* ============================================================================================== *)
(* 10. the constraints of _one_euclidean_solve_lp (multiplied by 2)                                *)
(* ============================================================================================== *)
(*   for a left of b on the axis:   x_a + 1 <= x_b
     and for every voter i:         p_i + 1 <= (x_a + x_b)/2   if the voter ranks a before b
                                    p_i >= (x_a + x_b)/2 + 1   otherwise                            *)
Definition lp_sat (prefs : list (list N)) (axis : list N) (vs : list Q) (xs : list (N * Q)) : Prop :=
  Forall (fun ab => posf xs (fst ab) + 1 <= posf xs (snd ab)) (ordered_pairs axis) /\
  Forall2 (fun p r => Forall (fun ab => if before r (fst ab) (snd ab)
                                        then 2 * p + 2 <= posf xs (fst ab) + posf xs (snd ab)
                                        else posf xs (fst ab) + posf xs (snd ab) + 2 <= 2 * p)
                             (ordered_pairs axis)) vs prefs.

Section Assembly.
Variables alts : list N.
Variable orders : list (list N).
Variables v1 vn : list N.
Variable seqt : list (list N).          (* sc_order = v1 :: seqt *)
Variable g0 g : gamma.
Variable axis : list N.
Variable vs : list Q.
Variable xs : list (N * Q).

Let plus := filter (fun c => negb (is_grey (g c))) alts.
Let col := fun c => memb c plus.
Let alt := posf xs.

Hypothesis Hnd : NoDup alts.
Hypothesis Hndo : NoDup orders.
Hypothesis Hrk : Forall (fun r => Permutation alts r) orders.
Hypothesis Hperm : Permutation orders (v1 :: seqt).
Hypothesis Hsc : single_crossing_seq alts (v1 :: seqt).
Hypothesis Hvn : vn = last (v1 :: seqt) v1.
Hypothesis Hcl : colour_loop v1 vn alts g0 = Some g.
Hypothesis Haxis : Permutation plus axis.
Hypothesis Hlp : lp_sat (map (filter col) orders) axis vs xs.

Lemma col_spec c : In c alts -> (col c = true <-> g c <> Grey).
Proof.
  intros Hc. unfold col. rewrite memb_In. unfold plus. rewrite filter_In. split.
  - intros (_ & H) E. rewrite E in H. discriminate.
  - intros H. split; [assumption|]. destruct (g c); try reflexivity. congruence.
Qed.

Lemma col_In c : col c = true -> In c alts.
Proof. unfold col. rewrite memb_In. unfold plus. rewrite filter_In. tauto. Qed.

Lemma order_in_seq r : In r orders -> In r (v1 :: seqt).
Proof. intros H. eapply Permutation_in; eassumption. Qed.

Lemma seq_perm r : In r (v1 :: seqt) -> Permutation alts r.
Proof.
  intros H. rewrite Forall_forall in Hrk. apply Hrk. eapply Permutation_in; [apply Permutation_sym; exact Hperm|assumption].
Qed.

Lemma v1_perm : Permutation alts v1.
Proof. apply seq_perm. now left. Qed.
Lemma vn_perm : Permutation alts vn.
Proof. apply seq_perm. rewrite Hvn. apply last_In. Qed.

Lemma In_perm r c : Permutation alts r -> (In c alts <-> In c r).
Proof. intros HP. split; apply Permutation_in; [assumption|now apply Permutation_sym]. Qed.

(* a grey alternative is ranked, relative to every other alternative, as by v_1 — by every voter *)
Lemma grey_agree r c b : In r orders -> In c alts -> In b alts -> c <> b -> col c = false ->
  before r c b = before v1 c b /\ before r b c = before v1 b c.
Proof.
  intros Hr Hc Hb Hne Hg.
  assert (Hgrey : g c = Grey).
  { destruct (g c) eqn:E; try reflexivity; exfalso;
      assert (col c = true) by (apply col_spec; [assumption|congruence]); congruence. }
  destruct (grey_not_swapped _ _ _ _ _ _ _ Hcl Hc Hb Hne Hgrey) as (S1 & S2).
  pose proof v1_perm as P1. pose proof vn_perm as Pn.
  pose proof (seq_perm r (order_in_seq r Hr)) as Pr.
  assert (Hc1 : In c v1) by (now apply (In_perm v1 c P1)). assert (Hb1 : In b v1) by (now apply (In_perm v1 b P1)).
  assert (Hcn : In c vn) by (now apply (In_perm vn c Pn)). assert (Hbn : In b vn) by (now apply (In_perm vn b Pn)).
  assert (Hcr : In c r) by (now apply (In_perm r c Pr)). assert (Hbr : In b r) by (now apply (In_perm r b Pr)).
  unfold swapped in S1, S2.
  assert (E1 : before v1 c b = before vn c b).
  { destruct (before v1 c b) eqn:A.
    - cbn [andb] in S1. symmetry. apply (before_total vn b c Hbn Hcn (not_eq_sym Hne) S1).
    - pose proof (before_total v1 c b Hc1 Hb1 Hne A) as A'. rewrite A' in S2. cbn [andb] in S2.
      destruct (before vn c b) eqn:B; [|reflexivity]. congruence. }
  assert (E2 : before v1 b c = before vn b c).
  { destruct (before v1 b c) eqn:A.
    - cbn [andb] in S2. symmetry. apply (before_total vn c b Hcn Hbn Hne S2).
    - pose proof (before_total v1 b c Hb1 Hc1 (not_eq_sym Hne) A) as A'. rewrite A' in S1. cbn [andb] in S1.
      destruct (before vn b c) eqn:B; [|reflexivity]. congruence. }
  pose proof (sc_ends_agree alts (v1 :: seqt) v1 c b Hsc Hc Hb Hne) as G1.
  pose proof (sc_ends_agree alts (v1 :: seqt) v1 b c Hsc Hb Hc (not_eq_sym Hne)) as G2.
  cbn [hd] in G1, G2. rewrite <- Hvn in G1, G2.
  rewrite <- !before_prefers in G1, G2 by assumption. split.
  - rewrite (before_prefers r c b Hcr). apply (G1 E1). now apply order_in_seq.
  - rewrite (before_prefers r b c Hbr). apply (G2 E2). now apply order_in_seq.
Qed.

Lemma col_axis c : col c = true -> In c axis.
Proof. unfold col. rewrite memb_In. intros H. eapply Permutation_in; eassumption. Qed.

Lemma voters_constraints p r : In (p, r) (combine vs orders) ->
  Forall (fun ab => if before (filter col r) (fst ab) (snd ab)
                    then 2 * p + 2 <= alt (fst ab) + alt (snd ab)
                    else alt (fst ab) + alt (snd ab) + 2 <= 2 * p) (ordered_pairs axis).
Proof.
  intros Hin. destruct Hlp as (_ & H2). apply Forall2_map_r in H2.
  exact (Forall2_combine _ _ _ _ _ H2 Hin).
Qed.

(* the LP realises every vote on the coloured alternatives *)
Lemma lp_closer p r a b : In (p, r) (combine vs orders) -> col a = true -> col b = true ->
  before r a b = true -> qdist p (alt a) < qdist p (alt b).
Proof.
  intros Hin Ha Hb Hbef. pose proof (voters_constraints p r Hin) as Hv. destruct Hlp as (Hax & _).
  rewrite Forall_forall in Hv, Hax.
  assert (Hne : a <> b) by (intros ->; rewrite before_irrefl in Hbef; discriminate).
  destruct (ordered_pairs_total axis a b (col_axis a Ha) (col_axis b Hb) Hne) as [Hp|Hp].
  - specialize (Hv _ Hp). specialize (Hax _ Hp). cbn [fst snd] in Hv, Hax.
    rewrite (before_filter col r a b Ha Hb), Hbef in Hv.
    unfold alt in *. apply closer_left_iff; lra.
  - specialize (Hv _ Hp). specialize (Hax _ Hp). cbn [fst snd] in Hv, Hax.
    rewrite (before_filter col r b a Hb Ha), (before_asym _ _ _ Hbef) in Hv.
    unfold alt in *. apply closer_right_iff; lra.
Qed.

Lemma alt_apart a b : col a = true -> col b = true -> a <> b -> 1 <= Qabs (alt a - alt b).
Proof.
  intros Ha Hb Hne. destruct Hlp as (Hax & _). rewrite Forall_forall in Hax.
  destruct (ordered_pairs_total axis a b (col_axis a Ha) (col_axis b Hb) Hne) as [Hp|Hp];
    specialize (Hax _ Hp); cbn [fst snd] in Hax; unfold alt.
  - rewrite Qabs_neg; lra.
  - rewrite Qabs_pos; lra.
Qed.

Hypothesis Hlen2 : seqt <> [].

Lemma v1_neq_vn : v1 <> vn.
Proof.
  assert (Hnds : NoDup (v1 :: seqt)) by (eapply Permutation_NoDup; eassumption).
  apply NoDup_cons_iff in Hnds. destruct Hnds as (Hnin & _). intros E. apply Hnin.
  assert (H : In (last (v1 :: seqt) v1) seqt) by (now apply last_in_tail). rewrite <- Hvn, <- E in H. exact H.
Qed.

Lemma two_coloured : exists a b, col a = true /\ col b = true /\ a <> b.
Proof.
  pose proof v1_perm as P1. pose proof vn_perm as Pn.
  destruct (existsb (fun a => existsb (fun b => negb (Bool.eqb (before v1 a b) (before vn a b))) alts) alts) eqn:E.
  - apply existsb_exists in E. destruct E as (a & Ha & E). apply existsb_exists in E. destruct E as (b & Hb & E).
    apply negb_true_iff, eqb_false_iff in E.
    assert (Hne : a <> b) by (intros ->; rewrite !before_irrefl in E; congruence).
    destruct (colour_fold_inv _ _ _ _ _ Hcl) as (_ & Hs).
    assert (Ha1 : In a v1) by (now apply (In_perm v1 a P1)). assert (Hb1 : In b v1) by (now apply (In_perm v1 b P1)).
    assert (Han : In a vn) by (now apply (In_perm vn a Pn)). assert (Hbn : In b vn) by (now apply (In_perm vn b Pn)).
    destruct (before v1 a b) eqn:A.
    + assert (B : before vn a b = false) by (destruct (before vn a b); congruence).
      pose proof (before_total vn a b Han Hbn Hne B) as B'.
      destruct (Hs (a, b) (in_perm2 _ _ _ Ha Hb Hne)) as (Ga & Gb); [unfold swapped; cbn [fst snd]; now rewrite A, B'|].
      exists a, b. cbn [fst snd] in *. repeat split; [now apply col_spec|now apply col_spec|assumption].
    + assert (B : before vn a b = true) by (destruct (before vn a b); congruence).
      pose proof (before_total v1 a b Ha1 Hb1 Hne A) as A'.
      destruct (Hs (b, a) (in_perm2 _ _ _ Hb Ha (not_eq_sym Hne))) as (Gb & Ga); [unfold swapped; cbn [fst snd]; now rewrite A', B|].
      exists a, b. cbn [fst snd] in *. repeat split; [now apply col_spec|now apply col_spec|assumption].
  - exfalso. apply v1_neq_vn. apply before_ext; [eapply Permutation_NoDup; [exact P1|exact Hnd]| |].
    + eapply Permutation_trans; [apply Permutation_sym; exact P1|exact Pn].
    + intros a b Ha Hb. apply (In_perm v1 a P1) in Ha. apply (In_perm v1 b P1) in Hb.
      destruct (Bool.eqb (before v1 a b) (before vn a b)) eqn:Eab; [now apply eqb_prop|]. exfalso.
      assert (Hex : existsb (fun a => existsb (fun b => negb (Bool.eqb (before v1 a b) (before vn a b))) alts) alts = true).
      { apply existsb_exists. exists a. split; [assumption|]. apply existsb_exists. exists b. split; [assumption|].
        now rewrite Eab. }
      congruence.
Qed.

Let tmp2 := vs ++ map alt plus.
Let delta := max_abs_diff tmp2.

Lemma delta_pos : 0 < delta.
Proof.
  destruct two_coloured as (a & b & Ha & Hb & Hne). pose proof (alt_apart a b Ha Hb Hne) as H1.
  assert (H2 : Qabs (alt a - alt b) <= delta).
  { apply max_abs_diff_bound; unfold tmp2; apply in_or_app; right; apply in_map; now apply memb_In. }
  lra.
Qed.

Lemma dist_le_delta p c : In p vs -> col c = true -> qdist p (alt c) <= delta.
Proof.
  intros Hp Hc. unfold qdist. apply max_abs_diff_bound; unfold tmp2; apply in_or_app; [now left|].
  right. apply in_map. now apply memb_In.
Qed.

(* ---- the runs of v_1 ---- *)
Hypothesis Hhead : exists c t, v1 = c :: t /\ col c = true.
Let runs := gen_runs col v1.
Let m := length alts.

Lemma v1_nodup : NoDup v1.
Proof. eapply Permutation_NoDup; [exact v1_perm|exact Hnd]. Qed.

Lemma runs_alt : alt_from true runs.
Proof. destruct Hhead as (c & t & E & Hc). unfold runs. rewrite E. rewrite <- Hc. apply gen_runs_alt. Qed.

Lemma runs_concat : concat (map snd runs) = v1.
Proof. apply gen_runs_concat. Qed.

Lemma v1_split_before l1 l2 a b : v1 = l1 ++ l2 -> In a l1 -> In b l2 -> before v1 a b = true.
Proof.
  intros E Ha Hb. rewrite E. apply before_app_l; [assumption|]. intros Hb'.
  pose proof v1_nodup as Hn. rewrite E in Hn. exact (NoDup_app_disj _ _ Hn b Hb' Hb).
Qed.

Lemma in_v1_alts c : In c v1 -> In c alts.
Proof. apply (In_perm v1 c v1_perm). Qed.

Lemma before_v1_to_voter r a b : In r orders -> In a v1 -> In b v1 -> col a = false \/ col b = false ->
  before v1 a b = true -> before r a b = true.
Proof.
  intros Hr Ha Hb Hg Hbef. assert (Hne : a <> b) by (intros ->; rewrite before_irrefl in Hbef; discriminate).
  apply in_v1_alts in Ha, Hb. destruct Hg as [Hg|Hg].
  - rewrite (proj1 (grey_agree r a b Hr Ha Hb Hne Hg)). exact Hbef.
  - rewrite (proj2 (grey_agree r b a Hr Hb Ha (not_eq_sym Hne) Hg)). exact Hbef.
Qed.

Lemma cross_suffix r : In r orders -> forall suffix pre b,
  v1 = pre ++ concat (map snd suffix) -> alt_from b suffix ->
  Forall (fun run => snd run <> [] /\ forall c, In c (snd run) -> col c = fst run) suffix ->
  cross r suffix.
Proof.
  intros Hr. induction suffix as [|[fl rk] rest IH]; intros pre b E Halt Hfl; [exact I|].
  cbn [map snd concat] in E. apply Forall_cons_iff in Hfl. destruct Hfl as ((Hne1 & Hc1) & Hfl'). cbn [fst snd] in *.
  destruct Halt as (Hb0 & Halt'). subst b. split.
  - intros a b' Ha Hb'. cbn [snd].
    assert (Hav : In a v1) by (rewrite E; apply in_or_app; right; apply in_or_app; now left).
    assert (Hbv : In b' v1) by (rewrite E; apply in_or_app; right; apply in_or_app; now right).
    assert (Bv : before v1 a b' = true).
    { apply (v1_split_before (pre ++ rk) (concat (map snd rest))); [now rewrite <- app_assoc| |assumption].
      apply in_or_app. now right. }
    destruct (col a) eqn:Ca; [|apply before_v1_to_voter; auto].
    destruct (col b') eqn:Cb; [|apply before_v1_to_voter; auto].
    (* both coloured: a grey run lies in between *)
    assert (Hfla : fl = true) by (rewrite <- (Hc1 a Ha); exact Ca). subst fl.
    destruct rest as [|[fl2 rk2] rest2]; [destruct Hb'|].
    destruct Halt' as (Hf2 & _). cbn in Hf2. subst fl2.
    apply Forall_cons_iff in Hfl'. destruct Hfl' as ((Hne2 & Hc2) & _). cbn [fst snd map concat] in *.
    destruct rk2 as [|gg rk2']; [congruence|].
    assert (Hgg : col gg = false) by (apply Hc2; now left).
    assert (Hb2 : In b' (concat (map snd rest2))).
    { apply in_app_or in Hb'. destruct Hb' as [Hb'|Hb']; [|assumption]. rewrite (Hc2 b' Hb') in Cb. discriminate. }
    assert (Hgv : In gg v1) by (rewrite E; apply in_or_app; right; apply in_or_app; right; apply in_or_app; left; now left).
    assert (B1 : before v1 a gg = true).
    { apply (v1_split_before (pre ++ rk) ((gg :: rk2') ++ concat (map snd rest2))); [now rewrite <- app_assoc| |].
      - apply in_or_app. now right.
      - apply in_or_app. left. now left. }
    assert (B2 : before v1 gg b' = true).
    { apply (v1_split_before (pre ++ rk ++ gg :: rk2') (concat (map snd rest2))).
      - rewrite E. rewrite <- !app_assoc. reflexivity.
      - apply in_or_app. right. apply in_or_app. right. now left.
      - assumption. }
    apply (before_trans r a gg b'); apply before_v1_to_voter; auto.
  - apply (IH (pre ++ rk) (negb fl)); [now rewrite <- app_assoc|assumption|assumption].
Qed.

Lemma cross_runs r : In r orders -> cross r runs.
Proof.
  intros Hr. apply (cross_suffix r Hr runs [] true); [now rewrite runs_concat|apply runs_alt|apply gen_runs_flags].
Qed.

Lemma length_concat_member {T} (l : list T) ls : In l ls -> (length l <= length (concat ls))%nat.
Proof.
  induction ls as [|x t IH]; intros H; [destruct H|]. cbn [concat]. rewrite app_length.
  destruct H as [->|H]; [lia|]. specialize (IH H). lia.
Qed.

Lemma runs_wf r : In r orders -> wf_runs m r col runs.
Proof.
  intros Hr. unfold wf_runs. pose proof (gen_runs_flags col v1) as Hfl. fold runs in Hfl.
  rewrite Forall_forall in Hfl. apply Forall_forall. intros run Hrun. destruct (Hfl run Hrun) as (Hne & Hc). split; [exact Hc|].
  intros Hf. split.
  - unfold m. rewrite (Permutation_length v1_perm), <- runs_concat.
    apply length_concat_member. now apply in_map.
  - destruct (in_split _ _ Hrun) as (l1 & l2 & E).
    assert (Ev : v1 = concat (map snd l1) ++ snd run ++ concat (map snd l2)).
    { rewrite <- runs_concat, E, map_app, concat_app. reflexivity. }
    pose proof (sorted_before_segment v1 _ _ _ v1_nodup Ev) as Hs.
    eapply SS_weaken; [|exact Hs]. cbn beta. intros a b Ha Hb Hbef.
    assert (Hav : In a v1) by (rewrite Ev; apply in_or_app; right; apply in_or_app; now left).
    assert (Hbv : In b v1) by (rewrite Ev; apply in_or_app; right; apply in_or_app; now left).
    apply before_v1_to_voter; auto. left. rewrite (Hc a Ha). exact Hf.
Qed.

Lemma runs_head : exists F1 rest, runs = (true, F1) :: rest.
Proof.
  destruct Hhead as (c & t & E & Hc). unfold runs. rewrite E.
  destruct (proj1 (gen_runs_alt col c t)) as (rk & rest & Er). rewrite Er, Hc. now exists rk, rest.
Qed.

Lemma vs_length : length vs = length orders.
Proof. destruct Hlp as (_ & H2). apply Forall2_length in H2. now rewrite map_length in H2. Qed.

Lemma voter_has_order p : In p vs -> exists r, In (p, r) (combine vs orders).
Proof.
  intros Hp. apply In_nth_error in Hp. destruct Hp as (i & Hi).
  assert (Hlt : (i < length orders)%nat) by (rewrite <- vs_length; apply nth_error_Some; congruence).
  destruct (nth_error orders i) as [r|] eqn:Er; [|apply nth_error_None in Er; lia].
  exists r. eapply nth_combine; eassumption.
Qed.

Lemma Forall2_of_combine {A B} (P : A -> B -> Prop) l1 l2 :
  length l1 = length l2 -> (forall a b, In (a, b) (combine l1 l2) -> P a b) -> Forall2 P l1 l2.
Proof.
  revert l2. induction l1 as [|x t IH]; intros [|y t2] Hl H; try discriminate; constructor.
  - apply H. now left.
  - apply IH; [now injection Hl|]. intros a b Hab. apply H. now right.
Qed.

Let F1 := hd [] (f_groups runs).
Let tmp1 := vs ++ map alt F1.
Let xl := match tmp1 with [] => 0 | x :: t => qminl x t end.
Let xr := match tmp1 with [] => 0 | x :: t => qmaxl x t end.

(* the map built by the mirror realises the profile *)
Theorem assembled :
  Realised alts orders vs (place_groups alt xl xr delta m 0 (f_groups runs) (g_groups runs)).
Proof.
  destruct runs_head as (F1' & rest & Er).
  assert (EF1 : F1 = F1') by (unfold F1; rewrite Er; reflexivity).
  rewrite (proj1 (place_groups_runs alt xl xr delta m runs 0) runs_alt).
  set (P := place_r alt xl xr delta m 0 runs).
  pose proof (gen_runs_flags col v1) as Hfl. fold runs in Hfl. rewrite Forall_forall in Hfl.
  assert (HF1 : F1' <> [] /\ forall c, In c F1' -> col c = true).
  { apply (Hfl (true, F1')). rewrite Er. now left. }
  destruct HF1 as (HF1ne & HF1c).
  (* voters *)
  pose proof vs_length as Hlen.
  assert (Hone : orders <> []) by (intros E; rewrite E in Hperm; apply Permutation_nil in Hperm; discriminate).
  assert (Hvne : vs <> []) by (intros E; rewrite E in Hlen; destruct orders; [congruence|discriminate]).
  destruct (nonempty_cons vs Hvne) as (v0 & vs' & Evs).
  destruct (nonempty_cons F1' HF1ne) as (t0 & F1t & EF).
  assert (Etmp : tmp1 = v0 :: (vs' ++ map alt F1')) by (unfold tmp1; rewrite EF1, Evs; reflexivity).
  assert (Exl : xl = qminl v0 (vs' ++ map alt F1')) by (unfold xl; now rewrite Etmp).
  assert (Exr : xr = qmaxl v0 (vs' ++ map alt F1')) by (unfold xr; now rewrite Etmp).
  assert (Hin1 : forall q, In q tmp1 -> xl <= q /\ q <= xr).
  { intros q Hq. rewrite Etmp in Hq. rewrite Exl, Exr. split; [now apply qminl_spec|now apply qmaxl_spec]. }
  assert (Hsub : forall q, In q tmp1 -> In q tmp2).
  { intros q Hq. unfold tmp1 in Hq. unfold tmp2. apply in_app_or in Hq. apply in_or_app. destruct Hq as [Hq|Hq]; [now left|right].
    apply in_map_iff in Hq. destruct Hq as (c & <- & Hc). apply in_map. apply memb_In. apply HF1c. now rewrite <- EF1. }
  assert (Hxr_in : In xr tmp1) by (rewrite Exr, Etmp; apply qmaxl_spec).
  (* later coloured alternatives are outside [xl, xr] *)
  assert (Hout : all_out alt xl xr rest).
  { intros run Hrun Hf c Hc. unfold outside. rewrite Exl, Exr.
    apply (outside_lemma vs (map alt F1') (alt c) v0 vs' (alt t0) (map alt F1t)); [exact Evs|now rewrite EF|].
    intros p t Hp Ht. apply in_map_iff in Ht. destruct Ht as (tt & <- & Htt).
    destruct (voter_has_order p Hp) as (r & Hpr).
    assert (Hr : In r orders) by (eapply in_combine_r; eassumption).
    pose proof (cross_runs r Hr) as Hcr. fold runs in Hcr. rewrite Er in Hcr. destruct Hcr as (Hcr & _). cbn [snd] in Hcr.
    apply (lp_closer p r tt c Hpr); [now apply HF1c| |].
    - destruct (Hfl run) as (_ & Hcc); [rewrite Er; now right|]. rewrite (Hcc c Hc). exact Hf.
    - apply Hcr; [assumption|]. apply in_concat. exists (snd run). split; [now apply in_map|assumption]. }
  (* every voter orders the placed alternatives correctly *)
  assert (Hkeys : map fst P = v1) by (unfold P; rewrite place_r_keys; apply runs_concat).
  assert (Hndk : NoDup (map fst P)) by (rewrite Hkeys; apply v1_nodup).
  assert (Hm : (0 < m)%nat).
  { unfold m. rewrite (Permutation_length v1_perm). destruct Hhead as (c & t & E & _). rewrite E. cbn. lia. }
  assert (Hvote : forall p r, In (p, r) (combine vs orders) -> vote_realised (posf P) p r).
  { intros p r Hpr. assert (Hr : In r orders) by (eapply in_combine_r; eassumption).
    assert (Hp : In p vs) by (eapply in_combine_l; eassumption).
    assert (Hp1 : In p tmp1) by (unfold tmp1; apply in_or_app; now left).
    destruct (Hin1 p Hp1) as (Hpl & Hpr').
    assert (Hxrp : xr - p <= delta).
    { pose proof (max_abs_diff_bound tmp2 xr p (Hsub _ Hxr_in) (Hsub _ Hp1)) as Hb. fold delta in Hb.
      pose proof (Qle_Qabs (xr - p)). lra. }
    pose proof (seq_perm r (order_in_seq r Hr)) as Pr.
    assert (Hndr : NoDup r) by (eapply Permutation_NoDup; [exact Pr|exact Hnd]).
    intros i j a b Hij Hi Hj. unfold closer.
    assert (Ha : In a v1) by (apply (In_perm v1 a v1_perm), (In_perm r a Pr); eapply nth_error_In; eassumption).
    assert (Hb : In b v1) by (apply (In_perm v1 b v1_perm), (In_perm r b Pr); eapply nth_error_In; eassumption).
    rewrite <- Hkeys in Ha, Hb. apply in_map_iff in Ha, Hb.
    destruct Ha as ([a' qa] & Ea & Ha), Hb as ([b' qb] & Eb & Hb). cbn in Ea, Eb. subst a' b'.
    unfold posf. rewrite (apos_lookup_In P a qa Hndk Ha), (apos_lookup_In P b qb Hndk Hb).
    assert (Hbef : before r a b = true).
    { unfold before. rewrite (aidx_nth r i a Hndr Hi), (aidx_nth r j b Hndr Hj). now apply Nat.ltb_lt. }
    apply (band_order alt xl xr delta m p r col delta_pos Hm Hpl Hpr' Hxrp
             (fun c Hc => dist_le_delta p c Hp Hc) (fun a b Ha Hb Hab => lp_closer p r a b Hpr Ha Hb Hab)
             runs 0%nat true runs_alt (runs_wf r Hr)) with (a := a) (b' := b); try assumption.
    - rewrite Er. cbn. split; [now left|exact Hout].
    - apply cross_runs. exact Hr. }
  split; [|split].
  - intros a Ha. apply (In_perm v1 a v1_perm) in Ha. rewrite <- Hkeys in Ha. apply in_map_iff in Ha.
    destruct Ha as ([a' qa] & Ea & Ha). cbn in Ea. subst a'. exists qa. now apply apos_lookup_In.
  - intros r a Hr Ha. pose proof (seq_perm r (order_in_seq r Hr)) as Pr.
    apply (In_perm r a Pr), (In_perm v1 a v1_perm) in Ha. rewrite <- Hkeys in Ha. apply in_map_iff in Ha.
    destruct Ha as ([a' qa] & Ea & Ha). cbn in Ea. subst a'. exists qa. now apply apos_lookup_In.
  - unfold realises. apply Forall2_of_combine; [exact Hlen|exact Hvote].
Qed.
End Assembly.

(* ============================================================================================== *)
(* 11. soundness of the mirror                                                                     *)
(* ============================================================================================== *)
Lemma single_order_realised (r : list N) : NoDup r ->
  let xs := map (fun rc => (snd rc, qnat (S (fst rc)))) (combine (seq 0 (length r)) r) in
  (forall a, In a r -> exists q, apos_lookup xs a = Some q) /\ vote_realised (posf xs) 0 r.
Proof.
  intros Hnd xs.
  assert (Hkeys : map fst xs = r).
  { unfold xs. rewrite map_map. cbn [fst]. apply map_snd_combine_seq. }
  assert (Hlook : forall i a, nth_error r i = Some a -> apos_lookup xs a = Some (qnat (S i))).
  { intros i a Hi. apply apos_lookup_In; [now rewrite Hkeys|]. unfold xs. apply in_map_iff. exists (i, a).
    split; [reflexivity|]. apply in_combine_seq. rewrite Nat.sub_0_r. split; [lia|assumption]. }
  split.
  - intros a Ha. apply In_nth_error in Ha. destruct Ha as (i & Hi). exists (qnat (S i)). now apply Hlook.
  - intros i j a b Hij Hi Hj. unfold closer, posf. rewrite (Hlook i a Hi), (Hlook j b Hj). unfold qdist.
    pose proof (qnat_nonneg (S i)). pose proof (qnat_lt (S i) (S j) ltac:(lia)).
    rewrite !Qabs_neg by lra. lra.
Qed.

Section Sound.
Variable lp_solve : list (list N) -> list N -> option (list Q * list (N * Q)).
Hypothesis lp_sound : forall prefs axis vs xs, lp_solve prefs axis = Some (vs, xs) -> lp_sat prefs axis vs xs.

Theorem eucl_algo_sound alts orders vs xs : wf_profile alts orders ->
  eucl_algo lp_solve alts orders = Ok (Some (vs, xs)) -> eucl_check alts orders vs xs = true.
Proof.
  intros Hwf H. pose proof Hwf as (Hnd & Hndo & Hrk). unfold eucl_algo in H.
  destruct (sc_algo alts orders) as [[sc_order|]|e] eqn:Esc; try discriminate.
  pose proof (sc_algo_sound alts orders sc_order Hwf Esc) as Hw.
  apply (sc_witness_check_perm alts orders sc_order Hndo) in Hw. destruct Hw as (Hperm & Hsc).
  destruct sc_order as [|v1 seqt]; [discriminate|].
  remember (last (v1 :: seqt) v1) as vn eqn:Hvn.
  destruct v1 as [|c_minus v1t] eqn:Ev1; [discriminate|]. destruct vn as [|c_plus vnt] eqn:Evn; [discriminate|].
  rewrite <- Ev1 in *. rewrite <- Evn in *.
  assert (Hv1p : Permutation alts v1).
  { rewrite Forall_forall in Hrk. apply Hrk. eapply Permutation_in; [apply Permutation_sym; exact Hperm|now left]. }
  destruct (length orders =? 1)%nat eqn:En.
  - (* a single order *)
    apply Nat.eqb_eq in En. injection H as <- <-.
    destruct orders as [|r [|r2 t]]; try discriminate.
    apply Permutation_length_1_inv in Hperm. injection Hperm as <- ->.
    assert (Hndr : NoDup v1) by (eapply Permutation_NoDup; eassumption).
    destruct (single_order_realised v1 Hndr) as (Hl & Hv). apply eucl_check_correct. split; [|split].
    + intros a Ha. apply Hl. eapply Permutation_in; eassumption.
    + intros r a [<-|[]] Ha. now apply Hl.
    + constructor; [exact Hv|constructor].
  - apply Nat.eqb_neq in En.
    destruct (colour_loop v1 vn alts (gamma0 v1 vn c_minus c_plus)) as [g|] eqn:Ecl; [|discriminate].
    set (plus := filter (fun c => negb (is_grey (g c))) alts) in *.
    set (counted := map (fun c => (c, axis_count v1 vn g plus c)) plus) in *.
    set (axis := map fst (sort_by (fun cv : N * nat => (- Z.of_nat (snd cv))%Z) counted)) in *.
    destruct (lp_solve (map (filter (fun c => memb c plus)) orders) axis) as [[voters alternatives]|] eqn:Elp; [|discriminate].
    injection H as <- <-. apply lp_sound in Elp.
    apply eucl_check_correct.
    assert (Haxis : Permutation plus axis).
    { unfold axis. assert (E : plus = map fst counted) by (unfold counted; rewrite map_map; cbn; now rewrite map_id).
      rewrite E at 1. apply Permutation_map. apply sort_by_perm. }
    assert (Hlen2 : seqt <> []).
    { intros E. apply Permutation_length in Hperm. rewrite E in Hperm. cbn in Hperm. congruence. }
    assert (Hhead : exists c t, v1 = c :: t /\ memb c plus = true).
    { exists c_minus, v1t. split; [exact Ev1|]. apply memb_In. unfold plus. apply filter_In. split.
      - eapply Permutation_in; [apply Permutation_sym; exact Hv1p|]. rewrite Ev1. now left.
      - assert (Hg : g c_minus <> Grey).
        { apply (coloured_stays _ _ _ _ _ _ Ecl). unfold gamma0. rewrite N.eqb_refl, orb_true_r. cbn. discriminate. }
        destruct (g c_minus); try reflexivity. congruence. }
    exact (assembled alts orders v1 vn seqt (gamma0 v1 vn c_minus c_plus) g axis voters alternatives
             Hnd Hndo Hrk Hperm Hsc Hvn Ecl Haxis Elp Hlen2 Hhead).
Qed.
End Sound.

(* ============================================================================================== *)
(* 12. the executable LP instance of the extracted mirror                                          *)
(* ============================================================================================== *)
Lemma lp_sat_b_correct prefs axis vs xs : lp_sat_b prefs axis vs xs = true -> lp_sat prefs axis vs xs.
Proof.
  unfold lp_sat_b, lp_sat. rewrite andb_true_iff, forallb_forall, forallb2_Forall2. intros (H1 & H2). split.
  - apply Forall_forall. intros ab Hab. apply Qle_bool_iff. exact (H1 ab Hab).
  - eapply Forall2_impl; [|exact H2]. cbn beta. intros p r _ _ H. rewrite forallb_forall in H.
    apply Forall_forall. intros ab Hab. specialize (H ab Hab).
    destruct (before r (fst ab) (snd ab)); now apply Qle_bool_iff.
Qed.

Lemma lp_checked_sound prefs axis vs xs : lp_checked prefs axis = Some (vs, xs) -> lp_sat prefs axis vs xs.
Proof.
  unfold lp_checked. destruct (lp_exact prefs axis) as [[vs' xs']|]; [|discriminate].
  destruct (lp_sat_b prefs axis vs' xs') eqn:E; [|discriminate]. intros H. injection H as <- <-.
  now apply lp_sat_b_correct.
Qed.

(* the extracted mirror (protocol operation c19.algo): a True answer carries a map accepted by the checker *)
Theorem eucl_algo_exact_sound alts orders vs xs : wf_profile alts orders ->
  eucl_algo_exact alts orders = Ok (Some (vs, xs)) -> eucl_check alts orders vs xs = true.
Proof. apply eucl_algo_sound. exact lp_checked_sound. Qed.

Corollary eucl_algo_exact_euclidean alts orders vs xs : wf_profile alts orders ->
  eucl_algo_exact alts orders = Ok (Some (vs, xs)) -> Euclidean orders /\ eucl_decide alts orders = true.
Proof.
  intros Hwf H. pose proof (eucl_algo_exact_sound alts orders vs xs Hwf H) as Hc.
  assert (HE : Euclidean orders) by (eapply planted_sound; exact Hc). split; [assumption|].
  destruct Hwf as (Hnd & _ & Hrk). now apply (eucl_decide_correct alts orders Hnd Hrk).
Qed.

(* completeness, PARTIAL: a 1-Euclidean profile always passes the single-crossing precheck, so the mirror can
   answer False on it only through the colouring exit or an infeasible LP on the constructed axis (that these two
   cannot happen is the Elkind-Faliszewski correctness argument, NOT formalised here) *)
Theorem eucl_algo_complete_partial alts orders : wf_profile alts orders -> Euclidean orders ->
  exists sc_order, sc_algo alts orders = Ok (Some sc_order).
Proof.
  intros Hwf HE. apply sc_algo_complete; [assumption|]. destruct Hwf as (Hnd & _ & Hrk).
  now apply Euclidean_SC.
Qed.

(* no exception on well-formed non-empty profiles (whatever the LP answers) *)
Theorem eucl_algo_no_error lp alts orders : wf_profile alts orders -> orders <> [] -> alts <> [] ->
  forall e, eucl_algo lp alts orders <> Err e.
Proof.
  intros Hwf Ho Ha e. pose proof Hwf as (Hnd & Hndo & Hrk). unfold eucl_algo.
  destruct (sc_algo alts orders) as [[sc_order|]|e'] eqn:Esc; [|discriminate|exfalso; exact (sc_algo_no_error alts orders Hwf e' Esc)].
  pose proof (sc_algo_sound alts orders sc_order Hwf Esc) as Hw.
  apply (sc_witness_check_perm alts orders sc_order Hndo) in Hw. destruct Hw as (Hperm & _).
  destruct sc_order as [|v1 seqt]; [apply Permutation_sym, Permutation_nil in Hperm; congruence|].
  assert (Hp : forall r, In r (v1 :: seqt) -> r <> []).
  { intros r Hr E. rewrite Forall_forall in Hrk. assert (Hin : In r orders) by (eapply Permutation_in; [apply Permutation_sym; exact Hperm|exact Hr]).
    specialize (Hrk r Hin). rewrite E in Hrk. apply Permutation_sym, Permutation_nil in Hrk. congruence. }
  pose proof (Hp v1 (or_introl eq_refl)) as H1. pose proof (Hp _ (last_In v1 seqt v1)) as Hn.
  destruct v1 as [|c_minus v1t]; [congruence|]. destruct (last ((c_minus :: v1t) :: seqt) (c_minus :: v1t)) as [|c_plus vnt]; [congruence|].
  destruct (length orders =? 1)%nat; [discriminate|].
  destruct (colour_loop _ _ _ _); [|discriminate]. destruct (lp _ _) as [[? ?]|]; discriminate.
Qed.
