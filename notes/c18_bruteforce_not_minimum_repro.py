# plain-Python reproduction (PYTHONPATH=/repo python notes/c18_bruteforce_not_minimum_repro.py): k_alternative_partition_brut_force
# answers None for k = 2 and a 3-axis partition for k >= 3 although a 2-axis partition exists (m = 6, 3 orders).
import itertools
from preflibtools.instances import OrdinalInstance
from preflibtools.properties.subdomains.ordinal.singlepeaked.k_alternative_partition import k_alternative_partition_brut_force
from preflibtools.properties.subdomains.ordinal.singlepeaked.singlepeakedness import is_single_peaked_axis

def inst(orders):
    i = OrdinalInstance()
    i.append_order_list([tuple((a,) for a in o) for o in orders])
    return i

def sp_on(orders, axis):
    S = set(axis)
    return is_single_peaked_axis(inst([[a for a in o if a in S] for o in orders]), list(axis))

def brute_min(alts, orders):
    """independent search: all set partitions, all axes"""
    def parts(l):
        if not l:
            yield []
            return
        x, rest = l[0], l[1:]
        for p in parts(rest):
            yield [[x]] + p
            for i in range(len(p)):
                yield p[:i] + [[x] + p[i]] + p[i + 1:]
    best = None
    for p in parts(list(alts)):
        if best is not None and len(p) >= len(best):
            continue
        axes = []
        for b in p:
            ax = next((list(q) for q in itertools.permutations(b) if sp_on(orders, q)), None)
            if ax is None:
                break
            axes.append(ax)
        else:
            best = axes
    return best

alts = [1, 2, 3, 4, 5, 6]
orders = [[1, 2, 3, 4, 5, 6], [5, 1, 4, 6, 3, 2], [2, 5, 3, 4, 1, 6]]
i = inst(orders)
print("alternatives", sorted(i.alternatives_name), "orders", orders)
for k in range(1, 9):
    print("k =", k, "->", k_alternative_partition_brut_force(inst(orders), k))
b = brute_min(alts, orders)
print("independent search: a partition with", len(b), "axes:", b, [sp_on(orders, ax) for ax in b])
