(* Properties/C03.v — statements for property C03 (being completed; see Proofs/SP.v). *)
From Coq Require Import List NArith Bool.
From PrefVerif Require Import Lib.Val Lib.Contig Model.SP.
Import ListNotations.
Open Scope N_scope.

Example C03_example_sp :
  sp_decide [1;2;3;4] [ [2;3;1;4] ; [3;4;2;1] ; [1;2;3;4] ] = true
  /\ sp_check_axis [1;2;3;4] [ [2;3;1;4] ; [3;4;2;1] ; [1;2;3;4] ] [4;3;2;1] = true.
Proof. split; vm_compute; reflexivity. Qed.

Example C03_example_not_sp : sp_decide [1;2;3] [ [1;2;3] ; [2;3;1] ; [3;1;2] ] = false.
Proof. vm_compute; reflexivity. Qed.
