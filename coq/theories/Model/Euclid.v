(* Model/Euclid.v — 1-Euclidean profiles (C19).  Executable definitions only; proofs in Proofs/Euclid.v.

   Anchor in /repo: preflibtools/properties/subdomains/ordinal/euclidean.py
     is_one_euclidean        NOT MIRRORED (single-crossing precheck, colouring, LP through python-mip/CBC,
                             placement of the grey alternatives).  Shape (R), partial:
                               - verified WITNESS CHECKER  eucl_check  for the returned position map;
                               - verified NECESSARY CONDITIONS (refuter)  eucl_refuted  = not single-peaked or
                                 not single-crossing, decided by the sibling reference deciders sp_decide / sc_decide;
                               - exact reference decider eucl_decide (Fourier-Motzkin over Q) in Model/EuclidLP.v.

   Positions are exact rationals Q: every IEEE double is a dyadic rational; the harness converts the floats
   returned by the implementation with fractions.Fraction(float) and sends (numerator denominator) pairs,
   denominator > 0.  Rankings are flat strict orders `list N`, best first (flatten_strict()). *)
From Coq Require Import List Arith NArith ZArith QArith Qabs Bool.
From PrefVerif Require Import Lib.Perms Lib.Contig Model.SP Model.SC.
Import ListNotations.

(* distance on the line *)
Definition qdist (x y : Q) : Q := Qabs (x - y).

(* strict comparison of rationals as a boolean *)
Definition Qltb (x y : Q) : bool := negb (Qle_bool y x).

(* the position map of the alternatives: association list, first binding wins (a Python dict has one) *)
Fixpoint apos_lookup (apos : list (N * Q)) (a : N) : option Q :=
  match apos with
  | [] => None
  | (b, x) :: t => if N.eqb b a then Some x else apos_lookup t a
  end.

Definition has_pos (apos : list (N * Q)) (a : N) : bool :=
  match apos_lookup apos a with Some _ => true | None => false end.

(* the distances from v to the alternatives of a ranking, in ranking order; None if some alternative
   has no position *)
Fixpoint dists (v : Q) (apos : list (N * Q)) (r : list N) : option (list Q) :=
  match r with
  | [] => Some []
  | a :: t =>
      match apos_lookup apos a, dists v apos t with
      | Some x, Some l => Some (qdist v x :: l)
      | _, _ => None
      end
  end.

(* adjacent elements strictly increasing *)
Fixpoint strictly_increasing (l : list Q) : bool :=
  match l with
  | [] => true
  | x :: t =>
      match t with
      | [] => true
      | y :: _ => Qltb x y && strictly_increasing t
      end
  end.

(* voter at position v realises the ranking: every alternative of the ranking has a position and the
   distances from v are STRICTLY increasing along the ranking *)
Definition eucl_vote_ok (v : Q) (apos : list (N * Q)) (ranking : list N) : bool :=
  match dists v apos ranking with
  | Some l => strictly_increasing l
  | None => false
  end.

Fixpoint forallb2 {T U} (f : T -> U -> bool) (l1 : list T) (l2 : list U) : bool :=
  match l1, l2 with
  | [], [] => true
  | x :: t1, y :: t2 => f x y && forallb2 f t1 t2
  | _, _ => false
  end.

(* the witness checker: apos places every alternative of alts, there is exactly one voter position per
   ranking of the profile (storage order), and voter i realises ranking i *)
Definition eucl_check (alts : list N) (profile : list (list N)) (vpos : list Q) (apos : list (N * Q)) : bool :=
  forallb (has_pos apos) alts
  && (length vpos =? length profile)
  && forallb2 (fun v r => eucl_vote_ok v apos r) vpos profile.

(* necessary conditions: a 1-Euclidean profile is single-peaked and single-crossing
   (Proofs/Euclid.v: eucl_refuted_sound).  Brute force (m! axes, n! arrangements): small profiles only. *)
Definition eucl_refuted (alts : list N) (profile : list (list N)) : bool :=
  negb (sp_decide alts profile) || negb (sc_decide alts profile).

(* same verdict with the polynomial single-crossing reference (Proofs/SC.v: sc_conflict_decide_eq) *)
Definition eucl_refuted_fast (alts : list N) (profile : list (list N)) : bool :=
  negb (sp_decide alts profile) || negb (sc_conflict_decide alts profile).
