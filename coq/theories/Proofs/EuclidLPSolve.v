(* Proofs/EuclidLPSolve.v — the executable LP oracle of the extracted mirror (Model/EuclidAlgo.v: lp_exact / lp_checked) is
   sound and complete on well-formed inputs:  fm_solve returns a point of the solution set whenever the strict
   homogeneous system is feasible; scaled by 2 / (smallest slack) it meets the margins of the Python LP. *)
From Coq Require Import List Arith NArith ZArith QArith Qabs Qfield Bool Lia Lqa Permutation Sorted.
From PrefVerif Require Import Lib.Val Lib.Perms Lib.Contig Model.SP Model.SC Model.SCAlgo Model.Euclid Model.EuclidLP
                              Model.EuclidAlgo Proofs.SP Proofs.SC Proofs.SCAlgo Proofs.Euclid Proofs.EuclidLP
                              Proofs.EuclidAlgo Proofs.EuclidAlgoOrder Proofs.EuclidAlgoComplete.
Import ListNotations.
Open Scope Q_scope.

(* ============================================================================================== *)
(* 1. Fourier-Motzkin with back-substitution                                                       *)
(* ============================================================================================== *)
Lemma pick_between_spec L U : (forall l u, In l L -> In u U -> l < u) ->
  (forall l, In l L -> l < pick_between L U) /\ (forall u, In u U -> pick_between L U < u).
Proof.
  intros H. unfold pick_between. destruct L as [|l0 L], U as [|u0 U].
  - split; intros ? [].
  - destruct (qminl_spec u0 U) as (_ & Hmn). split; [intros ? []|].
    intros u Hu. rewrite Qred_correct. specialize (Hmn u Hu). lra.
  - destruct (qmaxl_spec l0 L) as (_ & Hmx). split; [|intros ? []].
    intros l Hl. rewrite Qred_correct. specialize (Hmx l Hl). lra.
  - destruct (qmaxl_spec l0 L) as (Hmxi & Hmx). destruct (qminl_spec u0 U) as (Hmni & Hmn).
    pose proof (H _ _ Hmxi Hmni) as Hlt. split.
    + intros l Hl. rewrite Qred_correct. specialize (Hmx l Hl). lra.
    + intros u Hu. rewrite Qred_correct. specialize (Hmn u Hu). lra.
Qed.

Lemma fm_point es sys e0 : sat es (fm_step sys) ->
  (forall l, In l (lower_bounds es sys) -> l < e0) -> (forall u, In u (upper_bounds es sys) -> e0 < u) ->
  sat (e0 :: es) sys.
Proof.
  unfold fm_step. intros H Hlo Hup. apply sat_app in H. destruct H as (Hz & _).
  unfold sat in Hz. rewrite Forall_map, Forall_forall in Hz.
  unfold sat. rewrite Forall_forall. intros c Hin. rewrite eval_cons.
  destruct (sign_cases c) as [Hs|[Hs|Hs]].
  - assert (H0 : eval (tlq c) es < 0) by (apply Hz; apply filter_In; now split).
    apply is_zero_iff in Hs. rewrite Hs. lra.
  - assert (Hu : e0 < - eval (tlq c) es / hdq c).
    { apply Hup. unfold upper_bounds. apply in_map_iff. exists c. split; [reflexivity|]. apply filter_In. now split. }
    apply is_pos_iff in Hs. now apply upper_ok.
  - assert (Hl : eval (tlq c) es / (- hdq c) < e0).
    { apply Hlo. unfold lower_bounds. apply in_map_iff. exists c. split; [reflexivity|]. apply filter_In. now split. }
    apply is_neg_iff in Hs. now apply lower_ok.
Qed.

Lemma fm_bounds_lt es sys : sat es (fm_step sys) ->
  forall l u, In l (lower_bounds es sys) -> In u (upper_bounds es sys) -> l < u.
Proof.
  unfold fm_step. intros H l u Hl Hu. apply sat_app in H. destruct H as (_ & Hc). unfold sat in Hc. rewrite Forall_forall in Hc.
  unfold lower_bounds, upper_bounds in *. apply in_map_iff in Hl, Hu. destruct Hl as (q & <- & Hq), Hu as (p & <- & Hp).
  assert (Hpq : eval (combine_pn p q) es < 0).
  { apply Hc. apply in_flat_map. exists p. split; [assumption|]. now apply in_map. }
  apply filter_In in Hp, Hq. destruct Hp as (_ & Hpp), Hq as (_ & Hqn).
  apply is_pos_iff in Hpp. apply is_neg_iff in Hqn.
  unfold combine_pn in Hpq. rewrite eval_ladd, !eval_scale in Hpq. now apply lu_ok.
Qed.

Theorem fm_solve_sound n : forall sys env, fm_solve n sys = Some env -> length env = n /\ sat env sys.
Proof.
  induction n as [|n IH]; intros sys env H; cbn [fm_solve] in H; destruct (existsb all_zero sys); try discriminate.
  - destruct sys; [|discriminate]. injection H as <-. split; [reflexivity|constructor].
  - destruct (fm_solve n (simplify (fm_step sys))) as [es|] eqn:E; [|discriminate]. injection H as <-.
    destruct (IH _ _ E) as (Hlen & Hs). apply (proj1 (simplify_sat _ _)) in Hs.
    destruct (pick_between_spec _ _ (fm_bounds_lt es sys Hs)) as (Hlo & Hup).
    split; [cbn; now rewrite Hlen|]. now apply fm_point.
Qed.

Theorem fm_solve_complete n : forall sys, fm_feasible n sys = true -> exists env, fm_solve n sys = Some env.
Proof.
  induction n as [|n IH]; intros sys H; cbn [fm_feasible fm_solve] in *; destruct (existsb all_zero sys); try discriminate.
  - destruct sys; [now exists []|discriminate].
  - destruct (IH _ H) as (es & E). rewrite E. eexists. reflexivity.
Qed.

(* ============================================================================================== *)
(* 2. list helpers                                                                                 *)
(* ============================================================================================== *)
Lemma nth_error_aidx l a : In a l -> nth_error l (aidx l a) = Some a.
Proof.
  induction l as [|x t IH]; intros H; [destruct H|]. cbn [aidx]. destruct (N.eqb x a) eqn:E.
  - apply N.eqb_eq in E. now subst.
  - apply N.eqb_neq in E. destruct H as [->|H]; [congruence|]. cbn. now apply IH.
Qed.

Lemma before_pairs r a b : In a r -> In b r -> before r a b = true -> In (a, b) (ordered_pairs r).
Proof.
  intros Ha Hb H. unfold before in H. apply Nat.ltb_lt in H.
  exact (ordered_pairs_nth r _ _ a b H (nth_error_aidx r a Ha) (nth_error_aidx r b Hb)).
Qed.

Lemma pairs_before r a b : NoDup r -> In (a, b) (ordered_pairs r) -> before r a b = true.
Proof.
  intros Hnd Hin. pose proof (sorted_before_segment r [] r [] Hnd ltac:(now rewrite app_nil_r)) as Hs.
  apply SS_pairs in Hs. rewrite Forall_forall in Hs. exact (Hs (a, b) Hin).
Qed.

Lemma nth_skipn {T} (l : list T) n i d : nth i (skipn n l) d = nth (n + i) l d.
Proof. revert l. induction n as [|n IH]; intros l; [reflexivity|]. destruct l; [destruct i; reflexivity|]. cbn. apply IH. Qed.

Lemma posf_combine axis l a : In a axis -> (length axis <= length l)%nat ->
  posf (combine axis l) a = nth (aidx axis a) l 0.
Proof.
  unfold posf. revert l. induction axis as [|y t IH]; intros l Ha Hl; [destruct Ha|].
  destruct l as [|q l']; [cbn in Hl; lia|]. cbn [combine apos_lookup aidx].
  destruct (N.eqb y a) eqn:E; [reflexivity|]. apply N.eqb_neq in E. destruct Ha as [->|Ha]; [congruence|].
  cbn [nth]. apply IH; [assumption|]. cbn in Hl. lia.
Qed.

Lemma Forall2_nth {A B} (P : A -> B -> Prop) l1 l2 : length l1 = length l2 ->
  (forall k a b, nth_error l1 k = Some a -> nth_error l2 k = Some b -> P a b) -> Forall2 P l1 l2.
Proof.
  revert l2. induction l1 as [|x t IH]; intros [|y t2] Hl H; try discriminate; constructor.
  - apply (H 0%nat); reflexivity.
  - apply IH; [now injection Hl|]. intros k a b Ha Hb. apply (H (S k)); assumption.
Qed.

Lemma Forall2_nth_inv {A B} (P : A -> B -> Prop) l1 l2 : Forall2 P l1 l2 ->
  forall k a b, nth_error l1 k = Some a -> nth_error l2 k = Some b -> P a b.
Proof.
  induction 1 as [|x y t1 t2 Hxy Ht IH]; intros k a b Ha Hb; [destruct k; discriminate|].
  destruct k as [|k]; cbn in Ha, Hb; [injection Ha as <-; injection Hb as <-; assumption|now apply (IH k)].
Qed.

Lemma eval_map_scale k c env : eval c (map (fun x => Qred (k * x)) env) == k * eval c env.
Proof.
  revert env. induction c as [|c0 cs IH]; intros [|e0 es]; cbn [map eval]; try ring.
  rewrite Qred_correct, IH. ring.
Qed.

(* ============================================================================================== *)
(* 3. the system of an axis, constraint by constraint                                              *)
(* ============================================================================================== *)
Lemma eval_c_vote n axis v a b env :
  eval (c_vote n axis v (a, b)) env ==
  if (aidx axis a <? aidx axis b)%nat then 2 * nth v env 0 - xof n axis env a - xof n axis env b
  else xof n axis env a + xof n axis env b - 2 * nth v env 0.
Proof.
  unfold c_vote, xof. cbn [fst snd]. destruct (aidx axis a <? aidx axis b)%nat; rewrite !eval_ladd, !eval_unit; ring.
Qed.

Section Sys.
Variable P : Q -> Prop.
Definition satP (env : list Q) (sys : list lin) : Prop := Forall (fun c => P (eval c env)) sys.

Lemma vote_sys_satP n axis env prefs : forall v0,
  satP env (vote_sys n axis v0 prefs) <->
  (forall k r, nth_error prefs k = Some r -> forall ab, In ab (ordered_pairs r) -> P (eval (c_vote n axis (v0 + k) ab) env)).
Proof.
  unfold satP. induction prefs as [|r t IH]; intros v0; cbn [vote_sys].
  - split; [intros _ k r H; destruct k; discriminate|constructor].
  - rewrite Forall_app, Forall_map, IH. split.
    + intros (H1 & H2) k r' Hk ab Hab. destruct k as [|k]; cbn in Hk.
      * injection Hk as <-. rewrite Nat.add_0_r. rewrite Forall_forall in H1. now apply H1.
      * rewrite Nat.add_succ_r. apply (H2 k r' Hk ab Hab).
    + intros H. split.
      * apply Forall_forall. intros ab Hab. specialize (H 0%nat r eq_refl ab Hab). now rewrite Nat.add_0_r in H.
      * intros k r' Hk ab Hab. specialize (H (S k) r' Hk ab Hab). now rewrite Nat.add_succ_r in H.
Qed.

Lemma eucl_system_satP axis prefs env :
  satP env (eucl_system axis prefs) <->
  (forall ab, In ab (ordered_pairs axis) -> P (eval (c_axis (length prefs) axis ab) env)) /\
  (forall k r, nth_error prefs k = Some r -> forall ab, In ab (ordered_pairs r) ->
               P (eval (c_vote (length prefs) axis k ab) env)).
Proof.
  unfold eucl_system. cbv zeta. unfold satP at 1. rewrite Forall_app. fold (satP env (vote_sys (length prefs) axis 0 prefs)).
  rewrite vote_sys_satP, Forall_map, Forall_forall. cbn [plus]. reflexivity.
Qed.
End Sys.

Lemma sat_satP env sys : sat env sys <-> satP (fun v => v < 0) env sys.
Proof. reflexivity. Qed.

(* ============================================================================================== *)
(* 4. the LP constraints and the system                                                            *)
(* ============================================================================================== *)
Section Instance.
Variable axis : list N.
Variable prefs : list (list N).
Hypothesis Hnd : NoDup axis.
Hypothesis Hpf : Forall (fun r => Permutation axis r) prefs.
Let n := length prefs.

Lemma pref_facts k r : nth_error prefs k = Some r -> NoDup r /\ (forall c, In c r <-> In c axis).
Proof.
  intros Hk. rewrite Forall_forall in Hpf. pose proof (Hpf r (nth_error_In _ _ Hk)) as HP. split.
  - eapply Permutation_NoDup; eassumption.
  - intros c. split; apply Permutation_in; [now apply Permutation_sym|assumption].
Qed.

Lemma pairs_aidx a b : In (a, b) (ordered_pairs axis) -> (aidx axis a <? aidx axis b)%nat = true.
Proof. intros H. exact (pairs_before axis a b Hnd H). Qed.

Lemma aidx_pairs a b : In a axis -> In b axis -> (aidx axis a <? aidx axis b)%nat = true -> In (a, b) (ordered_pairs axis).
Proof. intros Ha Hb H. now apply before_pairs. Qed.

(* a solution of the LP is a solution of the system (with margins) *)
Lemma lp_sat_system vs xs : lp_sat prefs axis vs xs ->
  satP (fun v => v <= -1) (vs ++ map (posf xs) axis) (eucl_system axis prefs).
Proof.
  intros (Hax & Hv). pose proof (Forall2_length _ _ _ Hv) as Hlen. fold n in Hlen.
  set (env := vs ++ map (posf xs) axis).
  assert (Hx : forall a, In a axis -> xof n axis env a = posf xs a).
  { intros a Ha. unfold xof, env. rewrite <- Hlen, app_nth2_plus. now apply aidx_nth_map. }
  rewrite Forall_forall in Hax. apply eucl_system_satP. fold n. split.
  - intros [a b] Hab. destruct (ordered_pairs_In _ _ _ Hab) as (Ha & Hb).
    rewrite eval_c_axis, (Hx a Ha), (Hx b Hb). specialize (Hax _ Hab). cbn [fst snd] in Hax. lra.
  - intros k r Hk [a b] Hab. destruct (pref_facts k r Hk) as (Hndr & Hmem).
    destruct (ordered_pairs_In _ _ _ Hab) as (Har & Hbr). pose proof (proj1 (Hmem a) Har) as Ha. pose proof (proj1 (Hmem b) Hbr) as Hb.
    pose proof (ordered_pairs_neq _ _ _ Hndr Hab) as Hne. pose proof (pairs_before r a b Hndr Hab) as Hbef.
    assert (Hkn : (k < length vs)%nat) by (rewrite Hlen; apply nth_error_Some; congruence).
    destruct (nth_error vs k) as [p|] eqn:Ep; [|apply nth_error_None in Ep; lia].
    pose proof (Forall2_nth_inv _ _ _ Hv k p r Ep Hk) as Hc. rewrite Forall_forall in Hc.
    assert (Enth : nth k env 0 = p) by (unfold env; rewrite app_nth1 by assumption; now apply nth_error_nth).
    rewrite eval_c_vote, Enth, (Hx a Ha), (Hx b Hb).
    destruct (aidx axis a <? aidx axis b)%nat eqn:E.
    + specialize (Hc (a, b) (aidx_pairs a b Ha Hb E)). cbn [fst snd] in Hc. rewrite Hbef in Hc. lra.
    + assert (E' : (aidx axis b <? aidx axis a)%nat = true).
      { apply Nat.ltb_lt. apply Nat.ltb_ge in E. destruct (Nat.eq_dec (aidx axis a) (aidx axis b)) as [Eq|]; [|lia].
        exfalso. apply Hne. now apply (aidx_inj axis). }
      specialize (Hc (b, a) (aidx_pairs b a Hb Ha E')). cbn [fst snd] in Hc. rewrite (before_asym _ _ _ Hbef) in Hc. lra.
Qed.

(* a point of the system with margins 2 is a solution of the LP *)
Lemma system_lp_sat env : length env = (n + length axis)%nat ->
  satP (fun v => v <= -2) env (eucl_system axis prefs) ->
  lp_sat prefs axis (firstn n env) (combine axis (skipn n env)).
Proof.
  intros Hlen Hs. apply eucl_system_satP in Hs. fold n in Hs. destruct Hs as (Hax & Hv).
  set (xs := combine axis (skipn n env)).
  assert (Hx : forall a, In a axis -> posf xs a = xof n axis env a).
  { intros a Ha. unfold xs. rewrite posf_combine; [|assumption|rewrite skipn_length; lia]. unfold xof. apply nth_skipn. }
  split.
  - apply Forall_forall. intros [a b] Hab. cbn [fst snd]. destruct (ordered_pairs_In _ _ _ Hab) as (Ha & Hb).
    specialize (Hax _ Hab). rewrite eval_c_axis in Hax. rewrite (Hx a Ha), (Hx b Hb). lra.
  - apply Forall2_nth; [rewrite firstn_length; fold n; lia|].
    intros k p r Hp Hk. apply Forall_forall. intros [a b] Hab. cbn [fst snd].
    destruct (ordered_pairs_In _ _ _ Hab) as (Ha & Hb). destruct (pref_facts k r Hk) as (Hndr & Hmem).
    assert (Hkn : (k < n)%nat) by (apply nth_error_Some; unfold n; congruence).
    assert (Ep : nth k env 0 = p).
    { rewrite <- (nth_firstn_lt env n k 0 Hkn). now apply nth_error_nth. }
    pose proof (pairs_aidx a b Hab) as Eab.
    pose proof (ordered_pairs_neq _ _ _ Hnd Hab) as Hne.
    rewrite (Hx a Ha), (Hx b Hb). destruct (before r a b) eqn:E.
    + specialize (Hv k r Hk (a, b) (before_pairs r a b (proj2 (Hmem a) Ha) (proj2 (Hmem b) Hb) E)).
      rewrite eval_c_vote, Eab, Ep in Hv. lra.
    + pose proof (before_total r a b (proj2 (Hmem a) Ha) (proj2 (Hmem b) Hb) Hne E) as E'.
      specialize (Hv k r Hk (b, a) (before_pairs r b a (proj2 (Hmem b) Hb) (proj2 (Hmem a) Ha) E')).
      assert (Eba : (aidx axis b <? aidx axis a)%nat = false).
      { apply Nat.ltb_ge. apply Nat.ltb_lt in Eab. lia. }
      rewrite eval_c_vote, Eba, Ep in Hv. lra.
Qed.
End Instance.

(* ============================================================================================== *)
(* 5. the executable oracle is complete on well-formed inputs; the extracted mirror is exact        *)
(* ============================================================================================== *)
Lemma forallb2_complete {T U} (f : T -> U -> bool) l1 l2 : Forall2 (fun a b => f a b = true) l1 l2 -> forallb2 f l1 l2 = true.
Proof. apply forallb2_Forall2. Qed.

Lemma lp_sat_b_complete prefs axis vs xs : lp_sat prefs axis vs xs -> lp_sat_b prefs axis vs xs = true.
Proof.
  intros (H1 & H2). unfold lp_sat_b. apply andb_true_iff. split.
  - apply forallb_forall. rewrite Forall_forall in H1. intros ab Hab. apply Qle_bool_iff. exact (H1 ab Hab).
  - apply forallb2_complete. eapply Forall2_impl; [|exact H2]. cbn beta. intros p r _ _ H. apply forallb_forall.
    rewrite Forall_forall in H. intros ab Hab. specialize (H ab Hab).
    destruct (before r (fst ab) (snd ab)); now apply Qle_bool_iff.
Qed.

Theorem lp_checked_complete : lp_complete lp_checked.
Proof.
  intros prefs axis Hnd Hpf (vs & xs & Hsat).
  pose proof (lp_sat_system axis prefs Hnd Hpf vs xs Hsat) as Hm.
  set (sys := eucl_system axis prefs) in *. set (n := length prefs).
  assert (Hlenv : length (vs ++ map (posf xs) axis) = (n + length axis)%nat).
  { rewrite app_length, map_length. destruct Hsat as (_ & H2). now rewrite (Forall2_length _ _ _ H2). }
  assert (Hfeas : fm_feasible (n + length axis) sys = true).
  { apply fm_feasible_correct. exists (vs ++ map (posf xs) axis). split; [assumption|].
    eapply Forall_impl; [|exact Hm]. cbn beta. intros c Hc. lra. }
  destruct (fm_solve_complete _ _ Hfeas) as (env & Esolve).
  destruct (fm_solve_sound _ _ _ Esolve) as (Hlen & Hsol).
  unfold lp_checked, lp_exact. fold sys n. rewrite Esolve.
  set (slacks := map (fun c => - eval c env) sys).
  set (k := match slacks with [] => 1 | s :: t => Qred (2 / qminl s t) end).
  set (env' := map (fun x => Qred (k * x)) env).
  assert (Hmargin : satP (fun v => v <= -2) env' sys).
  { unfold satP. apply Forall_forall. intros c Hc. unfold env'. rewrite eval_map_scale.
    unfold sat in Hsol. rewrite Forall_forall in Hsol.
    assert (Hsl : In (- eval c env) slacks) by (unfold slacks; now apply (in_map (fun c => - eval c env))).
    unfold k. destruct slacks as [|s t] eqn:Es; [destruct Hsl|].
    destruct (qminl_spec s t) as (Hmin_in & Hmin). set (mn := qminl s t) in *.
    assert (Hmn : 0 < mn).
    { rewrite <- Es in Hmin_in. unfold slacks in Hmin_in. apply in_map_iff in Hmin_in.
      destruct Hmin_in as (c0 & E0 & Hc0). specialize (Hsol c0 Hc0). cbn beta in Hsol. rewrite <- E0. lra. }
    rewrite Qred_correct. specialize (Hmin _ Hsl).
    assert (Hk : 0 < 2 / mn) by (apply Qlt_shift_div_l; lra).
    assert (E2 : 2 / mn * mn == 2) by (field; lra).
    assert (Hle : 2 / mn * mn <= 2 / mn * - eval c env) by (apply Qmult_le_l; assumption).
    assert (E3 : 2 / mn * eval c env == - (2 / mn * - eval c env)) by ring. lra. }
  assert (Hlen' : length env' = (n + length axis)%nat) by (unfold env'; now rewrite map_length).
  pose proof (system_lp_sat axis prefs Hnd Hpf env' Hlen' Hmargin) as Hfinal. fold n in Hfinal.
  rewrite (lp_sat_b_complete _ _ _ _ Hfinal). discriminate.
Qed.

(* the extracted mirror (protocol operation c19.algo) decides 1-Euclideanness exactly *)
Theorem eucl_algo_exact_verdict alts orders : wf_profile alts orders -> orders <> [] -> alts <> [] ->
  eucl_algo_verdict lp_checked alts orders = eucl_decide alts orders.
Proof.
  intros Hwf Ho Ha. apply eucl_algo_verdict_exact; try assumption.
  - intros prefs axis vs xs. apply lp_checked_sound.
  - exact lp_checked_complete.
Qed.
