"""C20 — ranking distances (kendall_tau_distance, spearman_footrule_distance, sertel_distance, distance_matrix)."""
import itertools
import random

from core import proto
from .common import case, guarded, ordinal_instance, strict, rand_perm, snapshot, snap_diff

ID = "C20"
COVER_FILES = ["properties/distances.py"]
RULE = ("exhaustive: all ordered pairs of permutations of {1..n} for n <= 5 (quick: n <= 4) for the three distances "
        "(each case evaluates d(p,q) and d(q,p)), all triples of permutations for n <= 4 (quick: n <= 3) for the "
        "triangle inequality of kendall_tau_distance, all pairs of rankings of different length over <= 3 "
        "alternatives; random: pairs and triples of permutations of up to 40 arbitrary ids, tuple-of-singleton "
        "form, distance_matrix on random soc profiles with multiplicities. Every returned number is compared with "
        "the extracted model (kt_spec, footrule/sertel numerator and denominator); in addition the clauses the "
        "property names (symmetry, zero iff identical, range [0,1], triangle, matrix shape / symmetry / zero "
        "diagonal) are evaluated directly on the implementation's numbers. Long rankings (283..400 alternatives) "
        "differing by one adjacent swap. History cases (c20.hist) on ONE instance object inside one worker call: "
        "appends through every entry point (numpy.int64 ids / counts included), distance_matrix and the three "
        "distances asked repeatedly and in several orders, maintenance calls (recompute_cardinality_param, "
        "flatten_strict, full_profile, vote_map, infer_type) in between, storage order of instance.orders / "
        "multiplicity / alternatives_name decoupled, a second instance over the same ids and calls on rankings of "
        "other lengths (refusals included) interleaved; every answer is judged against the model of the profile as "
        "it should be at that point, the semantic content of the instance (common.snapshot) must be unchanged by "
        "every query, mutable arguments must be left unchanged, and every returned object (matrix, full profile, "
        "vote map, flattened list) is overwritten in place before the next question. "
        "distance_matrix is also handed the same distance as a functools.partial, a lambda and a callable object (user callables sharing one __name__), one after the other on the same profile. "
        "non-trivial = the rankings differ (for distance_matrix: >= 2 distinct orders and some multiplicity > 1)")
EXHAUSTIVE = {"quick": "all pairs of permutations n<=4; all triples n<=3; all different-length pairs over <=3 alternatives",
              "thorough": "all pairs of permutations n<=5; all triples n<=4; all different-length pairs over <=4 alternatives"}
THEOREMS_FOR_OP = {"c20.kt": "kt_spec, kt_zero_iff, kt_sym, kt_length_mismatch",
                   "c20.footrule": "footrule_num_spec, footrule_sym, footrule_zero_iff, footrule_range, footrule_length_mismatch",
                   "c20.sertel": "sertel_sym, sertel_zero_iff, sertel_range, sertel_length_mismatch",
                   "c20.tri": "kt_triangle", "c20.dm": "dm_spec, dm_instance, expand_profile_count",
                   "c20.hist": "dm_spec, dm_instance, expand_profile_count, kt_spec, footrule_num_spec, sertel_range"}
TRUSTED = ["modelled: preflibtools/properties/distances.py (all four functions) and OrdinalInstance.full_profile; "
           "the final floating-point division of spearman_footrule_distance / sertel_distance is compared as "
           "float(impl) == num/den with one IEEE division (numpy float64 semantics trusted)"]
ASSUMPTIONS = ["rankings are sequences (tuples or lists) of hashable alternatives compared by ==; ids are non-negative "
               "integers (int or numpy.int64)"]
TIMEOUT_S = 30.0


PAIR_OPS = ("c20.kt", "c20.footrule", "c20.sertel")


def generate(tier, seed):
    rng = random.Random(1000003 * seed + 20)
    nmax = 4 if tier == "quick" else 5
    out = []
    for n in range(2, nmax + 1):
        perms = list(itertools.permutations(range(1, n + 1)))
        for p in perms:
            for q in perms:
                for op in PAIR_OPS:
                    out.append(case(op, [p, q], n=n, exh=1))
    # all triples (triangle inequality on the implementation's own numbers)
    tmax = 3 if tier == "quick" else 4
    for n in range(2, tmax + 1):
        perms = list(itertools.permutations(range(1, n + 1)))
        for a in perms:
            for b in perms:
                for c in perms:
                    out.append(case("c20.tri", [a, b, c], n=n, exh=1))
    # different lengths (must be refused)
    lmax = 3 if tier == "quick" else 4
    pool = []
    for n in range(0, lmax + 1):
        pool.extend(itertools.permutations(range(1, n + 1)))
    for p in pool:
        for q in pool:
            if len(p) != len(q):
                for op in PAIR_OPS:
                    out.append(case(op, [p, q], mismatch=1))
    # random large
    nrand = 300 if tier == "quick" else 4000
    for i in range(nrand):
        n = rng.randint(2, 40)
        ids = rng.sample(range(0, 10 ** rng.choice([1, 2, 6, 18]) + 50), n)
        p = rand_perm(rng, ids)
        q = _perturb(rng, p)
        for op in PAIR_OPS:
            out.append(case(op, [p, q], n=n, tup=i % 3))
    # random different lengths with arbitrary ids (one ranking is a prefix / an extension of the other)
    for i in range(30 if tier == "quick" else 300):
        n = rng.randint(1, 12)
        ids = rng.sample(range(0, 1000), n + rng.randint(1, 3))
        p = rand_perm(rng, ids[:n])
        q = rand_perm(rng, ids)
        if i % 2:
            p, q = q, p
        for op in PAIR_OPS:
            out.append(case(op, [p, q], mismatch=1, tup=(i // 2) % 2))
    # random triples
    ntri = 300 if tier == "quick" else 4000
    for i in range(ntri):
        n = rng.randint(3, 5) if i % 3 else rng.randint(6, 25)
        ids = rng.sample(range(0, 200), n)
        a = rand_perm(rng, ids)
        b = _perturb(rng, a)
        c = _perturb(rng, b)
        out.append(case("c20.tri", [a, b, c], n=n, tup=i % 2))
    # distance_matrix
    ndm = 60 if tier == "quick" else 600
    for i in range(ndm):
        m = rng.randint(2, 6)
        alts = rng.sample(range(1, 30), m)
        k = rng.randint(1, 5)
        orders = []
        for _ in range(k):
            o = rand_perm(rng, alts)
            if o not in orders:
                orders.append(o)
        prof = [[o, rng.randint(1, 3) if i % 4 != 1 else rng.randint(3, 7)] for o in orders]
        # hist=1: the instance is built through the public append API in two phases with a
        # distance_matrix / full_profile call in between (history-dependent state must not leak)
        out.append(case("c20.dm", [i % 3, prof], dm=1, hist=i % 2, hseed=rng.randrange(10 ** 6)))
    # long rankings that differ by ONE swap of two neighbours (smallest non-zero footrule / sertel values)
    for i, n in enumerate([283, 284, 331, 400] if tier == "quick" else [283, 284, 285, 300, 331, 400, 512, 700]):
        ids = rng.sample(range(0, 5 * n), n)
        p = rand_perm(rng, ids)
        for pos in (rng.randrange(n - 1), n - 2, 0):
            q = list(p)
            q[pos], q[pos + 1] = q[pos + 1], q[pos]
            out.append(case("c20.footrule", [p, q], n=n, long=1, tup=i % 2))
            out.append(case("c20.sertel", [p, q], n=n, long=1, tup=i % 2))
        out.append(case("c20.kt", [p, q], n=n, long=1, tup=i % 2))
    # histories on one instance object
    for i in range(90 if tier == "quick" else 900):
        out.append(case("c20.hist", _gen_script(rng, i), hist=1))
    return out


# ---------------------------------------------------------------------------------------------------
# history cases.  A script is a list of steps (nested ints only, so that the case is its own replay):
#   [0, method, rankings]      append: 0 append_order (one call per ranking), 1 append_order_list, 2 append_vote_map
#                              (counted), 3 append_order_array, 4 append_vote_map with numpy.int64 counts,
#                              5 append_order with numpy.int64 ids
#   [1, which, poison, wrap]   M = distance_matrix(inst, distance[which])  -> judged;  poison: M.fill(-3) afterwards;
#                              wrap (optional): the distance is handed over as 0 the library function, 1 a
#                              functools.partial of it, 2 a lambda calling it, 3 an instance of a callable class — user
#                              callables that share one __name__ ("partial", "<lambda>") or have none
#   [2, which, i, j, form, norm]  distance[which](row i, row j) of the distinct orders -> judged; form 0 tuples of
#                              1-tuples, 1 python lists (must be unchanged afterwards), 2 tuples of numpy.int64;
#                              norm: kendall_tau_distance(normalise=True) is asked first
#   [3, kind]                  0 recompute_cardinality_param, 1 flatten_strict, 2 full_profile, 3 vote_map, 4 infer_type;
#                              the returned object is overwritten in place
#   [4, kind]                  storage order: 0 reverse instance.orders in place, 1 rebuild multiplicity with reversed
#                              key order, 2 pop and re-insert the first key of multiplicity, 3 reverse alternatives_name
#   [5, which, profile, via]   a SECOND instance over the same ids: distance_matrix of it -> judged; it stays alive
#   [6, which, o1, o2, form]   a call on two free rankings (other length, different lengths = refusal) -> judged
# ---------------------------------------------------------------------------------------------------
def _gen_script(rng, i):
    m = rng.randint(2, 6)
    alts = rng.sample(range(1, 40), m)
    pool = []
    for _ in range(rng.randint(2, 5)):
        o = rand_perm(rng, alts)
        if o not in pool:
            pool.append(o)
    script = [[0, rng.randrange(6), [list(o) for o in pool[: rng.randint(1, len(pool))]]]]   # all multiplicities 1
    if i % 2 == 0:
        script.append([3, 2])                                  # full_profile() while every order has one voter
    script.append([1, rng.randrange(3), i % 3 == 0])
    for _ in range(rng.randint(5, 11)):
        x = rng.random()
        if x < 0.30:
            k = rng.randint(1, 4)
            script.append([0, rng.randrange(6), [list(rng.choice(pool)) for _ in range(k)]])
        elif x < 0.50:
            script.append([1, rng.randrange(3), rng.random() < 0.5, rng.choice([0, 0, 1, 2, 3])])
        elif x < 0.68:
            script.append([2, rng.randrange(3), rng.randrange(8), rng.randrange(8), rng.randrange(3), rng.random() < 0.4])
        elif x < 0.80:
            script.append([3, rng.randrange(5)])
        elif x < 0.88:
            script.append([4, rng.randrange(4)])
        elif x < 0.94:
            prof2 = []
            for _ in range(rng.randint(1, 3)):
                o = rand_perm(rng, alts)
                if o not in [q for q, _ in prof2]:
                    prof2.append([o, rng.randint(1, 3)])
            script.append([5, rng.randrange(3), prof2, rng.randrange(2)])
        else:
            n2 = rng.randint(2, 8)
            ids2 = rng.sample(range(1, 40), n2)
            o1 = rand_perm(rng, ids2)
            o2 = rand_perm(rng, ids2)
            if rng.random() < 0.5:
                o2 = o2[: rng.randint(0, n2 - 1)]           # different lengths: must be refused
                if rng.random() < 0.5:
                    o1, o2 = o2, o1
            script.append([6, rng.randrange(3), o1, o2, rng.randrange(2)])
    ws = [0, 1, 2]
    rng.shuffle(ws)
    script += [[1, ws[0], True], [1, ws[1], False], [1, ws[0], False], [1, ws[2], True]]
    w = rng.choice([1, 2, 3])
    script += [[1, ws[0], False, w], [1, ws[1], True, w], [1, ws[2], False, w], [1, ws[1], False, 0]]
    return script


class _State:
    """the profile as it should be after the steps so far (distinct orders in the order of instance.orders)"""

    def __init__(self):
        self.orders, self.mult = [], {}

    def append(self, rankings):
        for r in rankings:
            r = tuple(r)
            if r in self.mult:
                self.mult[r] += 1
            else:
                self.orders.append(r)
                self.mult[r] = 1

    def step(self, st):
        if st[0] == 0:
            self.append(st[2])
        elif st[0] == 4 and st[1] == 0:
            self.orders.reverse()

    def profile(self):
        return [[list(o), self.mult[o]] for o in self.orders]

    def request(self, st):
        """the model question a step asks, or None"""
        if st[0] == 1:
            return ("c20.dm", [st[1], self.profile()])
        if st[0] == 2 and self.orders:
            o1, o2 = self.orders[st[2] % len(self.orders)], self.orders[st[3] % len(self.orders)]
            return (PAIR_OPS[st[1]], [list(o1), list(o2)])
        if st[0] == 5:
            return ("c20.dm", [st[1], st[2]])
        if st[0] == 6:
            return (PAIR_OPS[st[1]], [st[2], st[3]])
        return None


def _plan(script):
    st, reqs = _State(), []
    for s in script:
        st.step(s)
        q = st.request(s)
        if q is not None:
            reqs.append(q)
    return reqs


def _mat_obs(mat):
    import numpy as np
    if not isinstance(mat, np.ndarray) or mat.ndim != 2:
        return {"bad": "distance_matrix did not return a 2-dimensional numpy array: %r" % (type(mat),)}
    return {"shape": list(mat.shape), "m": [[float(x) for x in row] for row in mat]}


def _answer(op, fn, a1, a2):
    """one guarded call -> [0, int] | {"float": x} | [1, code] | {"bad": text}"""
    r = guarded(fn, a1, a2)
    if r[0] == 0:
        v = r[1]
        if op == "c20.kt":
            if isinstance(v, bool) or not (isinstance(v, int) or hasattr(v, "__index__")):
                return {"bad": "kendall_tau_distance returned non-integer %r" % (v,)}
            return [0, int(v)]
        return {"float": float(v)}
    return r


def _args(o1, o2, form):
    import numpy as np
    if form == 1:
        return list(o1), list(o2)
    if form == 2:
        return tuple(np.int64(a) for a in o1), tuple(np.int64(a) for a in o2)
    return tuple((a,) for a in o1), tuple((a,) for a in o2)


def _hist_impl(c):
    state = {"k": -1, "problems": []}
    try:
        return _hist_run(c, state)
    except Exception as e:      # an exception in the middle of a history: say where, and what was already wrong
        msg = "history step %d %r raised %s: %s" % (state["k"], c["payload"][state["k"]], type(e).__name__, str(e)[:200])
        if state["problems"]:
            msg += " | before that: " + state["problems"][0]
        return {"crash": msg}


class _CallableDistance:
    def __init__(self, fn):
        self.fn = fn

    def __call__(self, o1, o2):
        return self.fn(o1, o2)


def _wrapped(fn, wrap):
    """the same distance as a user-supplied callable of another kind (same values expected)"""
    import functools
    if wrap == 1:
        return functools.partial(fn)
    if wrap == 2:
        return lambda o1, o2: fn(o1, o2)
    if wrap == 3:
        return _CallableDistance(fn)
    return fn


def _hist_run(c, state):
    import numpy as np
    from preflibtools.instances import OrdinalInstance
    from preflibtools.properties import distances as D
    fns = [D.kendall_tau_distance, D.spearman_footrule_distance, D.sertel_distance]
    inst = OrdinalInstance()
    keep = []                       # second instances and returned objects stay alive until the end
    obs, problems = [], state["problems"]
    st = _State()
    junk = ((10 ** 9,), (10 ** 9 + 1,))

    def pure(k, what, before):
        d = snap_diff(before, snapshot(inst))
        if d:
            problems.append("step %d: %s changed the instance it was asked about: %s" % (k, what, d))

    for k, s in enumerate(c["payload"]):
        state["k"] = k
        st.step(s)
        kind = s[0]
        if kind == 0:
            meth, rankings = s[1], s[2]
            if meth == 0:
                for r in rankings:
                    inst.append_order(tuple(r))
            elif meth == 5:
                for r in rankings:
                    inst.append_order(tuple(np.int64(a) for a in r))
            elif meth == 1:
                inst.append_order_list([tuple((a,) for a in r) for r in rankings])
            elif meth == 3:
                inst.append_order_array(np.array(rankings))
            else:
                vm = {}
                for r in rankings:
                    key = tuple((a,) for a in r)
                    vm[key] = vm.get(key, 0) + 1
                if meth == 4:
                    vm = {key: np.int64(v) for key, v in vm.items()}
                inst.append_vote_map(vm)
        elif kind == 1:
            before = snapshot(inst)
            mat = D.distance_matrix(inst, _wrapped(fns[s[1]], s[3] if len(s) > 3 else 0))
            obs.append(_mat_obs(mat))
            pure(k, "distance_matrix", before)
            if s[2] and isinstance(mat, np.ndarray):
                mat.fill(-3.0)
                pure(k, "overwriting the matrix returned by distance_matrix", before)
            keep.append(mat)
        elif kind == 2:
            if not st.orders:
                continue
            o1, o2 = st.orders[s[2] % len(st.orders)], st.orders[s[3] % len(st.orders)]
            a1, a2 = _args(o1, o2, s[4])
            c1, c2 = list(a1), list(a2)
            before = snapshot(inst)
            op = PAIR_OPS[s[1]]
            if op == "c20.kt" and s[5] and len(o1) >= 2:
                nv = fns[0](a1, a2, normalise=True)
                fns[0](a2, a1, normalise=True)
                plain = fns[0](a1, a2)
                npairs = len(o1) * (len(o1) - 1) // 2
                if float(nv) != plain / npairs:
                    problems.append("step %d: kendall_tau_distance(normalise=True) = %r but count %r / %d pairs"
                                    % (k, nv, plain, npairs))
            obs.append(_answer(op, fns[s[1]], a1, a2))
            if list(a1) != c1 or list(a2) != c2 or len(a1) != len(c1) or len(a2) != len(c2):
                problems.append("step %d: %s modified the rankings it was given: %r, %r -> %r, %r"
                                % (k, op, c1, c2, a1, a2))
            pure(k, op, before)
        elif kind == 3:
            before = snapshot(inst)
            if s[1] == 0:
                inst.recompute_cardinality_param()
                what = "recompute_cardinality_param"
            elif s[1] == 1:
                res = inst.flatten_strict()
                what = "flatten_strict (result cleared)"
                keep.append(res)
                if isinstance(res, list):
                    res.clear()
            elif s[1] == 2:
                res = inst.full_profile()
                what = "full_profile (result overwritten)"
                keep.append(res)
                if isinstance(res, list):
                    res.append(junk)
                    res.reverse()
                    if len(res) > 1:
                        del res[1]
            elif s[1] == 3:
                res = inst.vote_map()
                what = "vote_map (result overwritten)"
                keep.append(res)
                if isinstance(res, dict):
                    for key in list(res):
                        res[key] = 0
                    res[junk] = 7
            else:
                inst.infer_type()
                what = "infer_type"
            pure(k, what, before)
        elif kind == 4:
            if s[1] == 0:
                inst.orders.reverse()
            elif s[1] == 1:
                inst.multiplicity = dict(reversed(list(inst.multiplicity.items())))
            elif s[1] == 2:
                if inst.multiplicity:
                    key = next(iter(inst.multiplicity))
                    inst.multiplicity[key] = inst.multiplicity.pop(key)
            else:
                items = list(inst.alternatives_name.items())
                inst.alternatives_name.clear()
                inst.alternatives_name.update(reversed(items))
        elif kind == 5:
            which, prof2, via = s[1], s[2], s[3]
            if via:
                b = OrdinalInstance()
                b.append_vote_map({tuple((a,) for a in o): mu for o, mu in prof2})
            else:
                b = ordinal_instance([(strict(o), mu) for o, mu in prof2], data_type="soc")
            keep.append(b)
            before, before_b = snapshot(inst), snapshot(b)
            obs.append(_mat_obs(D.distance_matrix(b, fns[which])))
            pure(k, "distance_matrix of ANOTHER instance", before)
            d = snap_diff(before_b, snapshot(b))
            if d:
                problems.append("step %d: distance_matrix changed the instance it was asked about: %s" % (k, d))
        elif kind == 6:
            a1, a2 = _args(s[2], s[3], s[4])
            c1, c2 = list(a1), list(a2)
            before = snapshot(inst)
            obs.append(_answer(PAIR_OPS[s[1]], fns[s[1]], a1, a2))
            if list(a1) != c1 or list(a2) != c2:
                problems.append("step %d: %s modified the rankings it was given" % (k, PAIR_OPS[s[1]]))
            pure(k, PAIR_OPS[s[1]] + " on free rankings", before)
    return {"obs": obs, "problems": problems}


def _perturb(rng, p):
    """near (a few swaps, possibly none) or far (shuffle)"""
    q = list(p)
    n = len(q)
    if rng.random() < 0.5:
        for _ in range(rng.randint(0, 3)):
            a, b = rng.randrange(n), rng.randrange(n)
            q[a], q[b] = q[b], q[a]
    else:
        rng.shuffle(q)
    return q


def _call(op, o1, o2, tup):
    """one call of the real function -> [0, int] | {"float": x} | [1, code] | {"crash": ...}"""
    from preflibtools.properties import distances as D
    if tup == 2:                # ids as numpy.int64 (e.g. rows of a sampled array)
        import numpy as np
        o1, o2 = tuple(np.int64(a) for a in o1), tuple(np.int64(a) for a in o2)
    elif tup:
        o1, o2 = tuple((a,) for a in o1), tuple((a,) for a in o2)
    else:
        o1, o2 = tuple(o1), tuple(o2)
    fn = {"c20.kt": D.kendall_tau_distance, "c20.footrule": D.spearman_footrule_distance,
          "c20.sertel": D.sertel_distance}[op]
    if op == "c20.kt" and len(o1) == len(o2) and len(o1) >= 2 and (hash((o1, o2)) % 3 == 0):
        # cross-call history: the normalised variant of the same function is evaluated first (both argument orders);
        # it must equal count / number of pairs and must not influence the plain call that follows
        try:
            nv = fn(o1, o2, normalise=True)
            fn(o2, o1, normalise=True)
            plain = fn(o1, o2)
            npairs = len(o1) * (len(o1) - 1) // 2
            if float(nv) != plain / npairs:
                return {"crash": "kendall_tau_distance(normalise=True) = %r but count %r / %d pairs" % (nv, plain, npairs)}
        except ValueError:
            pass
    r = guarded(fn, o1, o2)
    if r[0] == 0:
        v = r[1]
        if op == "c20.kt":
            if isinstance(v, bool) or not (isinstance(v, int) or hasattr(v, "__index__")):
                return {"crash": "kendall_tau_distance returned non-integer %r" % (v,)}
            return [0, int(v)]
        return {"float": float(v)}
    return r


def impl(c):
    from preflibtools.properties import distances as D
    op, pl = c["op"], c["payload"]
    tup = c["tags"].get("tup")
    if op == "c20.hist":
        return _hist_impl(c)
    if op == "c20.dm":
        import numpy as np
        which, prof = pl
        fn = [D.kendall_tau_distance, D.spearman_footrule_distance, D.sertel_distance][which]
        if c["tags"].get("hist"):
            from preflibtools.instances import OrdinalInstance
            hr = random.Random(c["tags"].get("hseed", 0))
            inst = OrdinalInstance()
            inst.append_order_list([tuple((a,) for a in o) for o, _ in prof])   # fixes the order of instance.orders
            D.distance_matrix(inst, fn)
            inst.full_profile()
            rest = [o for o, mu in prof for _ in range(mu - 1)]
            hr.shuffle(rest)
            # a batch through append_order_array that repeats rankings already present (several copies in one batch)
            import numpy as np
            k_arr = len(rest) // 3
            if k_arr >= 2:
                batch, rest = rest[:k_arr], rest[k_arr:]
                inst.append_order_array(np.array(batch))
                D.distance_matrix(inst, fn)
            for j, o in enumerate(rest):
                if j % 3 == 0:
                    inst.append_order(tuple(o))
                elif j % 3 == 1:
                    inst.append_vote_map({tuple((a,) for a in o): 1})
                else:
                    inst.append_order_list([tuple((a,) for a in o)])
                if j % 2 == 0:
                    D.distance_matrix(inst, fn)
        else:
            inst = ordinal_instance([(strict(o), m) for o, m in prof], data_type="soc")
        mat = D.distance_matrix(inst, fn)
        if not isinstance(mat, np.ndarray) or mat.ndim != 2:
            return {"crash": "distance_matrix did not return a 2-dimensional numpy array: %r" % (type(mat),)}
        return {"shape": list(mat.shape), "m": [[float(x) for x in row] for row in mat]}
    if op == "c20.tri":
        a, b, cc = pl
        rs = [_call("c20.kt", a, b, tup), _call("c20.kt", b, cc, tup), _call("c20.kt", a, cc, tup)]
    else:
        o1, o2 = pl
        rs = [_call(op, o1, o2, tup), _call(op, o2, o1, tup)]
    for r in rs:
        if isinstance(r, dict) and "crash" in r:
            return r
    return {"rs": rs}


def oracle_requests(c, r):
    op, pl = c["op"], c["payload"]
    if op == "c20.hist":
        return _plan(pl)
    if op == "c20.dm":
        return [(op, pl)]
    if op == "c20.tri":
        a, b, cc = pl
        return [("c20.kt", [a, b]), ("c20.kt", [b, cc]), ("c20.kt", [a, cc])]
    return [(op, pl), (op, [pl[1], pl[0]])]


def _same_float(x, num, den):
    if den == 0:
        return False
    return x == num / den


def _cmp(op, r, m):
    """one implementation answer against one model answer"""
    if isinstance(r, dict) and "float" in r:
        if m[0] != 0:
            return "implementation returned %r where the model refuses (%r)" % (r["float"], m)
        num, den = m[1]
        if not _same_float(r["float"], num, den):
            return "impl %r != %d/%d" % (r["float"], num, den)
        return None
    if r != m:
        return "impl %r, model %r" % (r, m)
    return None


def _val(r):
    """numeric value of an implementation answer, None for a refusal"""
    if isinstance(r, dict):
        return r["float"]
    return r[1] if r[0] == 0 else None


def _judge_dm(which, prof, r, m):
    if "bad" in r:
        return r["bad"]
    nv = sum(mu for _, mu in prof)
    if r["shape"] != [nv, nv] or len(m) != nv:
        return "distance_matrix shape %r, expected %dx%d" % (r["shape"], nv, nv)
    for i in range(nv):
        for j in range(nv):
            e = m[i][j]
            if e[0] != 0:
                return "model error in entry"
            x = r["m"][i][j]
            if which == 0:
                good = (x == e[1])
            else:
                good = _same_float(x, e[1][0], e[1][1])
            if not good:
                return "entry (%d,%d): impl %r, model %r" % (i, j, x, e[1])
    # the clauses of the property, directly on the returned matrix
    for i in range(nv):
        if r["m"][i][i] != 0.0:
            return "distance_matrix diagonal entry (%d,%d) = %r" % (i, i, r["m"][i][i])
        for j in range(i):
            if r["m"][i][j] != r["m"][j][i]:
                return "distance_matrix not symmetric at (%d,%d)" % (i, j)
    return None


def _judge_hist(c, r, mres):
    reqs = _plan(c["payload"])
    if len(r["obs"]) != len(reqs) or len(mres) != len(reqs):
        return {"kind": "broken-correspondence", "reason": "history: %d answers for %d questions" % (len(r["obs"]), len(reqs))}
    for k, ((op, pl), ob, m) in enumerate(zip(reqs, r["obs"], mres)):
        if op == "c20.dm":
            bad = _judge_dm(pl[0], pl[1], ob, m)
            if bad:
                return "question %d (distance_matrix, distance %d, profile as it should be %r): %s" % (k, pl[0], pl[1], bad)
        else:
            bad = ob["bad"] if isinstance(ob, dict) and "bad" in ob else _cmp(op, ob, m)
            if bad:
                return "question %d (%s %r): %s" % (k, op, pl, bad)
    if r["problems"]:
        return r["problems"][0]
    return None


def judge(c, r, mres):
    op = c["op"]
    if op == "c20.hist":
        return _judge_hist(c, r, mres)
    if op == "c20.dm":
        return _judge_dm(c["payload"][0], c["payload"][1], r, mres[0])
    rs = r["rs"]
    names = ["d(a,b)", "d(b,c)", "d(a,c)"] if op == "c20.tri" else ["d(p,q)", "d(q,p)"]
    for nm, ri, mi in zip(names, rs, mres):
        bad = _cmp("c20.kt" if op == "c20.tri" else op, ri, mi)
        if bad:
            return nm + ": " + bad
    vals = [_val(x) for x in rs]
    if op == "c20.tri":
        if None in vals:
            return "refusal on a triple of rankings of the same set: %r" % (rs,)
        if vals[2] > vals[0] + vals[1]:
            return {"kind": "mismatch", "theorem": "kt_triangle",
                    "reason": "triangle inequality fails: d(a,c)=%r > d(a,b)+d(b,c)=%r+%r" % (vals[2], vals[0], vals[1])}
        return None
    p, q = c["payload"]
    if len(p) != len(q):
        if vals != [None, None] or rs[0] != [1, 3] or rs[1] != [1, 3]:
            return "rankings of different length not refused with ValueError: %r" % (rs,)
        return None
    if sorted(p) == sorted(q) and len(p) >= 2:
        if None in vals:
            return "refusal on rankings of the same set: %r" % (rs,)
        if vals[0] != vals[1]:
            return "not symmetric: d(p,q)=%r, d(q,p)=%r" % (vals[0], vals[1])
        if (vals[0] == 0) != (p == q):
            return "zero-iff-identical fails: d=%r, p==q is %r" % (vals[0], p == q)
        if op != "c20.kt" and not (0.0 <= vals[0] <= 1.0):
            return "value %r outside [0, 1]" % (vals[0],)
    return None


def nontrivial(c, r, m):
    if c["op"] == "c20.hist":
        kinds = [s[0] for s in c["payload"]]
        return kinds.count(1) >= 3 and kinds.count(0) >= 2
    if c["op"] == "c20.dm":
        prof = c["payload"][1]
        return len(prof) >= 2 and any(mu > 1 for _, mu in prof)
    if c["op"] == "c20.tri":
        a, b, cc = c["payload"]
        return a != b and b != cc and a != cc
    return c["payload"][0] != c["payload"][1]


def stats(c, r, m):
    if c["op"] == "c20.hist":
        names = {0: "append", 1: "dm", 2: "pair", 3: "maint", 4: "reorder", 5: "other-instance", 6: "free-pair"}
        return sorted(set("hist has %s" % names[s[0]] for s in c["payload"])) + ["hist questions=%d" % min(len(m), 12)]
    if c["op"] == "c20.dm":
        return ["dm which=%d voters=%d" % (c["payload"][0], sum(mu for _, mu in c["payload"][1]))]
    n = len(c["payload"][0])
    size = "n=%s" % (n if n <= 5 else ">5")
    if c["op"] == "c20.tri":
        ok_all = all(x[0] == 0 for x in m)
        tight = ok_all and m[2][1] == m[0][1] + m[1][1]
        return ["c20.tri %s %s" % (size, "tight" if tight else "strict")]
    res = "refused" if m[0][0] == 1 else ("zero" if (m[0][1] == 0 or (isinstance(m[0][1], list) and m[0][1][0] == 0)) else "positive")
    return ["%s %s %s" % (c["op"], size, res)]


def describe(c):
    return {"op": c["op"], "args": c["payload"],
            "form": {0: "tuples of ids", 1: "tuples of 1-tuples", 2: "tuples of numpy.int64"}.get(c["tags"].get("tup") or 0)}


def shrink(c):
    if c["op"] == "c20.hist":
        sc = c["payload"]
        for i in range(len(sc)):
            yield dict(c, payload=sc[:i] + sc[i + 1:])
        for i, s in enumerate(sc):
            if s[0] == 0 and len(s[2]) > 1:
                for j in range(len(s[2])):
                    yield dict(c, payload=sc[:i] + [[0, s[1], s[2][:j] + s[2][j + 1:]]] + sc[i + 1:])
        return
    if c["op"] == "c20.dm":
        which, prof = c["payload"]
        for i in range(len(prof)):
            yield dict(c, payload=[which, prof[:i] + prof[i + 1:]])
        for i in range(len(prof)):
            if prof[i][1] > 1:
                yield dict(c, payload=[which, prof[:i] + [[prof[i][0], prof[i][1] - 1]] + prof[i + 1:]])
        return
    lists = c["payload"]
    if len(set(len(o) for o in lists)) == 1:
        if len(lists[0]) <= 2:      # the property speaks of at least two alternatives
            return
        for x in lists[0]:
            if all(x in o for o in lists):
                yield dict(c, payload=[[a for a in o if a != x] for o in lists])
    else:
        # different lengths: drop an element from every ranking that has it
        for x in sorted(set(a for o in lists for a in o)):
            cand = [[a for a in o if a != x] for o in lists]
            if len(set(len(o) for o in cand)) > 1:
                yield dict(c, payload=cand)
