(* Proofs/Meta.v — lemmas about Lib/PyStr.v (strip, readlines, splitlines) and Model/Meta.v
   (metadata round trip, alternative-name round trip, fuel of the autocorrect suffix search).
   Shared by the ordinal (C01), categorical (C08) and matching (C09) file proofs. *)
From Coq Require Import List NArith Bool String Lia Arith.
From PrefVerif Require Import Lib.Val Lib.Dec Lib.PyStr Model.Meta.
Import ListNotations.

(* ================================================================================================ *)
(* 1. text equality                                                                                 *)
(* ================================================================================================ *)
Lemma teqb_eq a b : teqb a b = true <-> a = b.
Proof.
  revert b. induction a as [|x a IH]; intros [|y b]; simpl; split; intros H; try easy.
  - apply andb_true_iff in H as [H1 H2]. apply N.eqb_eq in H1. apply IH in H2. now subst.
  - injection H as -> ->. rewrite N.eqb_refl. simpl. now apply IH.
Qed.
Lemma teqb_refl a : teqb a a = true.
Proof. now apply teqb_eq. Qed.
Lemma teqb_neq a b : teqb a b = false <-> a <> b.
Proof.
  split; intros H.
  - intros E. apply teqb_eq in E. congruence.
  - destruct (teqb a b) eqn:E; [|easy]. apply teqb_eq in E. contradiction.
Qed.
Lemma tmem_In x l : tmem x l = true <-> In x l.
Proof.
  unfold tmem. rewrite existsb_exists. split.
  - intros [y [Hy E]]. apply teqb_eq in E. now subst.
  - intros H. exists x. split; [easy|apply teqb_refl].
Qed.

(* ================================================================================================ *)
(* 2. strip                                                                                         *)
(* ================================================================================================ *)
Section Strip.
Variable f : N -> bool.

Lemma lstrip_by_length s : List.length (lstrip_by f s) <= List.length s.
Proof. induction s as [|c r IH]; simpl; [lia|]. destruct (f c); simpl; lia. Qed.

Lemma lstrip_by_suffix s : exists p, s = p ++ lstrip_by f s.
Proof.
  induction s as [|c r [p IH]]; simpl; [now exists []|].
  destruct (f c); [exists (c :: p); simpl; now rewrite <- IH | now exists []].
Qed.

Lemma rstrip_by_length s : List.length (rstrip_by f s) <= List.length s.
Proof. unfold rstrip_by. rewrite rev_length. etransitivity; [apply lstrip_by_length|]. now rewrite rev_length. Qed.

Lemma lstrip_by_cons_false c r : f c = false -> lstrip_by f (c :: r) = c :: r.
Proof. simpl. now intros ->. Qed.

Lemma lstrip_by_cons_true c r : f c = true -> lstrip_by f (c :: r) = lstrip_by f r.
Proof. simpl. now intros ->. Qed.

Lemma lstrip_by_all s t : forallb f s = true -> lstrip_by f (s ++ t) = lstrip_by f t.
Proof.
  induction s as [|c r IH]; simpl; [easy|]. intros H. apply andb_true_iff in H as [H1 H2].
  rewrite H1. now apply IH.
Qed.

Lemma lstrip_by_all_nil s : forallb f s = true -> lstrip_by f s = [].
Proof. intros H. rewrite <- (app_nil_r s). now rewrite lstrip_by_all. Qed.

(* a fixed point of lstrip stays one when text is appended, unless it is empty *)
Lemma lstrip_by_app_fix x y : x <> [] -> lstrip_by f x = x -> lstrip_by f (x ++ y) = x ++ y.
Proof.
  destruct x as [|c r]; [easy|]. intros _. simpl. destruct (f c) eqn:E; [|easy].
  intros H. exfalso. pose proof (lstrip_by_length r) as L. rewrite H in L. simpl in L. lia.
Qed.

Lemma rstrip_by_fix_rev s : rstrip_by f s = s <-> lstrip_by f (rev s) = rev s.
Proof.
  unfold rstrip_by. split; intros H.
  - rewrite <- H at 2. now rewrite rev_involutive.
  - rewrite H. apply rev_involutive.
Qed.

Lemma rstrip_by_all s t : forallb f t = true -> rstrip_by f (s ++ t) = rstrip_by f s.
Proof.
  intros H. unfold rstrip_by. rewrite rev_app_distr. rewrite lstrip_by_all; [easy|].
  rewrite forallb_forall in *. intros x Hx. apply H. now apply in_rev.
Qed.

Lemma rstrip_by_app_fix a b : b <> [] -> rstrip_by f b = b -> rstrip_by f (a ++ b) = a ++ b.
Proof.
  intros Hne H. apply rstrip_by_fix_rev. rewrite rev_app_distr. apply lstrip_by_app_fix.
  - intros E. apply Hne. rewrite <- (rev_involutive b). now rewrite E.
  - now apply rstrip_by_fix_rev.
Qed.

Lemma rstrip_by_nil : rstrip_by f [] = [].
Proof. reflexivity. Qed.

(* strip s = s  splits into the two one-sided facts *)
Lemma strip_by_fix s : strip_by f s = s -> lstrip_by f s = s /\ rstrip_by f s = s.
Proof.
  unfold strip_by. intros H.
  assert (L : List.length (lstrip_by f s) = List.length s).
  { pose proof (rstrip_by_length (lstrip_by f s)) as A. pose proof (lstrip_by_length s) as B.
    rewrite H in A. lia. }
  destruct (lstrip_by_suffix s) as [p Hp].
  assert (p = []) as ->.
  { apply length_zero_iff_nil. apply (f_equal (@List.length N)) in Hp. rewrite app_length in Hp. lia. }
  simpl in Hp. rewrite <- Hp in H. now rewrite <- Hp.
Qed.

Lemma strip_by_of_fix s : lstrip_by f s = s -> rstrip_by f s = s -> strip_by f s = s.
Proof. unfold strip_by. now intros -> ->. Qed.
End Strip.

(* a line made of a key K (no outer whitespace, non-empty), one space, a value without outer whitespace,
   and trailing whitespace w (the newline): after strip() the value is still separated by the space, or the
   line ends with K when the value is empty *)
Lemma strip_key_value K v w :
  K <> [] -> strip K = K -> strip v = v -> forallb is_space w = true ->
  strip (K ++ 32%N :: v ++ w) = K ++ (match v with [] => [] | _ => 32%N :: v end).
Proof.
  intros HK SK Sv Hw. apply strip_by_fix in SK as [LK RK]. apply strip_by_fix in Sv as [Lv Rv].
  unfold strip, strip_by. rewrite (lstrip_by_app_fix _ K _ HK LK).
  replace (K ++ 32%N :: v ++ w) with ((K ++ 32%N :: v) ++ w) by (rewrite <- app_assoc; reflexivity).
  rewrite rstrip_by_all by exact Hw.
  destruct v as [|c v'].
  - replace (K ++ [32%N]) with (K ++ [32%N]) by reflexivity.
    rewrite rstrip_by_all by reflexivity. rewrite RK. now rewrite app_nil_r.
  - replace (K ++ 32%N :: c :: v') with ((K ++ [32%N]) ++ c :: v') by (rewrite <- app_assoc; reflexivity).
    rewrite rstrip_by_app_fix; [now rewrite <- app_assoc|easy|exact Rv].
Qed.

(* " value" or "" -> value *)
Lemma strip_sp_value v : strip v = v -> strip (match v with [] => [] | _ => 32%N :: v end) = v.
Proof.
  intros Sv. destruct v as [|c v']; [reflexivity|].
  apply strip_by_fix in Sv as [Lv Rv]. unfold strip, strip_by.
  rewrite lstrip_by_cons_true by reflexivity. rewrite Lv. exact Rv.
Qed.

Lemma strip_nl_r s w : forallb is_space w = true -> strip (s ++ w) = strip s.
Proof.
  intros Hw. unfold strip, strip_by.
  destruct (forallb is_space s) eqn:A.
  - rewrite lstrip_by_all by exact A.
    rewrite (lstrip_by_all_nil _ s A), (lstrip_by_all_nil _ w Hw). reflexivity.
  - (* s contains a non-space character: lstrip (s ++ w) = lstrip s ++ w *)
    assert (G : forall s, forallb is_space s = false -> lstrip_by is_space (s ++ w) = lstrip_by is_space s ++ w).
    { clear. induction s as [|c r IH]; simpl; [discriminate|]. destruct (is_space c); simpl; [exact IH|reflexivity]. }
    rewrite G by exact A. now apply rstrip_by_all.
Qed.

(* ================================================================================================ *)
(* 3. lines                                                                                         *)
(* ================================================================================================ *)
Definition unlines (ls : list text) : text := flat_map (fun l => l ++ nl) ls.
Definition no_nlcr (l : text) : bool := forallb (fun c => negb (N.eqb c 10) && negb (N.eqb c 13)) l.
Definition no_break (l : text) : bool := forallb (fun c => negb (is_linebreak c)) l.

Lemma no_break_no_nlcr l : no_break l = true -> no_nlcr l = true.
Proof.
  unfold no_break, no_nlcr. rewrite !forallb_forall. intros H c Hc. specialize (H c Hc).
  destruct (N.eqb_spec c 10) as [->|]; [discriminate|]. destruct (N.eqb_spec c 13) as [->|]; [discriminate|].
  reflexivity.
Qed.

Lemma readlines_aux_line l : forall cur rest, no_nlcr l = true ->
  readlines_aux cur (l ++ 10%N :: rest) = (rev cur ++ l ++ [10%N]) :: readlines_aux [] rest.
Proof.
  induction l as [|c r IH]; intros cur rest H.
  - simpl. reflexivity.
  - simpl in H. apply andb_true_iff in H as [Hc Hr]. apply andb_true_iff in Hc as [H10 H13].
    simpl. apply negb_true_iff in H10. apply negb_true_iff in H13. rewrite H10, H13.
    rewrite IH by exact Hr. simpl. now rewrite <- app_assoc.
Qed.

Theorem readlines_unlines ls : forallb no_nlcr ls = true -> readlines (unlines ls) = map (fun l => l ++ nl) ls.
Proof.
  unfold readlines. induction ls as [|l r IH]; intros H; [reflexivity|].
  simpl in H. apply andb_true_iff in H as [Hl Hr]. simpl. unfold nl at 1. rewrite <- app_assoc. simpl.
  rewrite readlines_aux_line by exact Hl. simpl. now rewrite IH.
Qed.

Lemma splitlines_aux_line l : forall cur rest, no_break l = true ->
  splitlines_aux cur (l ++ 10%N :: rest) = (rev cur ++ l) :: splitlines_aux [] rest.
Proof.
  induction l as [|c r IH]; intros cur rest H.
  - simpl. now rewrite app_nil_r.
  - simpl in H. apply andb_true_iff in H as [Hc Hr]. apply negb_true_iff in Hc.
    simpl. rewrite Hc. rewrite IH by exact Hr. simpl. now rewrite <- app_assoc.
Qed.

Theorem splitlines_unlines ls : forallb no_break ls = true -> splitlines (unlines ls) = ls.
Proof.
  unfold splitlines. induction ls as [|l r IH]; intros H; [reflexivity|].
  simpl in H. apply andb_true_iff in H as [Hl Hr]. simpl. unfold nl at 1. rewrite <- app_assoc. simpl.
  rewrite splitlines_aux_line by exact Hl. simpl. now rewrite IH.
Qed.

(* ================================================================================================ *)
(* 4. numbers and keys inside lines                                                                 *)
(* ================================================================================================ *)
Lemma strip_by_none f s : forallb (fun c => negb (f c)) s = true -> strip_by f s = s.
Proof.
  intros H. apply strip_by_of_fix.
  - destruct s as [|c r]; [reflexivity|]. simpl in H. apply andb_true_iff in H as [H _].
    apply negb_true_iff in H. now apply lstrip_by_cons_false.
  - apply rstrip_by_fix_rev. assert (H' : forallb (fun c => negb (f c)) (rev s) = true).
    { rewrite forallb_forall in *. intros x Hx. apply H. now apply in_rev. }
    destruct (rev s) as [|c r]; [reflexivity|]. simpl in H'. apply andb_true_iff in H' as [H' _].
    apply negb_true_iff in H'. now apply lstrip_by_cons_false.
Qed.

Lemma digit_not_space c : is_digit c = true -> is_space c = false.
Proof.
  unfold is_digit, is_space. intros H. apply andb_true_iff in H as [A B].
  apply N.leb_le in A. apply N.leb_le in B.
  repeat match goal with
  | |- context [(?a <=? c)%N] => destruct (N.leb_spec a c); try lia
  | |- context [(c <=? ?a)%N] => destruct (N.leb_spec c a); try lia
  | |- context [(c =? ?a)%N] => destruct (N.eqb_spec c a); try lia
  end; reflexivity.
Qed.

Lemma strip_digits s : forallb is_digit s = true -> strip s = s.
Proof.
  intros H. apply strip_by_none. rewrite forallb_forall in *. intros c Hc.
  apply negb_true_iff. apply digit_not_space. now apply H.
Qed.

Lemma strip_show_N n : strip (show_N n) = show_N n.
Proof. apply strip_digits, show_N_digits. Qed.

Lemma py_int_show_N n : py_int (show_N n) = Ok n.
Proof. unfold py_int. now rewrite strip_show_N, read_show_N. Qed.

Lemma py_int_sp_show_N n : py_int (32%N :: show_N n) = Ok n.
Proof.
  unfold py_int. replace (strip (32%N :: show_N n)) with (show_N n); [now rewrite read_show_N|].
  unfold strip, strip_by. rewrite lstrip_by_cons_true by reflexivity.
  pose proof (strip_show_N n) as H. apply strip_by_fix in H as [L R]. now rewrite L, R.
Qed.

Lemma span_digits_app d t :
  forallb is_digit d = true -> (match t with [] => true | c :: _ => negb (is_digit c) end) = true ->
  span_digits (d ++ t) = (d, t).
Proof.
  intros Hd Ht. induction d as [|c r IH]; simpl.
  - destruct t as [|c t']; [reflexivity|]. simpl. apply negb_true_iff in Ht. now rewrite Ht.
  - simpl in Hd. apply andb_true_iff in Hd as [Hc Hr]. rewrite Hc. now rewrite (IH Hr).
Qed.

Lemma upto_nl_id s : forallb (fun c => negb (N.eqb c 10)) s = true -> upto_nl s = s.
Proof.
  induction s as [|c r IH]; simpl; [reflexivity|]. intros H. apply andb_true_iff in H as [Hc Hr].
  apply negb_true_iff in Hc. rewrite Hc. now rewrite IH.
Qed.

Lemma no_break_no_nl s : no_break s = true -> forallb (fun c => negb (N.eqb c 10)) s = true.
Proof.
  unfold no_break. rewrite !forallb_forall. intros H c Hc. specialize (H c Hc).
  destruct (N.eqb_spec c 10) as [->|]; [discriminate|reflexivity].
Qed.

(* a value after its key: " value", or nothing when the value is empty (strip() removed the space) *)
Definition spv (v : text) : text := match v with [] => [] | _ => 32%N :: v end.

Lemma strip_kv K v : K <> [] -> strip K = K -> strip v = v -> strip (K ++ 32%N :: v) = K ++ spv v.
Proof.
  intros HK SK Sv. pose proof (strip_key_value K v [] HK SK Sv eq_refl) as H.
  now rewrite app_nil_r in H.
Qed.

Lemma strip_spv v : strip v = v -> strip (spv v) = v.
Proof. apply strip_sp_value. Qed.

(* ================================================================================================ *)
(* 5. parse_metadata on each line written by write_metadata / the count lines / the name lines      *)
(* ================================================================================================ *)
Definition wf_value (v : text) : Prop := strip v = v.

Ltac field_line Hv :=
  rewrite strip_kv; [|discriminate|reflexivity|exact Hv];
  let X := fresh "X" in let EX := fresh "EX" in
  remember (spv _) as X eqn:EX; unfold parse_metadata; cbn -[strip]; subst X;
  rewrite (strip_spv _ Hv); reflexivity.

Lemma parse_line_file_name au m v : wf_value v ->
  parse_metadata au m (strip (lit "# FILE NAME:" ++ 32%N :: v)) = Ok (set_file_name m v).
Proof. intros Hv. field_line Hv. Qed.
Lemma parse_line_title au m v : wf_value v ->
  parse_metadata au m (strip (lit "# TITLE:" ++ 32%N :: v)) = Ok (set_title m v).
Proof. intros Hv. field_line Hv. Qed.
Lemma parse_line_description au m v : wf_value v ->
  parse_metadata au m (strip (lit "# DESCRIPTION:" ++ 32%N :: v)) = Ok (set_description m v).
Proof. intros Hv. field_line Hv. Qed.
Lemma parse_line_data_type au m v : wf_value v ->
  parse_metadata au m (strip (lit "# DATA TYPE:" ++ 32%N :: v)) = Ok (set_data_type m v).
Proof. intros Hv. field_line Hv. Qed.
Lemma parse_line_modification_type au m v : wf_value v ->
  parse_metadata au m (strip (lit "# MODIFICATION TYPE:" ++ 32%N :: v)) = Ok (set_modification_type m v).
Proof. intros Hv. field_line Hv. Qed.
Lemma parse_line_relates_to au m v : wf_value v ->
  parse_metadata au m (strip (lit "# RELATES TO:" ++ 32%N :: v)) = Ok (set_relates_to m v).
Proof. intros Hv. field_line Hv. Qed.
Lemma parse_line_related_files au m v : wf_value v ->
  parse_metadata au m (strip (lit "# RELATED FILES:" ++ 32%N :: v)) = Ok (set_related_files m v).
Proof. intros Hv. field_line Hv. Qed.
Lemma parse_line_publication_date au m v : wf_value v ->
  parse_metadata au m (strip (lit "# PUBLICATION DATE:" ++ 32%N :: v)) = Ok (set_publication_date m v).
Proof. intros Hv. field_line Hv. Qed.
Lemma parse_line_modification_date au m v : wf_value v ->
  parse_metadata au m (strip (lit "# MODIFICATION DATE:" ++ 32%N :: v)) = Ok (set_modification_date m v).
Proof. intros Hv. field_line Hv. Qed.

Lemma spv_show_N n : spv (show_N n) = 32%N :: show_N n.
Proof. pose proof (show_N_nonempty n). unfold spv. now destruct (show_N n). Qed.

Lemma parse_line_num_alternatives au m n :
  parse_metadata au m (strip (lit "# NUMBER ALTERNATIVES:" ++ 32%N :: show_N n)) = Ok (set_num_alternatives m n).
Proof.
  rewrite strip_kv; [|discriminate|reflexivity|apply strip_show_N]. rewrite spv_show_N.
  unfold parse_metadata. cbn -[py_int show_N]. now rewrite py_int_sp_show_N.
Qed.
Lemma parse_line_num_voters au m n :
  parse_metadata au m (strip (lit "# NUMBER VOTERS:" ++ 32%N :: show_N n)) = Ok (set_num_voters m n).
Proof.
  rewrite strip_kv; [|discriminate|reflexivity|apply strip_show_N]. rewrite spv_show_N.
  unfold parse_metadata. cbn -[py_int show_N]. now rewrite py_int_sp_show_N.
Qed.
