(* Ops/C16.v — protocol entry points for property C16 (autocorrect).
   Instances are encoded as in Ops/C01.v (ordinal) and Ops/C08.v (categorical).

   c16.ord : (mode file_name data_type text) ->
       ( parse(autocorrect=True)  parse(autocorrect=False)
         expected = result ( ((order mult) ...) num_voters num_unique )      Model/Autocorrect.v: ord_expected
         ((id raw_name) ...)                                                  raw_names of the header
         clean  ids_distinct )
   c16.cat : (mode file_name data_type text) ->
       ( parse(True)  parse(False)  expected  ((id raw alt name) ...)  ((id raw cat name) ...)
         clean  alt_ids_distinct  cat_ids_distinct )
   mode 0 = file.readlines() (parse_file), 1 = str.splitlines() (parse_str), 2 = parse_url's lines *)
From Coq Require Import List ZArith NArith String.
From PrefVerif Require Import Lib.Val Lib.Dec Lib.PyStr Model.Meta Model.Autocorrect.
From PrefVerif Require Model.OrdIO Model.CatIO Ops.C01 Ops.C08.
Import ListNotations.
Open Scope string_scope.

Definition d_text (v : val) : text := dlist dN v.
Definition e_text (t : text) : val := elist eN t.
Definition e_ballot (b : list (list N)) : val := elist (elist eN) b.

Definition cut (mode : nat) (s : text) : list text :=
  match mode with 0 => readlines s | 1 => splitlines s | _ => urllines s end.

Definition e_expected (x : list (list (list N) * N) * N * N) : val :=
  let '(mu, nv, nu) := x in VL [elist (epair e_ballot eN) mu; eN nv; eN nu].

Definition e_names (l : list (N * text)) : val := elist (epair eN e_text) l.

Definition op_ord (v : val) : val :=
  let m0 := set_file_name (meta0 (d_text (dnth 2 v))) (d_text (dnth 1 v)) in
  let lines := cut (dnat (dnth 0 v)) (d_text (dnth 3 v)) in
  VL [ eresult Ops.C01.e_inst (OrdIO.ord_parse true false m0 lines);
       eresult Ops.C01.e_inst (OrdIO.ord_parse false false m0 lines);
       eresult e_expected (ord_expected lines);
       e_names (raw_names alt_name_prefix lines);
       ebool (ord_clean m0 lines);
       ebool (ids_distinct alt_name_prefix lines) ].

Definition op_cat (v : val) : val :=
  let m0 := set_file_name (meta0 (d_text (dnth 2 v))) (d_text (dnth 1 v)) in
  let lines := cut (dnat (dnth 0 v)) (d_text (dnth 3 v)) in
  VL [ eresult Ops.C08.e_cinst (CatIO.cat_parse true false m0 lines);
       eresult Ops.C08.e_cinst (CatIO.cat_parse false false m0 lines);
       eresult e_expected (cat_expected lines);
       e_names (raw_names alt_name_prefix lines);
       e_names (raw_names cat_name_prefix lines);
       ebool (cat_clean m0 lines);
       ebool (ids_distinct alt_name_prefix lines);
       ebool (ids_distinct cat_name_prefix lines) ].

Definition ops : optable := [ ("c16.ord", op_ord); ("c16.cat", op_cat) ].
