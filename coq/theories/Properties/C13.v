(* Properties/C13.v — single-peakedness on a tree is decided exactly, with a valid tree.

   Shape (R): the theorems are about the specification, the witness checker and the reference decider of
   Model/Tree.v (Trick's algorithm in /repo is not mirrored; it is compared with spt_decide / checked by
   spt_check in harness/props/c13.py).

   Specification (Proofs/Tree.v; restated by the *_unfold theorems below):
     adj T a b        := In (a,b) T \/ In (b,a) T                       (edges are undirected)
     path_in T S a b  := a walk from a to b all of whose vertices lie in S
     connected T S    := forall a b, In a S -> In b S -> path_in T S a b  (induced subgraph connected)
     spanning_tree alts T := length alts = S (length T) /\ every edge joins two distinct members of alts
                             /\ connected T alts
     spt_spec alts p T := spanning_tree alts T /\ forall v, In v p -> forall k, connected T (firstn k v)
     SPT alts p        := exists T, spt_spec alts p T
   A vote is a strict complete ranking (list N, best first); firstn k v = the k most preferred alternatives. *)
From Coq Require Import List NArith Bool Arith Permutation.
From PrefVerif Require Import Lib.Val Lib.Perms Model.Tree Proofs.Tree Model.TreeAlgo Proofs.TreeAlgo.
Import ListNotations.

(* ---- the specification, unfolded ---- *)
Theorem SPT_unfold : forall alts p,
  SPT alts p <->
  exists T : list (N * N),
    (length alts = S (length T)
     /\ Forall (fun e => In (fst e) alts /\ In (snd e) alts /\ fst e <> snd e) T
     /\ (forall a b, In a alts -> In b alts -> path_in T alts a b))
    /\ forall v, In v p -> forall k a b, In a (firstn k v) -> In b (firstn k v) -> path_in T (firstn k v) a b.
Proof. intros alts p. reflexivity. Qed.
Print Assumptions SPT_unfold.

Theorem path_in_unfold : forall T S a c,
  path_in T S a c <->
  (a = c /\ In a S) \/ (exists b, In a S /\ (In (a, b) T \/ In (b, a) T) /\ path_in T S b c).
Proof.
  intros T S a c. split.
  - intros H. destruct H as [a Ha|a b c Ha Hab Hbc]; [left; auto|right; exists b; auto].
  - intros [[<- Ha]|(b & Ha & Hab & Hbc)]; [apply path_refl; exact Ha|eapply path_step; eauto].
Qed.
Print Assumptions path_in_unfold.

(* ---- connectivity test ---- *)
Theorem connected_correct : forall T S,
  connected_in T S = true <-> (forall a b, In a S -> In b S -> path_in T S a b).
Proof. exact Proofs.Tree.connected_correct. Qed.
Print Assumptions connected_correct.

(* ---- checkers <-> specification, for every size ---- *)
Theorem tree_check_correct : forall alts T, tree_check alts T = true <-> spanning_tree alts T.
Proof. exact Proofs.Tree.tree_check_correct. Qed.
Print Assumptions tree_check_correct.

Theorem spt_check_correct : forall alts p T, spt_check alts p T = true <-> spt_spec alts p T.
Proof. exact Proofs.Tree.spt_check_correct. Qed.
Print Assumptions spt_check_correct.

(* the one-pass checker run by the oracle on the implementation's edge list is the same function *)
Theorem spt_checkf_eq : forall alts p T, spt_checkf alts p T = spt_check alts p T.
Proof. exact Proofs.Tree.spt_checkf_eq. Qed.
Print Assumptions spt_checkf_eq.

(* orientation of each edge and order of the edge list are irrelevant *)
Theorem tree_check_perm : forall alts T T', Permutation T T' -> tree_check alts T = tree_check alts T'.
Proof. exact Proofs.Tree.tree_check_perm. Qed.
Print Assumptions tree_check_perm.
Theorem tree_check_reoriented : forall alts T T',
  Forall2 (fun e e' => e' = e \/ e' = (snd e, fst e)) T T' -> tree_check alts T = tree_check alts T'.
Proof. exact Proofs.Tree.tree_check_reoriented. Qed.
Print Assumptions tree_check_reoriented.
Theorem spt_check_perm : forall alts p T T', Permutation T T' -> spt_check alts p T = spt_check alts p T'.
Proof. exact Proofs.Tree.spt_check_perm. Qed.
Print Assumptions spt_check_perm.
Theorem spt_check_reoriented : forall alts p T T',
  Forall2 (fun e e' => e' = e \/ e' = (snd e, fst e)) T T' -> spt_check alts p T = spt_check alts p T'.
Proof. exact Proofs.Tree.spt_check_reoriented. Qed.
Print Assumptions spt_check_reoriented.

(* ---- sanity of the definition "m-1 edges + connected": such a graph is minimally connected — deleting any
   edge disconnects it, so every edge is a bridge and there is no cycle ---- *)
Theorem spanning_tree_minimal : forall alts T1 e T2,
  NoDup alts -> spanning_tree alts (T1 ++ e :: T2) -> ~ connected (T1 ++ T2) alts.
Proof. exact Proofs.Tree.spanning_tree_minimal. Qed.
Print Assumptions spanning_tree_minimal.
Theorem connected_edge_bound : forall alts T, NoDup alts -> connected T alts -> length alts <= S (length T).
Proof. exact Proofs.Tree.connected_edge_bound. Qed.
Print Assumptions connected_edge_bound.

(* ---- the enumeration is complete: every spanning tree is, as an undirected edge set, a candidate ---- *)
Theorem cand_trees_complete : forall alts T,
  NoDup alts -> spanning_tree alts T ->
  exists T', In T' (cand_trees alts) /\ length T = length T' /\ forall a b, adj T a b <-> adj T' a b.
Proof. exact Proofs.Tree.cand_trees_complete. Qed.
Print Assumptions cand_trees_complete.

(* ---- the reference decider is exact, for every size ---- *)
Theorem spt_decide_correct : forall alts p, NoDup alts -> (spt_decide alts p = true <-> SPT alts p).
Proof. exact Proofs.Tree.spt_decide_correct. Qed.
Print Assumptions spt_decide_correct.

(* ---- invariance (also used by C15) ---- *)
Theorem spt_decide_profile_ext : forall alts p p',
  (forall v, In v p <-> In v p') -> spt_decide alts p = spt_decide alts p'.
Proof. exact Proofs.Tree.spt_decide_profile_ext. Qed.
Print Assumptions spt_decide_profile_ext.
Theorem spt_decide_profile_perm : forall alts p p', Permutation p p' -> spt_decide alts p = spt_decide alts p'.
Proof. exact Proofs.Tree.spt_decide_profile_perm. Qed.
Print Assumptions spt_decide_profile_perm.
Theorem spt_decide_alts_perm : forall alts alts' p,
  NoDup alts -> Permutation alts alts' -> spt_decide alts p = spt_decide alts' p.
Proof. exact Proofs.Tree.spt_decide_alts_perm. Qed.
Print Assumptions spt_decide_alts_perm.
Theorem SPT_relabel : forall f alts p,
  (forall x y : N, f x = f y -> x = y) -> (SPT (map f alts) (map (map f) p) <-> SPT alts p).
Proof. exact Proofs.Tree.SPT_relabel. Qed.
Print Assumptions SPT_relabel.
Theorem spt_decide_relabel : forall f alts p,
  (forall x y : N, f x = f y -> x = y) -> NoDup alts ->
  spt_decide (map f alts) (map (map f) p) = spt_decide alts p.
Proof. exact Proofs.Tree.spt_decide_relabel. Qed.
Print Assumptions spt_decide_relabel.

Theorem SPT_subprofile : forall alts p p', (forall v, In v p' -> In v p) -> SPT alts p -> SPT alts p'.
Proof. exact Proofs.Tree.SPT_subprofile. Qed.
Print Assumptions SPT_subprofile.

(* ---- non-vacuity ---- *)
Local Open Scope N_scope.
Definition ex_alts : list N := [1; 2; 3; 4].
Definition ex_star_profile : list (list N) := [[1; 2; 3; 4]; [1; 3; 2; 4]; [1; 4; 2; 3]].
Definition path_edges (axis : list N) : list (N * N) := combine axis (tl axis).

(* single-peaked on the star centred on 1, on no line (= path through the four alternatives) *)
Example star_not_line :
  spt_check ex_alts ex_star_profile [(1, 2); (1, 3); (1, 4)] = true /\
  forallb (fun axis => negb (spt_check ex_alts ex_star_profile (path_edges axis))) (perms ex_alts) = true /\
  spt_decide ex_alts ex_star_profile = true.
Proof. vm_compute. repeat split. Qed.
Print Assumptions star_not_line.

(* a profile of three strict orders over four alternatives that is single-peaked on no tree
   (the pinned get_B answered True on it) *)
Example refuted : ~ SPT ex_alts [[1; 2; 3; 4]; [1; 2; 4; 3]; [3; 4; 1; 2]].
Proof.
  intros H. apply (proj2 (spt_decide_correct ex_alts _ ltac:(repeat constructor; cbn; intuition discriminate))) in H.
  vm_compute in H. discriminate.
Qed.
Print Assumptions refuted.

(* the witness checker rejects a spanning tree that does not fit, and a non-tree *)
Example checker_rejects :
  spt_check ex_alts [[1; 2; 3; 4]; [4; 2; 1; 3]] [(1, 3); (1, 4); (1, 2)] = false /\
  spt_check ex_alts [[1; 2; 3; 4]; [4; 2; 1; 3]] [(2, 1); (4, 2); (3, 1)] = true /\
  tree_check ex_alts [(1, 2); (2, 3); (3, 1)] = false.
Proof. vm_compute. repeat split. Qed.
Print Assumptions checker_rejects.

(* ================================================================================================= *)
(* ---- the ALGORITHM: Model/TreeAlgo.v mirrors is_single_peaked_on_tree / get_B / get_bottom_alts /
   restrict_preferences as written in /repo (stale L_set within a pass, current C_set in get_B, final edge
   when two alternatives remain), parametric in the two unspecified Python set iteration orders:
     enumL C L   — the order in which `for a in L_set` visits the bottoms (C = current C_set),
     pickB C a B — the member of B(a) returned by `B_a.__iter__().__next__()`.
   admissible enumL pickB: enumL returns a duplicate-free list with the same members, pickB a member of a
   non-empty list.  profile_on alts p: alts duplicate-free and non-empty, at least one vote, every vote a
   permutation of alts.  All theorems: every size, every admissible pair. ---- *)

Theorem admissible_unfold : forall enumL pickB,
  admissible enumL pickB <->
  (forall C l, NoDup (enumL C l) /\ forall x, In x (enumL C l) <-> In x l) /\
  (forall (C : list N) (a : N) (B : list N), B <> [] -> In (pickB C a B) B).
Proof. intros. reflexivity. Qed.
Print Assumptions admissible_unfold.

Theorem profile_on_unfold : forall alts p,
  profile_on alts p <-> NoDup alts /\ alts <> [] /\ p <> [] /\ forall v, In v p -> Permutation alts v.
Proof. intros. reflexivity. Qed.
Print Assumptions profile_on_unfold.

(* the while loop never exhausts fuel = number of alternatives: every pass returns False or removes an alternative *)
Theorem trick_terminates : forall alts p enumL pickB,
  profile_on alts p -> admissible enumL pickB -> trick enumL pickB alts p <> Err OutOfFuel.
Proof.
  intros alts p enumL pickB (_ & _ & Hpne & Hp) [He _]. exact (Proofs.TreeAlgo.trick_terminates alts p Hp enumL pickB He Hpne).
Qed.
Print Assumptions trick_terminates.

(* a True answer comes with a valid tree *)
Theorem trick_sound : forall alts p enumL pickB E,
  profile_on alts p -> admissible enumL pickB ->
  trick enumL pickB alts p = Ok (true, E) -> spt_check alts p E = true.
Proof.
  intros alts p enumL pickB E (Hnd & Hne & _ & Hp) [He Hk].
  exact (Proofs.TreeAlgo.trick_sound alts p Hnd Hp enumL pickB He Hk E Hne).
Qed.
Print Assumptions trick_sound.

(* Trick's theorem: a profile single-peaked on some tree is accepted, whatever the iteration orders *)
Theorem trick_complete : forall alts p enumL pickB,
  profile_on alts p -> admissible enumL pickB -> SPT alts p ->
  exists E, trick enumL pickB alts p = Ok (true, E).
Proof.
  intros alts p enumL pickB (Hnd & _ & Hpne & Hp) [He Hk].
  exact (Proofs.TreeAlgo.trick_complete alts p Hnd Hp enumL pickB He Hpne).
Qed.
Print Assumptions trick_complete.

(* hence the mirror returns exactly the verdict of the reference decider, and a checked tree when True;
   in particular a False answer means: single-peaked on no tree *)
Theorem trick_decides : forall alts p enumL pickB,
  profile_on alts p -> admissible enumL pickB ->
  exists E, trick enumL pickB alts p = Ok (spt_decide alts p, E) /\
            (spt_decide alts p = true -> spt_check alts p E = true).
Proof. exact Proofs.TreeAlgo.trick_decides. Qed.
Print Assumptions trick_decides.

Theorem trick_false_iff : forall alts p enumL pickB,
  profile_on alts p -> admissible enumL pickB ->
  ((exists E, trick enumL pickB alts p = Ok (false, E)) <-> ~ SPT alts p).
Proof.
  intros alts p enumL pickB Hpo Ha. destruct (Proofs.TreeAlgo.trick_decides alts p enumL pickB Hpo Ha) as (E & HE & _).
  pose proof (Proofs.Tree.spt_decide_correct alts p (proj1 Hpo)) as Hd. split.
  - intros (E' & HE') HS. apply Hd in HS. rewrite HE in HE'. injection HE' as Hb _. congruence.
  - intros Hn. exists E. rewrite HE. destruct (spt_decide alts p); [exfalso; apply Hn; apply Hd; reflexivity|reflexivity].
Qed.
Print Assumptions trick_false_iff.

(* the verdict does not depend on how the two sets are iterated (the returned trees may differ) *)
Theorem trick_choice_independent : forall alts p enumL pickB enumL' pickB',
  profile_on alts p -> admissible enumL pickB -> admissible enumL' pickB' ->
  exists b E E', trick enumL pickB alts p = Ok (b, E) /\ trick enumL' pickB' alts p = Ok (b, E').
Proof. exact Proofs.TreeAlgo.trick_choice_independent. Qed.
Print Assumptions trick_choice_independent.

(* the two instantiations run by the oracle (ops c13.algo, c13.algo2) are admissible *)
Theorem admissible_fwd : admissible enum_fwd pick_first.
Proof. exact Proofs.TreeAlgo.admissible_fwd. Qed.
Print Assumptions admissible_fwd.
Theorem admissible_bwd : admissible enum_bwd pick_last.
Proof. exact Proofs.TreeAlgo.admissible_bwd. Qed.
Print Assumptions admissible_bwd.

Example profile_on_example : profile_on ex_alts ex_star_profile.
Proof.
  split; [repeat constructor; cbn; intuition discriminate|]. split; [discriminate|]. split; [discriminate|].
  intros v [<-|[<-|[<-|[]]]]; unfold ex_alts.
  - apply Permutation_refl.
  - apply perm_skip. apply perm_swap.
  - apply perm_skip. eapply perm_trans; [apply perm_skip; apply perm_swap|apply perm_swap].
Qed.
Print Assumptions profile_on_example.

(* the two instantiations on concrete inputs: same verdict, different trees; a refused profile *)
Example trick_runs :
  trick_fwd [1; 2; 3; 4; 5] [[1; 2; 3; 4; 5]; [3; 2; 4; 1; 5]; [4; 3; 5; 2; 1]]
    = Ok (true, [(3, 5); (2, 1); (3, 4); (3, 2)]) /\
  trick_bwd [1; 2; 3; 4; 5] [[2; 1; 3; 4; 5]; [2; 3; 1; 4; 5]]
    = Ok (true, [(4, 5); (3, 4); (2, 1); (2, 3)]) /\
  trick_fwd [1; 2; 3; 4; 5] [[2; 1; 3; 4; 5]; [2; 3; 1; 4; 5]]
    = Ok (true, [(2, 5); (2, 4); (2, 3); (2, 1)]) /\
  trick_fwd ex_alts [[1; 2; 3; 4]; [1; 2; 4; 3]; [3; 4; 1; 2]] = Ok (false, []) /\
  trick_bwd ex_alts [[1; 2; 3; 4]; [1; 2; 4; 3]; [3; 4; 1; 2]] = Ok (false, []).
Proof. vm_compute. repeat split. Qed.
Print Assumptions trick_runs.

(* the hypothesis "at least one vote" is needed: with no vote and three alternatives the set of bottoms is
   empty, no pass removes anything and the fuel runs out — the Python loop does not terminate on such an
   instance (observed; outside the quantifier of the property, which speaks of profiles of orders) *)
Example trick_needs_a_vote : trick_fwd [1; 2; 3] [] = Err OutOfFuel.
Proof. vm_compute. reflexivity. Qed.
Print Assumptions trick_needs_a_vote.

(* NOT hereditary under deletion of alternatives (so no alternative-dropping shrink / embedded-core argument is
   used for this property): every profile whose votes share their top alternative is single-peaked on the star
   centred there, but all six orders of three alternatives are single-peaked on no tree *)
Example not_hereditary_in_alternatives :
  let p := map (cons 1) (perms [2; 3; 4]) in
  spt_decide [1; 2; 3; 4] p = true /\
  spt_decide [2; 3; 4] (map (filter (fun a => negb (N.eqb a 1))) p) = false.
Proof. vm_compute. split; reflexivity. Qed.
Print Assumptions not_hereditary_in_alternatives.
