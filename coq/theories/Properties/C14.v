(* Properties/C14.v — placeholder (guards only) until Proofs/Bucklin.v is complete *)
From Coq Require Import List NArith.
From PrefVerif Require Import Lib.Val Model.Scoring Model.Bucklin.
Import ListNotations.
Theorem bucklin_guard : forall i, dt_in (dt i) [Soc] = false -> bucklin_winner i = Err Incompatible.
Proof. intros i H. unfold bucklin_winner. rewrite H. reflexivity. Qed.
Print Assumptions bucklin_guard.
