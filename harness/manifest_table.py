"""Source of MANIFEST.json (bin/gen-manifest). One entry per claimed property."""

GENERIC_NOTE = ("Trusted: Coq 8.16.1 kernel; extraction (ExtrOcamlBasic only) + ocamlopt + coq/oracle/main.ml; the Python "
                "correspondence harness; CPython and the packages preflibtools imports. The theorems are about the "
                "hand-written Gallina model; the model is tied to /repo's working tree on every run by differential "
                "execution (exhaustive small ranges + seeded structured random), not by proof. ")

TECH = "machine-checked proof in Coq (mirror model, theorems for all inputs) + model/implementation correspondence check via extracted OCaml oracle"

CLAIMED = {
    "C20": {
        "text": "Theorems in Coq (all sizes) about a mirror model of distances.py; model tied to the code by "
                "exhaustive (n<=4/5) and random (n<=40) differential runs on every invocation.",
        "design_ref": "DESIGN.md §7 C20",
        "note": GENERIC_NOTE + "Final float division compared through exact rationals.",
        "technique": TECH,
    },
    "C07": {
        "text": "Coq theorems (all instances, all sizes, Closed under the global context) about a mirror model of "
                "pairwise_scores, copeland_scores, has_condorcet, borda_scores and order_to_pwg: closed forms of every table "
                "entry as voter-level counts on the expanded profile, the Condorcet iff, the pwg line/total/number clauses, "
                "regrouping invariance, type guards. The model is tied to the code by exhaustive (m<=3, <=2 ballots) and random "
                "(m<=7/9) differential runs on every invocation, tables compared entry by entry.",
        "design_ref": "DESIGN.md §7 C07",
        "note": GENERIC_NOTE + "Reading: a ballot that does not rank b does not compare a with b (stated as an Example). "
                "order_to_pwg text is re-read by the harness (split on newline/comma), not modelled character by character.",
        "technique": TECH,
    },
}


def _m(text, note, ref):
    return {"text": text, "design_ref": "DESIGN.md §7 " + ref, "note": GENERIC_NOTE + note, "technique": TECH}


def _r(text, note, ref):
    return {"text": text, "design_ref": "DESIGN.md §7 " + ref, "note": GENERIC_NOTE + note, "technique": TECH_R}


TECH_R = ("machine-checked proof in Coq of specification, witness checker and reference decider/optimiser (all sizes) + "
          "implementation compared with the extracted reference on bounded inputs and its witnesses checked at every size")

CLAIMED.update({
    "C01": _m("Coq theorems (every well-formed instance, any size, Closed under the global context) about a mirror model of "
              "OrdinalInstance.write/parse and PrefLibInstance.parse_metadata: write->parse round trip through readlines and through "
              "splitlines (= the stably sorted view of the instance), non-increasing multiplicities in file order, byte-for-byte "
              "idempotence of the second write, tokenizer/class construction inverting the ballot printer for every tie arrangement. "
              "Tied to the code on every run: model-parse(impl-write), impl-parse(model-write), byte equality of both writers, "
              "tokenizer vs re.findall, histories on one object.",
              "Text = code points; ASCII digits only for int()/\\d; UTF-8 codec and CPython regex engine exercised, not proved. "
              "Instances with zero orders are outside the quantifier (shown not to survive: Example C01_example_no_order_fails).", "C01"),
    "C02": _m("Coq invariant proof over all histories of the four append entry points (and populate_* = append_vote_map of any map of "
              "strict orders): multiplicity table = counting function of the votes added, counters, alternative set/names, "
              "duplicate-free order list, full_profile/vote_map views, data_type = infer_type agreeing with is_strict/is_complete and "
              "the ballot-size statistics, sanity checker silent; regrouping/reordering invariance. Model tied to the code by replaying "
              "histories through the real methods with 24 observables after every operation.",
              "Reading: histories that add at least one vote (the fresh instance has data_type toi but infer_type soc: proved as "
              "C02_fresh_type_refuted / C02_type_empty_refuted and documented in DESIGN §8 as degenerate, not alarmed on). "
              "Set-iteration order of alternatives is not modelled (names compared as a set of pairs).", "C02"),
    "C04": _r("Coq theorems: the single-crossing specification, a sequence checker and a witness checker proved equivalent to it, a "
              "brute-force decider and a polynomial conflict-set decider both proved correct and complete for every size, heredity, "
              "relabelling/reordering invariance, and the link to the Kendall-tau additivity test the code uses. is_single_crossing and "
              "is_single_crossing_conflict_sets are compared with both references (exhaustive m<=4, chains with every choice of the first "
              "two stored orders, switch-back negatives, n<m and n>=m paths); every returned sequence goes through the verified checker.",
              "The implementation's sort/bucket strategy is not mirrored: it is tied to the proved references by differential runs only.", "C04"),
    "C06": _m("Coq theorems for the seven rules (mirror models of singlewinner.py + decorators + is_approval): winner set = exactly the "
              "maximisers (veto: minimisers) of the textbook per-voter score on the expanded profile (Copeland = contests won, SAV in exact "
              "rationals), regrouping invariance, type guards give PreferenceIncompatibleError. Exhaustive (m<=3) and tie-heavy random "
              "differential runs, every rule x every data type.",
              "Assumes instance.orders == list(instance.multiplicity) (the invariant proved under C02); empty orders/classes excluded by wf_inst.", "C06"),
    "C09": _m("Coq theorems (Section-generic in the weight codec, then instantiated for tokens): write->parse round trip of matching "
              "instances (same edge set, weights, incident nodes, names, counts, num_edges = |edges|, num_voters = num_alternatives), "
              "byte-for-byte idempotence, header_only, insertion sort correctness, type gate. Differential runs with random 64-bit "
              "weights compared bitwise, exponent-notation weights, overwrite histories on one object.",
              "float(repr(x)) == x and the character set of repr(x) are Section hypotheses tested on every generated weight, not proved.", "C09"),
    "C12": _r("Coq theorems: minimum alternative-deletion and voter-deletion numbers defined by verified enumeration over the proved "
              "single-peakedness decider (correct for every size), certificate checkers equivalent to 'deletion set of the reported size + "
              "remaining profile single-peaked on the returned axis', certificate => upper bound, monotonicity under restriction (lower "
              "bounds from small cores), invariance. Both ILPs (soc, toc) and k_alternative_deletion (soc) are compared with the reference "
              "for m<=5/6 and their certificates checked up to m=10/12.",
              "The ILP builders, CBC (max_gap 0.05) and the dynamic programme are not mirrored; fewer than 20 alternatives as the property requires.", "C12"),
    "C13": _r("Coq theorems: single-peaked-on-a-tree specification, connectivity test, tree and witness checkers proved equivalent to the "
              "spec (orientation/order of edges irrelevant), candidate-tree enumeration proved complete, decider correct for every size, "
              "invariance. is_single_peaked_on_tree compared with the decider (exhaustive m<=4, random m<=7/8), every returned edge list "
              "through the verified checker (planted trees up to m=30).",
              "Trick's algorithm is not mirrored. A wrong False on a large profile is only seen on planted positives.", "C13"),
    "C14": _m("Coq theorems for bucklin_voting_winner and fallback_voting_winner (mirror model with explicit fuel): winners = argmax of the "
              "top-k* counts at the least depth reaching the strict-majority quota on the expanded profile (fallback: full approval counts "
              "if none), fuel never exhausted (termination incl. single-alternative profiles), regrouping, guards. Exhaustive m<=3 and "
              "random differential runs under a 10 s watchdog.",
              "Termination of the real while loop is observed by the watchdog; the model proves the bounded loop never exhausts its fuel.", "C14"),
    "C16": _m("Coq theorems about the autocorrect path of the ordinal and categorical parser models: duplicate-free ballot list, "
              "multiplicity = sum over all lines of that ballot, counts recomputed, names pairwise distinct with first occurrences kept "
              "(distinct ids), clean content gives the same instance with and without autocorrect; an independent 'expected' description "
              "proved equal to the parser. Differential runs on generated dirty/clean text through parse_file and parse_str.",
              "Reservation of names happens in parse_lines: direct callers of parse() bypass it (proved as ac_direct_parse_refuted; outside the "
              "entry points the property names).", "C16"),
    "C17": _m("Coq theorems about a mirror model of CategoricalInstance.from_ordinal (three truncation modes) and factorise_instance: "
              "categories partition the ranked alternatives in rank order without splitting classes, the size rule for absolute truncators, "
              "the class-count rule, padding, voter conservation when orders collapse, duplicate-free ballot list, factorise counts, "
              "parameter guards. Exhaustive small and collapse-prone random differential runs.",
              "Relative truncators: the per-order integer sizes int(ceil(len*t)) are computed by the harness with the same float arithmetic and "
              "passed to the model; an empty truncator list is outside 'arbitrary positive values' (fo_partition_empty_list_refuted).", "C17"),
})

_PENDING = "not claimed yet: the model and check for this property are still being built (see DESIGN.md §12)"
NOT_APPLICABLE = {f"C{i:02d}": _PENDING for i in range(1, 21) if f"C{i:02d}" not in CLAIMED}

NOTES = ("All checks share one Coq development (coq/) built by bin/setup; bin/check <ID> <tier> rebuilds what changed, "
         "re-captures Print Assumptions, runs the correspondence against /repo's working tree and rewrites "
         "evidence/<ID>.json. Known findings: known_findings.json. Design and trusted base: DESIGN.md.")
