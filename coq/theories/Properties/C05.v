(* Properties/C05.v — approval-domain recognisers and the consecutive-ones solver: statements only.
   Shape (R) for the consecutive-ones solver (specification, verified checker, verified reference decider),
   shape (M) for the reductions instance -> matrix, the witness translations, the Euclidean construction and
   is_part / is_2_part.  Vocabulary (Proofs/C1P.v, Proofs/Approval.v):
     Interval P l   : the elements of l satisfying P are consecutive   (l = l1 ++ l2 ++ l3, P exactly on l2)
     Extremal P l   : they form a prefix or a suffix of l
     row_contig perm row = true  <->  Interval (fun j => nth j row false = true) perm      (row_contig_spec)
     CI / CEI / VI / VEI / WSC / DE / PartOK / TwoPart : the defining properties of the eight domains. *)
From Coq Require Import List Arith NArith ZArith QArith Qabs Bool Permutation.
From PrefVerif Require Import Lib.Perms Model.C1P Model.Approval.
From PrefVerif Require Import Lib.Val Model.PQTree.
From PrefVerif Require Proofs.C1P Proofs.Approval Proofs.PQTree Proofs.PQTreeComplete.
Import ListNotations.
Import Proofs.C1P Proofs.Approval.
Local Open Scope nat_scope.

(* ---- the consecutive-ones property: any matrix (repeated / all-zero rows and columns included) ---- *)
Theorem row_contig_spec : forall perm row,
  row_contig perm row = true <-> Interval (fun j => nth j row false = true) perm.
Proof. exact Proofs.C1P.row_contig_spec. Qed.
Print Assumptions row_contig_spec.

Theorem row_contig_between : forall perm row,
  row_contig perm row = true <->
  forall i j k, i < j -> j < k -> k < length perm ->
    nth (nth i perm 0) row false = true -> nth (nth k perm 0) row false = true ->
    nth (nth j perm 0) row false = true.
Proof. exact Proofs.C1P.row_contig_between. Qed.
Print Assumptions row_contig_between.

Theorem row_extremal_spec : forall perm row,
  row_extremal perm row = true <-> Extremal (fun j => nth j row false = true) perm.
Proof. exact Proofs.C1P.row_extremal_spec. Qed.
Print Assumptions row_extremal_spec.

Theorem c1p_check_correct : forall rows nc perm,
  c1p_check rows nc perm = true <->
  Permutation (seq 0 nc) perm /\ Forall (fun row => row_contig perm row = true) rows.
Proof. exact Proofs.C1P.c1p_check_correct. Qed.
Print Assumptions c1p_check_correct.

Theorem c1p_decide_correct : forall rows nc,
  c1p_decide rows nc = true <->
  exists perm, Permutation (seq 0 nc) perm /\ Forall (fun row => row_contig perm row = true) rows.
Proof. exact Proofs.C1P.c1p_decide_correct. Qed.
Print Assumptions c1p_decide_correct.

(* a matrix and its complement both contiguous in the order perm <-> every row a prefix or a suffix *)
Theorem cei_reduction : forall M nc perm,
  Forall (fun r => length r = nc) M -> Forall (fun j => j < nc) perm ->
  (Forall (fun row => row_contig perm row = true) (M ++ complement M) <->
   Forall (fun row => row_extremal perm row = true) M).
Proof. exact Proofs.C1P.cei_reduction. Qed.
Print Assumptions cei_reduction.

(* heredity: rows dropped, only the distinct columns cols kept *)
Theorem c1p_hereditary : forall rows nc rows' cols,
  C1P rows nc -> incl rows' rows -> NoDup cols -> Forall (fun j => j < nc) cols ->
  C1P (map (select_cols cols) rows') (length cols).
Proof. exact Proofs.C1P.c1p_hereditary. Qed.
Print Assumptions c1p_hereditary.

(* a refuted submatrix certifies the negative verdict at any size *)
Theorem c1p_core_refuted_sound : forall rows nc ridx cols,
  c1p_core_refuted rows nc ridx cols = true -> c1p_decide rows nc = false.
Proof. exact Proofs.C1P.c1p_core_refuted_sound. Qed.
Print Assumptions c1p_core_refuted_sound.

(* ---- witness checkers = defining properties ---- *)
Theorem ci_check_correct : forall alts ballots order,
  ci_check alts ballots order = true <->
  Permutation alts order /\ Forall (fun b => Interval (fun a => In a b) order) ballots.
Proof. exact Proofs.Approval.ci_check_correct. Qed.
Print Assumptions ci_check_correct.

Theorem cei_check_correct : forall alts ballots order,
  cei_check alts ballots order = true <->
  Permutation alts order /\ Forall (fun b => Extremal (fun a => In a b) order) ballots.
Proof. exact Proofs.Approval.cei_check_correct. Qed.
Print Assumptions cei_check_correct.

Theorem vi_check_correct : forall alts ballots border,
  vi_check alts ballots border = true <->
  Permutation (seq 0 (length ballots)) border /\
  Forall (fun a => Interval (fun i => In a (ballot_at ballots i)) border) alts.
Proof. exact Proofs.Approval.vi_check_correct. Qed.
Print Assumptions vi_check_correct.

Theorem vei_check_correct : forall alts ballots border,
  vei_check alts ballots border = true <->
  Permutation (seq 0 (length ballots)) border /\
  Forall (fun a => Extremal (fun i => In a (ballot_at ballots i)) border) alts.
Proof. exact Proofs.Approval.vei_check_correct. Qed.
Print Assumptions vei_check_correct.

Theorem wsc_check_correct : forall alts ballots border,
  wsc_check alts ballots border = true <->
  Permutation (seq 0 (length ballots)) border /\
  forall a b, In a alts -> In b alts ->
    Interval (fun i => In a (ballot_at ballots i) /\ ~ In b (ballot_at ballots i)) border.
Proof. exact Proofs.Approval.wsc_check_correct. Qed.
Print Assumptions wsc_check_correct.

Theorem de_check_correct : forall alts ballots vpr ap,
  de_check alts ballots vpr ap = true <->
  (forall a, In a alts -> ballots <> [] -> lookupQ a ap <> None) /\
  Forall2 (fun b v => forall a, In a alts -> (Qabs (pos_of ap a - fst v) <= snd v <-> In a b)%Q) ballots vpr.
Proof. exact Proofs.Approval.de_check_correct. Qed.
Print Assumptions de_check_correct.

Theorem part_check_correct : forall ballots parts,
  part_check ballots parts = true <->
  (forall b, In b ballots -> exists s, In s parts /\ SetEq s b) /\
  (forall s, In s parts -> exists b, In b ballots /\ SetEq s b) /\
  pairwise part_rel parts = true.
Proof. exact Proofs.Approval.part_check_spec. Qed.
Print Assumptions part_check_correct.

Theorem part_check_sound : forall ballots parts, part_check ballots parts = true -> PartOK ballots.
Proof. exact Proofs.Approval.part_check_sound. Qed.
Print Assumptions part_check_sound.

Theorem part2_check_correct : forall alts ballots parts,
  part2_check alts ballots parts = true <->
  part_check ballots parts = true /\
  (length parts <= 1 \/ (length parts = 2 /\ SetEq (concat parts) alts)).
Proof. exact Proofs.Approval.part2_check_unfold. Qed.
Print Assumptions part2_check_correct.

Theorem part2_check_sound : forall alts ballots parts, part2_check alts ballots parts = true -> TwoPart alts ballots.
Proof. exact Proofs.Approval.part2_check_sound. Qed.
Print Assumptions part2_check_sound.

(* ---- reference deciders = existence of a witness ---- *)
Theorem ci_decide_correct : forall alts ballots, ci_decide alts ballots = true <-> CI alts ballots.
Proof. exact Proofs.Approval.ci_decide_correct. Qed.
Print Assumptions ci_decide_correct.
Theorem cei_decide_correct : forall alts ballots, cei_decide alts ballots = true <-> CEI alts ballots.
Proof. exact Proofs.Approval.cei_decide_correct. Qed.
Print Assumptions cei_decide_correct.
Theorem vi_decide_correct : forall alts ballots, vi_decide alts ballots = true <-> VI alts ballots.
Proof. exact Proofs.Approval.vi_decide_correct. Qed.
Print Assumptions vi_decide_correct.
Theorem vei_decide_correct : forall alts ballots, vei_decide alts ballots = true <-> VEI alts ballots.
Proof. exact Proofs.Approval.vei_decide_correct. Qed.
Print Assumptions vei_decide_correct.
Theorem wsc_decide_correct : forall alts ballots, wsc_decide alts ballots = true <-> WSC alts ballots.
Proof. exact Proofs.Approval.wsc_decide_correct. Qed.
Print Assumptions wsc_decide_correct.
Theorem part_decide_correct : forall ballots, part_decide ballots = true <-> PartOK ballots.
Proof. exact Proofs.Approval.part_decide_correct. Qed.
Print Assumptions part_decide_correct.
Theorem part2_decide_correct : forall alts ballots, part2_decide alts ballots = true <-> TwoPart alts ballots.
Proof. exact Proofs.Approval.part2_decide_correct. Qed.
Print Assumptions part2_decide_correct.

(* ---- the reductions of the recognisers (mirrored matrices) ---- *)
Theorem ci_reduction : forall alts ballots, CI alts ballots <-> C1P (ci_matrix alts ballots) (length alts).
Proof. exact Proofs.Approval.ci_reduction. Qed.
Print Assumptions ci_reduction.
Theorem cei_reduction_instance : forall alts ballots,
  CEI alts ballots <-> C1P (cei_matrix alts ballots) (length alts).
Proof. exact Proofs.Approval.cei_reduction_instance. Qed.
Print Assumptions cei_reduction_instance.
Theorem vi_reduction : forall alts ballots, VI alts ballots <-> C1P (vi_matrix alts ballots) (length ballots).
Proof. exact Proofs.Approval.vi_reduction. Qed.
Print Assumptions vi_reduction.
Theorem vei_reduction : forall alts ballots, VEI alts ballots <-> C1P (vei_matrix alts ballots) (length ballots).
Proof. exact Proofs.Approval.vei_reduction. Qed.
Print Assumptions vei_reduction.
Theorem wsc_reduction : forall alts ballots, WSC alts ballots <-> C1P (wsc_matrix alts ballots) (length ballots).
Proof. exact Proofs.Approval.wsc_reduction. Qed.
Print Assumptions wsc_reduction.

(* ---- witness translation: a column order accepted by c1p_check yields a witness accepted by X_check ---- *)
Theorem ci_witness : forall alts ballots perm,
  c1p_check (ci_matrix alts ballots) (length alts) perm = true ->
  ci_check alts ballots (order_of_perm alts perm) = true.
Proof. exact Proofs.Approval.ci_witness. Qed.
Print Assumptions ci_witness.
Theorem cei_witness : forall alts ballots perm,
  c1p_check (cei_matrix alts ballots) (length alts) perm = true ->
  firstn (length alts) perm = perm /\ cei_check alts ballots (order_of_perm alts perm) = true.
Proof. exact Proofs.Approval.cei_witness. Qed.
Print Assumptions cei_witness.
Theorem vi_witness : forall alts ballots border,
  vi_check alts ballots border = c1p_check (vi_matrix alts ballots) (length ballots) border.
Proof. exact Proofs.Approval.vi_check_c1p. Qed.
Print Assumptions vi_witness.
Theorem vei_witness : forall alts ballots border,
  vei_check alts ballots border = true <-> c1p_check (vei_matrix alts ballots) (length ballots) border = true.
Proof. exact Proofs.Approval.vei_check_c1p. Qed.
Print Assumptions vei_witness.
Theorem wsc_witness : forall alts ballots border,
  wsc_check alts ballots border = true <-> c1p_check (wsc_matrix alts ballots) (length ballots) border = true.
Proof. exact Proofs.Approval.wsc_check_c1p. Qed.
Print Assumptions wsc_witness.

(* ---- dichotomous Euclidean: the code's construction on a CI order is a valid embedding ---- *)
Theorem de_construct_accepted : forall alts ballots order,
  Forall (fun b => incl b alts) ballots ->
  ci_check alts ballots order = true ->
  de_check alts ballots (fst (de_construct ballots order)) (snd (de_construct ballots order)) = true.
Proof. exact Proofs.Approval.de_construct_accepted. Qed.
Print Assumptions de_construct_accepted.

Theorem ci_implies_de : forall alts ballots,
  Forall (fun b => incl b alts) ballots -> CI alts ballots -> DE alts ballots.
Proof. exact Proofs.Approval.ci_implies_de. Qed.
Print Assumptions ci_implies_de.

(* an embedding on the rational line yields a CI order (sort the alternatives by position) *)
Theorem de_implies_ci : forall alts ballots, DE alts ballots -> CI alts ballots.
Proof. exact Proofs.Approval.de_implies_ci. Qed.
Print Assumptions de_implies_ci.

Theorem de_iff_ci : forall alts ballots,
  Forall (fun b => incl b alts) ballots -> (DE alts ballots <-> CI alts ballots).
Proof. exact Proofs.Approval.de_iff_ci. Qed.
Print Assumptions de_iff_ci.

Theorem de_check_sound : forall alts ballots vpr ap, de_check alts ballots vpr ap = true -> DE alts ballots.
Proof. exact Proofs.Approval.de_check_sound. Qed.
Print Assumptions de_check_sound.

Theorem de_decide_correct : forall alts ballots,
  Forall (fun b => incl b alts) ballots -> (de_decide alts ballots = true <-> DE alts ballots).
Proof. exact Proofs.Approval.de_decide_correct. Qed.
Print Assumptions de_decide_correct.

(* ---- is_part / is_2_part (mirrored) ---- *)
Theorem part_correct : forall ballots, (exists parts, is_part ballots = Some parts) <-> PartOK ballots.
Proof. exact Proofs.Approval.part_correct. Qed.
Print Assumptions part_correct.
Theorem part_witness : forall ballots parts, is_part ballots = Some parts -> part_check ballots parts = true.
Proof. exact Proofs.Approval.part_witness. Qed.
Print Assumptions part_witness.
(* TwoPart = the text of the property: any two approval sets equal or disjoint, AT MOST two distinct ones
   (none when there is no ballot), two distinct ones cover all alternatives.  Every profile. *)
Theorem two_part_correct : forall alts ballots,
  (exists parts, is_2_part alts ballots = Some parts) <-> TwoPart alts ballots.
Proof. exact Proofs.Approval.two_part_correct. Qed.
Print Assumptions two_part_correct.
Theorem two_part_witness : forall alts ballots parts,
  is_2_part alts ballots = Some parts -> part2_check alts ballots parts = true.
Proof. exact Proofs.Approval.two_part_witness. Qed.
Print Assumptions two_part_witness.
Theorem two_part_no_ballots : forall alts, is_2_part alts [] = Some [].
Proof. exact Proofs.Approval.two_part_no_ballots. Qed.
Print Assumptions two_part_no_ballots.

(* ---- the six recognisers built on the solver (mirrored, solver as a parameter): relative to a solver that
   answers like the verified reference and returns column orders accepted by the verified checker — which is
   what the correspondence establishes for solve_consecutive_ones — each recogniser is sound, complete and
   returns a witness accepted by the checker of its domain ---- *)
Definition solver_ok (solve : matrix -> nat -> option (list nat)) : Prop :=
  forall M nc, match solve M nc with
               | Some perm => c1p_check M nc perm = true
               | None => c1p_decide M nc = false
               end.

Theorem recog_ci : forall solve, solver_ok solve -> forall alts ballots,
  match is_candidate_interval solve alts ballots with
  | Some order => ci_check alts ballots order = true
  | None => ~ CI alts ballots
  end.
Proof. exact Proofs.Approval.recog_ci. Qed.
Print Assumptions recog_ci.
Theorem recog_cei : forall solve, solver_ok solve -> forall alts ballots,
  match is_candidate_extremal_interval solve alts ballots with
  | Some order => cei_check alts ballots order = true
  | None => ~ CEI alts ballots
  end.
Proof. exact Proofs.Approval.recog_cei. Qed.
Print Assumptions recog_cei.
Theorem recog_vi : forall solve, solver_ok solve -> forall alts ballots,
  match is_voter_interval solve alts ballots with
  | Some border => vi_check alts ballots border = true
  | None => ~ VI alts ballots
  end.
Proof. exact Proofs.Approval.recog_vi. Qed.
Print Assumptions recog_vi.
Theorem recog_vei : forall solve, solver_ok solve -> forall alts ballots,
  match is_voter_extremal_interval solve alts ballots with
  | Some border => vei_check alts ballots border = true
  | None => ~ VEI alts ballots
  end.
Proof. exact Proofs.Approval.recog_vei. Qed.
Print Assumptions recog_vei.
Theorem recog_wsc : forall solve, solver_ok solve -> forall alts ballots,
  match is_weakly_single_crossing solve alts ballots with
  | Some border => wsc_check alts ballots border = true
  | None => ~ WSC alts ballots
  end.
Proof. exact Proofs.Approval.recog_wsc. Qed.
Print Assumptions recog_wsc.
Theorem recog_de : forall solve, solver_ok solve -> forall alts ballots,
  Forall (fun b => incl b alts) ballots ->
  match is_dichotomous_euclidean solve alts ballots with
  | Some w => de_check alts ballots (fst w) (snd w) = true
  | None => ~ DE alts ballots
  end.
Proof. exact Proofs.Approval.recog_de. Qed.
Print Assumptions recog_de.

(* the hypothesis solver_ok is satisfiable: the reference enumeration is such a solver *)
Definition ref_solve (M : matrix) (nc : nat) : option (list nat) :=
  find (fun perm => forallb (row_contig perm) M) (perms (seq 0 nc)).
Theorem ref_solve_ok : solver_ok ref_solve.
Proof. exact Proofs.Approval.ref_solve_ok. Qed.
Print Assumptions ref_solve_ok.

(* ---- solve_consecutive_ones and isC1P around reorder_sets (mirrored pre/post-processing): the contract the
   PQ-tree code has to meet, and what follows from it for EVERY matrix (repeated / all-zero rows and columns) ---- *)
(* SetsOK F res: res rearranges the family F and for every element the sets containing it are consecutive *)
Theorem sets_check_correct : forall F res,
  sets_check F res = true <->
  Permutation F res /\ forall v, Interval (fun s => In v s) res.
Proof. exact Proofs.C1P.sets_check_correct. Qed.
Print Assumptions sets_check_correct.
Theorem sets_decide_correct : forall F, sets_decide F = true <-> exists res, SetsOK F res.
Proof. exact Proofs.C1P.sets_decide_correct. Qed.
Print Assumptions sets_decide_correct.

(* reorder_contract reorder := on every duplicate-free family F of ascending index tuples, reorder F = Some res
   with SetsOK F res, or reorder F = None (ValueError) and no arrangement exists *)
Theorem solve_model_correct : forall reorder, reorder_contract reorder -> forall rows nc,
  match solve_model reorder rows nc with
  | Some perm => c1p_check rows nc perm = true
  | None => c1p_decide rows nc = false
  end.
Proof. exact Proofs.C1P.solve_model_correct. Qed.
Print Assumptions solve_model_correct.

Theorem isC1P_model_correct : forall reorder, reorder_contract reorder -> forall rows nc,
  isC1P_model reorder rows nc = c1p_decide rows nc.
Proof. exact Proofs.C1P.isC1P_model_correct. Qed.
Print Assumptions isC1P_model_correct.

(* hence the whole chain: contract of reorder_sets => every recogniser built on the mirrored solver *)
Theorem solve_model_solver_ok : forall reorder, reorder_contract reorder -> solver_ok (solve_model reorder).
Proof. intros reorder H M nc. exact (Proofs.C1P.solve_model_correct reorder H M nc). Qed.
Print Assumptions solve_model_solver_ok.

(* reorder_sets = "if len(sets) <= 2: return sets" + the PQ-tree: the contract only concerns the PQ-tree on
   duplicate-free families of at least three ascending tuples *)
Theorem reorder_sets_model_contract : forall pq_tree,
  (forall F, 3 <= length F -> NoDup F -> Forall (Sorted.StronglySorted lt) F ->
     match pq_tree F with Some res => SetsOK F res | None => forall res, ~ SetsOK F res end) ->
  reorder_contract (reorder_sets_model pq_tree).
Proof. exact Proofs.C1P.reorder_sets_model_contract. Qed.
Print Assumptions reorder_sets_model_contract.

(* the contract is satisfiable: the reference enumeration of arrangements *)
Theorem ref_reorder_contract : reorder_contract (fun F => find (sets_check F) (perms F)).
Proof. exact Proofs.C1P.ref_reorder_contract. Qed.
Print Assumptions ref_reorder_contract.

(* ---- the PQ-tree code itself (Model/PQTree.v: executable mirror of reorder_sets, P/Q.set_contiguous, simplify,
   flatten, reverse; the harness demands EQUAL results of implementation and mirror on every contract-test family).
   elems = the order in which reorder_sets visits the elements (iteration order of a CPython set: a parameter).
   PROVED: the mirror only fails with ValueError (its fuel is never exhausted), an answer is a rearrangement of the
   family, and it is SOUND: in the answer, for every element the sets containing it are consecutive.
   PROVED FURTHER BELOW (pq_reorder_complete, the Booth-Lueker theorem for this variant); this comment predates it. Formerly: not proved: "Err ValueErr only if no arrangement
   exists"; this half stays compared with the verified reference sets_decide / c1p_decide on bounded inputs.
   Evidence for it beyond the correspondence: the completeness step "(C) a frontier of t in which the sets containing
   v are consecutive is still a frontier of the tree returned by set_contiguous v t, and set_contiguous fails only if
   t has no such frontier" was checked by exhaustive enumeration of the frontiers (Model/PQTree.v orders /
   complete_step, op c05.pq_complete_chk) on 26 490 families of 3-6 sets (all families of 3-4 subsets of {0,1,2},
   12 000 random ones over 4-5 elements, the quick contract-test corpus), at every element step, for every subtree
   and for the second application: no exception.  A proof of (C) needs, in addition to the invariants used for
   soundness, a "sets without v on both sides" invariant for the UNALIGNED status (with the case analysis of the
   child-list reversal in Q.set_contiguous) and the converse of simplify_spec; it was not attempted. ---- *)
Theorem pq_reorder_total : forall elems F,
  (exists res, pq_reorder elems F = Ok res) \/ pq_reorder elems F = Err ValueErr.
Proof. exact Proofs.PQTree.pq_reorder_total. Qed.
Print Assumptions pq_reorder_total.

Theorem pq_reorder_perm : forall elems F res, pq_reorder elems F = Ok res -> Permutation F res.
Proof. exact Proofs.PQTree.pq_reorder_perm. Qed.
Print Assumptions pq_reorder_perm.

Theorem pq_reorder_sound : forall elems F res,
  incl (concat F) elems -> pq_reorder elems F = Ok res ->
  Permutation F res /\ forall v, Interval (fun s => In v s) res.
Proof. exact Proofs.PQTree.pq_reorder_sound. Qed.
Print Assumptions pq_reorder_sound.

Theorem pq_reorder_sets_check : forall elems F res,
  incl (concat F) elems -> pq_reorder elems F = Ok res -> sets_check F res = true.
Proof. exact Proofs.PQTree.pq_reorder_sets_check. Qed.
Print Assumptions pq_reorder_sets_check.

(* the invariant behind it: set_contiguous v leaves the tree in a v-contiguous form, and every frontier a tree in
   v-contiguous form represents keeps the sets containing v consecutive *)
Theorem pq_CF_sound : forall v t, Proofs.PQTree.CF v t ->
  forall o, Proofs.PQTree.Ord t o -> Interval (fun s => In v s) o.
Proof. exact Proofs.PQTree.CF_sound. Qed.
Print Assumptions pq_CF_sound.

(* chained down: the mirrored solve_consecutive_ones / isC1P / recognisers on top of the mirrored PQ-tree, for
   every matrix and every instance; elems_of F = any visiting order that covers the elements of F *)
Theorem pq_solve_sound : forall elems_of, (forall F, incl (concat F) (elems_of F)) -> forall rows nc perm,
  solve_model (Proofs.PQTree.pq_reorder_fn elems_of) rows nc = Some perm -> c1p_check rows nc perm = true.
Proof. exact Proofs.PQTree.pq_solve_sound. Qed.
Print Assumptions pq_solve_sound.

Theorem pq_isC1P_sound : forall elems_of, (forall F, incl (concat F) (elems_of F)) -> forall rows nc,
  isC1P_model (Proofs.PQTree.pq_reorder_fn elems_of) rows nc = true -> c1p_decide rows nc = true.
Proof. exact Proofs.PQTree.pq_isC1P_sound. Qed.
Print Assumptions pq_isC1P_sound.

Theorem pq_ci_sound : forall elems_of, (forall F, incl (concat F) (elems_of F)) -> forall alts ballots order,
  is_candidate_interval (solve_model (Proofs.PQTree.pq_reorder_fn elems_of)) alts ballots = Some order ->
  ci_check alts ballots order = true.
Proof. exact Proofs.PQTree.pq_ci_sound. Qed.
Print Assumptions pq_ci_sound.
Theorem pq_cei_sound : forall elems_of, (forall F, incl (concat F) (elems_of F)) -> forall alts ballots order,
  is_candidate_extremal_interval (solve_model (Proofs.PQTree.pq_reorder_fn elems_of)) alts ballots = Some order ->
  cei_check alts ballots order = true.
Proof. exact Proofs.PQTree.pq_cei_sound. Qed.
Print Assumptions pq_cei_sound.
Theorem pq_vi_sound : forall elems_of, (forall F, incl (concat F) (elems_of F)) -> forall alts ballots border,
  is_voter_interval (solve_model (Proofs.PQTree.pq_reorder_fn elems_of)) alts ballots = Some border ->
  vi_check alts ballots border = true.
Proof. exact Proofs.PQTree.pq_vi_sound. Qed.
Print Assumptions pq_vi_sound.
Theorem pq_vei_sound : forall elems_of, (forall F, incl (concat F) (elems_of F)) -> forall alts ballots border,
  is_voter_extremal_interval (solve_model (Proofs.PQTree.pq_reorder_fn elems_of)) alts ballots = Some border ->
  vei_check alts ballots border = true.
Proof. exact Proofs.PQTree.pq_vei_sound. Qed.
Print Assumptions pq_vei_sound.
Theorem pq_wsc_sound : forall elems_of, (forall F, incl (concat F) (elems_of F)) -> forall alts ballots border,
  is_weakly_single_crossing (solve_model (Proofs.PQTree.pq_reorder_fn elems_of)) alts ballots = Some border ->
  wsc_check alts ballots border = true.
Proof. exact Proofs.PQTree.pq_wsc_sound. Qed.
Print Assumptions pq_wsc_sound.
Theorem pq_de_sound : forall elems_of, (forall F, incl (concat F) (elems_of F)) -> forall alts ballots w,
  Forall (fun b => incl b alts) ballots ->
  is_dichotomous_euclidean (solve_model (Proofs.PQTree.pq_reorder_fn elems_of)) alts ballots = Some w ->
  de_check alts ballots (fst w) (snd w) = true.
Proof. exact Proofs.PQTree.pq_de_sound. Qed.
Print Assumptions pq_de_sound.

(* COMPLETENESS of the mirror (Proofs/PQTreeComplete.v): if the family has an arrangement in which, for every
   element, the sets containing it are consecutive, pq_reorder returns an answer — whatever the visiting order elems.
   Proof: the step lemma (C) "a frontier of t in which the sets containing v are consecutive is still a frontier of
   the tree set_contiguous v t returns, and set_contiguous does not fail when t has such a frontier" (step_full),
   by induction on the fuel through both passes, with the block-shape theorem for a frontier cut into the blocks of
   the children, the converse of simplify_spec (simplify_complete), the case analyses p_cases_complete /
   q_cases_complete (including the reversal of the children in Q.set_contiguous) and the invariant
   "UNALIGNED => every frontier has a set without v at both ends". *)
Theorem pq_reorder_complete : forall elems F,
  (exists res, SetsOK F res) -> exists res', pq_reorder elems F = Ok res'.
Proof. exact Proofs.PQTreeComplete.pq_reorder_complete. Qed.
Print Assumptions pq_reorder_complete.

(* ValueError only if no arrangement exists *)
Theorem pq_reorder_err : forall elems F,
  pq_reorder elems F = Err ValueErr -> ~ exists res, Permutation F res /\ forall v, Interval (fun s => In v s) res.
Proof. exact Proofs.PQTreeComplete.pq_reorder_err. Qed.
Print Assumptions pq_reorder_err.

(* in terms of the verified checker / reference of the contract *)
Theorem pq_reorder_complete_sets_decide : forall elems F,
  sets_decide F = true -> exists res, pq_reorder elems F = Ok res.
Proof.
  intros elems F H. apply Proofs.PQTreeComplete.pq_reorder_complete. now apply Proofs.C1P.sets_decide_correct.
Qed.
Print Assumptions pq_reorder_complete_sets_decide.

(* the step lemma itself *)
Theorem pq_step_complete : forall f v t o,
  proper t = true -> length (ordering t) <= f -> Proofs.PQTree.Ord t o -> Interval (fun s => In v s) o ->
  exists t' st, set_contiguous f v t = Ok (t', st) /\ Proofs.PQTree.Ord t' o.
Proof. exact Proofs.PQTreeComplete.step_C. Qed.
Print Assumptions pq_step_complete.

(* hence the mirror meets the whole contract of reorder_sets, and everything built on it is sound AND complete *)
Theorem pq_contract : forall elems_of, (forall F, incl (concat F) (elems_of F)) ->
  reorder_contract (Proofs.PQTree.pq_reorder_fn elems_of).
Proof. exact Proofs.PQTreeComplete.pq_contract. Qed.
Print Assumptions pq_contract.

Theorem pq_solve_correct : forall elems_of, (forall F, incl (concat F) (elems_of F)) -> forall rows nc,
  match solve_model (Proofs.PQTree.pq_reorder_fn elems_of) rows nc with
  | Some perm => c1p_check rows nc perm = true
  | None => c1p_decide rows nc = false
  end.
Proof. exact Proofs.PQTreeComplete.pq_solve_correct. Qed.
Print Assumptions pq_solve_correct.

Theorem pq_solve_complete : forall elems_of rows nc,
  c1p_decide rows nc = true -> exists perm, solve_model (Proofs.PQTree.pq_reorder_fn elems_of) rows nc = Some perm.
Proof. exact Proofs.PQTreeComplete.pq_solve_complete. Qed.
Print Assumptions pq_solve_complete.

Theorem pq_isC1P_correct : forall elems_of, (forall F, incl (concat F) (elems_of F)) -> forall rows nc,
  isC1P_model (Proofs.PQTree.pq_reorder_fn elems_of) rows nc = c1p_decide rows nc.
Proof. exact Proofs.PQTreeComplete.pq_isC1P_correct. Qed.
Print Assumptions pq_isC1P_correct.

Theorem pq_isC1P_complete : forall elems_of rows nc,
  c1p_decide rows nc = true -> isC1P_model (Proofs.PQTree.pq_reorder_fn elems_of) rows nc = true.
Proof. exact Proofs.PQTreeComplete.pq_isC1P_complete. Qed.
Print Assumptions pq_isC1P_complete.

Theorem pq_ci_complete : forall elems_of, (forall F, incl (concat F) (elems_of F)) -> forall alts ballots,
  match is_candidate_interval (solve_model (Proofs.PQTree.pq_reorder_fn elems_of)) alts ballots with
  | Some order => ci_check alts ballots order = true | None => ~ CI alts ballots end.
Proof. exact Proofs.PQTreeComplete.pq_ci_correct. Qed.
Print Assumptions pq_ci_complete.
Theorem pq_cei_complete : forall elems_of, (forall F, incl (concat F) (elems_of F)) -> forall alts ballots,
  match is_candidate_extremal_interval (solve_model (Proofs.PQTree.pq_reorder_fn elems_of)) alts ballots with
  | Some order => cei_check alts ballots order = true | None => ~ CEI alts ballots end.
Proof. exact Proofs.PQTreeComplete.pq_cei_correct. Qed.
Print Assumptions pq_cei_complete.
Theorem pq_vi_complete : forall elems_of, (forall F, incl (concat F) (elems_of F)) -> forall alts ballots,
  match is_voter_interval (solve_model (Proofs.PQTree.pq_reorder_fn elems_of)) alts ballots with
  | Some border => vi_check alts ballots border = true | None => ~ VI alts ballots end.
Proof. exact Proofs.PQTreeComplete.pq_vi_correct. Qed.
Print Assumptions pq_vi_complete.
Theorem pq_vei_complete : forall elems_of, (forall F, incl (concat F) (elems_of F)) -> forall alts ballots,
  match is_voter_extremal_interval (solve_model (Proofs.PQTree.pq_reorder_fn elems_of)) alts ballots with
  | Some border => vei_check alts ballots border = true | None => ~ VEI alts ballots end.
Proof. exact Proofs.PQTreeComplete.pq_vei_correct. Qed.
Print Assumptions pq_vei_complete.
Theorem pq_wsc_complete : forall elems_of, (forall F, incl (concat F) (elems_of F)) -> forall alts ballots,
  match is_weakly_single_crossing (solve_model (Proofs.PQTree.pq_reorder_fn elems_of)) alts ballots with
  | Some border => wsc_check alts ballots border = true | None => ~ WSC alts ballots end.
Proof. exact Proofs.PQTreeComplete.pq_wsc_correct. Qed.
Print Assumptions pq_wsc_complete.
Theorem pq_de_complete : forall elems_of, (forall F, incl (concat F) (elems_of F)) -> forall alts ballots,
  Forall (fun b => incl b alts) ballots ->
  match is_dichotomous_euclidean (solve_model (Proofs.PQTree.pq_reorder_fn elems_of)) alts ballots with
  | Some w => de_check alts ballots (fst w) (snd w) = true | None => ~ DE alts ballots end.
Proof. exact Proofs.PQTreeComplete.pq_de_correct. Qed.
Print Assumptions pq_de_complete.

Example pq_nonvacuous :
  pq_reorder [0;1;2;3] [[0;1];[2;3];[1;2];[3];[]] = Ok [[]; [0;1]; [1;2]; [2;3]; [3]] /\
  pq_reorder [0;1;2] [[0;1];[1;2];[0;2]] = Err ValueErr /\
  pq_reorder [0;1;2;3;4] [[1;2;4];[1;3;4];[0;1];[0]] = Ok [[0]; [0;1]; [1;2;4]; [1;3;4]].
Proof. repeat split; vm_compute; reflexivity. Qed.

(* ---- non-vacuity ---- *)
Example c1p_nonvacuous :
  c1p_decide [[true;false;true;false];[false;true;true;false];[false;false;false;false];[true;false;true;false]] 4 = true /\
  c1p_check [[true;false;true;false];[false;true;true;false];[false;false;false;false];[true;false;true;false]] 4 [0;2;1;3] = true /\
  c1p_decide [[true;true;false];[false;true;true];[true;false;true]] 3 = false /\
  (* the mirrored solver with the reference arrangement search, on a matrix with repeated and all-zero columns *)
  solve_model (fun F => find (sets_check F) (perms F))
    [[true;false;true;false;true];[false;false;true;false;false];[true;false;true;false;true]] 5 = Some [1;3;0;4;2] /\
  isC1P_model (fun F => find (sets_check F) (perms F)) [[true;true;false];[false;true;true];[true;false;true]] 3 = false.
Proof. repeat split; vm_compute; reflexivity. Qed.

Example approval_nonvacuous :
  let alts := [5;3;9]%N in
  let ballots := [[5;9];[3;9];[];[5;3;9];[5;9]]%N in
  ci_decide alts ballots = true /\ ci_check alts ballots [3;9;5]%N = true /\
  cei_decide alts ballots = true /\ vi_decide alts ballots = true /\ vei_decide alts ballots = false /\
  wsc_check alts ballots [2;3;1;0;4] = true /\
  de_check alts ballots (fst (de_construct ballots [3;9;5]%N)) (snd (de_construct ballots [3;9;5]%N)) = true /\
  is_part ballots = None /\
  ci_decide [1;2;3]%N [[1;2];[2;3];[1;3]]%N = false /\
  is_part [[1;2];[3;4];[2;1]]%N = Some [[1;2];[3;4]]%N /\
  is_2_part [1;2;3;4]%N [[1;2];[3;4];[2;1]]%N = Some [[1;2];[3;4]]%N /\
  is_2_part [1;2;3;4]%N [[1;2];[3]]%N = None /\
  part2_decide [1;2;3;4]%N [[1;2];[3;4];[2;1]]%N = true.
Proof. vm_compute. repeat split; reflexivity. Qed.
