(* Ops/C10.v — protocol entry points for property C10 (Model/Entry.v).

   class      ::= 0 (OrdinalInstance) | 1 (CategoricalInstance) | 2 (MatchingInstance)
   entrypoint ::= 0 (parse_file: readlines) | 1 (parse_str: splitlines) | 2 (parse_url: stripped splitlines)
   instance   ::= (0 <ordinal instance as in Ops/C01.v>) | (1 <categorical instance as in Ops/C08.v>)
                | (2 <matching instance as in Ops/C09.v: weights are raw tokens>)
   style      ::= (lead (gap ...) trail term)      term ::= 0 (LF) | 1 (CR LF) | 2 (CR)

   c10.parse    (class entrypoint data_type autocorrect header_only content) -> result instance
   c10.get      (ext autocorrect header_only content)                        -> result instance    get_parsed_instance
   c10.dispatch ext                                                          -> result class
   c10.validate (class data_type)                                            -> bool               type_validator
   c10.restyle  ((style ...) content)                                        -> (wf_pad  restyled content)
                the style list is applied cyclically to the lines of the content
   c10.header   instance                                                     -> instance           header_of
   c10.parse_header (class entrypoint data_type autocorrect content)         -> result instance    header_of (full parse) *)
From Coq Require Import List ZArith NArith String.
From PrefVerif Require Import Lib.Val Lib.Dec Lib.PyStr Model.Meta Model.OrdIO Model.CatIO Model.WmdIO Model.Entry.
From PrefVerif Require Ops.C01 Ops.C08 Ops.C09.
Import ListNotations.
Open Scope string_scope.

Definition d_text (v : val) : text := dlist dN v.
Definition e_text (t : text) : val := elist eN t.

Definition d_cls (v : val) : cls := match dnat v with O => COrd | 1%nat => CCat | _ => CWmd end.
Definition e_cls (c : cls) : val := match c with COrd => VI 0%Z | CCat => VI 1%Z | CWmd => VI 2%Z end.
Definition d_entry (v : val) : entry := match dnat v with O => EFile | 1%nat => EStr | _ => EUrl end.

Definition e_inst (i : inst) : val :=
  match i with
  | IOrd o => VL [VI 0%Z; Ops.C01.e_inst o]
  | ICat c => VL [VI 1%Z; Ops.C08.e_cinst c]
  | IWmd w => VL [VI 2%Z; Ops.C09.e_inst w]
  end.
Definition d_inst (v : val) : inst :=
  match dnat (dnth 0 v) with
  | O => IOrd (Ops.C01.d_inst (dnth 1 v))
  | 1%nat => ICat (Ops.C08.d_cinst (dnth 1 v))
  | _ => IWmd (Ops.C09.d_inst (dnth 1 v))
  end.

Definition op_parse (v : val) : val :=
  eresult e_inst (parse_entry (d_entry (dnth 1 v)) (d_cls (dnth 0 v)) (d_text (dnth 2 v))
                              (mkFlags (dbool (dnth 3 v)) (dbool (dnth 4 v))) (d_text (dnth 5 v))).

Definition op_get (v : val) : val :=
  eresult e_inst (get_parsed_instance_model (d_text (dnth 0 v)) (mkFlags (dbool (dnth 1 v)) (dbool (dnth 2 v)))
                                            (d_text (dnth 3 v))).

Definition op_dispatch (v : val) : val :=
  eresult e_cls (match class_of_ext (d_text v) with Some c => Ok c | None => Err TypeErr end).

Definition op_validate (v : val) : val := ebool (type_validator (d_cls (dnth 0 v)) (d_text (dnth 1 v))).

Definition d_eol (v : val) : eol := match dnat v with O => LF | 1%nat => CRLF | _ => CR end.
Definition d_style (v : val) : linestyle :=
  mkStyle (d_text (dnth 0 v)) (dlist dnat (dnth 1 v)) (d_text (dnth 2 v)) (d_eol (dnth 3 v)).

(* the first n elements of the infinite repetition of l *)
Fixpoint cycle_aux {T} (l cur : list T) (n : nat) : list T :=
  match n with
  | O => []
  | S n' => match cur with
            | x :: r => x :: cycle_aux l r n'
            | [] => match l with x :: r => x :: cycle_aux l r n' | [] => [] end
            end
  end.
Definition cycle {T} (l : list T) (n : nat) : list T := cycle_aux l l n.

Definition op_restyle (v : val) : val :=
  let t := d_text (dnth 1 v) in
  let pads := cycle (dlist d_style (dnth 0 v)) (List.length (lf_lines t)) in
  VL [ebool (wf_pad pads); e_text (restyle pads t)].

Definition op_header (v : val) : val := e_inst (header_of (d_inst v)).

(* c10.parse_header (class entrypoint data_type autocorrect content) -> result instance :
   header_of (the full parse, header_only = False) *)
Definition op_parse_header (v : val) : val :=
  eresult e_inst (rmap header_of (parse_entry (d_entry (dnth 1 v)) (d_cls (dnth 0 v)) (d_text (dnth 2 v))
                                              (mkFlags (dbool (dnth 3 v)) false) (d_text (dnth 4 v)))).

(* c10.parse_path (class entrypoint path_or_url autocorrect header_only content) -> result instance
   entrypoint 0 = parse_file(path), 2 = parse_url(url), 3 = get_parsed_instance(path): the declared type is derived
   from the path / URL as the entry point does *)
Definition op_parse_path (v : val) : val :=
  let c := d_cls (dnth 0 v) in
  let p := d_text (dnth 2 v) in
  let f := mkFlags (dbool (dnth 3 v)) (dbool (dnth 4 v)) in
  let t := d_text (dnth 5 v) in
  eresult e_inst (match dnat (dnth 1 v) with
                  | O => parse_file_path c p f t
                  | 2%nat => parse_url_url c p f t
                  | _ => get_parsed_instance_path p f t
                  end).
(* c10.declared (path url) -> (splitext_ext path, url_ext url) *)
Definition op_declared (v : val) : val :=
  VL [e_text (splitext_ext (d_text (dnth 0 v))); e_text (url_ext (d_text (dnth 1 v)))].

Definition ops : optable :=
  [ ("c10.parse", op_parse); ("c10.get", op_get); ("c10.dispatch", op_dispatch); ("c10.validate", op_validate);
    ("c10.restyle", op_restyle); ("c10.header", op_header); ("c10.parse_header", op_parse_header);
    ("c10.parse_path", op_parse_path); ("c10.declared", op_declared) ].
