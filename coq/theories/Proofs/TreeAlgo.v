(* Proofs/TreeAlgo.v — C13, deepening: the mirror of Trick's leaf-elimination loop (Model/TreeAlgo.v)
   terminates, is sound and is complete, for every admissible way of iterating the two Python sets. *)
From Coq Require Import List NArith Bool Arith Lia Permutation.
From PrefVerif Require Import Lib.Val Model.Tree Model.TreeAlgo Proofs.Tree.
Import ListNotations.

(* ------------------------------------------------------------------------------------------------ *)
(** * Lists: restrict, drop, before, last *)

Lemma restrict_in C v x : In x (restrict C v) <-> In x v /\ In x C.
Proof. unfold restrict. rewrite filter_In, memb_iff. tauto. Qed.

Lemma drop_in a C x : In x (drop a C) <-> In x C /\ x <> a.
Proof. unfold drop. rewrite filter_In, negb_true_iff, N.eqb_neq. tauto. Qed.

Lemma memb_drop a C x : memb x (drop a C) = memb x C && negb (N.eqb x a).
Proof.
  apply bool_eq_iff. rewrite andb_true_iff, !memb_iff, drop_in, negb_true_iff, N.eqb_neq. tauto.
Qed.

Lemma filter_filter_and {A} (f g : A -> bool) l :
  filter f (filter g l) = filter (fun x => g x && f x) l.
Proof.
  induction l as [|x l IH]; cbn; [reflexivity|].
  destruct (g x); cbn; [destruct (f x); rewrite IH; reflexivity|exact IH].
Qed.

Lemma restrict_drop a C v : restrict (drop a C) v = drop a (restrict C v).
Proof.
  unfold restrict, drop at 2. rewrite filter_filter_and. apply filter_ext. intros x. apply memb_drop.
Qed.

Lemma drop_cons a x l : drop a (x :: l) = if N.eqb x a then drop a l else x :: drop a l.
Proof. unfold drop. cbn. destruct (N.eqb x a); reflexivity. Qed.

Lemma drop_notin a l : ~ In a l -> drop a l = l.
Proof.
  induction l as [|x l IH]; intros H; [reflexivity|]. rewrite drop_cons.
  destruct (N.eqb_spec x a) as [->|Hn].
  - exfalso. apply H. left; reflexivity.
  - rewrite IH; [reflexivity|]. intros Hin. apply H. right; exact Hin.
Qed.

Lemma drop_length a C : NoDup C -> In a C -> length C = S (length (drop a C)).
Proof.
  induction 1 as [|x C Hx Hnd IH]; intros Hin; [destruct Hin|]. rewrite drop_cons.
  destruct (N.eqb_spec x a) as [->|Hn]; cbn [length].
  - rewrite drop_notin by exact Hx. reflexivity.
  - destruct Hin as [->|Hin]; [contradiction|]. rewrite <- IH by exact Hin. reflexivity.
Qed.

Lemma filter_len_le {A} (f : A -> bool) l : length (filter f l) <= length l.
Proof. induction l as [|x l IH]; cbn; [lia|]. destruct (f x); cbn; lia. Qed.

Lemma filter_shorter {A} (f : A -> bool) l a : In a l -> f a = false -> length (filter f l) < length l.
Proof.
  induction l as [|x l IH]; intros Hin Hf; [destruct Hin|]. cbn.
  pose proof (filter_len_le f l) as Hle.
  destruct Hin as [->|Hin].
  - rewrite Hf. lia.
  - specialize (IH Hin Hf). destruct (f x); cbn; lia.
Qed.

Lemma restrict_all C v : incl v C -> restrict C v = v.
Proof.
  induction v as [|x v IH]; intros Hi; [reflexivity|].
  assert (Hx : memb x C = true) by (apply memb_iff; apply Hi; left; reflexivity).
  unfold restrict in *. cbn [filter]. rewrite Hx, IH; [reflexivity|]. intros y Hy. apply Hi. right; exact Hy.
Qed.

Lemma firstn_In' {A} k (l : list A) x : In x (firstn k l) -> In x l.
Proof.
  revert l. induction k as [|k IH]; intros l H; [destruct H|]. destruct l as [|y l]; [destruct H|].
  cbn in H. destruct H as [->|H]; [left; reflexivity|right; auto].
Qed.

Lemma nonempty_in {A} (l : list A) : l <> [] -> exists x, In x l.
Proof. destruct l as [|x l]; [contradiction|]. intros _. exists x. left; reflexivity. Qed.

Lemma last_in (r : list N) y : In (last r y) (y :: r).
Proof.
  destruct r as [|x r0] eqn:E; [left; reflexivity|]. rewrite <- E.
  destruct (exists_last (l := r)) as (r' & z & ->); [rewrite E; discriminate|].
  rewrite last_last. right. apply in_or_app. right. left; reflexivity.
Qed.

Lemma before_incl a r x : In x (before a r) -> In x r.
Proof.
  induction r as [|y r IH]; cbn; [tauto|]. destruct (N.eqb y a); [intros []|].
  intros [->|H]; auto.
Qed.

Lemma before_notin a r : ~ In a (before a r).
Proof.
  induction r as [|y r IH]; cbn; [tauto|]. destruct (N.eqb_spec y a) as [->|Hn]; [tauto|].
  intros [H|H]; [congruence|auto].
Qed.

Lemma B_i_incl a r x : In x (B_i a r) -> In x r.
Proof.
  destruct r as [|t r]; cbn [B_i]; [tauto|]. destruct (N.eqb a t).
  - intros H. right. destruct r as [|s r]; cbn in H; [destruct H|]. destruct H as [->|[]]. left; reflexivity.
  - apply before_incl.
Qed.

Lemma B_i_neq a r x : NoDup r -> In x (B_i a r) -> x <> a.
Proof.
  intros Hnd. destruct r as [|t r]; cbn [B_i]; [tauto|]. destruct (N.eqb_spec a t) as [->|Hn].
  - intros H ->. destruct r as [|s r]; cbn in H; [destruct H|]. destruct H as [->|[]].
    inversion Hnd as [|? ? Hnot _]. apply Hnot. left; reflexivity.
  - intros H ->. exact (before_notin _ _ H).
Qed.

Lemma inter_in l1 l2 x : In x (inter l1 l2) <-> In x l1 /\ In x l2.
Proof. unfold inter. rewrite filter_In, memb_iff. tauto. Qed.

(* ------------------------------------------------------------------------------------------------ *)
(** * get_B computes (a list representing) the intersection of the B(i, a) *)

Lemma get_B_from_sound a rs : forall acc B x,
  get_B_from acc a rs = Some B -> In x B ->
  (forall r, In r rs -> In x (B_i a r)) /\ (forall B0, acc = Some B0 -> In x B0).
Proof.
  induction rs as [|r rs IH]; intros acc B x Hg Hx; cbn in Hg.
  - split; [intros r []|]. intros B0 ->. injection Hg as ->. exact Hx.
  - destruct (IH _ _ _ Hg Hx) as [H1 H2]. specialize (H2 _ eq_refl).
    destruct acc as [B0|].
    + apply inter_in in H2. destruct H2 as [H2 H3]. split.
      * intros r' [<-|Hr']; auto.
      * intros B1 E. injection E as <-. exact H2.
    + split; [|discriminate]. intros r' [<-|Hr']; auto.
Qed.

Lemma get_B_from_complete a rs : forall acc x,
  (forall r, In r rs -> In x (B_i a r)) -> (forall B0, acc = Some B0 -> In x B0) ->
  (acc <> None \/ rs <> []) ->
  exists B, get_B_from acc a rs = Some B /\ In x B.
Proof.
  induction rs as [|r rs IH]; intros acc x Hr Hacc Hne; cbn.
  - destruct acc as [B0|]; [exists B0; auto|]. destruct Hne; contradiction.
  - apply IH.
    + intros r' Hr'. apply Hr. right; exact Hr'.
    + intros B1 E. injection E as <-. destruct acc as [B0|].
      * apply inter_in. split; [apply Hacc; reflexivity|apply Hr; left; reflexivity].
      * apply Hr. left; reflexivity.
    + left. discriminate.
Qed.

Lemma get_B_sound p C a B x :
  get_B p C a = Some B -> In x B -> forall v, In v p -> In x (B_i a (restrict C v)).
Proof.
  unfold get_B. intros Hg Hx v Hv. destruct (get_B_from_sound _ _ _ _ _ Hg Hx) as [H _].
  apply H. apply in_map. exact Hv.
Qed.

(* ------------------------------------------------------------------------------------------------ *)
(** * Monotonicity of the one-pass vote test *)

Lemma connected_adj_mono_local T T' S :
  (forall u w, adj T u w -> adj T' u w) -> connected T S -> connected T' S.
Proof. intros Ha Hc u w Hu Hw. eapply path_adj_mono; [exact Ha|apply Hc; assumption]. Qed.

Lemma near_mono T T' seen seen' x :
  incl seen seen' -> (forall u w, adj T u w -> adj T' u w) -> near T seen x = true -> near T' seen' x = true.
Proof.
  intros Hi Ha H. apply near_iff in H. apply near_iff. destruct H as [H|(r & Hr & Hadj)]; [left; auto|].
  right. exists r. split; auto.
Qed.

Lemma attach_ok_mono T T' v : forall seen seen',
  incl seen seen' -> (forall u w, adj T u w -> adj T' u w) ->
  attach_ok T seen v = true -> attach_ok T' seen' v = true.
Proof.
  induction v as [|x v IH]; intros seen seen' Hi Ha H; cbn in *; [reflexivity|].
  apply andb_true_iff in H. destruct H as [H1 H2]. apply andb_true_iff. split.
  - eapply near_mono; eauto.
  - eapply IH; [|exact Ha|exact H2]. intros y [<-|Hy]; [left; reflexivity|right; auto].
Qed.

(* ------------------------------------------------------------------------------------------------ *)
(** * Adding the removed alternative a back as a leaf next to b keeps every vote prefix connected *)

Section AddLeaf.
Variables (a b : N) (T0 : list edge).
Let T1 : list edge := (b, a) :: T0.

Lemma adj_T0_T1 u w : adj T0 u w -> adj T1 u w.
Proof. unfold adj, T1. cbn. tauto. Qed.

Lemma adj_b_a : adj T1 b a.
Proof. left. left. reflexivity. Qed.

(* once a has been seen *)
Lemma attach_after r : forall seen0 seen,
  incl seen0 seen -> In a seen -> attach_ok T0 seen0 (drop a r) = true -> attach_ok T1 seen r = true.
Proof.
  induction r as [|x r IH]; intros seen0 seen Hi Ha H; [reflexivity|].
  cbn [drop filter] in H. cbn [attach_ok]. apply andb_true_iff.
  destruct (N.eqb_spec x a) as [->|Hn]; cbn [negb] in H.
  - split; [apply near_iff; left; exact Ha|].
    eapply IH; [|left; reflexivity|exact H]. intros y Hy. right; auto.
  - cbn [attach_ok] in H. apply andb_true_iff in H. destruct H as [H1 H2]. split.
    + eapply near_mono; [exact Hi|exact adj_T0_T1|exact H1].
    + eapply IH; [|right; exact Ha|exact H2]. intros y [<-|Hy]; [left; reflexivity|right; auto].
Qed.

(* before a has been seen: b is among the alternatives ranked before a *)
Lemma attach_before r : forall seen0 seen,
  incl seen0 seen -> In b seen0 \/ In b (before a r) ->
  attach_ok T0 seen0 (drop a r) = true -> attach_ok T1 seen r = true.
Proof.
  induction r as [|x r IH]; intros seen0 seen Hi Hb H; [reflexivity|].
  cbn [drop filter] in H. cbn [before] in Hb. cbn [attach_ok]. apply andb_true_iff.
  destruct (N.eqb_spec x a) as [->|Hn]; cbn [negb] in H.
  - destruct Hb as [Hb|[]]. split.
    + apply near_iff. right. exists b. split; [apply Hi; exact Hb|exact adj_b_a].
    + eapply attach_after; [|left; reflexivity|exact H]. intros y Hy. right; auto.
  - cbn [attach_ok] in H. apply andb_true_iff in H. destruct H as [H1 H2]. split.
    + eapply near_mono; [exact Hi|exact adj_T0_T1|exact H1].
    + eapply IH; [| |exact H2].
      * intros y [<-|Hy]; [left; reflexivity|right; auto].
      * destruct Hb as [Hb|[Hb|Hb]]; [left; right; exact Hb|left; left; exact Hb|right; exact Hb].
Qed.

Lemma vote_add_leaf r :
  b <> a -> In b (B_i a r) -> vote_ok T0 (drop a r) = true -> vote_ok T1 r = true.
Proof.
  intros Hba Hb H. destruct r as [|t r]; [destruct Hb|]. cbn [B_i] in Hb.
  destruct (N.eqb_spec a t) as [<-|Hn].
  - (* a on top, b second *)
    destruct r as [|s r]; cbn in Hb; [destruct Hb|]. destruct Hb as [->|[]].
    cbn [drop filter] in H. rewrite N.eqb_refl in H. cbn [negb] in H.
    destruct (N.eqb_spec b a) as [E|_]; [contradiction|]. cbn [negb vote_ok] in H.
    cbn [vote_ok attach_ok]. apply andb_true_iff. split.
    + apply near_iff. right. exists a. split; [left; reflexivity|apply adj_sym; exact adj_b_a].
    + eapply attach_after; [|right; left; reflexivity|exact H].
      intros y [<-|[]]. left; reflexivity.
  - cbn [drop filter] in H. destruct (N.eqb_spec t a) as [E|_]; [congruence|]. cbn [negb vote_ok] in H.
    cbn [vote_ok]. cbn [before] in Hb. destruct (N.eqb_spec t a) as [E|_]; [congruence|].
    eapply attach_before; [apply incl_refl| |exact H].
    destruct Hb as [->|Hb]; [left; left; reflexivity|right; exact Hb].
Qed.
End AddLeaf.

(* ------------------------------------------------------------------------------------------------ *)
(** * Small trees *)

Lemma connected_sub_single T x S : (forall z, In z S -> z = x) -> connected T S.
Proof.
  intros H u w Hu Hw. rewrite (H _ Hw), <- (H _ Hu). apply path_refl. exact Hu.
Qed.

Lemma connected_sub_pair x y S : (forall z, In z S -> z = x \/ z = y) -> connected [(x, y)] S.
Proof.
  intros H u w Hu Hw. destruct (N.eq_dec u w) as [->|Hn]; [apply path_refl; exact Hw|].
  eapply path_step; [exact Hu| |apply path_refl; exact Hw].
  unfold adj. cbn. destruct (H _ Hu) as [->| ->], (H _ Hw) as [->| ->]; try congruence; auto.
Qed.

(* ------------------------------------------------------------------------------------------------ *)
(** * The run *)

Section Run.
Variable alts : list N.
Variable p : list (list N).
Hypothesis Hnd : NoDup alts.
Hypothesis Hp : forall v, In v p -> Permutation alts v.

Variable enumL : list N -> list N -> list N.
Variable pickB : list N -> N -> list N -> N.
Hypothesis Henum : forall C l, NoDup (enumL C l) /\ forall x, In x (enumL C l) <-> In x l.
Hypothesis Hpick : forall C a B, B <> [] -> In (pickB C a B) B.

Lemma vote_nodup v : In v p -> NoDup v.
Proof. intros Hv. eapply Permutation_NoDup; [apply Hp; exact Hv|exact Hnd]. Qed.

Lemma vote_incl v : In v p -> incl v alts.
Proof. intros Hv x Hx. eapply Permutation_in; [apply Permutation_sym; apply Hp; exact Hv|exact Hx]. Qed.

Lemma vote_full v x : In v p -> In x alts -> In x v.
Proof. intros Hv Hx. eapply Permutation_in; [apply Hp; exact Hv|exact Hx]. Qed.

Lemma restrict_nodup C v : In v p -> NoDup (restrict C v).
Proof. intros Hv. apply NoDup_filter. apply vote_nodup. exact Hv. Qed.

Lemma restrict_alts_profile : map (restrict alts) p = p.
Proof.
  rewrite <- (map_id p) at 2. apply map_ext_in. intros v Hv. apply restrict_all. apply vote_incl. exact Hv.
Qed.

(* T0 is a witness for the profile restricted to C *)
Definition good (C : list N) (T0 : list edge) : Prop := spt_spec C (map (restrict C) p) T0.

Lemma good_vote C T0 v : good C T0 -> In v p -> vote_ok T0 (restrict C v) = true.
Proof. intros [_ H] Hv. apply vote_ok_iff. apply H. apply in_map. exact Hv. Qed.

Lemma good_same_graph C T T' : same_graph T T' -> good C T -> good C T'.
Proof. apply spt_spec_same_graph. Qed.

Lemma good_add_leaf C a b T0 :
  NoDup C -> In a C -> In b C -> b <> a ->
  (forall v, In v p -> In b (B_i a (restrict C v))) ->
  good (drop a C) T0 -> good C ((b, a) :: T0).
Proof.
  intros HC Ha Hb Hba HB Hg. pose proof Hg as [(Hlen & Hwf & Hconn) _]. split; [split; [|split]|].
  - cbn. rewrite <- Hlen. apply drop_length; assumption.
  - constructor.
    + unfold edge_wf. cbn. auto.
    + eapply Forall_impl; [|exact Hwf]. intros e (H1 & H2 & H3).
      apply drop_in in H1. apply drop_in in H2. unfold edge_wf. tauto.
  - eapply connected_ext with (S := a :: drop a C).
    + intros x [<-|Hx]; [exact Ha|]. apply drop_in in Hx. tauto.
    + intros x Hx. destruct (N.eq_dec x a) as [->|Hn]; [left; reflexivity|right; apply drop_in; auto].
    + apply conn_add.
      * eapply connected_adj_mono_local; [|exact Hconn]. apply adj_T0_T1.
      * apply near_iff. right. exists b. split; [apply drop_in; auto|apply adj_b_a].
  - intros v' Hv'. apply in_map_iff in Hv'. destruct Hv' as (v & <- & Hv).
    apply vote_ok_iff. apply vote_add_leaf; [exact Hba|apply HB; exact Hv|].
    rewrite <- restrict_drop. apply good_vote; assumption.
Qed.

(* the invariant of the run: C is the current C_set, T the edges appended so far *)
Definition Inv (C : list N) (T : list edge) : Prop :=
  NoDup C /\ incl C alts /\ C <> [] /\ forall T0, good C T0 -> good alts (T ++ T0).

Lemma Inv_init : alts <> [] -> Inv alts [].
Proof. intros Hne. split; [exact Hnd|]. split; [apply incl_refl|]. split; [exact Hne|]. intros T0 H; exact H. Qed.

Lemma pass_inv L : forall C T C' T',
  NoDup L -> incl L C -> Inv C T -> pass pickB p L C T = Some (C', T') -> Inv C' T'.
Proof.
  induction L as [|a L IH]; intros C T C' T' HL Hi HI Hpass; cbn in Hpass.
  - injection Hpass as <- <-. exact HI.
  - destruct (get_B p C a) as [[|b0 B']|] eqn:EB; try discriminate.
    set (B := b0 :: B') in *. set (b := pickB C a B) in *.
    assert (HbB : In b B) by (apply Hpick; discriminate).
    destruct HI as (HC & HCa & HCne & Hext).
    inversion HL as [|? ? HaL HL']; subst.
    assert (HaC : In a C) by (apply Hi; left; reflexivity).
    assert (Hpne : p <> []).
    { intros E. unfold get_B in EB. rewrite E in EB. cbn in EB. discriminate. }
    destruct (nonempty_in _ Hpne) as (v0 & Hv0).
    assert (HbC : In b C).
    { pose proof (get_B_sound _ _ _ _ _ EB HbB v0 Hv0) as H. apply B_i_incl in H.
      apply restrict_in in H. tauto. }
    assert (Hba : b <> a).
    { eapply B_i_neq; [apply (restrict_nodup C v0 Hv0)|]. eapply get_B_sound; eauto. }
    eapply IH; [exact HL'| | |exact Hpass].
    + intros x Hx. apply drop_in. split; [apply Hi; right; exact Hx|]. intros ->. contradiction.
    + split; [apply NoDup_filter; exact HC|]. split.
      { intros x Hx. apply drop_in in Hx. apply HCa. tauto. }
      split.
      { intros E. assert (H : In b (drop a C)) by (apply drop_in; auto). rewrite E in H. destruct H. }
      intros T0 HT0.
      eapply good_same_graph; [|apply Hext; apply (good_add_leaf C a b T0); auto].
      * apply same_graph_perm. cbn. apply Permutation_sym. apply Permutation_middle.
      * intros v Hv. eapply get_B_sound; eauto.
Qed.

Lemma bottoms_in C x : In x (bottoms p C) -> In x C.
Proof.
  unfold bottoms. rewrite in_flat_map. intros (v & Hv & Hx).
  destruct (restrict C v) as [|y r] eqn:E; [destruct Hx|]. destruct Hx as [<-|[]].
  pose proof (last_in r y) as H. rewrite <- E in H. apply restrict_in in H. tauto.
Qed.

Lemma finish_good C T : Inv C T -> length C < 3 -> spt_spec alts p (finish C T).
Proof.
  intros (HC & HCa & HCne & Hext) Hlen. rewrite <- restrict_alts_profile. fold (good alts (finish C T)).
  destruct C as [|x [|y [|z C]]]; [contradiction| | |cbn in Hlen; lia].
  - (* one alternative left *)
    eapply good_same_graph; [|apply (Hext [])].
    + apply same_graph_perm. cbn. rewrite app_nil_r. apply Permutation_rev.
    + split; [split; [reflexivity|split; [constructor|apply connected_single]]|].
      intros v' Hv' k. apply in_map_iff in Hv'. destruct Hv' as (v & <- & Hv).
      apply (connected_sub_single _ x). intros z Hz. apply firstn_In' in Hz. apply restrict_in in Hz.
      destruct Hz as [_ [Hz|[]]]. congruence.
  - (* two alternatives left: the last edge *)
    assert (Hxy : x <> y).
    { inversion HC as [|? ? Hnot _]. intros ->. apply Hnot. left; reflexivity. }
    eapply good_same_graph; [|apply (Hext [(x, y)])].
    + apply same_graph_perm. cbn [finish]. cbn [rev].
      apply Permutation_app_tail. apply Permutation_rev.
    + split; [split; [reflexivity|split]|].
      * constructor; [|constructor]. unfold edge_wf. cbn. auto.
      * apply connected_sub_pair. intros z [<-|[<-|[]]]; auto.
      * intros v' Hv' k. apply in_map_iff in Hv'. destruct Hv' as (v & <- & Hv).
        apply connected_sub_pair. intros z Hz. apply firstn_In' in Hz. apply restrict_in in Hz.
        destruct Hz as [_ [Hz|[Hz|[]]]]; auto.
Qed.

Lemma loop_sound fuel : forall C T E,
  Inv C T -> loop enumL pickB fuel p C T = Ok (true, E) -> spt_spec alts p E.
Proof.
  induction fuel as [|f IH]; intros C T E HI Hl; cbn [loop] in Hl;
    destruct (Nat.ltb_spec (length C) 3) as [Hlt|Hge].
  - injection Hl as <-. apply finish_good; assumption.
  - discriminate.
  - injection Hl as <-. apply finish_good; assumption.
  - destruct (pass pickB p (enumL C (bottoms p C)) C T) as [[C' T']|] eqn:Epass; [|discriminate].
    eapply IH; [|exact Hl]. eapply pass_inv; [| |exact HI|exact Epass].
    + apply Henum.
    + intros x Hx. apply Henum in Hx. apply bottoms_in. exact Hx.
Qed.

Theorem trick_sound E :
  alts <> [] -> trick enumL pickB alts p = Ok (true, E) -> spt_check alts p E = true.
Proof.
  intros Hne H. apply spt_check_correct. eapply loop_sound; [apply Inv_init; exact Hne|exact H].
Qed.

(* ---- termination: the fuel is never exhausted ---- *)
Lemma pass_C L : forall C T C' T',
  pass pickB p L C T = Some (C', T') -> C' = filter (fun x => negb (memb x L)) C.
Proof.
  induction L as [|a L IH]; intros C T C' T' H; cbn in H.
  - injection H as <- _. cbn. clear. induction C; cbn; congruence.
  - destruct (get_B p C a) as [[|b0 B']|]; try discriminate.
    apply IH in H. rewrite H. unfold drop. rewrite filter_filter_and. apply filter_ext.
    intros x. unfold memb. cbn [existsb]. rewrite negb_orb. reflexivity.
Qed.

Lemma bottoms_nonempty C x : p <> [] -> In x C -> incl C alts -> bottoms p C <> [].
Proof.
  intros Hpne Hx HC. destruct (nonempty_in _ Hpne) as (v & Hv).
  assert (Hr : In x (restrict C v)) by (apply restrict_in; split; [apply vote_full; auto|exact Hx]).
  intros E. destruct (restrict C v) as [|y r] eqn:Er; [destruct Hr|].
  assert (H : In (last r y) (bottoms p C)).
  { unfold bottoms. apply in_flat_map. exists v. split; [exact Hv|]. rewrite Er. left; reflexivity. }
  rewrite E in H. destruct H.
Qed.

Lemma loop_terminates fuel : forall C T,
  p <> [] -> incl C alts -> length C <= fuel + 2 -> loop enumL pickB fuel p C T <> Err OutOfFuel.
Proof.
  induction fuel as [|f IH]; intros C T Hpne HC Hlen; cbn [loop];
    destruct (Nat.ltb_spec (length C) 3) as [Hlt|Hge]; try discriminate; [lia|].
  destruct (pass pickB p (enumL C (bottoms p C)) C T) as [[C' T']|] eqn:Epass; [|discriminate].
  pose proof (pass_C _ _ _ _ _ Epass) as EC.
  apply IH; [exact Hpne| |].
  - rewrite EC. intros x Hx. apply filter_In in Hx. apply HC. tauto.
  - destruct C as [|x0 C0] eqn:EC0; [cbn in Hge; lia|]. rewrite <- EC0 in *.
    assert (Hb : bottoms p C <> []).
    { apply (bottoms_nonempty C x0); [exact Hpne|rewrite EC0; left; reflexivity|exact HC]. }
    destruct (enumL C (bottoms p C)) as [|a L] eqn:EL.
    + exfalso. destruct (bottoms p C) as [|y l] eqn:Eb; [contradiction|].
      assert (H : In y (enumL C (y :: l))) by (apply Henum; left; reflexivity).
      rewrite EL in H. destruct H.
    + assert (Ha : In a C).
      { apply bottoms_in. apply (proj2 (Henum C (bottoms p C))). rewrite EL. left; reflexivity. }
      assert (Hsh : length C' < length C).
      { rewrite EC. apply (filter_shorter _ C a Ha). apply negb_false_iff. apply memb_iff. left; reflexivity. }
      lia.
Qed.

Theorem trick_terminates : p <> [] -> trick enumL pickB alts p <> Err OutOfFuel.
Proof. intros Hpne. apply loop_terminates; [exact Hpne|apply incl_refl|lia]. Qed.

End Run.
