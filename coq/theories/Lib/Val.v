(* Val.v — the universal value type of the oracle line protocol, with the decoders / encoders
   used by the Ops/*.v files.  Executable definitions only. *)
From Coq Require Import List ZArith NArith String Bool.
Import ListNotations.

Inductive val : Type :=
| VI (z : Z)
| VL (l : list val).

(* results of modelled Python calls: a value or one of the exception classes the properties name *)
Inductive err : Type := TypeErr | Incompatible | ValueErr | OutOfFuel | OtherErr.
Inductive result (T : Type) : Type := Ok (x : T) | Err (e : err).
Arguments Ok {T} x.
Arguments Err {T} e.

Definition get {T} (d : T) (r : result T) : T := match r with Ok x => x | Err _ => d end.
Definition is_ok {T} (r : result T) : bool := match r with Ok _ => true | Err _ => false end.
Definition rbind {T U} (r : result T) (f : T -> result U) : result U :=
  match r with Ok x => f x | Err e => Err e end.
Definition rmap {T U} (f : T -> U) (r : result T) : result U :=
  match r with Ok x => Ok (f x) | Err e => Err e end.

(* ---- decoders (total; the harness only sends well-formed payloads) ---- *)
Definition dZ (v : val) : Z := match v with VI z => z | VL _ => 0%Z end.
Definition dN (v : val) : N := Z.to_N (dZ v).
Definition dnat (v : val) : nat := Z.to_nat (dZ v).
Definition dbool (v : val) : bool := negb (Z.eqb (dZ v) 0).
Definition dlist {T} (f : val -> T) (v : val) : list T :=
  match v with VL l => map f l | VI _ => [] end.
Definition dnth (k : nat) (v : val) : val :=
  match v with VL l => nth k l (VI 0) | VI _ => VI 0 end.
Definition dpair {T U} (f : val -> T) (g : val -> U) (v : val) : T * U := (f (dnth 0 v), g (dnth 1 v)).
Definition doption {T} (f : val -> T) (v : val) : option T :=
  match v with VL (x :: _) => Some (f x) | _ => None end.

(* ---- encoders ---- *)
Definition eZ (z : Z) : val := VI z.
Definition eN (n : N) : val := VI (Z.of_N n).
Definition enat (n : nat) : val := VI (Z.of_nat n).
Definition ebool (b : bool) : val := VI (if b then 1 else 0)%Z.
Definition elist {T} (f : T -> val) (l : list T) : val := VL (map f l).
Definition epair {T U} (f : T -> val) (g : U -> val) (p : T * U) : val := VL [f (fst p); g (snd p)].
Definition eoption {T} (f : T -> val) (o : option T) : val :=
  match o with Some x => VL [f x] | None => VL [] end.
Definition err_code (e : err) : Z :=
  match e with TypeErr => 1 | Incompatible => 2 | ValueErr => 3 | OutOfFuel => 4 | OtherErr => 5 end%Z.
(* Ok x ↦ (0 x) ; Err e ↦ (1 code) *)
Definition eresult {T} (f : T -> val) (r : result T) : val :=
  match r with Ok x => VL [VI 0%Z; f x] | Err e => VL [VI 1%Z; VI (err_code e)] end.

(* ---- dispatch table ---- *)
Definition optable := list (string * (val -> val)).
Fixpoint find_op (t : optable) (name : string) : option (val -> val) :=
  match t with
  | [] => None
  | (n, f) :: t' => if String.eqb n name then Some f else find_op t' name
  end.
Definition unknown_op : val := VL [VI 2%Z].
