"""C13 — is_single_peaked_on_tree: exact verdict (against the proved reference decider spt_decide) and a valid
tree whenever it answers True (through the proved witness checker spt_check)."""
import itertools
import random

from .common import case, guarded, ordinal_instance, strict, rand_perm

ID = "C13"
COVER_FILES = ['properties/subdomains/ordinal/singlepeaked/single_peaked_tree.py']
RULE = ("alternative ids are non-negative integers; every range below exists with ids 1..m and with the 0-based ids "
        "0..m-1, about half of the random id pools contain 0 and the planted trees are relabelled so that 0 is an "
        "inner vertex. exhaustive: m = 2; every non-empty set of distinct strict orders over 3 alternatives (both storage orders); "
        "every set of <= 3 (quick) / <= 4 (thorough) distinct strict orders over 4 alternatives, stored in increasing "
        "and in decreasing lexicographic order (thorough: also all sets of 5, one storage order); all sets of <= 2 orders over three non-contiguous id sets of size 4; "
        "m = 5: the identity order with every other order, and with every pair of other orders (quick: 1200 sampled "
        "pairs). random: m in 4..7 (thorough: also 120 cases with m = 8) with arbitrary positive ids and multiplicities, uniformly random votes / votes grown "
        "from a random tree (path, star, caterpillar, random) +- noise votes (uniform or an adjacent swap of a planted "
        "vote); verdict compared with the reference c13.decide, which enumerates all (m-1)^(m-1) parent assignments. "
        "planted m in 7..30, n <= 30: votes grown from a random tree which itself passes c13.check, so the verdict "
        "must be True and the returned edge list must pass c13.check; the same sizes with noise votes: only 'True => "
        "valid tree' through the checker. On EVERY case the verdict is also compared with the mirror of the algorithm "
        "(Model/TreeAlgo.v, ops c13.algo / c13.algo2 = two different instantiations of the unspecified set iteration "
        "orders), which is proved to return exactly spt_decide's verdict at every size (trick_decides), so the "
        "large noisy cases are judged exactly as well. non-trivial = at least 4 alternatives and at least 2 distinct "
        "orders")
EXHAUSTIVE = {"quick": "m = 2; all sets of distinct strict orders for m = 3 (63 sets x 2 storage orders); all sets of "
                       "1..3 distinct orders for m = 4 x 2 storage orders; m = 5: identity + each other order; "
                       "each of these ranges also with the 0-based ids 0..m-1",
              "thorough": "m = 2; all sets of distinct strict orders for m = 3; all sets of 1..4 distinct orders for "
                          "m = 4 x 2 storage orders and all sets of 5 orders (one storage order); m = 5: identity "
                          "+ each other order, identity + each pair of other orders; m = 2, 3, 4 (sets of 1..4), "
                          "m = 5 (identity + each other order) also with the 0-based ids 0..m-1"}
TRUSTED = ["the mirror Model/TreeAlgo.v of is_single_peaked_on_tree / get_B / get_bottom_alts / restrict_preferences is "
           "hand-written; it is proved sound, complete and terminating for every admissible iteration order of the two "
           "Python sets, and tied to the code by comparing verdicts on every case (edge lists are not compared, they "
           "depend on set order; the implementation's list goes through the proved checker). "
           "OrdinalInstance.flatten_strict is not modelled (strict orders are passed as singleton classes)"]
ASSUMPTIONS = ["profiles of strict complete orders (data_type soc) over >= 2 alternatives with distinct non-negative "
               "integer ids (0 included); alternatives_name lists exactly the alternatives of the orders"]
TIMEOUT_S = 10.0
CHUNK = 25
THEOREMS_FOR_OP = {"c13.decide": "spt_decide_correct, spt_check_correct, trick_decides",
                   "c13.check": "spt_check_correct, trick_decides", "c13.witness": "spt_check_correct, trick_decides"}


# ---------------------------------------------------------------------------------------------------------------
def _mk(alts, orders, mults=None, **tags):
    """payload = [alts, [[order, mult], ...]] in storage order"""
    if mults is None:
        mults = [1] * len(orders)
    op = tags.pop("op", "c13.decide")
    return case(op, [list(alts), [[list(o), mu] for o, mu in zip(orders, mults)]], **tags)


def _grow_vote(rng, alts, adj):
    """a ranking every prefix of which is connected in the tree given by adj"""
    start = rng.choice(alts)
    vote, seen, frontier = [start], {start}, []
    frontier.extend(adj[start])
    while len(vote) < len(alts):
        cand = [x for x in set(frontier) if x not in seen]
        x = rng.choice(sorted(cand))
        vote.append(x)
        seen.add(x)
        frontier.extend(adj[x])
    return vote


def _rand_tree(rng, alts, shape=None):
    alts = list(alts)
    rng.shuffle(alts)
    shape = shape or rng.choice(["random", "path", "star", "caterpillar", "random"])
    edges = []
    for i in range(1, len(alts)):
        if shape == "path":
            j = i - 1
        elif shape == "star":
            j = 0
        elif shape == "caterpillar":
            j = rng.randrange(max(0, i - 3), i) if i % 2 else max(0, i - 2)
        else:
            j = rng.randrange(i)
        edges.append((alts[j], alts[i]))
    adj = {a: [] for a in alts}
    for a, b in edges:
        adj[a].append(b)
        adj[b].append(a)
    return edges, adj


def _ids(rng, m):
    """alternative ids: non-negative integers; about half of the pools contain 0 (samplers are 0-based)"""
    mode = rng.randrange(8)
    if mode == 0:
        return list(range(1, m + 1))
    if mode == 1:
        return rng.sample(range(1, 3 * m + 5), m)
    if mode == 2:
        return rng.sample(range(1, 10 ** 6), m)
    if mode == 3:
        a = list(range(1, m + 1))
        rng.shuffle(a)
        return a
    if mode == 4:
        return list(range(0, m))
    if mode == 5:
        a = list(range(0, m))
        rng.shuffle(a)
        return a
    a = [0] + rng.sample(range(1, (3 * m + 5) if mode == 6 else 10 ** 6), m - 1)
    rng.shuffle(a)
    return a


def _zero_inside(rng, edges):
    """relabel so that alternative 0 (if present) is an inner vertex of the tree whenever there is one"""
    deg = {}
    for a, b in edges:
        deg[a] = deg.get(a, 0) + 1
        deg[b] = deg.get(b, 0) + 1
    if 0 not in deg or deg[0] >= 2:
        return edges
    inner = sorted(x for x, d in deg.items() if d >= 2)
    if not inner:
        return edges
    x = rng.choice(inner)
    sw = {0: x, x: 0}
    return [(sw.get(a, a), sw.get(b, b)) for a, b in edges]


def _planted(rng, m, n, noise, **tags):
    alts = _ids(rng, m)
    edges, _ = _rand_tree(rng, alts)
    edges = _zero_inside(rng, edges)
    adj = {a: [] for a in alts}
    for a, b in edges:
        adj[a].append(b)
        adj[b].append(a)
    if noise == 0:
        tags["planted_tree"] = [list(e) for e in edges]
    orders = []
    for _ in range(n):
        v = _grow_vote(rng, alts, adj)
        if v not in orders:
            orders.append(v)
    for _ in range(noise):
        v = rand_perm(rng, alts)
        if rng.random() < 0.5 and orders:
            # a near miss: swap two adjacent positions of a planted vote
            v = list(rng.choice(orders))
            i = rng.randrange(m - 1)
            v[i], v[i + 1] = v[i + 1], v[i]
        if v not in orders:
            orders.append(v)
    rng.shuffle(orders)
    mults = [rng.choice([1, 1, 2, 3, 7]) for _ in orders]
    names = list(alts)
    rng.shuffle(names)
    return _mk(names, orders, mults, **tags)


def generate(tier, seed):
    rng = random.Random(1000003 * seed + 13)
    out = []
    # m = 2
    for orders in ([(1, 2)], [(2, 1)], [(1, 2), (2, 1)], [(2, 1), (1, 2)]):
        out.append(_mk([1, 2], orders, exh=2))
    out.append(_mk([7, 3], [(3, 7), (7, 3)], [2, 5], exh=2))
    for orders in ([(0, 1)], [(1, 0)], [(0, 1), (1, 0)], [(1, 0), (0, 1)]):
        out.append(_mk([0, 1], orders, exh=2))
    out.append(_mk([5, 0], [(0, 5), (5, 0)], [3, 1], exh=2))
    # m = 3: every non-empty set of orders, both storage orders
    perms3 = list(itertools.permutations((1, 2, 3)))
    for k in range(1, 7):
        for sub in itertools.combinations(perms3, k):
            out.append(_mk([1, 2, 3], sub, exh=3))
            if k > 1:
                out.append(_mk([3, 1, 2], sub[::-1], exh=3))
    # the same with the 0-based ids 0..2 (alternative 0 is a legitimate id)
    perms3z = list(itertools.permutations((0, 1, 2)))
    for k in range(1, 7):
        for sub in itertools.combinations(perms3z, k):
            out.append(_mk([0, 1, 2], sub, exh=3))
            if k > 1:
                out.append(_mk([2, 0, 1], sub[::-1], exh=3))
    # m = 4: every set of <= nmax orders, both storage orders
    perms4 = list(itertools.permutations((1, 2, 3, 4)))
    nmax = 3 if tier == "quick" else 4
    for k in range(1, nmax + 1):
        for sub in itertools.combinations(perms4, k):
            out.append(_mk([1, 2, 3, 4], sub, exh=4))
            if k > 1:
                out.append(_mk([1, 2, 3, 4], sub[::-1], exh=4))
    # the same sets over the 0-based ids 0..3, one storage order
    perms4z = list(itertools.permutations((0, 1, 2, 3)))
    for k in range(1, nmax + 1):
        for sub in itertools.combinations(perms4z, k):
            out.append(_mk([0, 1, 2, 3], sub, exh=4))
    if tier != "quick":      # all sets of 5 orders, one storage order
        for sub in itertools.combinations(perms4, 5):
            out.append(_mk([1, 2, 3, 4], sub, exh=4))
    # m = 4, sets of <= 2 orders over non-contiguous / unsorted ids (set iteration order differs)
    for ids in ([10, 3, 7, 22], [8, 16, 24, 32], [5, 4, 2, 9], [6, 0, 12, 3]):
        pp = list(itertools.permutations(ids))
        for k in (1, 2):
            for sub in itertools.combinations(pp, k):
                out.append(_mk(ids, sub, exh=4))
    # m = 5: the identity order plus one / two other orders (all of them in thorough, a sample in quick)
    perms5 = list(itertools.permutations((1, 2, 3, 4, 5)))
    ident, others = perms5[0], perms5[1:]
    for o in others:
        out.append(_mk([1, 2, 3, 4, 5], [ident, o], exh=5))
        out.append(_mk([0, 1, 2, 3, 4], [[a - 1 for a in o], [a - 1 for a in ident]], exh=5))
    pairs5 = list(itertools.combinations(others, 2))
    if tier == "quick":
        pairs5 = rng.sample(pairs5, 1200)
    for j, (o1, o2) in enumerate(pairs5):
        out.append(_mk([1, 2, 3, 4, 5], [o2, ident, o1], exh=5))
        if j % 2 == 0:      # 0-based copy
            out.append(_mk([0, 1, 2, 3, 4], [[a - 1 for a in o2], [a - 1 for a in ident], [a - 1 for a in o1]], exh=5))
    # random small, verdict compared with the reference
    nrand = 1500 if tier == "quick" else 10000
    for i in range(nrand):
        m = rng.choice([4, 5, 5, 6, 6, 7])
        if tier != "quick" and i % 83 == 41:
            m = 8                      # ~1 s and 200 MB per reference call: a few, thorough only
        kind = rng.randrange(5)
        if kind == 0:      # uniformly random orders (mostly negative beyond 3 votes)
            alts = _ids(rng, m)
            n = rng.randint(1, 4)
            orders = []
            for _ in range(n):
                v = rand_perm(rng, alts)
                if v not in orders:
                    orders.append(v)
            out.append(_mk(alts, orders, [rng.randint(1, 4) for _ in orders], rnd=1))
        elif kind in (1, 2):  # planted positives
            out.append(_planted(rng, m, rng.randint(2, 8), 0, rnd=1))
        else:              # planted + noise
            out.append(_planted(rng, m, rng.randint(2, 6), rng.randint(1, 2), rnd=1))
    # planted large: the profile is single-peaked on the planted tree (confirmed by c13.check on that tree),
    # so the verdict must be True and the returned edge list must pass c13.check
    nbig = 300 if tier == "quick" else 2500
    for i in range(nbig):
        m = rng.randint(7, 30)
        n = rng.randint(2, 30)
        out.append(_planted(rng, m, n, 0, op="c13.check", big=1))
    # large with noise votes: the reference cannot be run; only "True => valid tree" is checked
    nnoisy = 150 if tier == "quick" else 1500
    for i in range(nnoisy):
        m = rng.randint(7, 30)
        n = rng.randint(2, 20)
        out.append(_planted(rng, m, n, rng.randint(1, 2), op="c13.witness", big=1))
    # the oracle side is split into contiguous chunks: spread the expensive reference calls (m >= 7) evenly
    random.Random(seed + 7).shuffle(out)
    return out


# ---------------------------------------------------------------------------------------------------------------
def impl(c):
    from preflibtools.properties.subdomains.ordinal.singlepeaked.single_peaked_tree import is_single_peaked_on_tree
    alts, prof = c["payload"]
    inst = ordinal_instance([(strict(o), mu) for o, mu in prof], data_type="soc", alts=alts)
    r = guarded(is_single_peaked_on_tree, inst)
    if r[0] != 0:
        return r
    res = r[1]
    if not (isinstance(res, tuple) and len(res) == 2):
        return {"crash": "is_single_peaked_on_tree returned %r" % (res,)}
    verdict, tree = res
    if verdict is True:
        try:
            edges = [[int(a), int(b)] for a, b in tree]
        except Exception:
            return {"crash": "returned tree is not a list of pairs of alternatives: %r" % (tree,)}
        return [0, [1, edges]]
    if verdict is False:
        if tree is not None:
            return {"crash": "verdict False with a tree %r" % (tree,)}
        return [0, [0, []]]
    return {"crash": "verdict is not a bool: %r" % (verdict,)}


def _orders(c):
    return [o for o, _ in c["payload"][1]]


def _plan(c):
    """labels of the oracle requests of a case, in order"""
    plan = []
    if c["op"] == "c13.decide":
        plan.append("decide")
    plan.append("check")
    plan.append("algo")
    plan.append("algo2")
    if c["tags"].get("planted_tree"):
        plan.append("planted")
    if len(c["payload"][0]) <= 4:
        plan.append("check_slow")
        if c["op"] == "c13.decide":
            plan.append("decide_slow")
    return plan


def oracle_requests(c, r):
    alts = c["payload"][0]
    orders = _orders(c)
    edges = []
    if isinstance(r, list) and r and r[0] == 0 and r[1][0] == 1:
        edges = r[1][1]
    reqs = []
    for lb in _plan(c):
        if lb == "decide":
            reqs.append(("c13.decide", [alts, orders]))
        elif lb == "decide_slow":
            reqs.append(("c13.decide_slow", [alts, orders]))
        elif lb == "check":
            reqs.append(("c13.check", [alts, orders, edges]))
        elif lb == "check_slow":
            reqs.append(("c13.check_slow", [alts, orders, edges]))
        elif lb == "planted":
            reqs.append(("c13.check", [alts, orders, c["tags"]["planted_tree"]]))
        elif lb == "algo":
            reqs.append(("c13.algo", [alts, orders]))
        elif lb == "algo2":
            reqs.append(("c13.algo2", [alts, orders]))
    return reqs


def _m(c, mres):
    return dict(zip(_plan(c), mres))


def judge(c, r, mres):
    if not (isinstance(r, list) and r and r[0] == 0):
        return {"kind": "exception", "reason": "is_single_peaked_on_tree raised: %r" % (r,)}
    verdict, edges = r[1]
    m = _m(c, mres)
    if "planted" in m and m["planted"] != 1:
        return {"kind": "broken-correspondence", "reason": "generator: planted tree rejected by spt_check"}
    if "check_slow" in m and m["check_slow"] != m["check"]:
        return {"kind": "broken-correspondence", "reason": "spt_checkf and spt_check disagree"}
    if "decide_slow" in m and m["decide_slow"] != m["decide"]:
        return {"kind": "broken-correspondence", "reason": "spt_decide and spt_decide_slow disagree"}
    # the mirror of the algorithm (Model/TreeAlgo.v), two instantiations of the unspecified set orders
    for lb in ("algo", "algo2"):
        a = m[lb]
        if a[0] != 0:
            return {"kind": "broken-correspondence", "reason": "mirror %s ran out of fuel (trick_terminates)" % lb}
        av, aedges, achk = a[1]
        if av == 1 and achk != 1:
            return {"kind": "broken-correspondence",
                    "reason": "mirror %s answers True with an edge list rejected by spt_check (trick_sound)" % lb}
        if "decide" in m and av != m["decide"]:
            return {"kind": "broken-correspondence",
                    "reason": "mirror %s verdict %s, reference %s (trick_sound / trick_complete)" % (lb, av, m["decide"])}
        if av != verdict:
            return {"kind": "mismatch", "theorem": "trick_sound, trick_complete",
                    "reason": "verdict %s, mirror of the algorithm (%s) says %s" % (bool(verdict), lb, bool(av))}
    if "decide" in m:
        if m.get("planted") == 1 and m["decide"] != 1:
            return {"kind": "broken-correspondence", "reason": "spt_decide rejects a profile with a checked witness"}
        if verdict != m["decide"]:
            return "verdict %s, reference spt_decide says %s" % (bool(verdict), bool(m["decide"]))
    elif c["op"] == "c13.check":
        # the planted tree passed the proved checker, hence the profile is single-peaked on a tree
        if verdict != 1:
            return "verdict False on a profile that is single-peaked on the tree %r (accepted by spt_check)" \
                   % (c["tags"]["planted_tree"],)
    if verdict == 1 and m["check"] != 1:
        return "verdict True but the returned edge list %r is rejected by spt_check" % (edges,)
    return None


def nontrivial(c, r, m):
    return len(c["payload"][0]) >= 4 and len(c["payload"][1]) >= 2


def stats(c, r, m):
    mm = len(c["payload"][0])
    n = len(c["payload"][1])
    d = _m(c, m)
    v = "?"
    if isinstance(r, list) and r and r[0] == 0:
        v = "T" if r[1][0] == 1 else "F"
    zero = ["id 0 %s, verdict %s" % ("present" if 0 in c["payload"][0] else "absent", v)]
    mirror = []
    try:
        a1, a2 = d["algo"][1], d["algo2"][1]
        mirror.append("mirror verdicts (first/last, fwd/bwd) %s" % ("agree" if a1[0] == a2[0] else "DIFFER"))
        if a1[0] == 1:
            mirror.append("mirror edge lists %s" % ("equal" if a1[1] == a2[1] else "differ (both valid)"))
    except Exception:
        mirror.append("mirror error")
    if c["op"] == "c13.decide":
        ref = "T" if d["decide"] == 1 else "F"
        return ["decide m=%d ref=%s" % (mm, ref), "decide n=%s ref=%s" % (n if n <= 4 else ">4", ref)] + mirror + zero
    size = "7-15" if mm <= 15 else "16-30"
    if c["op"] == "c13.check":
        return ["planted m=%s verdict=%s witness=%s" % (size, v, "ok" if d["check"] == 1 else "bad")] + mirror + zero
    return ["noisy-large m=%s verdict=%s%s" % (size, v, " witness=ok" if (v == "T" and d["check"] == 1) else "")] + mirror + zero


def describe(c):
    return {"alternatives_name keys": c["payload"][0],
            "orders (storage order) with multiplicities": c["payload"][1],
            "call": "is_single_peaked_on_tree(instance)", "compared_with": c["op"]}


def shrink(c):
    alts, prof = c["payload"]
    for i in range(len(prof)):
        if len(prof) > 1:
            yield dict(c, payload=[alts, prof[:i] + prof[i + 1:]])     # a sub-profile keeps the planted witness
    for i in range(len(prof)):
        if prof[i][1] > 1:
            yield dict(c, payload=[alts, prof[:i] + [[prof[i][0], 1]] + prof[i + 1:]])
    if len(alts) > 2 and c["op"] == "c13.decide":
        for x in alts:
            na = [a for a in alts if a != x]
            seen, np_ = [], []
            for o, mu in prof:
                o2 = [a for a in o if a != x]
                if o2 not in seen:
                    seen.append(o2)
                    np_.append([o2, mu])
            yield dict(c, payload=[na, np_])
