(* Model/Autocorrect.v — the INDEPENDENT description of what parsing with autocorrect=True has to
   produce (property C16), next to the mirror models Model/OrdIO.v (ord_parse) and Model/CatIO.v
   (cat_parse).  Executable definitions only; the agreement theorems are in Proofs/Autocorrect.v and
   stated in Properties/C16.v.

   Nothing here follows the control flow of the parsers' ballot loop: the content of a file is cut into
   "header lines" and "ballot lines", every ballot line is read on its own, and the expected instance is
   described by sums / first occurrences over the list of ballot lines. *)
From Coq Require Import List NArith Bool String.
From PrefVerif Require Import Lib.Val Lib.Dec Lib.PyStr Model.Meta.
From PrefVerif Require Model.OrdIO Model.CatIO.
Import ListNotations.

(* ------------------------------------------------------------------------------------------------ *)
(* 1. cutting the content                                                                           *)
(* ------------------------------------------------------------------------------------------------ *)
Definition hash : text := lit "#".
Definition is_header (l : text) : bool := startswith hash (strip l).

(* the header lines (stripped): the maximal prefix of lines that start with "#" *)
Fixpoint header_lines (lines : list text) : list text :=
  match lines with
  | [] => []
  | l :: r => if is_header l then strip l :: header_lines r else []
  end.

(* the lines read as ballots: everything from the first non-header line on; when EVERY line is a header
   line, the last line (Python: lines[i:] with i = len(lines) - 1) *)
Fixpoint body_lines (lines : list text) : list text :=
  match lines with
  | [] => []
  | l :: r => if is_header l then match r with [] => [l] | _ => body_lines r end else lines
  end.

(* the (id, raw name) entries listed by the header, in file order *)
Definition raw_names (prefix : text) (lines : list text) : list (N * text) :=
  flat_map (fun line => match match_name prefix line with Some p => [p] | None => [] end)
           (header_lines lines).

(* ------------------------------------------------------------------------------------------------ *)
(* 2. ballots merged by summation (generic in the ballot type and its equality test)                *)
(* ------------------------------------------------------------------------------------------------ *)
Section Merge.
  Context {K : Type} (eqb : K -> K -> bool).

  Definition kmem (x : K) (l : list K) : bool := existsb (eqb x) l.

  (* the distinct elements of l in order of first occurrence *)
  Definition distinct (l : list K) : list K :=
    fold_left (fun acc x => if kmem x acc then acc else acc ++ [x]) l [].

  Definition sum_N (l : list N) : N := fold_right N.add 0%N l.

  (* sum of the multiplicities of all lines whose ballot is o *)
  Definition msum (bs : list (N * K)) (o : K) : N :=
    sum_N (map fst (filter (fun b => eqb (snd b) o) bs)).

  Definition total (bs : list (N * K)) : N := sum_N (map fst bs).

  (* the multiplicity table an autocorrecting parser must produce *)
  Definition merged (bs : list (N * K)) : list (K * N) :=
    map (fun o => (o, msum bs o)) (distinct (map snd bs)).

  Fixpoint nodupb (l : list K) : bool :=
    match l with
    | [] => true
    | x :: r => negb (kmem x r) && nodupb r
    end.
End Merge.

(* ------------------------------------------------------------------------------------------------ *)
(* 3. ordinal content                                                                               *)
(* ------------------------------------------------------------------------------------------------ *)
(* one line of the body: blank lines carry no ballot *)
Definition ord_line (l : text) : result (option (N * OrdIO.order)) :=
  match remove_ws l with
  | [] => Ok None
  | c :: s => rmap Some (OrdIO.parse_ballot (c :: s))
  end.

Fixpoint ord_ballots_r (ls : list text) : result (list (N * OrdIO.order)) :=
  match ls with
  | [] => Ok []
  | l :: r => rbind (ord_line l) (fun ob =>
                rmap (fun bs => match ob with Some b => b :: bs | None => bs end) (ord_ballots_r r))
  end.

(* (multiplicity, order) of every ballot line of the content, in file order ([] if some line is malformed) *)
Definition ord_ballots (lines : list text) : list (N * OrdIO.order) :=
  get [] (ord_ballots_r (body_lines lines)).

(* sum of the multiplicities of all ballot lines that read as order o *)
Definition ord_lines_mult (lines : list text) (o : OrdIO.order) : N := msum OrdIO.order_eqb (ord_ballots lines) o.

(* expected (multiplicity table, num_voters, num_unique_orders) *)
Definition ord_expected (lines : list text) : result (list (OrdIO.order * N) * N * N) :=
  rmap (fun bs => (merged OrdIO.order_eqb bs, total bs,
                   N.of_nat (List.length (distinct OrdIO.order_eqb (map snd bs)))))
       (ord_ballots_r (body_lines lines)).

(* ------------------------------------------------------------------------------------------------ *)
(* 4. categorical content                                                                           *)
(* ------------------------------------------------------------------------------------------------ *)
Fixpoint cat_ballots_r (ls : list text) : result (list (N * CatIO.ballot)) :=
  match ls with
  | [] => Ok []
  | l :: r => rbind (CatIO.ballot_of_line l) (fun b => rmap (cons b) (cat_ballots_r r))
  end.

Definition cat_ballots (lines : list text) : list (N * CatIO.ballot) :=
  get [] (cat_ballots_r (body_lines lines)).

Definition cat_lines_mult (lines : list text) (b : CatIO.ballot) : N := msum CatIO.ballot_eqb (cat_ballots lines) b.

Definition cat_expected (lines : list text) : result (list (CatIO.ballot * N) * N * N) :=
  rmap (fun bs => (merged CatIO.ballot_eqb bs, total bs,
                   N.of_nat (List.length (distinct CatIO.ballot_eqb (map snd bs)))))
       (cat_ballots_r (body_lines lines)).

(* ------------------------------------------------------------------------------------------------ *)
(* 5. "already clean" content                                                                       *)
(* ------------------------------------------------------------------------------------------------ *)
(* the bookkeeping field reserved_names is not part of the parsed content *)
Definition forget_reserved_o (i : OrdIO.oinst) : OrdIO.oinst :=
  OrdIO.mkOinst (set_reserved (OrdIO.o_meta i) []) (OrdIO.o_num_unique i) (OrdIO.o_orders i) (OrdIO.o_mult i).
Definition forget_reserved_c (i : CatIO.cinst) : CatIO.cinst :=
  CatIO.set_c_meta i (set_reserved (CatIO.c_meta i) []).

(* header counts equal the recomputed ones (judged on what autocorrect=False reads; vacuous on content
   that does not parse) *)
Definition ord_counts_ok (m0 : meta) (lines : list text) : bool :=
  match OrdIO.ord_parse false false m0 lines with
  | Ok i =>
    N.eqb (num_alternatives (OrdIO.o_meta i)) (N.of_nat (List.length (alt_names (OrdIO.o_meta i)))) &&
    N.eqb (num_voters (OrdIO.o_meta i)) (sum_N (values (OrdIO.o_mult i))) &&
    N.eqb (OrdIO.o_num_unique i) (N.of_nat (List.length (OrdIO.o_orders i)))
  | Err _ => true
  end.

(* clean: no name listed twice in the header, no ballot on two lines, header counts right *)
Definition ord_clean (m0 : meta) (lines : list text) : bool :=
  nodupb teqb (map snd (raw_names alt_name_prefix lines)) &&
  nodupb OrdIO.order_eqb (map snd (ord_ballots lines)) &&
  ord_counts_ok m0 lines.

Definition cat_counts_ok (m0 : meta) (lines : list text) : bool :=
  match CatIO.cat_parse false false m0 lines with
  | Ok i =>
    N.eqb (num_alternatives (CatIO.c_meta i)) (N.of_nat (List.length (alt_names (CatIO.c_meta i)))) &&
    N.eqb (num_voters (CatIO.c_meta i)) (sum_N (values (CatIO.c_mult i))) &&
    N.eqb (CatIO.c_num_unique i) (N.of_nat (List.length (CatIO.c_prefs i)))
  | Err _ => true
  end.

Definition cat_clean (m0 : meta) (lines : list text) : bool :=
  nodupb teqb (map snd (raw_names alt_name_prefix lines)) &&
  nodupb teqb (map snd (raw_names cat_name_prefix lines)) &&
  nodupb CatIO.ballot_eqb (map snd (cat_ballots lines)) &&
  cat_counts_ok m0 lines.

(* ids listed by the header pairwise distinct (hypothesis of ac_first_occurrence) *)
Definition ids_distinct (prefix : text) (lines : list text) : bool :=
  nodupb N.eqb (map fst (raw_names prefix lines)).
