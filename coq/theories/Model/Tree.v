(* Model/Tree.v — C13: single-peakedness on a tree.  Executable definitions only (no proofs).

   Shape (R): this is NOT a model of Trick's algorithm in single_peaked_tree.py; it is
     * the boolean connectivity test of an induced subgraph            (connected_in),
     * the boolean spanning-tree / witness checker                     (tree_check, spt_check, spt_checkf),
     * a reference decider by complete enumeration of candidate trees  (cand_trees, spt_decide).
   Alternatives are N; an undirected edge is a pair (N * N) in either orientation; a tree is a list of
   edges in any order; a vote is a strict complete ranking `list N`, best first. *)
From Coq Require Import List NArith Bool Arith.
Import ListNotations.

Definition edge := (N * N)%type.

(* a and b are joined by an edge of T (either orientation) *)
Definition edge_joins (a b : N) (e : edge) : bool :=
  (N.eqb (fst e) a && N.eqb (snd e) b) || (N.eqb (fst e) b && N.eqb (snd e) a).
Definition adjb (T : list edge) (a b : N) : bool := existsb (edge_joins a b) T.

Definition memb (x : N) (l : list N) : bool := existsb (N.eqb x) l.

(* x belongs to R or has a neighbour in R *)
Definition near (T : list edge) (R : list N) (x : N) : bool :=
  memb x R || existsb (fun r => adjb T r x) R.

(* first element satisfying f, and the list without it *)
Fixpoint pick (f : N -> bool) (l : list N) : option (N * list N) :=
  match l with
  | [] => None
  | x :: l' =>
      if f x then Some (x, l')
      else match pick f l' with
           | None => None
           | Some (y, r) => Some (y, x :: r)
           end
  end.

(* grow the connected set R by vertices of rest, one at a time; returns the vertices never reached.
   fuel = length rest is always enough (each round removes one vertex of rest or stops). *)
Fixpoint grow (fuel : nat) (T : list edge) (R rest : list N) : list N :=
  match fuel with
  | 0 => rest
  | S f =>
      match pick (near T R) rest with
      | None => rest
      | Some (x, rest') => grow f T (x :: R) rest'
      end
  end.

(* the subgraph of T induced on S is connected (the empty set counts as connected) *)
Definition connected_in (T : list edge) (S : list N) : bool :=
  match S with
  | [] => true
  | s :: S' => match grow (length S') T [s] S' with [] => true | _ :: _ => false end
  end.

(* T is a spanning tree of alts: |alts| - 1 edges, each joining two distinct members of alts, connected *)
Definition edge_ok (alts : list N) (e : edge) : bool :=
  memb (fst e) alts && memb (snd e) alts && negb (N.eqb (fst e) (snd e)).
Definition tree_check (alts : list N) (T : list edge) : bool :=
  Nat.eqb (S (length T)) (length alts) && forallb (edge_ok alts) T && connected_in T alts.

(* every prefix firstn k v, k = 1 .. length v, is connected in T *)
Definition prefixes_connected (T : list edge) (v : list N) : bool :=
  forallb (fun k => connected_in T (firstn k v)) (seq 1 (length v)).
Definition spt_check (alts : list N) (p : list (list N)) (T : list edge) : bool :=
  tree_check alts T && forallb (prefixes_connected T) p.

(* the same test in one pass per vote: each alternative is near the ones ranked above it
   (proved equal to prefixes_connected; this is what the oracle runs on large witnesses) *)
Fixpoint attach_ok (T : list edge) (seen v : list N) : bool :=
  match v with
  | [] => true
  | x :: v' => near T seen x && attach_ok T (x :: seen) v'
  end.
Definition vote_ok (T : list edge) (v : list N) : bool :=
  match v with [] => true | x :: v' => attach_ok T [x] v' end.
Definition spt_checkf (alts : list N) (p : list (list N)) (T : list edge) : bool :=
  tree_check alts T && forallb (vote_ok T) p.

(* ---- enumeration of candidate trees: root = first alternative; every other alternative x chooses a
   parent among the alternatives different from x.  (m-1)^(m-1) candidates; every spanning tree of a
   duplicate-free alts has the same edge set (up to orientation and order) as one of them. ---- *)
Fixpoint prod_choices {A : Type} (ls : list (list A)) : list (list A) :=
  match ls with
  | [] => [[]]
  | l :: ls' => flat_map (fun x => map (cons x) (prod_choices ls')) l
  end.
Definition parent_edges (alts : list N) (x : N) : list edge :=
  map (fun q => (q, x)) (filter (fun q => negb (N.eqb q x)) alts).
Definition cand_trees (alts : list N) : list (list edge) :=
  match alts with
  | [] => []
  | _ :: rest => prod_choices (map (parent_edges alts) rest)
  end.

Definition spt_decide_slow (alts : list N) (p : list (list N)) : bool :=
  existsb (spt_check alts p) (cand_trees alts).
(* the reference decider runs the cheap vote test first: most candidates are rejected by the first vote *)
Definition spt_checkr (alts : list N) (p : list (list N)) (T : list edge) : bool :=
  forallb (vote_ok T) p && tree_check alts T.
Definition spt_decide (alts : list N) (p : list (list N)) : bool :=
  existsb (spt_checkr alts p) (cand_trees alts).
