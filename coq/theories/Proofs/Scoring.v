(* Proofs/Scoring.v — the winner sets of Model/Scoring.v are the textbook ones (C06).
   Part 0: textbook definitions on the expanded (one ballot per voter) profile and well-formedness.
   Part 1: plurality, veto, k-approval, approval.   Part 2: Borda, Copeland, satisfaction approval. *)
From Coq Require Import List Arith NArith ZArith Bool Lia Permutation.
From PrefVerif Require Import Lib.Val Model.Scoring Proofs.ScoreTable.
Import ListNotations.

(* =========================================================================================== *)
(* Part 0 — specification vocabulary *)

(* number of voters of the full profile P whose ballot satisfies f *)
Definition voters (f : order -> bool) (P : list order) : N := N.of_nat (length (filter f P)).

Definition count_first (P : list order) (a : N) : N := voters (fun o => memN a (hd [] o)) P.
Definition count_last (P : list order) (a : N) : N := voters (fun o => memN a (last o [])) P.
Definition count_topk (k : nat) (P : list order) (a : N) : N := voters (fun o => memN a (firstn k (concat o))) P.

Definition is_max (f : N -> N) (U : list N) (a : N) : Prop := In a U /\ forall b, In b U -> (f b <= f a)%N.
Definition is_min (f : N -> N) (U : list N) (a : N) : Prop := In a U /\ forall b, In b U -> (f a <= f b)%N.

(* boolean well-formedness (DESIGN §7.0): what the parser guarantees about an ordinal instance *)
Fixpoint nodupb (l : list N) : bool :=
  match l with [] => true | x :: r => negb (memN x r) && nodupb r end.
Definition inclb (l al : list N) : bool := forallb (fun x => memN x al) l.
Definition is_nil {T} (l : list T) : bool := match l with [] => true | _ => false end.
Definition wf_orderb (al : list N) (o : order) : bool :=
  negb (is_nil o) && forallb (fun c => negb (is_nil c)) o && nodupb (concat o) && inclb (concat o) al.
Definition sum_mult (p : profile) : N := fold_right (fun om s => (snd om + s)%N) 0%N p.
Definition wf_instb (i : inst) : bool :=
  nodupb (alts i) && N.eqb (n_alt i) (N.of_nat (length (alts i))) && N.eqb (n_vot i) (sum_mult (prof i))
  && negb (is_nil (prof i))
  && forallb (fun om => wf_orderb (alts i) (fst om) && N.leb 1 (snd om)) (prof i).
Definition strictb (o : order) : bool := forallb (fun c => length c =? 1) o.
Definition completeb (al : list N) (o : order) : bool := length (concat o) =? length al.
Definition all_orders (f : order -> bool) (i : inst) : bool := forallb (fun om => f (fst om)) (prof i).

Lemma nodupb_NoDup : forall l, nodupb l = true <-> NoDup l.
Proof.
  induction l as [|x r IH]; simpl.
  - split; [constructor|reflexivity].
  - rewrite andb_true_iff, negb_true_iff, memN_false, IH. split.
    + intros [H1 H2]. constructor; assumption.
    + intro H. inversion H; subst. split; assumption.
Qed.

Lemma inclb_incl : forall l al, inclb l al = true <-> incl l al.
Proof.
  intros l al. unfold inclb, incl. rewrite forallb_forall. split; intros H x Hx.
  - apply memN_In. apply H. exact Hx.
  - apply memN_In. apply H. exact Hx.
Qed.

Record wf_order (al : list N) (o : order) : Prop :=
  { wo_ne : o <> []; wo_cls : Forall (fun c => c <> []) o; wo_nodup : NoDup (concat o); wo_incl : incl (concat o) al }.

Lemma wf_orderb_spec : forall al o, wf_orderb al o = true -> wf_order al o.
Proof.
  intros al o H. unfold wf_orderb in H. rewrite !andb_true_iff in H. destruct H as [[[H1 H2] H3] H4].
  constructor.
  - destruct o; [discriminate|congruence].
  - apply Forall_forall. intros c Hc. rewrite forallb_forall in H2. specialize (H2 c Hc).
    destruct c; [discriminate|congruence].
  - apply nodupb_NoDup. exact H3.
  - apply inclb_incl. exact H4.
Qed.

Record wf_inst (i : inst) : Prop :=
  { wi_alts : NoDup (alts i); wi_nalt : n_alt i = N.of_nat (length (alts i));
    wi_nvot : n_vot i = sum_mult (prof i); wi_ne : prof i <> [];
    wi_ord : forall om, In om (prof i) -> wf_order (alts i) (fst om) /\ (1 <= snd om)%N }.

Lemma wf_instb_spec : forall i, wf_instb i = true -> wf_inst i.
Proof.
  intros i H. unfold wf_instb in H. rewrite !andb_true_iff in H. destruct H as [[[[H1 H2] H3] H4] H5].
  constructor.
  - apply nodupb_NoDup. exact H1.
  - apply N.eqb_eq. exact H2.
  - apply N.eqb_eq. exact H3.
  - destruct (prof i); [discriminate|congruence].
  - intros om Hom. rewrite forallb_forall in H5. specialize (H5 om Hom). rewrite andb_true_iff in H5.
    destruct H5 as [A B]. split; [apply wf_orderb_spec; exact A|apply N.leb_le; exact B].
Qed.

(* =========================================================================================== *)
(* small list facts *)

Lemma filter_repeat : forall {T} (f : T -> bool) x n,
  length (filter f (repeat x n)) = if f x then n else 0.
Proof.
  intros T f x n. induction n as [|n IH]; simpl.
  - destruct (f x); reflexivity.
  - destruct (f x) eqn:E; simpl; [rewrite IH; reflexivity|exact IH].
Qed.

Lemma voters_app : forall f P Q, voters f (P ++ Q) = (voters f P + voters f Q)%N.
Proof. intros. unfold voters. rewrite filter_app, app_length. lia. Qed.

Lemma voters_repeat : forall f o k, voters f (repeat o (N.to_nat k)) = if f o then k else 0%N.
Proof. intros. unfold voters. rewrite filter_repeat. destruct (f o); lia. Qed.

Lemma voters_perm : forall f P Q, Permutation P Q -> voters f P = voters f Q.
Proof.
  intros f P Q H. unfold voters. f_equal.
  induction H; simpl; try lia.
  - destruct (f x); simpl; lia.
  - destruct (f x), (f y); simpl; lia.
Qed.

Lemma expand_cons : forall om p, expand (om :: p) = repeat (fst om) (N.to_nat (snd om)) ++ expand p.
Proof. reflexivity. Qed.

Lemma voters_expand_pos : forall f p,
  (forall om, In om p -> (1 <= snd om)%N) ->
  ((0 < voters f (expand p))%N <-> exists om, In om p /\ f (fst om) = true).
Proof.
  intros f p. induction p as [|om p IH]; intros Hk.
  - simpl. unfold voters. simpl. split; [lia|intros [? [[] _]]].
  - rewrite expand_cons, voters_app, voters_repeat.
    assert (Hk' : forall om', In om' p -> (1 <= snd om')%N) by (intros; apply Hk; right; assumption).
    specialize (IH Hk'). assert (H1 := Hk om (or_introl eq_refl)).
    destruct (f (fst om)) eqn:E.
    + split; [|lia]. intros _. exists om. split; [left; reflexivity|exact E].
    + rewrite N.add_0_l, IH. split; intros [om' [A B]].
      * exists om'. split; [right; exact A|exact B].
      * destruct A as [A|A]; [subst; congruence|]. exists om'. split; assumption.
Qed.

Lemma In_firstn : forall {T} k (l : list T) x, In x (firstn k l) -> In x l.
Proof. intros T k l x H. rewrite <- (firstn_skipn k l). apply in_or_app. left. exact H. Qed.

Lemma NoDup_firstn : forall {T} k (l : list T), NoDup l -> NoDup (firstn k l).
Proof.
  intros T k l. revert k. induction l as [|x r IH]; intros k H; destruct k; simpl; try constructor.
  - inversion H; subst. intro Hx. apply H2. eapply In_firstn. exact Hx.
  - inversion H; subst. apply IH. assumption.
Qed.

(* =========================================================================================== *)
(* Part 1 — rules that add the multiplicity to every alternative of a target list T(order) *)

Definition unit_events (T : order -> list N) (p : profile) : list (N * N) :=
  flat_map (fun om => map (fun a => (a, snd om)) (T (fst om))) p.

Notation totalN := (total N.add 0%N).
Notation lookupN := (lookup (S:=N) 0%N).

Lemma total_unit_one : forall a k l, NoDup l ->
  totalN a (map (fun x => (x, k)) l) = if memN a l then k else 0%N.
Proof.
  intros a k l. induction l as [|x r IH]; intro H; simpl; [reflexivity|].
  inversion H as [|? ? Hx Hr]; subst. specialize (IH Hr).
  unfold memN in *. simpl. rewrite (N.eqb_sym a x). destruct (N.eqb_spec x a) as [E|E]; simpl.
  - subst x. rewrite IH. assert (M : existsb (N.eqb a) r = false) by (apply memN_false; exact Hx).
    rewrite M. lia.
  - exact IH.
Qed.

Lemma unit_total : forall T p a,
  (forall om, In om p -> NoDup (T (fst om))) ->
  totalN a (unit_events T p) = voters (fun o => memN a (T o)) (expand p).
Proof.
  intros T p a. induction p as [|om p IH]; intro H.
  - reflexivity.
  - unfold unit_events in *. simpl flat_map. rewrite total_app by (intros; lia).
    rewrite expand_cons, voters_app, voters_repeat, IH by (intros; apply H; right; assumption).
    rewrite total_unit_one by (apply H; left; reflexivity). reflexivity.
Qed.

Lemma unit_keys : forall T p a,
  In a (map fst (unit_events T p)) <-> exists om, In om p /\ In a (T (fst om)).
Proof.
  intros T p a. unfold unit_events. rewrite in_map_iff. split.
  - intros [[x k] [E H]]. simpl in E. subst x. apply in_flat_map in H. destruct H as [om [H1 H2]].
    apply in_map_iff in H2. destruct H2 as [y [E2 H2]]. inversion E2; subst. exists om. split; assumption.
  - intros [om [H1 H2]]. exists (a, snd om). split; [reflexivity|]. apply in_flat_map. exists om.
    split; [exact H1|]. apply in_map_iff. exists a. split; [reflexivity|exact H2].
Qed.

Lemma Nleb_refl : forall x, N.leb x x = true. Proof. intro; apply N.leb_le; lia. Qed.
Lemma Nleb_trans : forall x y z, N.leb x y = true -> N.leb y z = true -> N.leb x z = true.
Proof. intros x y z; rewrite !N.leb_le; lia. Qed.
Lemma Nleb_total : forall x y, N.leb x y = true \/ N.leb y x = true.
Proof. intros x y; rewrite !N.leb_le; lia. Qed.
Lemma geb_refl : forall x, geb x x = true. Proof. intro; apply N.leb_le; lia. Qed.
Lemma geb_trans : forall x y z, geb x y = true -> geb y z = true -> geb x z = true.
Proof. unfold geb; intros x y z; rewrite !N.leb_le; lia. Qed.
Lemma geb_total : forall x y, geb x y = true \/ geb y x = true.
Proof. unfold geb; intros x y; rewrite !N.leb_le; lia. Qed.

Lemma maximal_is_max : forall (f : N -> N) U a,
  maximal N.leb f (fun x => In x U) a <-> is_max f U a.
Proof.
  intros f U a. unfold maximal, is_max. split; intros [H1 H2]; split; try exact H1; intros b Hb.
  - apply N.leb_le. apply H2. exact Hb.
  - apply N.leb_le. apply H2. exact Hb.
Qed.

Lemma maximal_is_min : forall (f : N -> N) U a,
  maximal geb f (fun x => In x U) a <-> is_min f U a.
Proof.
  intros f U a. unfold maximal, is_min, geb. split; intros [H1 H2]; split; try exact H1; intros b Hb.
  - apply N.leb_le. apply H2. exact Hb.
  - apply N.leb_le. apply H2. exact Hb.
Qed.

Lemma In_decN : forall (a : N) l, In a l \/ ~ In a l.
Proof. intros a l. destruct (in_dec N.eq_dec a l); [left|right]; assumption. Qed.

(* the generic theorem for plurality / k-approval *)
Theorem unit_rule_max : forall T p U,
  (forall om, In om p -> NoDup (T (fst om)) /\ incl (T (fst om)) U /\ (1 <= snd om)%N) ->
  (exists om, In om p /\ T (fst om) <> []) ->
  exists w, tbl_winners N.leb (tbl_adds N.add 0%N [] (unit_events T p)) = Ok w /\
    forall a, In a w <-> is_max (fun b => voters (fun o => memN b (T o)) (expand p)) U a.
Proof.
  intros T p U Hp [om0 [Hom0 Hne0]].
  assert (Hev : unit_events T p <> []).
  { destruct (T (fst om0)) as [|x r] eqn:E; [congruence|]. intro C.
    assert (K : In x (map fst (unit_events T p))).
    { apply unit_keys. exists om0. split; [exact Hom0|rewrite E; left; reflexivity]. }
    rewrite C in K. exact K. }
  destruct (table_winners N.add 0%N N.leb N.add_assoc N.add_comm N.add_0_l Nleb_refl Nleb_trans Nleb_total
              [] (unit_events T p) (NoDup_nil _) (or_intror Hev)) as [w [Hw Hs]].
  exists w. split; [exact Hw|]. intros a. rewrite Hs. rewrite <- maximal_is_max.
  set (sc := fun b => voters (fun o => memN b (T o)) (expand p)).
  assert (Hsc : forall b, N.add (lookupN [] b) (totalN b (unit_events T p)) = sc b).
  { intros b. rewrite lookup_nil, N.add_0_l. apply unit_total. intros om Hom. apply (Hp om Hom). }
  assert (Hkeys : forall b, In b (map fst (unit_events T p)) <-> (0 < sc b)%N).
  { intros b. rewrite unit_keys. unfold sc. rewrite voters_expand_pos by (intros om Hom; apply (Hp om Hom)).
    split; intros [om [A B]]; exists om; (split; [exact A|]); apply memN_In; exact B. }
  rewrite (maximal_ext N.leb _ sc _ (fun x => In x (map fst (unit_events T p))) a Hsc)
    by (intros b; simpl; intuition).
  apply (maximal_superset 0%N N.leb Nleb_total sc).
  - intros b. apply In_decN.
  - destruct (T (fst om0)) as [|x r] eqn:E; [congruence|]. exists x. apply unit_keys. exists om0.
    split; [exact Hom0|rewrite E; left; reflexivity].
  - intros b Hb. apply unit_keys in Hb. destruct Hb as [om [A B]]. destruct (Hp om A) as [_ [I _]]. apply I. exact B.
  - intros b Hb. apply Hkeys in Hb. apply N.leb_gt. exact Hb.
  - intros b Hb. rewrite Hkeys in Hb. lia.
Qed.

(* ------------------------------------------------------------------------------------------- *)
(* facts about classes of a well-formed order *)
Lemma NoDup_app_l : forall {T} (l1 l2 : list T), NoDup (l1 ++ l2) -> NoDup l1.
Proof.
  intros T l1 l2. induction l1 as [|x r IH]; simpl; intro H; [constructor|].
  inversion H as [|? ? Hx Hr]; subst. constructor; [|apply IH; exact Hr].
  intro Hi. apply Hx. apply in_or_app. left. exact Hi.
Qed.

Lemma NoDup_app_r : forall {T} (l1 l2 : list T), NoDup (l1 ++ l2) -> NoDup l2.
Proof.
  intros T l1 l2. induction l1 as [|x r IH]; simpl; intro H; [exact H|].
  inversion H; subst. apply IH. assumption.
Qed.

Lemma NoDup_app_disj : forall {T} (l1 l2 : list T) x, NoDup (l1 ++ l2) -> In x l1 -> In x l2 -> False.
Proof.
  intros T l1 l2 x. induction l1 as [|y r IH]; simpl; intros H H1 H2; [exact H1|].
  inversion H as [|? ? Hy Hr]; subst. destruct H1 as [H1|H1].
  - subst y. apply Hy. apply in_or_app. right. exact H2.
  - apply IH; assumption.
Qed.

Lemma class_nodup : forall (o : order) c, In c o -> NoDup (concat o) -> NoDup c.
Proof.
  induction o as [|x r IH]; intros c Hc Hn; [destruct Hc|]. simpl in Hn. destruct Hc as [Hc|Hc].
  - subst. eapply NoDup_app_l. exact Hn.
  - apply IH; [exact Hc|]. eapply NoDup_app_r. exact Hn.
Qed.

Lemma class_incl : forall (o : order) c, In c o -> incl c (concat o).
Proof. intros o c Hc x Hx. apply in_concat. exists c. split; assumption. Qed.

Lemma last_in : forall {T} (l : list T) d, l <> [] -> In (last l d) l.
Proof.
  induction l as [|x r IH]; intros d H; [congruence|]. destruct r as [|y r'].
  - left. reflexivity.
  - right. apply IH. discriminate.
Qed.

Lemma hd_in : forall {T} (l : list T) d, l <> [] -> In (hd d l) l.
Proof. intros T l d H. destruct l; [congruence|left; reflexivity]. Qed.

Lemma wf_class : forall al o c, wf_order al o -> In c o -> NoDup c /\ incl c al /\ c <> [].
Proof.
  intros al o c W Hc. destruct W as [W1 W2 W3 W4]. split; [|split].
  - eapply class_nodup; eassumption.
  - intros x Hx. apply W4. eapply class_incl; eassumption.
  - rewrite Forall_forall in W2. apply W2. exact Hc.
Qed.

Lemma wf_alts_ne : forall i, wf_inst i -> alts i <> [].
Proof.
  intros i W. destruct (prof i) as [|om p] eqn:E; [exfalso; apply (wi_ne i W); exact E|].
  destruct (wi_ord i W om) as [Wo _]; [rewrite E; left; reflexivity|].
  destruct (wf_class _ _ (hd [] (fst om)) Wo (hd_in _ _ (wo_ne _ _ Wo))) as [_ [I Ne]].
  destruct (hd [] (fst om)) as [|x r]; [congruence|]. intro C. specialize (I x (or_introl eq_refl)).
  rewrite C in I. exact I.
Qed.

Lemma is_max_ext : forall f g U V a,
  (forall b, f b = g b) -> (forall b, In b U <-> In b V) -> (is_max f U a <-> is_max g V a).
Proof.
  intros f g U V a Hf HU. unfold is_max. rewrite HU. split; intros [H1 H2]; split; try exact H1; intros b Hb.
  - rewrite <- !Hf. apply H2. apply HU. exact Hb.
  - rewrite !Hf. apply H2. apply HU. exact Hb.
Qed.

Lemma is_min_ext : forall f g U V a,
  (forall b, f b = g b) -> (forall b, In b U <-> In b V) -> (is_min f U a <-> is_min g V a).
Proof.
  intros f g U V a Hf HU. unfold is_min. rewrite HU. split; intros [H1 H2]; split; try exact H1; intros b Hb.
  - rewrite <- !Hf. apply H2. apply HU. exact Hb.
  - rewrite !Hf. apply H2. apply HU. exact Hb.
Qed.

(* ------------------------------------------------------------------------------------------- *)
(* plurality *)
Definition dom4 : list dtype := [Soc; Toc; Soi; Toi].

Theorem plurality_spec : forall i, wf_inst i -> dt_in (dt i) dom4 = true ->
  exists w, plurality_winner i = Ok w /\
            forall a, In a w <-> is_max (count_first (expand (prof i))) (alts i) a.
Proof.
  intros i W D. unfold plurality_winner. unfold dom4 in D. rewrite D. unfold plurality_core.
  change (plur_events (prof i)) with (unit_events (hd []) (prof i)).
  apply (unit_rule_max (hd []) (prof i) (alts i)).
  - intros om Hom. destruct (wi_ord i W om Hom) as [Wo K].
    destruct (wf_class _ _ _ Wo (hd_in _ [] (wo_ne _ _ Wo))) as [A [B _]]. repeat split; assumption.
  - destruct (prof i) as [|om p] eqn:E; [exfalso; apply (wi_ne i W); exact E|].
    exists om. split; [left; reflexivity|].
    destruct (wi_ord i W om) as [Wo _]; [rewrite E; left; reflexivity|].
    apply (wf_class _ _ _ Wo (hd_in _ [] (wo_ne _ _ Wo))).
Qed.

Theorem plurality_guard : forall i, dt_in (dt i) dom4 = false -> plurality_winner i = Err Incompatible.
Proof. intros i H. unfold plurality_winner. unfold dom4 in H. rewrite H. reflexivity. Qed.

Theorem plurality_regroup : forall i i',
  wf_inst i -> wf_inst i' -> dt_in (dt i) dom4 = true -> dt_in (dt i') dom4 = true ->
  (forall x, In x (alts i) <-> In x (alts i')) -> Permutation (expand (prof i)) (expand (prof i')) ->
  exists w w', plurality_winner i = Ok w /\ plurality_winner i' = Ok w' /\ forall a, In a w <-> In a w'.
Proof.
  intros i i' W W' D D' HA HP.
  destruct (plurality_spec i W D) as [w [E S]]. destruct (plurality_spec i' W' D') as [w' [E' S']].
  exists w, w'. split; [exact E|split; [exact E'|]]. intros a. rewrite S, S'. apply is_max_ext; [|exact HA].
  intros b. apply voters_perm. exact HP.
Qed.

(* ------------------------------------------------------------------------------------------- *)
(* veto *)
Lemma lookup_zero_tbl : forall l x, lookupN (map (fun a => (a, 0%N)) l) x = 0%N.
Proof.
  induction l as [|y r IH]; intros x; simpl; [reflexivity|].
  rewrite lookup_cons. destruct (N.eqb y x); [reflexivity|apply IH].
Qed.

Lemma keys_zero_tbl : forall l : list N, map fst (map (fun a => (a, 0%N)) l) = l.
Proof. intros l. rewrite map_map. simpl. apply map_id. Qed.

Definition dom_ct : list dtype := [Soc; Toc].

Theorem veto_spec : forall i, wf_inst i -> dt_in (dt i) dom_ct = true ->
  exists w, veto_winner i = Ok w /\
            forall a, In a w <-> is_min (count_last (expand (prof i))) (alts i) a.
Proof.
  intros i W D. unfold veto_winner. unfold dom_ct in D. rewrite D.
  change (veto_events (prof i)) with (unit_events (fun o => last o []) (prof i)).
  set (t0 := map (fun a => (a, 0%N)) (alts i)). set (evs := unit_events (fun o => last o []) (prof i)).
  assert (Hn : NoDup (map fst t0)) by (unfold t0; rewrite keys_zero_tbl; apply (wi_alts i W)).
  assert (Hne : t0 <> [] \/ evs <> []).
  { left. unfold t0. assert (A := wf_alts_ne i W). destruct (alts i); [congruence|discriminate]. }
  destruct (table_winners N.add 0%N geb N.add_assoc N.add_comm N.add_0_l geb_refl geb_trans geb_total
              t0 evs Hn Hne) as [w [Hw Hs]].
  exists w. split; [exact Hw|]. intros a. rewrite Hs, <- maximal_is_min. apply maximal_ext.
  - intros b. unfold t0. rewrite lookup_zero_tbl, N.add_0_l. unfold evs. apply unit_total.
    intros om Hom. destruct (wi_ord i W om Hom) as [Wo _].
    apply (wf_class _ _ _ Wo (last_in _ [] (wo_ne _ _ Wo))).
  - intros b. unfold t0. rewrite keys_zero_tbl. split; [|intro H; left; exact H].
    intros [H|H]; [exact H|]. unfold evs in H. apply unit_keys in H. destruct H as [om [A B]].
    destruct (wi_ord i W om A) as [Wo _].
    destruct (wf_class _ _ _ Wo (last_in _ [] (wo_ne _ _ Wo))) as [_ [I _]]. apply I. exact B.
Qed.

Theorem veto_guard : forall i, dt_in (dt i) dom_ct = false -> veto_winner i = Err Incompatible.
Proof. intros i H. unfold veto_winner. unfold dom_ct in H. rewrite H. reflexivity. Qed.

Theorem veto_regroup : forall i i',
  wf_inst i -> wf_inst i' -> dt_in (dt i) dom_ct = true -> dt_in (dt i') dom_ct = true ->
  (forall x, In x (alts i) <-> In x (alts i')) -> Permutation (expand (prof i)) (expand (prof i')) ->
  exists w w', veto_winner i = Ok w /\ veto_winner i' = Ok w' /\ forall a, In a w <-> In a w'.
Proof.
  intros i i' W W' D D' HA HP.
  destruct (veto_spec i W D) as [w [E S]]. destruct (veto_spec i' W' D') as [w' [E' S']].
  exists w, w'. split; [exact E|split; [exact E'|]]. intros a. rewrite S, S'. apply is_min_ext; [|exact HA].
  intros b. apply voters_perm. exact HP.
Qed.

(* ------------------------------------------------------------------------------------------- *)
(* k-approval *)
Lemma heads_strict : forall o k, strictb o = true -> heads k o = firstn k (concat o).
Proof.
  induction o as [|c r IH]; intros k H; unfold heads in *.
  - destruct k; reflexivity.
  - simpl in H. apply andb_prop in H. destruct H as [Hc Hr]. destruct k as [|k]; [reflexivity|].
    simpl. destruct c as [|x [|y c']]; simpl in Hc; try discriminate. simpl. f_equal. apply IH. exact Hr.
Qed.

Lemma unit_events_ext : forall T T' p,
  (forall om, In om p -> T (fst om) = T' (fst om)) -> unit_events T p = unit_events T' p.
Proof.
  intros T T' p. induction p as [|om p IH]; intro H; [reflexivity|]. unfold unit_events in *. simpl.
  rewrite (H om (or_introl eq_refl)). f_equal. apply IH. intros; apply H; right; assumption.
Qed.

Definition dom_ss : list dtype := [Soc; Soi].

Theorem k_approval_spec : forall i k, wf_inst i -> all_orders strictb i = true -> 1 <= k ->
  dt_in (dt i) dom_ss = true ->
  exists w, k_approval_winner i k = Ok w /\
            forall a, In a w <-> is_max (count_topk k (expand (prof i))) (alts i) a.
Proof.
  intros i k W St Hk D. unfold k_approval_winner. unfold dom_ss in D. rewrite D.
  change (kapp_events k (prof i)) with (unit_events (heads k) (prof i)).
  unfold all_orders in St. rewrite forallb_forall in St.
  rewrite (unit_events_ext (heads k) (fun o => firstn k (concat o))) by (intros om Hom; apply heads_strict; apply St; exact Hom).
  apply (unit_rule_max (fun o => firstn k (concat o)) (prof i) (alts i)).
  - intros om Hom. destruct (wi_ord i W om Hom) as [Wo K]. split; [|split; [|exact K]].
    + apply NoDup_firstn. apply (wo_nodup _ _ Wo).
    + intros x Hx. apply (wo_incl _ _ Wo). eapply In_firstn. exact Hx.
  - destruct (prof i) as [|om p] eqn:E; [exfalso; apply (wi_ne i W); exact E|].
    exists om. split; [left; reflexivity|].
    destruct (wi_ord i W om) as [Wo _]; [rewrite E; left; reflexivity|].
    destruct (wf_class _ _ _ Wo (hd_in _ [] (wo_ne _ _ Wo))) as [_ [_ Ne]].
    destruct (fst om) as [|c r]; [exfalso; apply (wo_ne _ _ Wo); reflexivity|]. simpl in Ne. simpl.
    destruct c as [|x c']; [congruence|]. destruct k; [lia|]. simpl. discriminate.
Qed.

Theorem k_approval_guard : forall i k, dt_in (dt i) dom_ss = false -> k_approval_winner i k = Err Incompatible.
Proof. intros i k H. unfold k_approval_winner. unfold dom_ss in H. rewrite H. reflexivity. Qed.

Theorem k_approval_regroup : forall i i' k,
  wf_inst i -> wf_inst i' -> all_orders strictb i = true -> all_orders strictb i' = true -> 1 <= k ->
  dt_in (dt i) dom_ss = true -> dt_in (dt i') dom_ss = true ->
  (forall x, In x (alts i) <-> In x (alts i')) -> Permutation (expand (prof i)) (expand (prof i')) ->
  exists w w', k_approval_winner i k = Ok w /\ k_approval_winner i' k = Ok w' /\ forall a, In a w <-> In a w'.
Proof.
  intros i i' k W W' St St' Hk D D' HA HP.
  destruct (k_approval_spec i k W St Hk D) as [w [E S]]. destruct (k_approval_spec i' k W' St' Hk D') as [w' [E' S']].
  exists w, w'. split; [exact E|split; [exact E'|]]. intros a. rewrite S, S'. apply is_max_ext; [|exact HA].
  intros b. apply voters_perm. exact HP.
Qed.

(* ------------------------------------------------------------------------------------------- *)
(* approval (is_approval guard, then plurality) *)
Definition dom5 : list dtype := [Toc; Soc; Toi; Soi; Cat].

Theorem approval_spec : forall i, wf_inst i -> is_approval i = Ok true -> dt_in (dt i) dom4 = true ->
  exists w, approval_winner i = Ok w /\
            forall a, In a w <-> is_max (count_first (expand (prof i))) (alts i) a.
Proof.
  intros i W A D. unfold approval_winner, requires_approval. rewrite A. simpl. apply plurality_spec; assumption.
Qed.

Lemma is_approval_total : forall i, prof i <> [] -> dt_in (dt i) dom5 = true -> exists b, is_approval i = Ok b.
Proof.
  intros i Hne D. unfold is_approval, is_complete. unfold dom5 in D. rewrite D.
  destruct (prof i) as [|om p]; [congruence|]. simpl.
  repeat match goal with |- context [if ?c then _ else _] => destruct c end; eexists; reflexivity.
Qed.

Lemma is_approval_foreign : forall i, dt_in (dt i) dom5 = false -> is_approval i = Err Incompatible.
Proof. intros i D. unfold is_approval. unfold dom5 in D. rewrite D. reflexivity. Qed.

(* refused when the profile is not an approval profile ... *)
Theorem approval_guard_shape : forall i, is_approval i = Ok false -> approval_winner i = Err Incompatible.
Proof. intros i A. unfold approval_winner, requires_approval. rewrite A. reflexivity. Qed.

(* ... and when the data type is outside soc/toc/soi/toi *)
Theorem approval_guard : forall i, prof i <> [] -> dt_in (dt i) dom4 = false -> approval_winner i = Err Incompatible.
Proof.
  intros i Hne D. unfold approval_winner, requires_approval.
  destruct (dt_in (dt i) dom5) eqn:D5.
  - destruct (is_approval_total i Hne D5) as [b Hb]. rewrite Hb. simpl. destruct b; [|reflexivity].
    apply plurality_guard. exact D.
  - rewrite (is_approval_foreign i D5). reflexivity.
Qed.

Theorem approval_regroup : forall i i',
  wf_inst i -> wf_inst i' -> is_approval i = Ok true -> is_approval i' = Ok true ->
  dt_in (dt i) dom4 = true -> dt_in (dt i') dom4 = true ->
  (forall x, In x (alts i) <-> In x (alts i')) -> Permutation (expand (prof i)) (expand (prof i')) ->
  exists w w', approval_winner i = Ok w /\ approval_winner i' = Ok w' /\ forall a, In a w <-> In a w'.
Proof.
  intros i i' W W' A A' D D' HA HP.
  destruct (approval_spec i W A D) as [w [E S]]. destruct (approval_spec i' W' A' D') as [w' [E' S']].
  exists w, w'. split; [exact E|split; [exact E'|]]. intros a. rewrite S, S'. apply is_max_ext; [|exact HA].
  intros b. apply voters_perm. exact HP.
Qed.

(* =========================================================================================== *)
(* Part 2 — Borda *)

(* the voter with ballot o ranks a strictly above b (a in an earlier class; b must be listed) *)
Fixpoint prefers (o : order) (a b : N) : bool :=
  match o with
  | [] => false
  | c :: r => if memN a c then memN b (concat r) else prefers r a b
  end.

(* textbook Borda score of one voter: number of alternatives ranked strictly below a
   (the documented tie convention of borda_scores: members of a class get the score of its last member) *)
Definition borda1 (al : list N) (a : N) (o : order) : Z := Z.of_nat (length (filter (prefers o a) al)).
Definition sumZ (l : list Z) : Z := sumS Z.add 0%Z l.
Definition borda_score (al : list N) (P : list order) (a : N) : Z := sumZ (map (borda1 al a) P).
Definition is_maxZ (f : N -> Z) (U : list N) (a : N) : Prop := In a U /\ forall b, In b U -> (f b <= f a)%Z.

Notation totalZ := (total Z.add 0%Z).

Fixpoint below (o : order) (a : N) : nat :=
  match o with
  | [] => 0
  | c :: r => if memN a c then length (concat r) else below r a
  end.

Lemma prefers_in : forall o a b, prefers o a b = true -> In b (concat o).
Proof.
  induction o as [|c r IH]; intros a b H; simpl in *; [discriminate|].
  apply in_or_app. right. destruct (memN a c); [apply memN_In; exact H|eapply IH; exact H].
Qed.

Lemma filter_none : forall {T} (f : T -> bool) l, (forall x, In x l -> f x = false) -> filter f l = [].
Proof.
  intros T f l. induction l as [|x r IH]; intro H; simpl; [reflexivity|].
  rewrite (H x (or_introl eq_refl)). apply IH. intros; apply H; right; assumption.
Qed.

Lemma filter_all : forall {T} (f : T -> bool) l, (forall x, In x l -> f x = true) -> filter f l = l.
Proof.
  intros T f l. induction l as [|x r IH]; intro H; simpl; [reflexivity|].
  rewrite (H x (or_introl eq_refl)). f_equal. apply IH. intros; apply H; right; assumption.
Qed.

Lemma filter_ext_in' : forall {T} (f g : T -> bool) l, (forall x, In x l -> f x = g x) -> filter f l = filter g l.
Proof.
  intros T f g l. induction l as [|x r IH]; intro H; simpl; [reflexivity|].
  rewrite (H x (or_introl eq_refl)). rewrite IH by (intros; apply H; right; assumption). reflexivity.
Qed.

Lemma below_filter : forall o a, NoDup (concat o) -> length (filter (prefers o a) (concat o)) = below o a.
Proof.
  induction o as [|c r IH]; intros a Hn; [reflexivity|]. simpl concat. rewrite filter_app, app_length. simpl below.
  simpl in Hn. destruct (memN a c) eqn:Ea.
  - rewrite (filter_none (prefers (c :: r) a) c).
    + rewrite (filter_all (prefers (c :: r) a) (concat r)); [reflexivity|].
      intros x Hx. simpl. rewrite Ea. apply memN_In. exact Hx.
    + intros x Hx. simpl. rewrite Ea. apply memN_false. intro Hx'. eapply NoDup_app_disj; eassumption.
  - rewrite (filter_none (prefers (c :: r) a) c).
    + rewrite (filter_ext_in' (prefers (c :: r) a) (prefers r a)) by (intros x Hx; simpl; rewrite Ea; reflexivity).
      simpl. apply IH. eapply NoDup_app_r. exact Hn.
    + intros x Hx. simpl. rewrite Ea. destruct (prefers r a x) eqn:P; [|reflexivity]. exfalso.
      apply prefers_in in P. eapply NoDup_app_disj; eassumption.
Qed.

Lemma filter_length_perm : forall {T} (f : T -> bool) l1 l2,
  Permutation l1 l2 -> length (filter f l1) = length (filter f l2).
Proof.
  intros T f l1 l2 H. induction H; simpl; try lia.
  - destruct (f x); simpl; lia.
  - destruct (f x), (f y); simpl; lia.
Qed.

Lemma borda_ev_keys : forall o i k a, In a (map fst (borda_ev i k o)) -> In a (concat o).
Proof.
  induction o as [|c r IH]; intros i k a H; simpl in *; [exact H|].
  rewrite map_app, map_map in H. simpl in H. rewrite map_id in H. apply in_app_or in H. apply in_or_app.
  destruct H as [H|H]; [left; exact H|right; eapply IH; exact H].
Qed.

Lemma borda_ev_keys' : forall o i k a, In a (concat o) -> In a (map fst (borda_ev i k o)).
Proof.
  induction o as [|c r IH]; intros i k a H; simpl in *; [exact H|].
  rewrite map_app, map_map. simpl. rewrite map_id. apply in_app_or in H. apply in_or_app.
  destruct H as [H|H]; [left; exact H|right; apply IH; exact H].
Qed.

Lemma Ztotal_app : forall a l1 l2, totalZ a (l1 ++ l2) = (totalZ a l1 + totalZ a l2)%Z.
Proof. intros. apply total_app; intros; lia. Qed.

Lemma borda_ev_total : forall o i k a, NoDup (concat o) ->
  totalZ a (borda_ev i k o) =
  if memN a (concat o) then ((i - Z.of_nat (length (concat o)) + Z.of_nat (below o a)) * Z.of_N k)%Z else 0%Z.
Proof.
  induction o as [|c r IH]; intros i k a Hn; [reflexivity|]. simpl borda_ev. simpl concat. simpl below.
  simpl in Hn. rewrite Ztotal_app.
  rewrite (total_const Z.add 0%Z Z.add_comm Z.add_0_l) by (eapply NoDup_app_l; exact Hn).
  rewrite (IH _ k a (NoDup_app_r _ _ Hn)). rewrite app_length.
  assert (M : memN a (c ++ concat r) = memN a c || memN a (concat r)) by (unfold memN; apply existsb_app).
  rewrite M. destruct (memN a c) eqn:Ea; simpl.
  - assert (Er : memN a (concat r) = false).
    { apply memN_false. intro Hx. apply memN_In in Ea. eapply NoDup_app_disj; eassumption. }
    rewrite Er. lia.
  - destruct (memN a (concat r)); lia.
Qed.

Lemma sumZ_repeat : forall x n, sumZ (repeat x n) = (Z.of_nat n * x)%Z.
Proof. intros x n. induction n as [|n IH]; [reflexivity|]. unfold sumZ in *. simpl repeat. simpl sumS. rewrite IH. lia. Qed.

Lemma complete_perm : forall al o, NoDup al -> NoDup (concat o) -> incl (concat o) al ->
  completeb al o = true -> Permutation (concat o) al.
Proof.
  intros al o Ha Ho Hi Hc. unfold completeb in Hc. apply Nat.eqb_eq in Hc.
  apply NoDup_Permutation_bis; try assumption. lia.
Qed.

Definition wf_complete (i : inst) : Prop := all_orders (completeb (alts i)) i = true.

Lemma borda_total : forall i a, wf_inst i -> wf_complete i ->
  totalZ a (borda_events (n_alt i) (prof i)) = borda_score (alts i) (expand (prof i)) a.
Proof.
  intros i a W C. unfold borda_events, borda_score, sumZ.
  apply (total_profile Z.add 0%Z Z.add_assoc Z.add_0_l (fun o k => borda_ev (Z.of_N (n_alt i)) k o) (borda1 (alts i) a)).
  intros om Hom. destruct (wi_ord i W om Hom) as [Wo K].
  unfold wf_complete, all_orders in C. rewrite forallb_forall in C. specialize (C om Hom).
  assert (P := complete_perm _ _ (wi_alts i W) (wo_nodup _ _ Wo) (wo_incl _ _ Wo) C).
  rewrite borda_ev_total by (apply (wo_nodup _ _ Wo)).
  fold (sumZ (repeat (borda1 (alts i) a (fst om)) (N.to_nat (snd om)))). rewrite sumZ_repeat.
  unfold borda1. rewrite <- (filter_length_perm _ _ _ P), below_filter by (apply (wo_nodup _ _ Wo)).
  rewrite (wi_nalt i W), <- (Permutation_length P).
  destruct (memN a (concat (fst om))) eqn:M.
  - rewrite nat_N_Z, N_nat_Z. lia.
  - assert (B : below (fst om) a = 0).
    { clear - M. induction (fst om) as [|c r IH]; [reflexivity|]. simpl in *.
      unfold memN in M. rewrite existsb_app in M. apply orb_false_iff in M. destruct M as [M1 M2].
      unfold memN at 1. rewrite M1. apply IH. exact M2. }
    rewrite B. lia.
Qed.

Lemma Zleb_refl : forall x, Z.leb x x = true. Proof. intro; apply Z.leb_le; lia. Qed.
Lemma Zleb_trans : forall x y z, Z.leb x y = true -> Z.leb y z = true -> Z.leb x z = true.
Proof. intros x y z; rewrite !Z.leb_le; lia. Qed.
Lemma Zleb_total : forall x y, Z.leb x y = true \/ Z.leb y x = true.
Proof. intros x y; rewrite !Z.leb_le; lia. Qed.

Lemma maximal_is_maxZ : forall (f : N -> Z) U a,
  maximal Z.leb f (fun x => In x U) a <-> is_maxZ f U a.
Proof.
  intros f U a. unfold maximal, is_maxZ. split; intros [H1 H2]; split; try exact H1; intros b Hb.
  - apply Z.leb_le. apply H2. exact Hb.
  - apply Z.leb_le. apply H2. exact Hb.
Qed.

Lemma borda_keys : forall i a, wf_inst i -> wf_complete i ->
  (In a (map fst (borda_events (n_alt i) (prof i))) <-> In a (alts i)).
Proof.
  intros i a W C. unfold borda_events. split.
  - intro H. apply in_map_iff in H. destruct H as [[x z] [E H]]. simpl in E. subst x.
    apply in_flat_map in H. destruct H as [om [H1 H2]]. destruct (wi_ord i W om H1) as [Wo _].
    apply (wo_incl _ _ Wo). eapply borda_ev_keys. apply in_map_iff. exists (a, z). split; [reflexivity|exact H2].
  - intro H. destruct (prof i) as [|om p] eqn:E; [exfalso; apply (wi_ne i W); exact E|].
    assert (Hom : In om (prof i)) by (rewrite E; left; reflexivity).
    destruct (wi_ord i W om Hom) as [Wo _].
    unfold wf_complete, all_orders in C. rewrite forallb_forall in C. specialize (C om Hom).
    assert (P := complete_perm _ _ (wi_alts i W) (wo_nodup _ _ Wo) (wo_incl _ _ Wo) C).
    simpl flat_map. rewrite map_app. apply in_or_app. left. apply borda_ev_keys'.
    eapply Permutation_in; [apply Permutation_sym; exact P|exact H].
Qed.

Theorem borda_spec : forall i, wf_inst i -> wf_complete i -> dt_in (dt i) dom_ct = true ->
  exists w, borda_winner i = Ok w /\
            forall a, In a w <-> is_maxZ (borda_score (alts i) (expand (prof i))) (alts i) a.
Proof.
  intros i W C D. unfold borda_winner, borda_scores. unfold dom_ct in D. rewrite D.
  assert (D' : dt_in (dt i) [Toc; Soc] = true).
  { destruct (dt i); simpl in *; congruence. }
  rewrite D'. simpl rbind.
  assert (Hev : borda_events (n_alt i) (prof i) <> []).
  { assert (A := wf_alts_ne i W). destruct (alts i) as [|x r] eqn:E; [congruence|].
    assert (K : In x (map fst (borda_events (n_alt i) (prof i)))).
    { apply borda_keys; try assumption. rewrite E. left. reflexivity. }
    intro Z. rewrite Z in K. exact K. }
  destruct (table_winners Z.add 0%Z Z.leb Z.add_assoc Z.add_comm Z.add_0_l Zleb_refl Zleb_trans Zleb_total
              [] (borda_events (n_alt i) (prof i)) (NoDup_nil _) (or_intror Hev)) as [w [Hw Hs]].
  exists w. split; [exact Hw|]. intros a. rewrite Hs, <- maximal_is_maxZ. apply maximal_ext.
  - intros b. rewrite lookup_nil, Z.add_0_l. apply borda_total; assumption.
  - intros b. simpl. rewrite borda_keys by assumption. intuition.
Qed.

Theorem borda_guard : forall i, dt_in (dt i) dom_ct = false -> borda_winner i = Err Incompatible.
Proof. intros i H. unfold borda_winner. unfold dom_ct in H. rewrite H. reflexivity. Qed.

Lemma borda_score_perm : forall al P Q a, Permutation P Q -> borda_score al P a = borda_score al Q a.
Proof.
  intros al P Q a H. unfold borda_score, sumZ. apply (sumS_perm Z.add 0%Z Z.add_assoc Z.add_comm).
  apply Permutation_map. exact H.
Qed.

Theorem borda_regroup : forall i i',
  wf_inst i -> wf_inst i' -> wf_complete i -> wf_complete i' ->
  dt_in (dt i) dom_ct = true -> dt_in (dt i') dom_ct = true ->
  alts i = alts i' -> Permutation (expand (prof i)) (expand (prof i')) ->
  exists w w', borda_winner i = Ok w /\ borda_winner i' = Ok w' /\ forall a, In a w <-> In a w'.
Proof.
  intros i i' W W' C C' D D' HA HP.
  destruct (borda_spec i W C D) as [w [E S]]. destruct (borda_spec i' W' C' D') as [w' [E' S']].
  exists w, w'. split; [exact E|split; [exact E'|]]. intros a. rewrite S, S'. rewrite <- HA.
  unfold is_maxZ. split; intros [H1 H2]; split; try exact H1; intros b Hb.
  - rewrite <- !(borda_score_perm _ _ _ _ HP). apply H2. exact Hb.
  - rewrite !(borda_score_perm _ _ _ _ HP). apply H2. exact Hb.
Qed.

(* =========================================================================================== *)
(* is_approval decides the documented notion of an approval profile: every ballot is a single class, or every
   ballot is complete with at most two classes *)
Lemma max_list_le : forall l x b, max_list x l <= b <-> x <= b /\ forall y, In y l -> y <= b.
Proof.
  induction l as [|z l IH]; intros x b; unfold max_list in *; simpl.
  - split; [intro H; split; [exact H|intros ? []]|intros [H _]; exact H].
  - rewrite IH. split.
    + intros [H1 H2]. split; [lia|]. intros y [Hy|Hy]; [subst; lia|apply H2; exact Hy].
    + intros [H1 H2]. split; [assert (z <= b) by (apply H2; left; reflexivity); lia|]. intros y Hy. apply H2. right. exact Hy.
Qed.

Lemma min_list_ge : forall l x b, b <= min_list x l <-> b <= x /\ forall y, In y l -> b <= y.
Proof.
  induction l as [|z l IH]; intros x b; unfold min_list in *; simpl.
  - split; [intro H; split; [exact H|intros ? []]|intros [H _]; exact H].
  - rewrite IH. split.
    + intros [H1 H2]. split; [lia|]. intros y [Hy|Hy]; [subst; lia|apply H2; exact Hy].
    + intros [H1 H2]. split; [assert (b <= z) by (apply H2; left; reflexivity); lia|]. intros y Hy. apply H2. right. exact Hy.
Qed.

Lemma ballot_size_concat : forall o, ballot_size o = length (concat o).
Proof. induction o as [|c r IH]; [reflexivity|]. simpl. rewrite app_length, <- IH. reflexivity. Qed.

Definition approval_shape (i : inst) : Prop :=
  (forall om, In om (prof i) -> length (fst om) = 1) \/
  ((forall om, In om (prof i) -> length (fst om) <= 2) /\
   (forall om, In om (prof i) -> length (concat (fst om)) = length (alts i))).

Theorem is_approval_spec : forall i, wf_inst i -> dt_in (dt i) dom5 = true ->
  (is_approval i = Ok true <-> approval_shape i).
Proof.
  intros i W D. unfold is_approval, is_complete, approval_shape. unfold dom5 in D. rewrite D.
  assert (Hlen : forall om, In om (prof i) -> 1 <= length (fst om)).
  { intros om Hom. destruct (wi_ord i W om Hom) as [Wo _]. assert (N := wo_ne _ _ Wo). destruct (fst om); [congruence|simpl; lia]. }
  assert (Hsz : forall om, In om (prof i) -> length (concat (fst om)) <= length (alts i)).
  { intros om Hom. destruct (wi_ord i W om Hom) as [Wo _]. apply NoDup_incl_length; [apply (wo_nodup _ _ Wo)|apply (wo_incl _ _ Wo)]. }
  destruct (prof i) as [|om0 p] eqn:Ep; [exfalso; apply (wi_ne i W); exact Ep|].
  cbn [map].
  match goal with |- context [max_list ?a ?b] => set (m := max_list a b) end.
  match goal with |- context [min_list ?a ?b] => set (s := min_list a b) end.
  assert (Hm : forall b, m <= b <-> forall om, In om (om0 :: p) -> length (fst om) <= b).
  { intros b. unfold m. rewrite max_list_le. split.
    - intros [H1 H2] om [Hom|Hom]; [subst; exact H1|]. apply H2. apply in_map_iff. exists om. split; [reflexivity|exact Hom].
    - intros H. split; [apply H; left; reflexivity|]. intros y Hy. apply in_map_iff in Hy. destruct Hy as [om [E Hom]]. subst y. apply H. right. exact Hom. }
  assert (Hs : forall b, b <= s <-> forall om, In om (om0 :: p) -> b <= length (concat (fst om))).
  { intros b. unfold s. rewrite min_list_ge. split.
    - intros [H1 H2] om [Hom|Hom]; [subst; rewrite <- ballot_size_concat; exact H1|]. rewrite <- ballot_size_concat. apply H2.
      apply in_map_iff. exists om. split; [reflexivity|exact Hom].
    - intros H. split; [rewrite ballot_size_concat; apply H; left; reflexivity|]. intros y Hy. apply in_map_iff in Hy.
      destruct Hy as [om [E Hom]]. subst y. rewrite ballot_size_concat. apply H. right. exact Hom. }
  assert (Hm1 : 1 <= m).
  { assert (X : m <= m) by lia. rewrite Hm in X. specialize (X om0 (or_introl eq_refl)). specialize (Hlen om0 (or_introl eq_refl)). lia. }
  assert (Hs0 : s <= length (alts i)).
  { assert (X : s <= s) by lia. rewrite Hs in X. specialize (X om0 (or_introl eq_refl)). specialize (Hsz om0 (or_introl eq_refl)). lia. }
  rewrite (wi_nalt i W).
  destruct (Nat.eqb_spec m 1) as [E1|E1].
  - split; [intros _|reflexivity]. left. intros om Hom. assert (X : m <= 1) by lia. rewrite Hm in X.
    specialize (X om Hom). specialize (Hlen om Hom). lia.
  - destruct (Nat.eqb_spec m 2) as [E2|E2].
    + split.
      * intro H. inversion H as [H']. apply N.eqb_eq in H'. apply Nat2N.inj in H'. right. split.
        -- apply Hm. lia.
        -- intros om Hom. assert (X : s <= s) by lia. rewrite Hs in X. specialize (X om Hom). specialize (Hsz om Hom). lia.
      * intros [H|[H1 H2]].
        -- exfalso. assert (X : m <= 1) by (apply Hm; intros om Hom; rewrite (H om Hom); lia). lia.
        -- f_equal. apply N.eqb_eq. f_equal. assert (X : length (alts i) <= s) by (apply Hs; intros om Hom; rewrite (H2 om Hom); lia). lia.
    + split; [discriminate|]. intros [H|[H1 H2]]; exfalso.
      * assert (X : m <= 1) by (apply Hm; intros om Hom; rewrite (H om Hom); lia). lia.
      * assert (X : m <= 2) by (apply Hm; exact H1). lia.
Qed.
