(* Model/ELPDP.v — MIRROR of the Erdelyi-Lackner-Pfandler dynamic programme of
   preflibtools/properties/subdomains/ordinal/singlepeaked/k_alternative_deletion.py  (C12: k_alternative_deletion;
   C18: k_alt_partition_approx calls longest_single_peaked_axis repeatedly).  Executable definitions only.

     get_L_sets                  get_L_sets          eligible_alternatives       eligible
     last_check                  last_check          place / case_2 / case_3     place / case_2 / case_3
     check_case_4                check_case_4        boundary                    boundary
     longest_single_peaked_axis  longest_axis        k_alternative_deletion      k_alternative_deletion
     k_alt_partition_approx (k_alternative_partition.py)   k_alt_partition_approx (explicit fuel)

   REPRESENTATION
   * an incomplete axis  first_half + [None] + second_half  is the pair  (rev first_half, second_half) : paxis -
     both halves are stored INNER END FIRST, so the boundary (two alternatives on each side of None) is read off the
     heads; an axis always contains exactly one None (initially [None]; case_2 and case_3 split at axis.index(None)),
     so nothing is lost: pa_py gives the Python list back.  len(axis) = pa_len.
   * a vote is a flat ranking (list N, best first); vote.index(a) = rk vote a.
   * Python sets are duplicate-free lists in order of first insertion; frozenset([x1, x2]) is the sorted
     duplicate-free list mkset x1 x2, so that dictionary keys are compared by (=).
   * the dictionaries S[i] are association lists in insertion order (dict(S[i-1]) copies, a new key is appended, an
     existing key keeps its place): `for key in S[i - 1]` iterates in that order.
   * ORDER PARAMETERS (Section variables).  Two places depend on the iteration order of a CPython set / frozenset of
     ints or of frozensets, which is an artefact of hashing:
        pair_first a b   (a < b)   does list(frozenset({a, b})) start with a ?        (x1, x2 in case_2)
        ext_order        the order in which `for X in extensions` visits the set of frozensets
     The theorems (Proofs/ELPDP.v) hold for EVERY choice (ext_order only has to return a list whose members are
     members of its argument); the extracted oracle uses pair_first a b := a mod 8 <= b mod 8 (CPython's slot order
     for two small ints) and ext_order := the order of generation (x1 over L[i], x2 over the remaining ones). *)
From Coq Require Import List Arith NArith Bool.
From PrefVerif Require Import Lib.Val Lib.Contig Model.SP.
Import ListNotations.

Definition paxis : Type := (list N * list N)%type.          (* (rev first_half, second_half) *)
Definition pa_empty : paxis := ([], []).                    (* [None] *)
Definition pa_len (A : paxis) : nat := S (length (fst A) + length (snd A)).
Definition pa_elems (A : paxis) : list N := rev (fst A) ++ snd A.                 (* the axis without None *)
Definition pa_py (A : paxis) : list (option N) := map Some (rev (fst A)) ++ None :: map Some (snd A).
Definition pa_eqb (A B : paxis) : bool :=
  (if list_eq_dec N.eq_dec (fst A) (fst B) then true else false)
  && (if list_eq_dec N.eq_dec (snd A) (snd B) then true else false).

(* vote.index(a) *)
Fixpoint rk (v : list N) (a : N) : nat :=
  match v with [] => 0 | x :: r => if N.eqb a x then 0 else S (rk r a) end.

Fixpoint dedupN (l : list N) : list N :=             (* set semantics: keep the first occurrence *)
  match l with [] => [] | a :: r => a :: filter (fun b => negb (N.eqb b a)) (dedupN r) end.

(* boundary(axis): the two entries on each side of None, None-padded  (tmp[x-2], tmp[x-1], tmp[x+1], tmp[x+2]) *)
Definition bnd : Type := (option N * option N * option N * option N)%type.
Definition boundary (A : paxis) : bnd :=
  (nth_error (fst A) 1, nth_error (fst A) 0, nth_error (snd A) 0, nth_error (snd A) 1).

Definition rkb (v : list N) (b : option N) : option nat := option_map (rk v) b.
Definition isS {T} (o : option T) : bool := match o with Some _ => true | None => false end.
(* "b is not None and b < x" *)
Definition olt (b : option nat) (x : nat) : bool := match b with Some p => p <? x | None => false end.

(* check_case_4(b, x) *)
Definition check_case_4 (b0 b1 b2 b3 : option nat) (x : nat) : bool :=
  let left_b := match b0, b1 with Some p0, Some p1 => (p0 <? p1) && (x <? p1) | _, _ => false end in
  let right_b := match b3, b2 with Some p3, Some p2 => (p3 <? p2) && (x <? p2) | _, _ => false end in
  left_b || right_b.

(* ---------------------------------------------------------------------------------------------- *)
(* case_3: one new alternative x.  Loop state: (returned False already, flag_c, flag_d)            *)
Definition c3_step (bd : bnd) (x : N) (st : bool * bool * bool) (v : list N) : bool * bool * bool :=
  match st, bd with
  | (fail, c, d), (a0, a1, a2, a3) =>
    if fail then st else
    let ix := rk v x in
    let b0 := rkb v a0 in let b1 := rkb v a1 in let b2 := rkb v a2 in let b3 := rkb v a3 in
    if isS b1 && isS b2 && olt b1 ix && olt b2 ix then (true, c, d)
    else if (isS b0 || isS b3) && check_case_4 b0 b1 b2 b3 ix then (true, c, d)
    else (false, c || olt b2 ix, d || olt b1 ix)
  end.

Definition case_3 (A : paxis) (x : N) (votes : list (list N)) : paxis * bool :=
  match boundary A with
  | (a0, a1, a2, a3) =>
    let st := if isS a1 || isS a2 then fold_left (c3_step (a0, a1, a2, a3) x) votes (false, false, false)
              else (false, false, false) in
    match st with
    | (fail, c, d) =>
      if fail then (A, false)
      else ((if d then (fst A, x :: snd A) else (x :: fst A, snd A)), negb (c && d))
    end
  end.

(* case_2: two new alternatives x1, x2.  Loop state: (returned False already, c1, d1, c2, d2)      *)
Definition c2_state : Type := (bool * bool * bool * bool * bool)%type.
Definition c2_step (bd : bnd) (x1 x2 : N) (st : c2_state) (v : list N) : c2_state :=
  match st, bd with
  | (fail, c1, d1, c2, d2), (a0, a1, a2, a3) =>
    if fail then st else
    let i1 := rk v x1 in let i2 := rk v x2 in
    let b0 := rkb v a0 in let b1 := rkb v a1 in let b2 := rkb v a2 in let b3 := rkb v a3 in
    if isS b1 && isS b2 && ((olt b1 i1 && olt b2 i1) || (olt b1 i2 && olt b2 i2)) then (true, c1, d1, c2, d2)
    else if (isS b0 || isS b3) && (check_case_4 b0 b1 b2 b3 i1 || check_case_4 b0 b1 b2 b3 i2)
         then (true, c1, d1, c2, d2)
    else
      let c1' := c1 || (olt b2 i1 && (i2 <? i1)) in
      let c2' := c2 || (olt b2 i2 && (i1 <? i2)) in
      let d1' := d1 || (olt b1 i1 && (i2 <? i1)) in
      let d2' := d2 || (olt b1 i2 && (i1 <? i2)) in
      if (c1' && d1') || (c2' && d2') || (c1' && c2') || (d1' && d2') then (true, c1', d1', c2', d2')
      else (false, c1', d1', c2', d2')
  end.

Definition case_2 (A : paxis) (x1 x2 : N) (votes : list (list N)) : paxis * bool :=
  match boundary A with
  | (a0, a1, a2, a3) =>
    let st := if isS a1 || isS a2 then fold_left (c2_step (a0, a1, a2, a3) x1 x2) votes (false, false, false, false, false)
              else (false, false, false, false, false) in
    match st with
    | (fail, c1, d1, c2, d2) =>
      if fail then (A, false)
      else if c2 || d1 then ((x2 :: fst A, x1 :: snd A), true)
      else ((x1 :: fst A, x2 :: snd A), true)
    end
  end.

(* frozenset([x1, x2]) *)
Definition mkset (x1 x2 : N) : list N :=
  if N.eqb x1 x2 then [x1] else if N.ltb x1 x2 then [x1; x2] else [x2; x1].

(* ---------------------------------------------------------------------------------------------- *)
(* last_check(unique_votes, previous_alternatives = Y, alternatives = [x1, x2])                     *)
Definition last_opt (l : list N) : list N := match l with [] => [] | _ => [last l 0%N] end.
  (* Python: l[-1] (IndexError on an empty list; cannot happen when the votes contain x1) *)

Definition last_check (votes : list (list N)) (Y : list N) (x1 x2 : N) : bool :=
  let restriction := [x1; x2] ++ Y in
  let full v := filter (fun a => memN a restriction) v in
  let last_of_all := flat_map (fun v => last_opt (full v)) votes in
  let last_of_new := flat_map (fun v => last_opt (filter (fun a => memN a [x1; x2]) (full v))) votes in
  let nonempty_Y := negb (is_nil Y) in
  let previous_are_last := negb ((memN x1 last_of_all && nonempty_Y) || (memN x2 last_of_all && nonempty_Y)) in
  let both_new_are_last := memN x1 last_of_new && memN x2 last_of_new in
  previous_are_last && both_new_are_last.

(* get_L_sets(alternatives, unique_votes) -> [L[1]; ...; L[m]] *)
Definition L_step (alts : list N) (st : list (list N) * list N * list (list N)) (_ : nat)
  : list (list N) * list N * list (list N) :=
  match st with
  | (votes_copy, previous_last, acc) =>
    let vc := map (filter (fun a => negb (memN a previous_last) && memN a alts)) votes_copy in
    let lst := dedupN (flat_map last_opt vc) in
    (vc, lst, acc ++ [lst])
  end.
Definition get_L_sets (alts : list N) (votes : list (list N)) : list (list N) :=
  snd (fold_left (L_step alts) (seq 1 (length alts)) (votes, [], [])).

Section Orders.
Variable pair_first : N -> N -> bool.
Variable ext_order : list (list N) -> list (list N).

Definition place (A : paxis) (X : list N) (votes : list (list N)) : paxis * bool :=
  match X with
  | [x] => case_3 A x votes
  | [a; b] => if pair_first a b then case_2 A a b votes else case_2 A b a votes
  | _ => (A, false)
  end.

(* eligible_alternatives(i, m, Y, L, unique_votes);  L[j] = nth (j-1) Ls [] *)
Definition eligible (i m : nat) (Y : list N) (Ls : list (list N)) (votes : list (list N)) : list (list N) :=
  let Li := nth (i - 1) Ls [] in
  let remaining := dedupN (Li ++ concat (firstn (m - i) (skipn (i - 1) Ls))) in
  let cands := flat_map (fun x1 => flat_map (fun x2 => if last_check votes Y x1 x2 then [mkset x1 x2] else [])
                                            remaining) Li in
  ext_order (nodup (list_eq_dec N.eq_dec) cands).

(* dictionaries  key = (boundary, X) -> axis *)
Definition key : Type := (bnd * list N)%type.
Definition key_eq_dec : forall k1 k2 : key, {k1 = k2} + {k1 <> k2}.
Proof. repeat decide equality; apply N.eq_dec. Defined.
Definition table : Type := list (key * paxis).
Fixpoint tbl_get (t : table) (k : key) : option paxis :=
  match t with [] => None | (k', A) :: r => if key_eq_dec k k' then Some A else tbl_get r k end.
Fixpoint tbl_set (t : table) (k : key) (A : paxis) : table :=
  match t with
  | [] => [(k, A)]
  | (k', A') :: r => if key_eq_dec k k' then (k, A) :: r else (k', A') :: tbl_set r k A
  end.

Record dp_state : Type := mk_dp { s_cur : table; s_longest : paxis; s_locked : paxis }.

(* body of `for X in extensions` *)
Definition ext_step (votes : list (list N)) (A : paxis) (st : dp_state) (X : list N) : dp_state :=
  match place A X votes with
  | (A', true) =>
    let lg := if pa_len (s_longest st) <? pa_len A' then A' else s_longest st in
    let k := (boundary A', X) in
    let cur := match tbl_get (s_cur st) k with
               | None => tbl_set (s_cur st) k A'
               | Some B => if pa_len B <? pa_len A' then tbl_set (s_cur st) k A' else s_cur st
               end in
    mk_dp cur lg (s_locked st)
  | (A', false) =>
    if negb (pa_eqb A' A) && (pa_len (s_locked st) <? pa_len A') then mk_dp (s_cur st) (s_longest st) A' else st
  end.

(* body of `for key in S[i - 1]` *)
Definition key_step (i m : nat) (Ls votes : list (list N)) (remaining : list N) (st : dp_state) (e : key * paxis)
  : dp_state :=
  match e with
  | ((_, Y), A) =>
    if pa_len A + length remaining <? pa_len (s_longest st) then st
    else fold_left (ext_step votes A) (eligible i m Y Ls votes) st
  end.

(* body of `for i in range(1, m + 1)`; state: (S[i-1], longest, locked_axis), remaining_alternatives *)
Definition outer_step (m : nat) (Ls votes : list (list N)) (st : dp_state * list N) (i : nat) : dp_state * list N :=
  match st with
  | (s, remaining) =>
    let s' := fold_left (key_step i m Ls votes remaining) (s_cur s) s in
    (s', filter (fun c => negb (memN c (nth (i - 1) Ls []))) remaining)
  end.

Definition init_table : table := [(((None, None, None, None), []), pa_empty)].

(* longest_single_peaked_axis(instance, alternatives) -> (longest axis, removed alternatives) *)
Definition longest_axis (alts : list N) (votes : list (list N)) : list N * list N :=
  let m := length alts in
  let Ls := get_L_sets alts votes in
  let st := fst (fold_left (outer_step m Ls votes) (seq 1 m) (mk_dp init_table pa_empty pa_empty, alts)) in
  let longest := if pa_len (s_longest st) <? pa_len (s_locked st) then s_locked st else s_longest st in
  let axis := pa_elems longest in
  (axis, filter (fun a => negb (memN a axis)) alts).

Definition k_alternative_deletion (alts : list N) (votes : list (list N)) : list N * list N :=
  longest_axis alts votes.

(* k_alt_partition_approx: while alternatives: axis, alternatives = longest_single_peaked_axis(...).
   Fuel = number of alternatives + 1; every round removes at least one alternative when there is at least one vote
   (Proofs/ELPDP.v), otherwise the Python loop does not terminate: OutOfFuel *)
Fixpoint approx_loop (fuel : nat) (alts : list N) (votes : list (list N)) (axes : list (list N))
  : result (list (list N)) :=
  match alts with
  | [] => Ok axes
  | _ => match fuel with
         | 0 => Err OutOfFuel
         | S f => let '(axis, rest) := longest_axis alts votes in approx_loop f rest votes (axes ++ [axis])
         end
  end.
Definition k_alt_partition_approx (alts : list N) (votes : list (list N)) : result (list (list N)) :=
  approx_loop (S (length alts)) alts votes [].
End Orders.

(* the instantiation used by the extracted oracle *)
Definition std_pair_first (a b : N) : bool := (N.modulo a 8 <=? N.modulo b 8)%N.
Definition std_ext_order (l : list (list N)) : list (list N) := l.
