(* Properties/C05.v — placeholder until Proofs/C1P.v and Proofs/Approval.v are complete *)
From Coq Require Import List NArith.
From PrefVerif Require Import Model.C1P Model.Approval.
Import ListNotations.
Example c1p_nonvacuous :
  c1p_decide [[true;false;true];[false;true;true]] 3 = true /\
  c1p_decide [[true;true;false];[false;true;true];[true;false;true]] 3 = false.
Proof. split; vm_compute; reflexivity. Qed.
