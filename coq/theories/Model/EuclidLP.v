(* Model/EuclidLP.v — exact decision of 1-Euclidean profiles by Fourier-Motzkin elimination (C19, reference
   decider).  Executable definitions only; proofs in Proofs/EuclidLP.v.

   A profile is 1-Euclidean iff for SOME axis (left-to-right order of the alternatives) the following system of
   STRICT HOMOGENEOUS linear inequalities over Q has a solution (variables: one position per voter, one per
   alternative):
       x_a < x_b                      for a left of b on the axis
       2 p_v < x_a + x_b              if voter v prefers a to b and a is left of b
       x_a + x_b < 2 p_v              if voter v prefers a to b and a is right of b
   Feasibility is decided by eliminating the variables one by one (Fourier-Motzkin); the recursion is on the
   number of variables (no fuel).  After each step the constraints are normalised (divided by the absolute value
   of their first non-zero coefficient, fractions reduced) and duplicates are removed; only axes on which the
   profile is single-peaked are tried (a necessary condition, Proofs/Euclid.v: eucl_implies_sp).
   Doubly exponential in the worst case: a reference for small profiles only. *)
From Coq Require Import List Arith NArith ZArith QArith Qabs Bool.
From PrefVerif Require Import Lib.Perms Lib.Contig Model.SP Model.Euclid.
Import ListNotations.
Open Scope Q_scope.

(* a linear form = its coefficient list (variable i <-> position i; missing coefficients are 0);
   as a constraint it means  eval c env < 0 *)
Definition lin := list Q.

Fixpoint eval (c env : list Q) : Q :=
  match c, env with
  | c0 :: cs, e0 :: es => c0 * e0 + eval cs es
  | _, _ => 0
  end.

Definition hdq (c : lin) : Q := match c with [] => 0 | x :: _ => x end.
Definition tlq (c : lin) : lin := match c with [] => [] | _ :: t => t end.

Definition scale (k : Q) (c : lin) : lin := map (fun x => Qred (k * x)) c.

Fixpoint ladd (c d : lin) : lin :=
  match c, d with
  | x :: c', y :: d' => Qred (x + y) :: ladd c' d'
  | [], _ => d
  | _, [] => c
  end.

(* ---- one elimination step on variable 0 ---- *)
Definition is_zero (c : lin) : bool := Qeq_bool (hdq c) 0.
Definition is_pos (c : lin) : bool := Qltb 0 (hdq c).
Definition is_neg (c : lin) : bool := Qltb (hdq c) 0.

(* p: p0 > 0, q: q0 < 0   |->   (-q0) * tail p + p0 * tail q *)
Definition combine_pn (p q : lin) : lin := ladd (scale (- hdq q) (tlq p)) (scale (hdq p) (tlq q)).

Definition fm_step (sys : list lin) : list lin :=
  map tlq (filter is_zero sys)
  ++ flat_map (fun p => map (combine_pn p) (filter is_neg sys)) (filter is_pos sys).

(* ---- normalisation and removal of duplicates (the solution set is unchanged) ---- *)
Fixpoint first_nz (c : lin) : Q :=
  match c with
  | [] => 1
  | x :: t => if Qeq_bool x 0 then first_nz t else Qabs x
  end.
Definition normalise (c : lin) : lin := scale (/ first_nz c) c.

Fixpoint lin_eqb (c d : lin) : bool :=
  match c, d with
  | [], [] => true
  | x :: c', y :: d' => Qeq_bool x y && lin_eqb c' d'
  | _, _ => false
  end.

Fixpoint dedup_lin (l : list lin) : list lin :=
  match l with
  | [] => []
  | c :: t => if existsb (lin_eqb c) t then dedup_lin t else c :: dedup_lin t
  end.

Definition simplify (sys : list lin) : list lin := dedup_lin (map normalise sys).

Definition all_zero (c : lin) : bool := forallb (fun x => Qeq_bool x 0) c.

(* ---- feasibility of a strict homogeneous system in n variables ---- *)
Fixpoint fm_feasible (n : nat) (sys : list lin) : bool :=
  if existsb all_zero sys then false
  else match n with
       | O => match sys with [] => true | _ => false end
       | S n' => fm_feasible n' (simplify (fm_step sys))
       end.

(* ---- the system of a profile on an axis ---- *)
Fixpoint aidx (l : list N) (a : N) : nat :=
  match l with
  | [] => O
  | x :: t => if N.eqb x a then O else S (aidx t a)
  end.

Definition unit (i : nat) (k : Q) : lin := repeat 0 i ++ [k].

(* all pairs (a, b) with a listed before b *)
Fixpoint ordered_pairs {T} (l : list T) : list (T * T) :=
  match l with
  | [] => []
  | a :: t => map (pair a) t ++ ordered_pairs t
  end.

(* variables: voters 0 .. n-1, then the alternatives in axis order *)
Definition c_axis (n : nat) (axis : list N) (ab : N * N) : lin :=        (* x_a - x_b < 0 *)
  ladd (unit (n + aidx axis (fst ab)) 1) (unit (n + aidx axis (snd ab)) (-1)).

Definition c_vote (n : nat) (axis : list N) (v : nat) (ab : N * N) : lin :=   (* voter v prefers a to b *)
  let ia := aidx axis (fst ab) in
  let ib := aidx axis (snd ab) in
  if (ia <? ib)%nat
  then ladd (unit v 2) (ladd (unit (n + ia) (-1)) (unit (n + ib) (-1)))       (* 2 p_v - x_a - x_b < 0 *)
  else ladd (unit v (-2)) (ladd (unit (n + ia) 1) (unit (n + ib) 1)).         (* x_a + x_b - 2 p_v < 0 *)

Fixpoint vote_sys (n : nat) (axis : list N) (v : nat) (profile : list (list N)) : list lin :=
  match profile with
  | [] => []
  | r :: t => map (c_vote n axis v) (ordered_pairs r) ++ vote_sys n axis (S v) t
  end.

Definition eucl_system (axis : list N) (profile : list (list N)) : list lin :=
  let n := length profile in
  map (c_axis n axis) (ordered_pairs axis) ++ vote_sys n axis O profile.

Definition eucl_axis_feasible (axis : list N) (profile : list (list N)) : bool :=
  fm_feasible (length profile + length axis) (eucl_system axis profile).

(* the reference decider (Proofs/EuclidLP.v: eucl_decide_correct) *)
Definition eucl_decide (alts : list N) (profile : list (list N)) : bool :=
  match profile with
  | [] => true
  | _ => existsb (fun axis => sp_axis_profile (map strictify profile) axis && eucl_axis_feasible axis profile)
                 (perms alts)
  end.

(* ---------------------------------------------------------------------------------------------- *)
(* Fourier-Motzkin with back-substitution: a point of the solution set (an exact rational "solver"
   for strict homogeneous systems).  Proofs/EuclidLP.v: fm_solve_sound, fm_solve_none.             *)
Fixpoint qmaxl (x : Q) (l : list Q) : Q :=
  match l with
  | [] => x
  | y :: t => let mx := qmaxl y t in if Qle_bool mx x then x else mx
  end.
Fixpoint qminl (x : Q) (l : list Q) : Q :=
  match l with
  | [] => x
  | y :: t => let mn := qminl y t in if Qle_bool x mn then x else mn
  end.

(* a value strictly above every lower bound and strictly below every upper bound (if lowers < uppers) *)
Definition pick_between (lowers uppers : list Q) : Q :=
  match lowers, uppers with
  | [], [] => 0
  | l :: ls, [] => Qred (qmaxl l ls + 1)
  | [], u :: us => Qred (qminl u us - 1)
  | l :: ls, u :: us => Qred ((qmaxl l ls + qminl u us) * (1 # 2))
  end.

Definition lower_bounds (es : list Q) (sys : list lin) : list Q :=
  map (fun q => eval (tlq q) es / (- hdq q)) (filter is_neg sys).
Definition upper_bounds (es : list Q) (sys : list lin) : list Q :=
  map (fun p => - eval (tlq p) es / hdq p) (filter is_pos sys).

Fixpoint fm_solve (n : nat) (sys : list lin) : option (list Q) :=
  if existsb all_zero sys then None
  else match n with
       | O => match sys with [] => Some [] | _ => None end
       | S n' =>
           match fm_solve n' (simplify (fm_step sys)) with
           | None => None
           | Some es => Some (pick_between (lower_bounds es sys) (upper_bounds es sys) :: es)
           end
       end.
