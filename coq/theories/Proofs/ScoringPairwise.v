(* Proofs/ScoringPairwise.v — the mirrors of borda_scores / copeland_scores inside Model/Scoring.v (C06) and the
   mirrors of the same Python functions in Model/Pairwise.v (C07) are the same tables, so the winner theorems of
   C06 are statements about the tables whose voter-level meaning C07 proves (pairwise_spec, copeland_spec,
   borda_spec, regrouping). *)
From Coq Require Import List Arith NArith ZArith Bool Lia Permutation.
From PrefVerif Require Import Lib.Val Model.Scoring Proofs.ScoreTable Proofs.Scoring Proofs.ScoringCopeland.
From PrefVerif Require Model.Pairwise Proofs.Pairwise.
Import ListNotations.

Module PW := PrefVerif.Model.Pairwise.
Module PWP := PrefVerif.Proofs.Pairwise.

(* the C06 view of an instance as a C07 instance (names are irrelevant to both models) *)
Definition to_dt (d : dtype) : PW.dtype :=
  match d with Soc => PW.SOC | Soi => PW.SOI | Toc => PW.TOC | Toi => PW.TOI | Cat => PW.CAT | DOther => PW.DTOther end.
Definition to_pw (i : inst) : PW.inst :=
  PW.mkInst (map (fun a => (a, @nil N)) (alts i)) (n_alt i) (n_vot i) (prof i) (to_dt (dt i)).

Lemma to_pw_alts : forall i, PW.alts (to_pw i) = alts i.
Proof. intros i. unfold PW.alts, to_pw. simpl. rewrite map_map. simpl. apply map_id. Qed.

Lemma to_pw_ordinal : forall i, PW.is_ordinal (PW.data_type (to_pw i)) = dt_in (dt i) [Soc; Toc; Soi; Toi].
Proof. intros i. simpl. destruct (dt i); reflexivity. Qed.

Lemma to_pw_complete_type : forall i, PW.is_complete_type (PW.data_type (to_pw i)) = dt_in (dt i) [Toc; Soc].
Proof. intros i. simpl. destruct (dt i); reflexivity. Qed.

Lemma wf_orders_nodup : forall i, wf_inst i -> PWP.orders_nodup (prof i).
Proof.
  intros i W. unfold PWP.orders_nodup. apply Forall_forall. intros om Hom.
  destruct (wi_ord i W om Hom) as [Wo _]. apply (wo_nodup _ _ Wo).
Qed.

(* =========================================================================================== *)
(* Borda: the two score tables are the same list — for every instance, no hypothesis *)
Lemma tbl_add_dd_add : forall t a s, tbl_add Z.add 0%Z t a s = PW.dd_add t a s.
Proof.
  induction t as [|[b x] t IH]; intros a s; simpl; [reflexivity|].
  destruct (N.eqb b a); [reflexivity|rewrite IH; reflexivity].
Qed.

Lemma borda_ev_bups : forall o i k, borda_ev i k o = PWP.bups (Z.of_N k) i o.
Proof. induction o as [|c r IH]; intros i k; simpl; [reflexivity|rewrite IH; reflexivity]. Qed.

Lemma borda_events_bups : forall m p, borda_events m p = PWP.bups_profile (Z.of_N m) p.
Proof.
  intros m p. unfold borda_events, PWP.bups_profile. apply flat_map_ext. intros om. apply borda_ev_bups.
Qed.

Lemma tbl_adds_dd_apply : forall evs t, tbl_adds Z.add 0%Z t evs = PWP.dd_apply t evs.
Proof.
  induction evs as [|e r IH]; intros t; [reflexivity|]. unfold tbl_adds, PWP.dd_apply in *. simpl.
  rewrite tbl_add_dd_add. apply IH.
Qed.

Theorem borda_table_agree : forall i,
  tbl_adds Z.add 0%Z [] (borda_events (n_alt i) (prof i)) = PW.borda_table (to_pw i).
Proof.
  intros i. rewrite PWP.borda_table_ups. simpl. rewrite borda_events_bups. apply tbl_adds_dd_apply.
Qed.

Theorem borda_scores_agree : forall i, borda_scores i = PW.borda_scores (to_pw i).
Proof.
  intros i. unfold borda_scores, PW.borda_scores. rewrite to_pw_complete_type.
  destruct (dt_in (dt i) [Toc; Soc]); [|reflexivity]. f_equal. apply borda_table_agree.
Qed.

(* lookup in the C06 table = rget in the C07 table, for every alternative *)
Lemma lookup_rget : forall (t : list (N * Z)) a,
  lookup 0%Z t a = match PW.rget t a with Some v => v | None => 0%Z end.
Proof.
  induction t as [|[b x] t IH]; intros a; [reflexivity|]. rewrite lookup_cons. simpl.
  destruct (N.eqb b a); [reflexivity|apply IH].
Qed.

Theorem borda_lookup_agree : forall i a,
  lookup 0%Z (tbl_adds Z.add 0%Z [] (borda_events (n_alt i) (prof i))) a = PWP.getd (PW.borda_table (to_pw i)) a.
Proof. intros i a. rewrite borda_table_agree. apply lookup_rget. Qed.

(* the increments addressed to a: C06's `total` is C07's `bhits` *)
Lemma total_bhits : forall evs a, total Z.add 0%Z a evs = PWP.bhits evs a.
Proof.
  induction evs as [|e r IH]; intros a; [reflexivity|]. simpl. unfold PWP.bhits in *. simpl.
  rewrite IH. destruct (N.eqb (fst e) a); lia.
Qed.

(* the textbook score of C06 (number of alternatives strictly below, per voter) is C07's borda_total *)
Theorem borda_score_is_total : forall i a, wf_inst i -> wf_complete i ->
  borda_score (alts i) (expand (prof i)) a = PW.borda_total (Z.of_N (n_alt i)) (prof i) a.
Proof.
  intros i a W C. rewrite <- (borda_total i a W C), total_bhits, borda_events_bups.
  apply PWP.bhits_profile. apply wf_orders_nodup. exact W.
Qed.

(* corollary: borda_winner maximises C07's borda_total *)
Theorem borda_winner_pairwise : forall i, wf_inst i -> wf_complete i -> dt_in (dt i) dom_ct = true ->
  exists w, borda_winner i = Ok w /\
            forall a, In a w <-> is_maxZ (PW.borda_total (Z.of_N (n_alt i)) (prof i)) (alts i) a.
Proof.
  intros i W C D. destruct (borda_spec i W C D) as [w [E S]]. exists w. split; [exact E|].
  intros a. rewrite S. unfold is_maxZ. split; intros [H1 H2]; split; try exact H1; intros b Hb.
  - rewrite <- !(borda_score_is_total i _ W C). apply H2. exact Hb.
  - rewrite !(borda_score_is_total i _ W C). apply H2. exact Hb.
Qed.

(* =========================================================================================== *)
(* Copeland: the two nested tables are the same list on well-formed instances *)
Lemma prefers_above : forall o a b, NoDup (concat o) -> prefers o a b = PW.above o a b.
Proof.
  induction o as [|c r IH]; intros a b Hn; [reflexivity|]. rewrite PWP.above_cons. simpl prefers.
  simpl in Hn. change (PW.mem a c) with (memN a c). change (PW.mem b c) with (memN b c).
  change (PW.mem b (concat r)) with (memN b (concat r)).
  destruct (memN a c) eqn:Ea.
  - destruct (memN b (concat r)) eqn:Er; [|rewrite andb_false_r; reflexivity].
    destruct (memN b c) eqn:Ec; [|reflexivity]. exfalso. apply memN_In in Er. apply memN_In in Ec.
    eapply NoDup_app_disj; eassumption.
  - destruct (memN b c) eqn:Ec.
    + destruct (prefers r a b) eqn:P; [|reflexivity]. exfalso. apply prefers_in in P. apply memN_In in Ec.
      eapply NoDup_app_disj; eassumption.
    + apply IH. eapply NoDup_app_r. exact Hn.
Qed.

Lemma margin_p_margin : forall p x y, PWP.orders_nodup p -> margin_p p x y = PW.margin p x y.
Proof.
  intros p x y H. induction H as [|om p Ho Hp IH]; [reflexivity|].
  cbn [margin_p]. rewrite IH, !(prefers_above _ _ _ Ho). unfold PW.margin.
  assert (E : forall a b, PW.pw (om :: p) a b = ((if PW.above (fst om) a b then Z.of_N (snd om) else 0) + PW.pw p a b)%Z)
    by reflexivity.
  rewrite !E. unfold order, PW.order in *. destruct (PW.above (fst om) x y), (PW.above (fst om) y x); cbn [b2z]; lia.
Qed.

Lemma mk_tbl_rebuild : forall al f, mk_tbl al f = PWP.rebuild f (PWP.shape_of al).
Proof. intros al f. unfold mk_tbl, PWP.rebuild, PWP.shape_of. rewrite map_map. reflexivity. Qed.

Theorem copeland_table_agree : forall i, wf_inst i ->
  copeland_table (alts i) (prof i) = PW.copeland_table (to_pw i).
Proof.
  intros i W. assert (Hp := wf_orders_nodup i W).
  rewrite PWP.copeland_table_closed; [|rewrite to_pw_alts; apply (wi_alts i W)|exact Hp].
  rewrite to_pw_alts. unfold copeland_table. rewrite cop_init_mk, copeland_table_mk.
  - rewrite mk_tbl_rebuild. apply PWP.rebuild_ext. intros a b. simpl PW.mult. rewrite margin_p_margin by exact Hp. lia.
  - intros om Hom. destruct (wi_ord i W om Hom) as [Wo _]. apply (wo_nodup _ _ Wo).
Qed.

Theorem copeland_scores_agree : forall i, wf_inst i -> copeland_scores i = PW.copeland_scores (to_pw i).
Proof.
  intros i W. unfold copeland_scores, PW.copeland_scores. rewrite to_pw_ordinal.
  destruct (dt_in (dt i) [Soc; Toc; Soi; Toi]); [|reflexivity]. f_equal. apply copeland_table_agree. exact W.
Qed.

(* entry by entry *)
Theorem copeland_entry_agree : forall i a b, wf_inst i ->
  PW.tget (copeland_table (alts i) (prof i)) a b = PW.tget (PW.copeland_table (to_pw i)) a b.
Proof. intros i a b W. rewrite (copeland_table_agree i W). reflexivity. Qed.

(* number of b <> a whose C07 margin against a is positive *)
Definition pw_wins (al : list N) (p : profile) (a : N) : N :=
  N.of_nat (length (filter (fun b => negb (N.eqb b a) && (0 <? PW.margin p a b)%Z) al)).

Lemma nprefer_pw : forall p x y, PWP.orders_nodup p -> Z.of_N (nprefer (expand p) x y) = PW.pw p x y.
Proof.
  intros p x y H. rewrite PWP.pw_voters. unfold nprefer, voters. rewrite nat_N_Z. f_equal. f_equal.
  change (PW.expand p) with (expand p). apply filter_ext_in'. intros o Ho.
  unfold expand in Ho. apply in_flat_map in Ho. destruct Ho as [om [H1 H2]]. apply repeat_spec in H2. subst o.
  apply prefers_above. unfold PWP.orders_nodup in H. rewrite Forall_forall in H. apply H. exact H1.
Qed.

Theorem copeland_wins_is_margin : forall i a, wf_inst i ->
  copeland_wins (alts i) (expand (prof i)) a = pw_wins (alts i) (prof i) a.
Proof.
  intros i a W. assert (Hp := wf_orders_nodup i W). unfold copeland_wins, pw_wins. f_equal. f_equal.
  apply filter_ext_in'. intros b _. f_equal. unfold beats, PW.margin. rewrite <- !(nprefer_pw _ _ _ Hp).
  destruct (N.ltb_spec (nprefer (expand (prof i)) b a) (nprefer (expand (prof i)) a b));
    symmetry; [apply Z.ltb_lt|apply Z.ltb_ge]; lia.
Qed.

(* corollary: copeland_winner maximises the number of positive C07 margins *)
Theorem copeland_winner_pairwise : forall i, wf_inst i -> dt_in (dt i) [Soc] = true ->
  exists w, copeland_winner i = Ok w /\ forall a, In a w <-> is_max (pw_wins (alts i) (prof i)) (alts i) a.
Proof.
  intros i W D. destruct (copeland_spec i W D) as [w [E S]]. exists w. split; [exact E|].
  intros a. rewrite S. apply is_max_ext; [|intros; reflexivity]. intros b. apply copeland_wins_is_margin. exact W.
Qed.
