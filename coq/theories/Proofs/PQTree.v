(* Proofs/PQTree.v — soundness of the mirrored PQ-tree algorithm (Model/PQTree.v):
   if pq_reorder returns an ordering, it is a rearrangement of the family in which, for every element, the sets
   containing it are consecutive (SetsOK).  Method: Ord t o = "o is one of the frontiers the tree t represents";
   set_contiguous v only shrinks the set of represented frontiers (refinement) and leaves the tree in a
   v-contiguous form (CF) all of whose frontiers keep the sets containing v consecutive. *)
From Coq Require Import List Arith Bool Lia Permutation.
From PrefVerif Require Import Lib.Val Lib.Perms Model.C1P Model.PQTree Proofs.C1P.
Import ListNotations.

(* ------------------------------------------------------------------------------------------------ *)
(* induction on trees *)
Section PqInd.
Variable P : pq -> Prop.
Hypothesis HLeaf : forall s, P (Leaf s).
Hypothesis HNode : forall k cs, Forall P cs -> P (Node k cs).
Fixpoint pq_ind' (t : pq) : P t :=
  match t with
  | Leaf s => HLeaf s
  | Node k cs =>
      HNode k cs ((fix go (l : list pq) : Forall P l :=
                     match l with
                     | [] => Forall_nil P
                     | c :: r => Forall_cons c (pq_ind' c) (go r)
                     end) cs)
  end.
End PqInd.

(* ------------------------------------------------------------------------------------------------ *)
(* frontiers *)
Lemma flat_map_rev {X Y} (f : X -> list Y) (g : X -> list Y) l :
  (forall x, In x l -> g x = rev (f x)) -> flat_map g (rev l) = rev (flat_map f l).
Proof.
  induction l as [|x t IH]; intros H; simpl; [reflexivity|].
  rewrite flat_map_app. simpl. rewrite app_nil_r, rev_app_distr, IH, (H x (or_introl eq_refl)); auto.
  intros y Hy. apply H. now right.
Qed.

Lemma ordering_reverse t : ordering (reverse t) = rev (ordering t).
Proof.
  induction t as [s|k cs IH] using pq_ind'; simpl; [reflexivity|].
  rewrite <- (flat_map_rev ordering (fun c => ordering (reverse c)) cs).
  - rewrite <- map_rev, flat_map_concat_map, map_map, <- flat_map_concat_map. reflexivity.
  - intros c Hc. rewrite Forall_forall in IH. now apply IH.
Qed.

Lemma flat_map_map_ext {X Y} (f : X -> list Y) (g : X -> X) l :
  Forall (fun c => f (g c) = f c) l -> flat_map f (map g l) = flat_map f l.
Proof. induction 1 as [|c l Hc Hl IH]; simpl; [reflexivity|]. now rewrite Hc, IH. Qed.

Lemma ordering_flat_ret t : ordering (flat_ret t) = ordering t.
Proof.
  induction t as [s|k cs IH] using pq_ind'; [reflexivity|].
  destruct cs as [|c [|c2 r]].
  - reflexivity.
  - inversion IH; subst. simpl. now rewrite app_nil_r.
  - change (flat_map ordering (map flat_ret (c :: c2 :: r)) = flat_map ordering (c :: c2 :: r)).
    now apply flat_map_map_ext.
Qed.

Lemma ordering_new_node k l : ordering (new_node k l) = flat_map ordering l.
Proof. destruct l as [|x [|y r]]; simpl; auto. now rewrite app_nil_r. Qed.

Lemma proper_node k cs : proper (Node k cs) = (2 <=? length cs) && forallb proper cs.
Proof. reflexivity. Qed.

Lemma proper_node_iff k cs : proper (Node k cs) = true <-> 2 <= length cs /\ Forall (fun c => proper c = true) cs.
Proof. rewrite proper_node, andb_true_iff, Nat.leb_le, forallb_forall, Forall_forall. reflexivity. Qed.

Lemma proper_leaves t : proper t = true -> ordering t <> [].
Proof.
  induction t as [s|k cs IH] using pq_ind'; [discriminate|].
  rewrite proper_node_iff. intros [Hlen Hp]. destruct cs as [|c r]; [simpl in Hlen; lia|].
  inversion IH; subst. inversion Hp; subst. simpl. intros E. apply app_eq_nil in E.
  destruct E as [E _]. now apply H1.
Qed.

(* ------------------------------------------------------------------------------------------------ *)
(* the frontiers a tree represents: the children of a P-node in any order, those of a Q-node in the stored
   order or in the reversed one *)
Inductive Ord : pq -> list (list nat) -> Prop :=
| OLeaf s : Ord (Leaf s) [s]
| OP cs cs' os : Permutation cs cs' -> Forall2 Ord cs' os -> Ord (Node KP cs) (concat os)
| OQ cs os : Forall2 Ord cs os -> Ord (Node KQ cs) (concat os)
| OQr cs os : Forall2 Ord (rev cs) os -> Ord (Node KQ cs) (concat os).

(* the frontiers of a sequence of trees, in that order *)
Definition OrdL (l : list pq) (o : list (list nat)) : Prop := exists os, Forall2 Ord l os /\ o = concat os.

Lemma OrdL_nil o : OrdL [] o <-> o = [].
Proof.
  split.
  - intros (os & H & ->). inversion H. reflexivity.
  - intros ->. exists []. split; constructor.
Qed.

Lemma OrdL_cons c l o : OrdL (c :: l) o <-> exists o1 o2, o = o1 ++ o2 /\ Ord c o1 /\ OrdL l o2.
Proof.
  split.
  - intros (os & H & ->). inversion H as [|? o1 ? os' H1 H2]; subst. exists o1, (concat os'). repeat split; auto.
    now exists os'.
  - intros (o1 & o2 & -> & H1 & os & H2 & ->). exists (o1 :: os). split; [now constructor|reflexivity].
Qed.

Lemma OrdL_app a b o : OrdL (a ++ b) o <-> exists o1 o2, o = o1 ++ o2 /\ OrdL a o1 /\ OrdL b o2.
Proof.
  revert o. induction a as [|c a IH]; intros o; simpl.
  - split.
    + intros H. exists [], o. repeat split; auto. now apply OrdL_nil.
    + intros (o1 & o2 & -> & H1 & H2). apply OrdL_nil in H1. now subst.
  - rewrite OrdL_cons. split.
    + intros (o1 & o2 & -> & H1 & H2). apply IH in H2. destruct H2 as (o3 & o4 & -> & H3 & H4).
      exists (o1 ++ o3), o4. rewrite app_assoc. repeat split; auto. apply OrdL_cons. eauto 6.
    + intros (o1 & o2 & -> & H1 & H2). apply OrdL_cons in H1. destruct H1 as (o3 & o4 & -> & H3 & H4).
      exists o3, (o4 ++ o2). rewrite app_assoc. repeat split; auto. apply IH. eauto.
Qed.

Lemma OrdL_one c o : OrdL [c] o <-> Ord c o.
Proof.
  rewrite OrdL_cons. split.
  - intros (o1 & o2 & -> & H1 & H2). apply OrdL_nil in H2. subst. now rewrite app_nil_r.
  - intros H. exists o, []. rewrite app_nil_r. repeat split; auto. now apply OrdL_nil.
Qed.

Lemma Ord_P cs o : Ord (Node KP cs) o <-> exists cs', Permutation cs cs' /\ OrdL cs' o.
Proof.
  split.
  - intros H. inversion H; subst. exists cs'. split; auto. now exists os.
  - intros (cs' & HP & os & H & ->). econstructor; eassumption.
Qed.

Lemma Ord_Q cs o : Ord (Node KQ cs) o <-> OrdL cs o \/ OrdL (rev cs) o.
Proof.
  split.
  - intros H. inversion H; subst; [left|right]; now exists os.
  - intros [(os & H & ->)|(os & H & ->)]; [now apply OQ|now apply OQr].
Qed.

(* refinement of sequences, pointwise *)
Definition Ref (t' t : pq) : Prop := forall o, Ord t' o -> Ord t o.

Lemma OrdL_mono l' l : Forall2 Ref l' l -> forall o, OrdL l' o -> OrdL l o.
Proof.
  induction 1 as [|c' c l' l Hc Hl IH]; intros o H; [exact H|].
  apply OrdL_cons in H. destruct H as (o1 & o2 & -> & H1 & H2). apply OrdL_cons. exists o1, o2. auto.
Qed.

Lemma Forall2_rev {X Y} (R : X -> Y -> Prop) l1 l2 : Forall2 R l1 l2 -> Forall2 R (rev l1) (rev l2).
Proof.
  induction 1; simpl; [constructor|]. apply Forall2_app; [assumption|]. repeat constructor. assumption.
Qed.

Lemma Forall2_perm {X Y} (R : X -> Y -> Prop) l1 l1' l2 :
  Permutation l1 l1' -> Forall2 R l1 l2 -> exists l2', Permutation l2 l2' /\ Forall2 R l1' l2'.
Proof.
  intros HP. revert l2. induction HP as [|x l1 l1' HP IH|x y l1|l1 l1' l1'' HP1 IH1 HP2 IH2]; intros l2 H.
  - inversion H. exists []. split; constructor.
  - inversion H as [|? y ? l2t Hxy Ht]; subst. destruct (IH _ Ht) as (l2' & HP' & H').
    exists (y :: l2'). split; [now constructor|now constructor].
  - inversion H as [|? a ? l2t Ha Ht]; subst. inversion Ht as [|? b ? l2t' Hb Ht']; subst.
    exists (b :: a :: l2t'). split; [apply perm_swap|repeat constructor; assumption].
  - destruct (IH1 _ H) as (l2' & HP' & H'). destruct (IH2 _ H') as (l2'' & HP'' & H'').
    exists l2''. split; [eapply perm_trans; eassumption|assumption].
Qed.

Lemma Ref_node k cs' cs : Forall2 Ref cs' cs -> Ref (Node k cs') (Node k cs).
Proof.
  intros H o Ho. destruct k.
  - apply Ord_P in Ho. destruct Ho as (cs'' & HP & HL).
    destruct (Forall2_perm Ref cs' cs'' cs HP H) as (l2 & HP2 & H2).
    apply Ord_P. exists l2. split; [exact HP2|]. now apply (OrdL_mono cs'' l2).
  - apply Ord_Q in Ho. apply Ord_Q. destruct Ho as [Ho|Ho]; [left|right].
    + now apply (OrdL_mono cs' cs).
    + apply (OrdL_mono (rev cs') (rev cs)); [now apply Forall2_rev|exact Ho].
Qed.

Lemma OrdL_ordering l : Forall (fun t => Ord t (ordering t)) l -> OrdL l (flat_map ordering l).
Proof.
  induction 1 as [|c l Hc Hl IH]; simpl; [now apply OrdL_nil|]. apply OrdL_cons. eauto.
Qed.

(* the stored frontier is one of the represented frontiers *)
Lemma Ord_ordering t : Ord t (ordering t).
Proof.
  induction t as [s|k cs IH] using pq_ind'; simpl; [constructor|].
  destruct k; [apply Ord_P; exists cs; split; [reflexivity|]|apply Ord_Q; left]; now apply OrdL_ordering.
Qed.

Lemma OrdL_perm l o : Forall (fun t => forall o, Ord t o -> Permutation (ordering t) o) l ->
  OrdL l o -> Permutation (flat_map ordering l) o.
Proof.
  intros H. revert o. induction H as [|c l Hc Hl IH]; intros o Ho.
  - apply OrdL_nil in Ho. subst. constructor.
  - apply OrdL_cons in Ho. destruct Ho as (o1 & o2 & -> & H1 & H2). simpl. apply Permutation_app; auto.
Qed.

Lemma flat_map_perm {X Y} (f : X -> list Y) l l' : Permutation l l' -> Permutation (flat_map f l) (flat_map f l').
Proof.
  induction 1; simpl; auto.
  - now apply Permutation_app_head.
  - rewrite !app_assoc. apply Permutation_app_tail. apply Permutation_app_comm.
  - eapply perm_trans; eassumption.
Qed.

(* every represented frontier is a rearrangement of the leaves *)
Lemma Ord_perm t : forall o, Ord t o -> Permutation (ordering t) o.
Proof.
  induction t as [s|k cs IH] using pq_ind'; intros o Ho; simpl.
  - inversion Ho. constructor. constructor.
  - destruct k.
    + apply Ord_P in Ho. destruct Ho as (cs' & HP & HL).
      transitivity (flat_map ordering cs'); [now apply flat_map_perm|].
      apply OrdL_perm; [|exact HL]. rewrite Forall_forall in *. intros t Ht. apply IH.
      eapply Permutation_in; [apply Permutation_sym; exact HP|exact Ht].
    + apply Ord_Q in Ho. destruct Ho as [Ho|Ho].
      * now apply OrdL_perm.
      * transitivity (flat_map ordering (rev cs)); [apply flat_map_perm, Permutation_rev|].
        apply OrdL_perm; [|exact Ho]. rewrite Forall_forall in *. intros t Ht. apply IH. now apply in_rev.
Qed.

(* ------------------------------------------------------------------------------------------------ *)
(* refinement lemmas *)
Lemma Ref_refl t : Ref t t.
Proof. intros o H. exact H. Qed.

Lemma Ref_trans a b c : Ref a b -> Ref b c -> Ref a c.
Proof. intros H1 H2 o H. auto. Qed.

Lemma Forall2_Ref_refl l : Forall2 Ref l l.
Proof. induction l; constructor; auto using Ref_refl. Qed.

Lemma OrdL_rev_one c o : OrdL (rev [c]) o <-> Ord c o.
Proof. simpl. apply OrdL_one. Qed.

(* a node with one child represents the frontiers of the child *)
Lemma Ord_single k c o : Ord (Node k [c]) o <-> Ord c o.
Proof.
  destruct k.
  - rewrite Ord_P. split.
    + intros (cs' & HP & HL). apply Permutation_length_1_inv in HP. subst. now apply OrdL_one.
    + intros H. exists [c]. split; [reflexivity|now apply OrdL_one].
  - rewrite Ord_Q. simpl. rewrite OrdL_one. tauto.
Qed.

Lemma Ord_new_node k l o : l <> [] -> (Ord (new_node k l) o <-> Ord (Node k l) o).
Proof.
  intros Hl. destruct l as [|x [|y r]]; [congruence| |reflexivity]. simpl. symmetry. apply Ord_single.
Qed.

Lemma Forall2_map_l {X Y Z} (R : Y -> Z -> Prop) (f : X -> Y) l l2 :
  Forall2 R (map f l) l2 <-> Forall2 (fun x z => R (f x) z) l l2.
Proof.
  revert l2. induction l as [|x t IH]; intros l2; simpl.
  - split; intros H; inversion H; constructor.
  - split; intros H; inversion H; subst; constructor; auto; now apply IH.
Qed.

Lemma Forall2_Forall_l {X} (R : X -> X -> Prop) (f : X -> X) l : Forall (fun x => R (f x) x) l -> Forall2 R (map f l) l.
Proof. induction 1; simpl; constructor; auto. Qed.

(* _flatten only removes nodes with a single child *)
Lemma Ref_flat_ret t : Ref (flat_ret t) t.
Proof.
  induction t as [s|k cs IH] using pq_ind'; [apply Ref_refl|].
  destruct cs as [|c [|c2 r]].
  - apply Ref_refl.
  - inversion IH; subst. intros o Ho. apply Ord_single. now apply H1.
  - change (Ref (Node k (map flat_ret (c :: c2 :: r))) (Node k (c :: c2 :: r))).
    apply Ref_node. now apply Forall2_Forall_l.
Qed.

(* PQ.reverse *)
Lemma Ref_reverse t : Ref (reverse t) t.
Proof.
  induction t as [s|k cs IH] using pq_ind'; [apply Ref_refl|].
  simpl. intros o Ho.
  assert (HR : Forall2 Ref (map reverse cs) cs) by now apply Forall2_Forall_l.
  destruct k.
  - apply Ord_P in Ho. destruct Ho as (cs' & HP & HL).
    apply (Ref_node KP (map reverse cs) cs HR). apply Ord_P. exists cs'. split; [|exact HL].
    transitivity (rev (map reverse cs)); [apply Permutation_rev|exact HP].
  - apply (Ref_node KQ (map reverse cs) cs HR). apply Ord_Q in Ho. apply Ord_Q.
    rewrite rev_involutive in Ho. tauto.
Qed.

(* the children of a P-node in another order *)
Lemma Ord_P_perm cs cs' o : Permutation cs cs' -> Ord (Node KP cs) o -> Ord (Node KP cs') o.
Proof.
  intros HP Ho. apply Ord_P in Ho. destruct Ho as (l & Hl & HL). apply Ord_P. exists l. split; [|exact HL].
  transitivity cs; [now apply Permutation_sym|exact Hl].
Qed.

(* a Q-node is more constrained than a P-node with the same children *)
Lemma Ord_Q_P cs o : Ord (Node KQ cs) o -> Ord (Node KP cs) o.
Proof.
  intros Ho. apply Ord_Q in Ho. apply Ord_P. destruct Ho as [Ho|Ho].
  - exists cs. split; [reflexivity|exact Ho].
  - exists (rev cs). split; [apply Permutation_rev|exact Ho].
Qed.

(* a sequence whose frontiers, read forwards or backwards, are frontiers of t can replace t inside a sequence *)
Definition Pieces (L : list pq) (t : pq) : Prop :=
  (forall o, OrdL L o -> Ord t o) /\ (forall o, OrdL (rev L) o -> Ord t o).

Lemma Pieces_self t : Pieces [t] t.
Proof. split; intros o H; now apply OrdL_one in H. Qed.

(* grouping some children of a P-node under a new P-node refines *)
Lemma Ord_P_group a b o : Ord (Node KP (a ++ [Node KP b])) o -> Ord (Node KP (a ++ b)) o.
Proof.
  intros Ho. apply Ord_P in Ho. destruct Ho as (l & HP & HL).
  assert (Hin : In (Node KP b) l) by (eapply Permutation_in; [exact HP|]; apply in_or_app; right; now left).
  apply in_split in Hin. destruct Hin as (l1 & l2 & ->).
  assert (HP' : Permutation (Node KP b :: a) (l1 ++ Node KP b :: l2))
    by (etransitivity; [apply Permutation_cons_append|exact HP]).
  apply Permutation_cons_app_inv in HP'. clear HP. rename HP' into HP.
  apply OrdL_app in HL. destruct HL as (o1 & o2 & -> & H1 & H2).
  apply OrdL_cons in H2. destruct H2 as (o3 & o4 & -> & H3 & H4).
  apply Ord_P in H3. destruct H3 as (b' & Hb & HLb).
  apply Ord_P. exists (l1 ++ b' ++ l2). split.
  - transitivity (l1 ++ l2 ++ b').
    + rewrite app_assoc. apply Permutation_app; [|exact Hb]. exact HP.
    + apply Permutation_app_head, Permutation_app_comm.
  - apply OrdL_app. exists o1, (o3 ++ o4). repeat split; auto. apply OrdL_app. eauto.
Qed.

(* ------------------------------------------------------------------------------------------------ *)
(* purity and the v-contiguous forms *)
Definition PureF (v : nat) (t : pq) : Prop := Forall (fun s => In v s) (ordering t).
Definition PureE (v : nat) (t : pq) : Prop := Forall (fun s => ~ In v s) (ordering t).

Lemma contains_iff v t : contains v t = true <-> Exists (fun s => In v s) (ordering t).
Proof.
  induction t as [s|k cs IH] using pq_ind'; simpl.
  - rewrite memn_iff. split; [intros H; now constructor|].
    intros H. inversion H as [? ? Hv|? ? Hv]; subst; [assumption|inversion Hv].
  - rewrite existsb_exists, Exists_exists. rewrite Forall_forall in IH. split.
    + intros (c & Hc & H). apply IH in H; [|exact Hc]. apply Exists_exists in H. destruct H as (s & Hs & Hv).
      exists s. split; [|exact Hv]. apply in_flat_map. eauto.
    + intros (s & Hs & Hv). apply in_flat_map in Hs. destruct Hs as (c & Hc & Hs). exists c. split; [exact Hc|].
      apply IH; [exact Hc|]. apply Exists_exists. eauto.
Qed.

Lemma contains_false_iff v t : contains v t = false <-> PureE v t.
Proof.
  unfold PureE. rewrite Forall_forall. split.
  - intros H s Hs Hv. assert (E : contains v t = true) by (apply contains_iff, Exists_exists; eauto). congruence.
  - intros H. destruct (contains v t) eqn:E; [|reflexivity]. apply contains_iff, Exists_exists in E.
    destruct E as (s & Hs & Hv). destruct (H s Hs Hv).
Qed.

Lemma PureF_contains v t : proper t = true -> PureF v t -> contains v t = true.
Proof.
  intros Hp HF. apply contains_iff. destruct (ordering t) as [|s r] eqn:E; [now apply proper_leaves in Hp|].
  unfold PureF in HF. rewrite E in HF. inversion HF; subst. now constructor.
Qed.

Lemma Pure_node_F v k cs : PureF v (Node k cs) <-> Forall (PureF v) cs.
Proof.
  unfold PureF. simpl. rewrite !Forall_forall. split.
  - intros H c Hc. apply Forall_forall. intros s Hs. apply H, in_flat_map. eauto.
  - intros H s Hs. apply in_flat_map in Hs. destruct Hs as (c & Hc & Hs). specialize (H c Hc).
    rewrite Forall_forall in H. auto.
Qed.

Lemma Pure_node_E v k cs : PureE v (Node k cs) <-> Forall (PureE v) cs.
Proof.
  unfold PureE. simpl. rewrite !Forall_forall. split.
  - intros H c Hc. apply Forall_forall. intros s Hs. apply H, in_flat_map. eauto.
  - intros H s Hs. apply in_flat_map in Hs. destruct Hs as (c & Hc & Hs). specialize (H c Hc).
    rewrite Forall_forall in H. auto.
Qed.

(* a node all of whose leaves contain v is not classified as partial by simplify *)
Lemma PureF_not_partial v c : proper c = true -> PureF v c -> is_partial_child v c = false.
Proof.
  destruct c as [s|k cs]; [reflexivity|]. intros Hp HF. simpl.
  apply proper_node_iff in Hp. destruct Hp as [_ Hp]. apply Pure_node_F in HF.
  apply andb_false_iff. right. destruct (existsb _ cs) eqn:E; [|reflexivity].
  apply existsb_exists in E. destruct E as (cc & Hcc & E). apply negb_true_iff in E.
  rewrite Forall_forall in *. rewrite (PureF_contains v cc) in E; auto; discriminate.
Qed.

Lemma PureE_not_partial v c : PureE v c -> is_partial_child v c = false.
Proof.
  intros HE. apply contains_false_iff in HE. destruct c as [s|k cs]; [reflexivity|].
  unfold is_partial_child. now rewrite HE.
Qed.

(* v-contiguous form *)
Inductive CF (v : nat) : pq -> Prop :=
| CF_E t : PureE v t -> CF v t
| CF_F t : PureF v t -> CF v t
| CF_P es c es2 : Forall (PureE v) (es ++ es2) -> CF v c -> CF v (Node KP (es ++ c :: es2))
| CF_QF e1 fs e2 : Forall (PureE v) e1 -> Forall (PureF v) fs -> Forall (PureE v) e2 ->
                   CF v (Node KQ (e1 ++ fs ++ e2))
| CF_QX e1 x e2 : Forall (PureE v) e1 -> CF v x -> Forall (PureE v) e2 -> CF v (Node KQ (e1 ++ x :: e2)).

(* aligned form: la = false, the sets containing v are at the right end; la = true, at the left end *)
Inductive Al (la : bool) (v : nat) : pq -> Prop :=
| Al_PF es c es2 : Forall (PureE v) (es ++ es2) -> PureF v c -> Al la v (Node KP (es ++ c :: es2))
| Al_PX es c es2 : Forall (PureE v) (es ++ es2) -> Al la v c -> Al la v (Node KP (es ++ c :: es2))
| Al_QF es fs : Forall (PureE v) es -> Forall (PureF v) fs ->
                Al la v (Node KQ (if la then fs ++ es else es ++ fs))
| Al_QX es x : Forall (PureE v) es -> Al la v x -> Al la v (Node KQ (if la then x :: es else es ++ [x])).

Lemma Al_CF la v t : Al la v t -> CF v t.
Proof.
  induction 1 as [es c es2 HE HF|es c es2 HE HA IH|es fs HE HF|es x HE HA IH].
  - apply CF_P; [exact HE|now apply CF_F].
  - apply CF_P; [exact HE|exact IH].
  - destruct la.
    + apply (CF_QF v [] fs es); auto.
    + replace (es ++ fs) with (es ++ fs ++ []) by now rewrite app_nil_r. apply CF_QF; auto.
  - destruct la.
    + apply (CF_QX v [] x es); auto.
    + apply (CF_QX v es x []); auto.
Qed.

Lemma OrdL_Forall (Q : list nat -> Prop) l o :
  Forall (fun t => Forall Q (ordering t)) l -> OrdL l o -> Forall Q o.
Proof.
  intros H Ho. assert (HP : Permutation (flat_map ordering l) o).
  { apply OrdL_perm; [|exact Ho]. apply Forall_forall. intros t _. apply Ord_perm. }
  apply Forall_forall. intros s Hs. apply (Permutation_in _ (Permutation_sym HP)) in Hs.
  apply in_flat_map in Hs. destruct Hs as (t & Ht & Hs). rewrite Forall_forall in H. specialize (H t Ht).
  rewrite Forall_forall in H. auto.
Qed.

Lemma Interval_pad {T} (P : T -> Prop) a o b :
  Forall (fun x => ~ P x) a -> Forall (fun x => ~ P x) b -> Interval P o -> Interval P (a ++ o ++ b).
Proof.
  intros Ha Hb (l1 & l2 & l3 & -> & H1 & H2 & H3). exists (a ++ l1), l2, (l3 ++ b).
  rewrite <- !app_assoc. repeat split; auto; apply Forall_app; auto.
Qed.

Lemma Interval_all {T} (P : T -> Prop) o : Forall P o -> Interval P o.
Proof. intros H. exists [], o, []. rewrite app_nil_r. repeat split; auto. Qed.

Lemma Interval_none {T} (P : T -> Prop) o : Forall (fun x => ~ P x) o -> Interval P o.
Proof. intros H. exists o, [], []. rewrite app_nil_r. repeat split; auto. Qed.

(* every frontier of a tree in v-contiguous form keeps the sets containing v consecutive *)
Theorem CF_sound v t : CF v t -> forall o, Ord t o -> Interval (fun s => In v s) o.
Proof.
  induction 1 as [t HE|t HF|es c es2 HE HC IH|e1 fs e2 H1 HF H2|e1 x e2 H1 HX IH H2]; intros o Ho.
  - apply Interval_none. apply (OrdL_Forall _ [t]); [repeat constructor; exact HE|now apply OrdL_one].
  - apply Interval_all. apply (OrdL_Forall _ [t]); [repeat constructor; exact HF|now apply OrdL_one].
  - apply Ord_P in Ho. destruct Ho as (l & HP & HL).
    assert (Hin : In c l) by (eapply Permutation_in; [exact HP|]; apply in_or_app; right; now left).
    apply in_split in Hin. destruct Hin as (l1 & l2 & ->).
    apply Permutation_sym, Permutation_app_inv, Permutation_sym in HP.
    apply OrdL_app in HL. destruct HL as (o1 & o2 & -> & Ho1 & Ho2).
    apply OrdL_cons in Ho2. destruct Ho2 as (o3 & o4 & -> & Ho3 & Ho4).
    assert (HEl : Forall (PureE v) (l1 ++ l2)) by (eapply Permutation_Forall; eassumption).
    apply Forall_app in HEl. destruct HEl as [HE1 HE2].
    apply Interval_pad; [exact (OrdL_Forall _ l1 o1 HE1 Ho1)|exact (OrdL_Forall _ l2 o4 HE2 Ho4)|now apply IH].
  - apply Ord_Q in Ho. destruct Ho as [Ho|Ho].
    + apply OrdL_app in Ho. destruct Ho as (o1 & o2 & -> & Ho1 & Ho2).
      apply OrdL_app in Ho2. destruct Ho2 as (o3 & o4 & -> & Ho3 & Ho4).
      apply Interval_pad; [exact (OrdL_Forall _ e1 o1 H1 Ho1)|exact (OrdL_Forall _ e2 o4 H2 Ho4)|].
      apply Interval_all. exact (OrdL_Forall _ fs o3 HF Ho3).
    + rewrite !rev_app_distr, <- app_assoc in Ho.
      apply OrdL_app in Ho. destruct Ho as (o1 & o2 & -> & Ho1 & Ho2).
      apply OrdL_app in Ho2. destruct Ho2 as (o3 & o4 & -> & Ho3 & Ho4).
      apply Interval_pad.
      * apply (OrdL_Forall _ (rev e2) o1); [now apply Forall_rev|exact Ho1].
      * apply (OrdL_Forall _ (rev e1) o4); [now apply Forall_rev|exact Ho4].
      * apply Interval_all. apply (OrdL_Forall _ (rev fs) o3); [now apply Forall_rev|exact Ho3].
  - apply Ord_Q in Ho. destruct Ho as [Ho|Ho].
    + apply OrdL_app in Ho. destruct Ho as (o1 & o2 & -> & Ho1 & Ho2).
      apply OrdL_cons in Ho2. destruct Ho2 as (o3 & o4 & -> & Ho3 & Ho4).
      apply Interval_pad; [exact (OrdL_Forall _ e1 o1 H1 Ho1)|exact (OrdL_Forall _ e2 o4 H2 Ho4)|now apply IH].
    + rewrite rev_app_distr in Ho. simpl in Ho. rewrite <- app_assoc in Ho. simpl in Ho.
      apply OrdL_app in Ho. destruct Ho as (o1 & o2 & -> & Ho1 & Ho2).
      apply OrdL_cons in Ho2. destruct Ho2 as (o3 & o4 & -> & Ho3 & Ho4).
      apply Interval_pad.
      * apply (OrdL_Forall _ (rev e2) o1); [now apply Forall_rev|exact Ho1].
      * apply (OrdL_Forall _ (rev e1) o4); [now apply Forall_rev|exact Ho4].
      * now apply IH.
Qed.

(* ------------------------------------------------------------------------------------------------ *)
(* reverse, proper *)
Lemma PureE_reverse v t : PureE v (reverse t) <-> PureE v t.
Proof. unfold PureE. rewrite ordering_reverse. split; intros H; [rewrite <- (rev_involutive (ordering t))|]; now apply Forall_rev. Qed.
Lemma PureF_reverse v t : PureF v (reverse t) <-> PureF v t.
Proof. unfold PureF. rewrite ordering_reverse. split; intros H; [rewrite <- (rev_involutive (ordering t))|]; now apply Forall_rev. Qed.

Lemma Forall_rev_map_reverse (Q : pq -> Prop) l :
  (forall t, Q t -> Q (reverse t)) -> Forall Q l -> Forall Q (rev (map reverse l)).
Proof. intros HQ H. apply Forall_rev. apply Forall_map. eapply Forall_impl; [|exact H]. exact HQ. Qed.

Lemma proper_reverse t : proper (reverse t) = proper t.
Proof.
  induction t as [s|k cs IH] using pq_ind'; [reflexivity|]. simpl reverse. rewrite !proper_node.
  rewrite rev_length, map_length. f_equal.
  destruct (forallb proper cs) eqn:E.
  - apply forallb_forall. intros x Hx. apply in_rev, in_map_iff in Hx. destruct Hx as (c & <- & Hc).
    rewrite Forall_forall in IH. rewrite IH by exact Hc. rewrite forallb_forall in E. now apply E.
  - destruct (forallb proper (rev (map reverse cs))) eqn:E2; [|reflexivity].
    rewrite forallb_forall in E2. assert (forallb proper cs = true); [|congruence].
    apply forallb_forall. intros c Hc. rewrite Forall_forall in IH. rewrite <- IH by exact Hc.
    apply E2. apply in_rev. rewrite rev_involutive. now apply in_map.
Qed.

Lemma Al_reverse v t : Al false v t -> Al true v (reverse t).
Proof.
  induction 1 as [es c es2 HE HF|es c es2 HE HA IH|es fs HE HF|es x HE HA IH]; simpl reverse.
  - rewrite map_app, rev_app_distr. simpl. rewrite <- app_assoc. simpl. apply Al_PF.
    + apply Forall_app in HE. destruct HE as [H1 H2]. apply Forall_app. split;
        apply Forall_rev_map_reverse; auto; intros t; apply PureE_reverse.
    + now apply PureF_reverse.
  - rewrite map_app, rev_app_distr. simpl. rewrite <- app_assoc. simpl. apply Al_PX; [|exact IH].
    apply Forall_app in HE. destruct HE as [H1 H2]. apply Forall_app. split;
      apply Forall_rev_map_reverse; auto; intros t; apply PureE_reverse.
  - rewrite map_app, rev_app_distr. apply (Al_QF true v (rev (map reverse es)) (rev (map reverse fs))).
    + apply Forall_rev_map_reverse; auto. intros t. apply PureE_reverse.
    + apply Forall_rev_map_reverse; auto. intros t. apply PureF_reverse.
  - rewrite map_app, rev_app_distr. simpl. apply (Al_QX true v (rev (map reverse es)) (reverse x)); [|exact IH].
    apply Forall_rev_map_reverse; auto. intros t. apply PureE_reverse.
Qed.

(* ------------------------------------------------------------------------------------------------ *)
(* an aligned proper node that contains v and is not classified as partial has v in all its leaves *)
Lemma exists_E_child v (k : kind) cs e : In e cs -> PureE v e -> existsb (fun cc => negb (contains v cc)) cs = true.
Proof. intros Hin HE. apply existsb_exists. exists e. split; [exact Hin|]. apply negb_true_iff. now apply contains_false_iff. Qed.

Lemma Al_honest la v c :
  proper c = true -> Al la v c -> contains v c = true -> is_partial_child v c = false -> PureF v c.
Proof.
  intros Hp HA Hc Hn. destruct HA as [es c0 es2 HE HF|es c0 es2 HE HA|es fs HE HF|es x HE HA];
    unfold is_partial_child in Hn; rewrite Hc in Hn; simpl in Hn; apply proper_node_iff in Hp; destruct Hp as [Hlen Hp].
  - exfalso. rewrite app_length in Hlen. simpl in Hlen.
    destruct es as [|e es]; [destruct es2 as [|e es2]; [simpl in Hlen; lia|]|].
    + inversion HE; subst. rewrite (exists_E_child v KP _ e) in Hn; [discriminate|simpl; auto|assumption].
    + inversion HE; subst. rewrite (exists_E_child v KP _ e) in Hn; [discriminate|simpl; auto|assumption].
  - exfalso. rewrite app_length in Hlen. simpl in Hlen.
    destruct es as [|e es]; [destruct es2 as [|e es2]; [simpl in Hlen; lia|]|].
    + inversion HE; subst. rewrite (exists_E_child v KP _ e) in Hn; [discriminate|simpl; auto|assumption].
    + inversion HE; subst. rewrite (exists_E_child v KP _ e) in Hn; [discriminate|simpl; auto|assumption].
  - destruct es as [|e es].
    + apply Pure_node_F. destruct la; [now rewrite app_nil_r|exact HF].
    + exfalso. inversion HE; subst.
      rewrite (exists_E_child v KQ _ e) in Hn; [discriminate| |assumption].
      destruct la; [apply in_or_app; right|]; simpl; auto.
  - exfalso. destruct es as [|e es].
    + destruct la; simpl in Hlen; lia.
    + inversion HE; subst. rewrite (exists_E_child v KQ _ e) in Hn; [discriminate| |assumption].
      destruct la; simpl; auto.
Qed.

(* ------------------------------------------------------------------------------------------------ *)
(* simplify *)
Lemma simplify_P_eq v r cs : simplify v r (Node KP cs) =
  let empty := filter (fun c => negb (contains v c)) cs in
  let full := filter (fun c => contains v c && negb (is_partial_child v c)) cs in
  let partial := last_some (map (fun c => if is_partial_child v c then Some (simplify v r c) else None) cs) [] in
  let empty' := match empty with [] => [] | _ => [new_node KP empty] end in
  let full' := match full with [] => [] | _ => [new_node KP full] end in
  if r then empty' ++ partial ++ full' else full' ++ partial ++ empty'.
Proof. reflexivity. Qed.

Lemma simplify_Q_eq v r cs : simplify v r (Node KQ cs) =
  flat_map (fun c => if is_partial_child v c then simplify v r c else [c]) cs.
Proof. reflexivity. Qed.

Lemma filter_true {T} (f : T -> bool) l : Forall (fun x => f x = true) l -> filter f l = l.
Proof. induction 1 as [|x t Hx Ht IH]; simpl; [reflexivity|]. now rewrite Hx, IH. Qed.
Lemma filter_false {T} (f : T -> bool) l : Forall (fun x => f x = false) l -> filter f l = [].
Proof. induction 1 as [|x t Hx Ht IH]; simpl; [reflexivity|]. now rewrite Hx, IH. Qed.

Lemma last_some_app {T} (l1 l2 : list (option T)) d : last_some (l1 ++ l2) d = last_some l2 (last_some l1 d).
Proof. revert d. induction l1 as [|[x|] t IH]; intros d; simpl; auto. Qed.
Lemma last_some_none {T} (l : list (option T)) d : Forall (fun x => x = None) l -> last_some l d = d.
Proof. induction 1 as [|x t Hx Ht IH]; simpl; [reflexivity|]. subst. exact IH. Qed.

Lemma flat_map_id_if {T} (p : T -> bool) (f : T -> list T) l :
  Forall (fun x => p x = false) l -> flat_map (fun c => if p c then f c else [c]) l = l.
Proof. induction 1 as [|x t Hx Ht IH]; simpl; [reflexivity|]. now rewrite Hx, IH. Qed.

Lemma new_node_many k l : 2 <= length l -> new_node k l = Node k l.
Proof. destruct l as [|x [|y r]]; simpl; intros H; try lia. reflexivity. Qed.

Lemma proper_new_node k l : l <> [] -> Forall (fun c => proper c = true) l -> proper (new_node k l) = true.
Proof.
  intros Hl H. destruct l as [|x [|y r]]; [congruence|now inversion H|].
  rewrite new_node_many by (simpl; lia). apply proper_node_iff. split; [simpl; lia|exact H].
Qed.

Lemma PureE_new_node v k l : Forall (PureE v) l -> PureE v (new_node k l).
Proof.
  intros H. unfold PureE. rewrite ordering_new_node. apply Forall_forall. intros s Hs.
  apply in_flat_map in Hs. destruct Hs as (c & Hc & Hs). rewrite Forall_forall in H. specialize (H c Hc).
  unfold PureE in H. rewrite Forall_forall in H. auto.
Qed.
Lemma PureF_new_node v k l : Forall (PureF v) l -> PureF v (new_node k l).
Proof.
  intros H. unfold PureF. rewrite ordering_new_node. apply Forall_forall. intros s Hs.
  apply in_flat_map in Hs. destruct Hs as (c & Hc & Hs). rewrite Forall_forall in H. specialize (H c Hc).
  unfold PureF in H. rewrite Forall_forall in H. auto.
Qed.

(* the computation of simplify on a P-node whose children other than c do not contain v *)
Lemma simplify_P_compute v r es c es2 :
  Forall (PureE v) (es ++ es2) -> es ++ es2 <> [] ->
  simplify v r (Node KP (es ++ c :: es2)) =
    if contains v c then
      let mid := if is_partial_child v c then simplify v r c else [c] in
      if r then new_node KP (es ++ es2) :: mid else mid ++ [new_node KP (es ++ es2)]
    else [new_node KP (es ++ c :: es2)].
Proof.
  intros HE Hne. rewrite simplify_P_eq. cbv zeta.
  apply Forall_app in HE. destruct HE as [HE1 HE2].
  assert (C1 : Forall (fun e => contains v e = false) es) by (eapply Forall_impl; [|exact HE1]; intros e; apply contains_false_iff).
  assert (C2 : Forall (fun e => contains v e = false) es2) by (eapply Forall_impl; [|exact HE2]; intros e; apply contains_false_iff).
  assert (P1 : Forall (fun e => is_partial_child v e = false) es) by (eapply Forall_impl; [|exact HE1]; intros e; apply PureE_not_partial).
  assert (P2 : Forall (fun e => is_partial_child v e = false) es2) by (eapply Forall_impl; [|exact HE2]; intros e; apply PureE_not_partial).
  assert (Hempty : filter (fun c0 => negb (contains v c0)) (es ++ c :: es2) =
                   if contains v c then es ++ es2 else es ++ c :: es2).
  { rewrite filter_app. simpl filter.
    rewrite (filter_true _ es) by (eapply Forall_impl; [|exact C1]; intros e He; cbv beta; now rewrite He).
    rewrite (filter_true _ es2) by (eapply Forall_impl; [|exact C2]; intros e He; cbv beta; now rewrite He).
    destruct (contains v c); reflexivity. }
  assert (Hfull : filter (fun c0 => contains v c0 && negb (is_partial_child v c0)) (es ++ c :: es2) =
                  if contains v c && negb (is_partial_child v c) then [c] else []).
  { rewrite filter_app. simpl filter.
    rewrite (filter_false _ es) by (eapply Forall_impl; [|exact C1]; intros e He; cbv beta; now rewrite He).
    rewrite (filter_false _ es2) by (eapply Forall_impl; [|exact C2]; intros e He; cbv beta; now rewrite He).
    destruct (contains v c && negb (is_partial_child v c)); reflexivity. }
  assert (Hpart : last_some (map (fun c0 => if is_partial_child v c0 then Some (simplify v r c0) else None)
                                 (es ++ c :: es2)) [] =
                  if is_partial_child v c then simplify v r c else []).
  { rewrite map_app, last_some_app. simpl map.
    rewrite (last_some_none (map _ es)) by (apply Forall_map; eapply Forall_impl; [|exact P1]; intros e He; cbv beta; now rewrite He).
    simpl last_some.
    destruct (is_partial_child v c);
      apply last_some_none; apply Forall_map; (eapply Forall_impl; [|exact P2]); intros e He; cbv beta; now rewrite He. }
  rewrite Hempty, Hfull, Hpart. clear Hempty Hfull Hpart.
  destruct (contains v c) eqn:Ec.
  - destruct (is_partial_child v c) eqn:Ep; simpl.
    + destruct (es ++ es2) eqn:E; [congruence|]. destruct r; simpl; now rewrite ?app_nil_r.
    + destruct (es ++ es2) eqn:E; [congruence|]. destruct r; simpl; now rewrite ?app_nil_r.
  - assert (Ep : is_partial_child v c = false).
    { destruct c; [reflexivity|]. unfold is_partial_child. now rewrite Ec. }
    rewrite Ep. simpl. destruct (es ++ c :: es2) eqn:E; [now destruct es|]. destruct r; simpl; reflexivity.
Qed.

(* what simplify returns on an aligned tree: blocks without v then blocks with v (right aligned; the other way
   round when left aligned), the same leaves, and every frontier of the sequence — read forwards or backwards — is a
   frontier of the tree *)
Definition Pattern (la : bool) (v : nat) (L : list pq) : Prop :=
  exists es fs, Forall (PureE v) es /\ Forall (PureF v) fs /\ L = if la then fs ++ es else es ++ fs.

Definition SimpOK (la : bool) (v : nat) (t : pq) (L : list pq) : Prop :=
  Pattern la v L /\ Forall (fun c => proper c = true) L /\
  Permutation (ordering t) (flat_map ordering L) /\ Pieces L t.

Lemma Ord_P_box es c es2 o1 o2 :
  Ord c o2 -> Ord (Node KP (es ++ es2)) o1 ->
  Ord (Node KP (es ++ c :: es2)) (o1 ++ o2) /\ Ord (Node KP (es ++ c :: es2)) (o2 ++ o1).
Proof.
  intros Hc HE.
  assert (HP : Permutation ([c] ++ (es ++ es2)) (es ++ c :: es2)) by (simpl; apply Permutation_middle).
  split; apply (Ord_P_perm _ _ _ HP); apply Ord_P_group; apply Ord_P.
  - exists [Node KP (es ++ es2); c]. split; [apply perm_swap|].
    apply OrdL_cons. exists o1, o2. repeat split; auto. now apply OrdL_one.
  - exists [c; Node KP (es ++ es2)]. split; [reflexivity|].
    apply OrdL_cons. exists o2, o1. repeat split; auto. now apply OrdL_one.
Qed.

Lemma Pieces_P es c es2 Lc :
  es ++ es2 <> [] -> Pieces Lc c ->
  Pieces (new_node KP (es ++ es2) :: Lc) (Node KP (es ++ c :: es2)) /\
  Pieces (Lc ++ [new_node KP (es ++ es2)]) (Node KP (es ++ c :: es2)).
Proof.
  intros Hne [Hf Hb]. split; split; intros o Ho.
  - apply OrdL_cons in Ho. destruct Ho as (o1 & o2 & -> & H1 & H2). apply Ord_new_node in H1; [|exact Hne].
    exact (proj1 (Ord_P_box es c es2 o1 o2 (Hf _ H2) H1)).
  - simpl in Ho. apply OrdL_app in Ho. destruct Ho as (o2 & o1 & -> & H2 & H1). apply OrdL_one in H1.
    apply Ord_new_node in H1; [|exact Hne]. exact (proj2 (Ord_P_box es c es2 o1 o2 (Hb _ H2) H1)).
  - apply OrdL_app in Ho. destruct Ho as (o2 & o1 & -> & H2 & H1). apply OrdL_one in H1.
    apply Ord_new_node in H1; [|exact Hne]. exact (proj2 (Ord_P_box es c es2 o1 o2 (Hf _ H2) H1)).
  - rewrite rev_app_distr in Ho. simpl in Ho. apply OrdL_cons in Ho. destruct Ho as (o1 & o2 & -> & H1 & H2).
    apply Ord_new_node in H1; [|exact Hne]. exact (proj1 (Ord_P_box es c es2 o1 o2 (Hb _ H2) H1)).
Qed.

Lemma ordering_middle es c es2 :
  Permutation (flat_map ordering (es ++ c :: es2)) (flat_map ordering (es ++ es2) ++ ordering c).
Proof.
  rewrite !flat_map_app. simpl. rewrite <- app_assoc. apply Permutation_app_head. apply Permutation_app_comm.
Qed.

Lemma Forall_proper_app_inv es c es2 :
  Forall (fun c => proper c = true) (es ++ c :: es2) ->
  Forall (fun c => proper c = true) (es ++ es2) /\ proper c = true.
Proof.
  intros H. apply Forall_app in H. destruct H as [H1 H2]. inversion H2; subst. split; [apply Forall_app; auto|auto].
Qed.

(* the P-node case, given what the middle part mid (from the distinguished child c) satisfies *)
Lemma SimpOK_P la v es c es2 mid :
  2 <= length (es ++ c :: es2) -> Forall (fun c => proper c = true) (es ++ c :: es2) ->
  Forall (PureE v) (es ++ es2) -> SimpOK la v c mid ->
  SimpOK la v (Node KP (es ++ c :: es2))
         (if negb la then new_node KP (es ++ es2) :: mid else mid ++ [new_node KP (es ++ es2)]).
Proof.
  intros Hlen Hp HE ((es' & fs' & HE' & HF' & Hmid) & Hpm & Hperm & Hpieces).
  assert (Hne : es ++ es2 <> []).
  { intros E. rewrite app_length in Hlen. simpl in Hlen. apply (f_equal (@length pq)) in E.
    rewrite app_length in E. simpl in E. lia. }
  destruct (Forall_proper_app_inv _ _ _ Hp) as [HpE Hpc].
  assert (HXp : proper (new_node KP (es ++ es2)) = true) by now apply proper_new_node.
  assert (HXE : PureE v (new_node KP (es ++ es2))) by now apply PureE_new_node.
  destruct (Pieces_P es c es2 mid Hne Hpieces) as [HP1 HP2].
  destruct la; simpl negb; cbv iota; subst mid.
  - (* left aligned: fs' ++ es' ++ [X] *)
    split; [|split; [|split]].
    + exists (es' ++ [new_node KP (es ++ es2)]), fs'. repeat split; auto.
      * apply Forall_app. split; auto.
      * now rewrite app_assoc.
    + apply Forall_app. split; auto.
    + assert (E : flat_map ordering ((fs' ++ es') ++ [new_node KP (es ++ es2)]) =
                  flat_map ordering (fs' ++ es') ++ flat_map ordering (es ++ es2))
        by (rewrite flat_map_app; simpl; now rewrite app_nil_r, ordering_new_node).
      rewrite E. change (ordering (Node KP (es ++ c :: es2))) with (flat_map ordering (es ++ c :: es2)).
      etransitivity; [apply ordering_middle|]. etransitivity; [apply Permutation_app_comm|].
      now apply Permutation_app_tail.
    + exact HP2.
  - split; [|split; [|split]].
    + exists (new_node KP (es ++ es2) :: es'), fs'. repeat split; auto.
    + constructor; auto.
    + change (ordering (Node KP (es ++ c :: es2))) with (flat_map ordering (es ++ c :: es2)).
      change (flat_map ordering (new_node KP (es ++ es2) :: es' ++ fs'))
        with (ordering (new_node KP (es ++ es2)) ++ flat_map ordering (es' ++ fs')).
      rewrite ordering_new_node. etransitivity; [apply ordering_middle|]. now apply Permutation_app_head.
    + exact HP1.
Qed.

Lemma SimpOK_pure_F la v c : proper c = true -> PureF v c -> SimpOK la v c [c].
Proof.
  intros Hp HF. split; [|split; [|split]].
  - exists [], [c]. repeat split; auto. destruct la; reflexivity.
  - auto.
  - simpl. now rewrite app_nil_r.
  - apply Pieces_self.
Qed.

Lemma SimpOK_pure_E la v c : proper c = true -> PureE v c -> SimpOK la v c [c].
Proof.
  intros Hp HF. split; [|split; [|split]].
  - exists [c], []. repeat split; auto. destruct la; reflexivity.
  - auto.
  - simpl. now rewrite app_nil_r.
  - apply Pieces_self.
Qed.

Lemma Pieces_Q_fwd es x Lx : Pieces Lx x -> Pieces (es ++ Lx) (Node KQ (es ++ [x])).
Proof.
  intros [Hf Hb]. split; intros o Ho; apply Ord_Q.
  - left. apply OrdL_app in Ho. destruct Ho as (o1 & o2 & -> & H1 & H2). apply OrdL_app. exists o1, o2.
    repeat split; auto. apply OrdL_one. auto.
  - right. rewrite rev_app_distr in *. simpl. apply OrdL_app in Ho. destruct Ho as (o1 & o2 & -> & H1 & H2).
    apply OrdL_cons. exists o1, o2. repeat split; auto.
Qed.

Lemma Pieces_Q_bwd es x Lx : Pieces Lx x -> Pieces (Lx ++ es) (Node KQ (x :: es)).
Proof.
  intros [Hf Hb]. split; intros o Ho; apply Ord_Q.
  - left. apply OrdL_app in Ho. destruct Ho as (o1 & o2 & -> & H1 & H2). apply OrdL_cons. exists o1, o2. auto.
  - right. rewrite rev_app_distr in Ho. simpl. apply OrdL_app in Ho. destruct Ho as (o1 & o2 & -> & H1 & H2).
    apply OrdL_app. exists o1, o2. repeat split; auto. apply OrdL_one. auto.
Qed.

(* the Q-node case with a distinguished last (first) child *)
Lemma SimpOK_Q la v es x mid :
  Forall (fun c => proper c = true) es -> Forall (PureE v) es -> SimpOK la v x mid ->
  SimpOK la v (Node KQ (if la then x :: es else es ++ [x])) (if la then mid ++ es else es ++ mid).
Proof.
  intros Hp HE ((es' & fs' & HE' & HF' & Hmid) & Hpm & Hperm & Hpieces).
  destruct la; subst mid.
  - split; [|split; [|split]].
    + exists (es' ++ es), fs'. repeat split; auto; [apply Forall_app; auto|now rewrite app_assoc].
    + apply Forall_app. auto.
    + change (ordering (Node KQ (x :: es))) with (ordering x ++ flat_map ordering es).
      rewrite (flat_map_app ordering (fs' ++ es') es). now apply Permutation_app_tail.
    + now apply Pieces_Q_bwd.
  - split; [|split; [|split]].
    + exists (es ++ es'), fs'. repeat split; auto; [apply Forall_app; auto|now rewrite app_assoc].
    + apply Forall_app. auto.
    + change (ordering (Node KQ (es ++ [x]))) with (flat_map ordering (es ++ [x])).
      rewrite (flat_map_app ordering es [x]), (flat_map_app ordering es (es' ++ fs')).
      apply Permutation_app_head. simpl. now rewrite app_nil_r.
    + now apply Pieces_Q_fwd.
Qed.

Theorem simplify_spec la v t :
  Al la v t -> proper t = true -> SimpOK la v t (simplify v (negb la) t).
Proof.
  induction 1 as [es c es2 HE HF|es c es2 HE HA IH|es fs HE HF|es x HE HA IH]; intros Hp.
  - (* P, the other child is full *)
    apply proper_node_iff in Hp. destruct Hp as [Hlen Hp]. destruct (Forall_proper_app_inv _ _ _ Hp) as [HpE Hpc].
    assert (Hne : es ++ es2 <> []).
    { intros E. rewrite app_length in Hlen. simpl in Hlen. apply (f_equal (@length pq)) in E.
      rewrite app_length in E. simpl in E. lia. }
    rewrite simplify_P_compute by assumption.
    rewrite (PureF_contains v c Hpc HF), (PureF_not_partial v c Hpc HF). cbv zeta.
    apply SimpOK_P; auto. now apply SimpOK_pure_F.
  - apply proper_node_iff in Hp. destruct Hp as [Hlen Hp]. destruct (Forall_proper_app_inv _ _ _ Hp) as [HpE Hpc].
    assert (Hne : es ++ es2 <> []).
    { intros E. rewrite app_length in Hlen. simpl in Hlen. apply (f_equal (@length pq)) in E.
      rewrite app_length in E. simpl in E. lia. }
    rewrite simplify_P_compute by assumption.
    destruct (contains v c) eqn:Ec.
    + cbv zeta. apply SimpOK_P; auto.
      destruct (is_partial_child v c) eqn:Epc; [now apply IH|].
      apply SimpOK_pure_F; [exact Hpc|]. now apply (Al_honest la v c).
    + (* nothing contains v: one block *)
      apply contains_false_iff in Ec. rewrite new_node_many by exact Hlen.
      apply SimpOK_pure_E; [now apply proper_node_iff|].
      apply Pure_node_E. apply Forall_app in HE. destruct HE as [H1 H2]. apply Forall_app. split; auto.
  - (* Q, all children pure *)
    apply proper_node_iff in Hp. destruct Hp as [Hlen Hp]. rewrite simplify_Q_eq.
    assert (Hall : Forall (fun c => is_partial_child v c = false) (if la then fs ++ es else es ++ fs)).
    { assert (H1 : Forall (fun c => is_partial_child v c = false) es)
        by (eapply Forall_impl; [|exact HE]; intros e; apply PureE_not_partial).
      assert (H2 : Forall (fun c => is_partial_child v c = false) fs).
      { apply Forall_forall. intros f Hf. apply PureF_not_partial.
        - rewrite Forall_forall in Hp. apply Hp. destruct la; apply in_or_app; auto.
        - rewrite Forall_forall in HF. now apply HF. }
      destruct la; apply Forall_app; auto. }
    rewrite flat_map_id_if by exact Hall. split; [|split; [|split]].
    + exists es, fs. auto.
    + exact Hp.
    + reflexivity.
    + split; intros o Ho; apply Ord_Q; auto.
  - (* Q, one aligned child at the end *)
    apply proper_node_iff in Hp. destruct Hp as [Hlen Hp]. rewrite simplify_Q_eq.
    assert (HpE : Forall (fun c => proper c = true) es /\ proper x = true).
    { destruct la; [inversion Hp; auto|apply Forall_app in Hp; destruct Hp as [H1 H2]; inversion H2; auto]. }
    destruct HpE as [HpE Hpx].
    assert (Hes : flat_map (fun c => if is_partial_child v c then simplify v (negb la) c else [c]) es = es).
    { apply flat_map_id_if. eapply Forall_impl; [|exact HE]. intros e. apply PureE_not_partial. }
    assert (Hmid : SimpOK la v x (if is_partial_child v x then simplify v (negb la) x else [x])).
    { destruct (is_partial_child v x) eqn:Epx; [now apply IH|].
      destruct (contains v x) eqn:Ec.
      - apply SimpOK_pure_F; [exact Hpx|]. now apply (Al_honest la v x).
      - apply SimpOK_pure_E; [exact Hpx|]. now apply contains_false_iff. }
    destruct la; simpl negb in *.
    + change (flat_map (fun c => if is_partial_child v c then simplify v false c else [c]) (x :: es))
        with ((if is_partial_child v x then simplify v false x else [x]) ++
              flat_map (fun c => if is_partial_child v c then simplify v false c else [c]) es).
      rewrite Hes. now apply (SimpOK_Q true).
    + rewrite flat_map_app, Hes. simpl flat_map. rewrite app_nil_r. now apply (SimpOK_Q false).
Qed.

(* ------------------------------------------------------------------------------------------------ *)
(* statuses *)
Definition Partial (v : nat) (t : pq) : Prop := ~ PureE v t /\ ~ PureF v t.

Definition StOK (v : nat) (t : pq) (st : status) : Prop :=
  match st with
  | SFull => PureF v t
  | SEmpty => PureE v t
  | SPartA => Al false v t /\ Partial v t
  | SPartU => CF v t /\ Partial v t
  end.

Lemma StOK_CF v t st : StOK v t st -> CF v t.
Proof. destruct st; simpl; [apply CF_F|apply CF_E|intros [H _]; now apply (Al_CF false)|tauto]. Qed.

Lemma status_eqb_eq a b : status_eqb a b = true <-> a = b.
Proof. destruct a, b; simpl; split; congruence. Qed.

Lemma Pure_both v t : proper t = true -> PureE v t -> PureF v t -> False.
Proof.
  intros Hp HE HF. destruct (ordering t) as [|s r] eqn:E; [now apply proper_leaves in Hp|].
  unfold PureE, PureF in *. rewrite E in *. inversion HE; inversion HF; subst. auto.
Qed.

(* the status of a tree without v is EMPTY, of a tree full of v is FULL *)
Lemma StOK_E v t st : proper t = true -> StOK v t st -> PureE v t -> st = SEmpty.
Proof.
  intros Hp Hs HE. destruct st; simpl in Hs; auto.
  - destruct (Pure_both v t Hp HE Hs).
  - destruct Hs as [_ [H _]]. contradiction.
  - destruct Hs as [_ [H _]]. contradiction.
Qed.

Lemma StOK_F v t st : proper t = true -> StOK v t st -> PureF v t -> st = SFull.
Proof.
  intros Hp Hs HF. destruct st; simpl in Hs; auto.
  - destruct (Pure_both v t Hp Hs HF).
  - destruct Hs as [_ [_ H]]. contradiction.
  - destruct Hs as [_ [_ H]]. contradiction.
Qed.

(* children sorted by status *)
Lemma pick_st_cons s c cs st seq :
  pick_st s (c :: cs) (st :: seq) = if status_eqb s st then c :: pick_st s cs seq else pick_st s cs seq.
Proof. unfold pick_st. simpl. destruct (status_eqb s st); reflexivity. Qed.

Lemma count_st_cons s st seq : count_st s (st :: seq) = if status_eqb s st then S (count_st s seq) else count_st s seq.
Proof. unfold count_st. simpl. destruct (status_eqb s st); reflexivity. Qed.

Lemma pick_st_Forall (R : pq -> status -> Prop) s cs seq :
  Forall2 R cs seq -> Forall (fun c => R c s) (pick_st s cs seq).
Proof.
  induction 1 as [|c st cs seq Hc H IH]; [constructor|]. rewrite pick_st_cons.
  destruct (status_eqb s st) eqn:E; [|exact IH]. apply status_eqb_eq in E. subst. now constructor.
Qed.

Lemma pick_st_incl s cs seq : incl (pick_st s cs seq) cs.
Proof.
  unfold pick_st. intros c Hc. apply in_map_iff in Hc. destruct Hc as ([c' st] & <- & Hc).
  apply filter_In in Hc. destruct Hc as [Hc _]. now apply in_combine_l in Hc.
Qed.

Lemma pick_st_length (R : pq -> status -> Prop) s cs seq :
  Forall2 R cs seq -> length (pick_st s cs seq) = count_st s seq.
Proof.
  induction 1 as [|c st cs seq Hc H IH]; [reflexivity|]. rewrite pick_st_cons, count_st_cons.
  destruct (status_eqb s st); simpl; now rewrite IH.
Qed.

Lemma pick_st_perm (R : pq -> status -> Prop) cs seq :
  Forall2 R cs seq ->
  Permutation cs (pick_st SFull cs seq ++ pick_st SEmpty cs seq ++ pick_st SPartA cs seq ++ pick_st SPartU cs seq).
Proof.
  induction 1 as [|c st cs seq Hc H IH]; [constructor|]. rewrite !pick_st_cons.
  destruct st; simpl.
  - now constructor.
  - apply Permutation_cons_app. exact IH.
  - rewrite app_assoc. apply Permutation_cons_app. now rewrite <- app_assoc.
  - rewrite !app_assoc. apply Permutation_cons_app. now rewrite <- !app_assoc.
Qed.

Lemma count_st_total seq :
  count_st SFull seq + count_st SEmpty seq + count_st SPartA seq + count_st SPartU seq = length seq.
Proof. induction seq as [|st seq IH]; [reflexivity|]. rewrite !count_st_cons. destruct st; simpl; lia. Qed.

Lemma count_st_le s seq : count_st s seq <= length seq.
Proof. induction seq as [|st seq IH]; [unfold count_st; simpl; lia|]. rewrite count_st_cons. destruct (status_eqb s st); simpl; lia. Qed.

Lemma count_st_all (R : pq -> status -> Prop) s cs seq :
  Forall2 R cs seq -> count_st s seq = length seq -> Forall (fun c => R c s) cs.
Proof.
  induction 1 as [|c st cs seq Hc H IH]; intros Hn; [constructor|]. rewrite count_st_cons in Hn. simpl in Hn.
  assert (Hle : count_st s seq <= length seq) by apply count_st_le.
  destruct (status_eqb s st) eqn:E; [|lia]. apply status_eqb_eq in E. subst. constructor; [exact Hc|]. apply IH. lia.
Qed.

(* all children but one are EMPTY *)
Lemma one_non_empty (R : pq -> status -> Prop) s cs seq :
  Forall2 R cs seq -> s <> SEmpty -> S (count_st SEmpty seq) = length seq -> count_st s seq = 1 ->
  exists es c es2, cs = es ++ c :: es2 /\ Forall (fun e => R e SEmpty) (es ++ es2) /\ R c s /\
                   pick_st SEmpty cs seq = es ++ es2 /\ pick_st s cs seq = [c].
Proof.
  intros H Hs. induction H as [|c st cs seq Hc H IH]; intros HnE Hn1; [discriminate|].
  rewrite !count_st_cons in *. rewrite !pick_st_cons. cbn [length] in HnE.
  assert (HleE : count_st SEmpty seq <= length seq) by apply count_st_le.
  destruct (status_eqb SEmpty st) eqn:EE.
  - apply status_eqb_eq in EE. subst st.
    assert (Es : status_eqb s SEmpty = false) by (destruct s; simpl; congruence). rewrite Es in *.
    destruct IH as (es & c0 & es2 & -> & HE & Hc0 & HpE & Hps); [lia|exact Hn1|].
    exists (c :: es), c0, es2. simpl. repeat split; auto. now rewrite HpE.
  - (* this child is the one *)
    assert (HallE : count_st SEmpty seq = length seq) by lia.
    pose proof (count_st_all R SEmpty cs seq H HallE) as HE.
    pose proof (count_st_total seq) as Ht.
    assert (H0 : count_st s seq = 0) by (destruct s; try congruence; lia).
    destruct (status_eqb s st) eqn:Es; [|lia]. apply status_eqb_eq in Es. subst st.
    exists [], c, cs. simpl. repeat split; auto.
    + clear - H HallE. induction H as [|c st cs seq Hc H IH]; [reflexivity|].
      rewrite count_st_cons in HallE. rewrite pick_st_cons. cbn [length] in HallE.
      assert (Hle : count_st SEmpty seq <= length seq) by apply count_st_le.
      destruct (status_eqb SEmpty st); [|lia]. f_equal. apply IH. lia.
    + f_equal. clear - H H0. induction H as [|c st cs seq Hc H IH]; [reflexivity|].
      rewrite count_st_cons in H0. rewrite pick_st_cons. destruct (status_eqb s st); [discriminate|]. now apply IH.
Qed.

(* ------------------------------------------------------------------------------------------------ *)
(* sequences of pieces *)
Definition PiecesL (L base : list pq) : Prop :=
  (forall o, OrdL L o -> OrdL base o) /\ (forall o, OrdL (rev L) o -> OrdL (rev base) o).

Lemma PiecesL_refl l : PiecesL l l.
Proof. split; auto. Qed.

Lemma PiecesL_app a a' b b' : PiecesL a a' -> PiecesL b b' -> PiecesL (a ++ b) (a' ++ b').
Proof.
  intros [Ha Har] [Hb Hbr]. split; intros o Ho.
  - apply OrdL_app in Ho. destruct Ho as (o1 & o2 & -> & H1 & H2). apply OrdL_app.
    exists o1, o2. repeat split; auto.
  - rewrite rev_app_distr in *. apply OrdL_app in Ho. destruct Ho as (o1 & o2 & -> & H1 & H2). apply OrdL_app.
    exists o1, o2. repeat split; auto.
Qed.

Lemma PiecesL_of_Pieces L c : Pieces L c -> PiecesL L [c].
Proof. intros [Hf Hb]. split; intros o Ho; simpl; apply OrdL_one; auto. Qed.

Lemma PiecesL_Ref c' c : Ref c' c -> PiecesL [c'] [c].
Proof. intros H. split; intros o Ho; simpl in *; apply OrdL_one; apply OrdL_one in Ho; auto. Qed.

Lemma PiecesL_trans a b c : PiecesL a b -> PiecesL b c -> PiecesL a c.
Proof. intros [H1 H2] [H3 H4]. split; auto. Qed.

(* a Q-node made of pieces refines the Q-node on the original sequence *)
Lemma Ref_Q_pieces L base : L <> [] -> PiecesL L base -> Ref (new_node KQ L) (Node KQ base).
Proof.
  intros Hne [Hf Hb] o Ho. apply Ord_new_node in Ho; [|exact Hne]. apply Ord_Q in Ho. apply Ord_Q.
  destruct Ho; [left|right]; auto.
Qed.

Lemma Ref_new_node k l : l <> [] -> Ref (new_node k l) (Node k l).
Proof. intros H o Ho. now apply Ord_new_node in Ho. Qed.

(* replacing the last child of a P-node *)
Lemma Ref_P_last a c' c : Ref c' c -> Ref (Node KP (a ++ [c'])) (Node KP (a ++ [c])).
Proof.
  intros H. apply Ref_node. apply Forall2_app; [apply Forall2_Ref_refl|]. repeat constructor. exact H.
Qed.

(* E-children plus one composite child built from the sequence base: back to the flat P-node *)
Lemma Ref_P_regroup a base : Ref (Node KP (a ++ [Node KQ base])) (Node KP (a ++ base)).
Proof.
  intros o Ho. apply Ord_P_group. revert o Ho. apply Ref_P_last. intros o Ho. now apply Ord_Q_P.
Qed.

Lemma AlmostProper_flat t :
  match t with Leaf _ => True | Node _ l => l <> [] /\ Forall (fun c => proper c = true) l end ->
  proper (flat_ret t) = true.
Proof.
  assert (Hid : forall t, proper t = true -> flat_ret t = t).
  { intros t0. induction t0 as [s|k cs IH] using pq_ind'; [reflexivity|]. intros Hp.
    apply proper_node_iff in Hp. destruct Hp as [Hlen Hp]. destruct cs as [|c [|c2 r]]; try (simpl in Hlen; lia).
    change (Node k (map flat_ret (c :: c2 :: r)) = Node k (c :: c2 :: r)). f_equal.
    rewrite <- (map_id (c :: c2 :: r)) at 2. apply map_ext_in. intros x Hx.
    rewrite Forall_forall in IH, Hp. apply IH; auto. }
  destruct t as [s|k l]; [reflexivity|]. intros [Hne Hp]. destruct l as [|c [|c2 r]]; [congruence| |].
  - inversion Hp; subst. simpl. now rewrite Hid.
  - change (proper (Node k (map flat_ret (c :: c2 :: r))) = true). apply proper_node_iff. split; [simpl; lia|].
    apply Forall_map. eapply Forall_impl; [|exact Hp]. intros x Hx. cbv beta. now rewrite Hid.
Qed.

Definition AlmostProper (t : pq) : Prop :=
  match t with Leaf _ => True | Node _ l => l <> [] /\ Forall (fun c => proper c = true) l end.

Lemma proper_AlmostProper t : proper t = true -> AlmostProper t.
Proof.
  destruct t as [s|k l]; [constructor|]. intros H. apply proper_node_iff in H. destruct H as [Hlen Hp].
  split; [|exact Hp]. destruct l; [simpl in Hlen; lia|discriminate].
Qed.

Lemma Partial_child v k cs c : In c cs -> Partial v c -> Partial v (Node k cs).
Proof.
  intros Hin [HE HF]. split; intros H.
  - apply Pure_node_E in H. rewrite Forall_forall in H. auto.
  - apply Pure_node_F in H. rewrite Forall_forall in H. auto.
Qed.

Lemma not_PureE_F_child v k cs c : In c cs -> proper c = true -> PureF v c -> ~ PureE v (Node k cs).
Proof.
  intros Hin Hp HF H. apply Pure_node_E in H. rewrite Forall_forall in H. exact (Pure_both v c Hp (H c Hin) HF).
Qed.
Lemma not_PureF_E_child v k cs c : In c cs -> proper c = true -> PureE v c -> ~ PureF v (Node k cs).
Proof.
  intros Hin Hp HE H. apply Pure_node_F in H. rewrite Forall_forall in H. exact (Pure_both v c Hp HE (H c Hin)).
Qed.

(* the result of a case analysis on the children cs with statuses seq *)
Definition CasePost (v : nat) (k : kind) (cs : list pq) (hasE : Prop) (t' : pq) (st : status) : Prop :=
  StOK v t' st /\ AlmostProper t' /\ (hasE -> proper t' = true) /\
  Permutation (flat_map ordering cs) (ordering t') /\ Ref t' (Node k cs).

Lemma StOK_pick_F v cs seq : Forall2 (StOK v) cs seq -> Forall (PureF v) (pick_st SFull cs seq).
Proof. intros H. exact (pick_st_Forall (StOK v) SFull cs seq H). Qed.
Lemma StOK_pick_E v cs seq : Forall2 (StOK v) cs seq -> Forall (PureE v) (pick_st SEmpty cs seq).
Proof. intros H. exact (pick_st_Forall (StOK v) SEmpty cs seq H). Qed.
Lemma StOK_pick_PA v cs seq : Forall2 (StOK v) cs seq -> Forall (fun c => Al false v c /\ Partial v c) (pick_st SPartA cs seq).
Proof. intros H. exact (pick_st_Forall (StOK v) SPartA cs seq H). Qed.

Lemma pick_proper s cs seq : Forall (fun c => proper c = true) cs -> Forall (fun c => proper c = true) (pick_st s cs seq).
Proof. intros H. apply Forall_forall. intros c Hc. rewrite Forall_forall in H. apply H. now apply (pick_st_incl s cs seq). Qed.

Lemma length_zero_nil {T} (l : list T) : length l = 0 -> l = [].
Proof. destruct l; [reflexivity|discriminate]. Qed.

Lemma flat_perm_3 (F E PA : list pq) cs :
  Permutation cs (F ++ E ++ PA) -> Permutation (flat_map ordering cs) (flat_map ordering E ++ flat_map ordering PA ++ flat_map ordering F).
Proof.
  intros H. etransitivity; [apply flat_map_perm; exact H|]. rewrite !flat_map_app.
  etransitivity; [apply Permutation_app_comm|]. now rewrite <- app_assoc.
Qed.

(* the "else" branch of P.set_contiguous with at most one aligned partial child: the pieces Lc of that child (none
   if there is no such child), then the block of full children *)
Lemma p_else_one v cs F E PAl Lc :
  2 <= length cs -> Permutation cs (F ++ E ++ PAl) -> F <> [] ->
  Forall (fun c => proper c = true) F -> Forall (fun c => proper c = true) E ->
  Forall (PureF v) F -> Forall (PureE v) E ->
  Pattern false v Lc -> Forall (fun c => proper c = true) Lc ->
  Permutation (flat_map ordering PAl) (flat_map ordering Lc) -> PiecesL Lc PAl ->
  (E = [] -> Lc <> [] /\ ~ Forall (PureF v) Lc) ->
  CasePost v KP cs (E <> []) (Node KP (E ++ [new_node KQ (Lc ++ [new_node KP F])])) SPartA.
Proof.
  intros Hn HP HFne HpF HpE HF HE (es' & fs' & HE' & HF' & HLc) HpL HpermL Hpieces HnoE.
  simpl in HLc. subst Lc.
  set (XF := new_node KP F).
  assert (HXFp : proper XF = true) by now apply proper_new_node.
  assert (HXFF : PureF v XF) by now apply PureF_new_node.
  set (new := (es' ++ fs') ++ [XF]).
  assert (Hnew_ne : new <> []) by (unfold new; intros E0; apply app_eq_nil in E0; destruct E0; discriminate).
  assert (Hnewp : Forall (fun c => proper c = true) new) by (apply Forall_app; auto).
  set (NQ := new_node KQ new).
  assert (HNQp : proper NQ = true) by now apply proper_new_node.
  assert (HNQ_al : PureF v NQ \/ Al false v NQ).
  { unfold NQ, new. destruct es' as [|e es'].
    - left. apply PureF_new_node. apply Forall_app. auto.
    - right. rewrite <- app_assoc. rewrite new_node_many by (simpl; rewrite !app_length; simpl; lia).
      apply (Al_QF false v (e :: es') (fs' ++ [XF])); [exact HE'|apply Forall_app; auto]. }
  assert (HNQ_notE : ~ PureE v NQ).
  { unfold NQ. intros H. unfold PureE in H. rewrite ordering_new_node in H. unfold new in H.
    rewrite flat_map_app in H. apply Forall_app in H. destruct H as [_ H]. simpl in H. rewrite app_nil_r in H.
    exact (Pure_both v XF HXFp H HXFF). }
  split; [|split; [|split; [|split]]].
  - (* status *)
    split.
    + destruct HNQ_al as [H|H]; [apply (Al_PF false v E NQ [])|apply (Al_PX false v E NQ [])]; auto;
        now rewrite app_nil_r.
    + split; intros H.
      * apply Pure_node_E in H. apply Forall_app in H. destruct H as [_ H]. inversion H; subst. contradiction.
      * apply Pure_node_F in H. apply Forall_app in H. destruct H as [H1 H2].
        destruct E as [|e E].
        -- destruct (HnoE eq_refl) as [_ Hn']. apply Hn'. inversion H2 as [|? ? H3 _]; subst.
           unfold PureF, NQ in H3. rewrite ordering_new_node in H3. unfold new in H3.
           rewrite flat_map_app in H3. apply Forall_app in H3. destruct H3 as [H3 _].
           apply Forall_forall. intros c Hc. unfold PureF. apply Forall_forall. intros s Hs.
           rewrite Forall_forall in H3. apply H3. apply in_flat_map. eauto.
        -- inversion H1; subst. inversion HE; subst. inversion HpE; subst. eapply Pure_both; eauto.
  - split; [intros E0; apply app_eq_nil in E0; destruct E0; discriminate|]. apply Forall_app. auto.
  - intros HEne. apply proper_node_iff. split; [|apply Forall_app; auto].
    rewrite app_length. simpl. destruct E; [congruence|simpl; lia].
  - (* leaves *)
    change (ordering (Node KP (E ++ [NQ]))) with (flat_map ordering (E ++ [NQ])).
    rewrite flat_map_app. simpl. rewrite app_nil_r. unfold NQ. rewrite ordering_new_node. unfold new.
    rewrite flat_map_app. simpl. rewrite app_nil_r. unfold XF. rewrite ordering_new_node.
    etransitivity; [apply (flat_perm_3 F E PAl); exact HP|].
    apply Permutation_app_head. apply Permutation_app_tail. exact HpermL.
  - (* refinement *)
    intros o Ho.
    apply (Ord_P_perm (E ++ PAl ++ F)).
    { apply Permutation_sym. etransitivity; [exact HP|]. etransitivity; [apply Permutation_app_comm|].
      now rewrite <- app_assoc. }
    rewrite app_assoc. apply Ord_P_group. rewrite <- app_assoc. apply Ref_P_regroup.
    revert o Ho. apply Ref_P_last. unfold NQ. apply Ref_Q_pieces; [exact Hnew_ne|].
    unfold new. apply PiecesL_app; [exact Hpieces|]. apply PiecesL_Ref. now apply Ref_new_node.
Qed.

Lemma Partial_perm v a b : Permutation (ordering a) (ordering b) -> Partial v a -> Partial v b.
Proof.
  intros HP [HE HF]. split; intros H; [apply HE|apply HF]; unfold PureE, PureF in *;
    eapply Permutation_Forall; [apply Permutation_sym; exact HP|exact H|apply Permutation_sym; exact HP|exact H].
Qed.

Lemma flat_nonempty_proper l : l <> [] -> Forall (fun c => proper c = true) l -> flat_map ordering l <> [].
Proof.
  intros Hne Hp. destruct l as [|c r]; [congruence|]. inversion Hp; subst. simpl. intros E.
  apply app_eq_nil in E. destruct E as [E _]. now apply proper_leaves in E.
Qed.

(* the "else" branch of P.set_contiguous with two aligned partial children *)
Lemma p_else_two v cs F E c0 c1 L0 L1 :
  Permutation cs (F ++ E ++ [c0; c1]) -> In c0 cs -> Partial v c0 ->
  Forall (fun c => proper c = true) F -> Forall (fun c => proper c = true) E ->
  Forall (PureF v) F -> Forall (PureE v) E ->
  Pattern false v L0 -> Forall (fun c => proper c = true) L0 -> L0 <> [] ->
  Permutation (ordering c0) (flat_map ordering L0) -> PiecesL L0 [c0] ->
  Pattern true v L1 -> Forall (fun c => proper c = true) L1 -> L1 <> [] ->
  Permutation (ordering c1) (flat_map ordering L1) -> PiecesL L1 [c1] ->
  CasePost v KP cs (E <> [])
    (Node KP (E ++ [new_node KQ (L0 ++ match F with [] => [] | _ => [new_node KP F] end ++ L1)])) SPartU.
Proof.
  intros HP Hin0 Hpart0 HpF HpE HF HE (e0 & f0 & HE0 & HF0 & HL0) HpL0 Hne0 Hperm0 Hpc0
         (e1 & f1 & HE1 & HF1 & HL1) HpL1 Hne1 Hperm1 Hpc1.
  simpl in HL0, HL1. subst L0 L1.
  set (fullp := match F with [] => [] | _ => [new_node KP F] end).
  assert (Hfullp : Forall (fun c => proper c = true) fullp /\ Forall (PureF v) fullp /\
                   flat_map ordering fullp = flat_map ordering F /\ PiecesL fullp (match F with [] => [] | _ => [Node KP F] end)).
  { unfold fullp. destruct F as [|f F']; [repeat split; auto; constructor|].
    assert (Hne : f :: F' <> []) by discriminate.
    repeat split.
    - constructor; [now apply proper_new_node|constructor].
    - constructor; [now apply PureF_new_node|constructor].
    - change (flat_map ordering [new_node KP (f :: F')]) with (ordering (new_node KP (f :: F')) ++ []).
      now rewrite app_nil_r, ordering_new_node.
    - intros o Ho. apply OrdL_one. apply OrdL_one in Ho. now apply Ref_new_node in Ho.
    - intros o Ho. change (rev [new_node KP (f :: F')]) with [new_node KP (f :: F')] in Ho.
      change (rev [Node KP (f :: F')]) with [Node KP (f :: F')].
      apply OrdL_one. apply OrdL_one in Ho. now apply Ref_new_node in Ho. }
  destruct Hfullp as (Hfp & HfF & Hford & Hfpieces).
  set (new := (e0 ++ f0) ++ fullp ++ (f1 ++ e1)).
  assert (Hlen : 2 <= length new).
  { assert (H0 : 1 <= length (e0 ++ f0)) by (destruct (e0 ++ f0); [congruence|simpl; lia]).
    assert (H1 : 1 <= length (f1 ++ e1)) by (destruct (f1 ++ e1); [congruence|simpl; lia]).
    unfold new. rewrite (app_length (e0 ++ f0)), (app_length fullp). lia. }
  assert (Hnewp : Forall (fun c => proper c = true) new)
    by (unfold new; apply Forall_app; split; [exact HpL0|apply Forall_app; split; [exact Hfp|exact HpL1]]).
  rewrite (new_node_many KQ new Hlen).
  assert (HCF : CF v (Node KQ new)).
  { unfold new. replace ((e0 ++ f0) ++ fullp ++ f1 ++ e1) with (e0 ++ (f0 ++ fullp ++ f1) ++ e1)
      by (rewrite <- !app_assoc; reflexivity).
    apply CF_QF; auto. repeat (apply Forall_app; split); auto. }
  assert (HPermLeaves : Permutation (flat_map ordering cs) (ordering (Node KP (E ++ [Node KQ new])))).
  { change (ordering (Node KP (E ++ [Node KQ new]))) with (flat_map ordering (E ++ [Node KQ new])).
    rewrite flat_map_app.
    change (flat_map ordering [Node KQ new]) with (flat_map ordering new ++ []). rewrite app_nil_r.
    unfold new. rewrite (flat_map_app ordering (e0 ++ f0)), (flat_map_app ordering fullp), Hford.
    etransitivity; [apply (flat_perm_3 F E [c0; c1]); exact HP|]. apply Permutation_app_head.
    change (flat_map ordering [c0; c1]) with (ordering c0 ++ ordering c1 ++ []). rewrite app_nil_r.
    rewrite <- app_assoc.
    apply Permutation_app; [exact Hperm0|]. etransitivity; [apply Permutation_app_comm|].
    apply Permutation_app_head. exact Hperm1. }
  split; [|split; [|split; [|split]]].
  - split.
    + apply (CF_P v E (Node KQ new) []); [now rewrite app_nil_r|exact HCF].
    + apply (Partial_perm v (Node KP cs)); [exact HPermLeaves|]. now apply (Partial_child v KP cs c0).
  - split; [intros E0; apply app_eq_nil in E0; destruct E0; discriminate|].
    apply Forall_app. split; [exact HpE|]. constructor; [|constructor]. apply proper_node_iff. auto.
  - intros HEne. apply proper_node_iff. split.
    + rewrite app_length. simpl. destruct E; [congruence|simpl; lia].
    + apply Forall_app. split; [exact HpE|]. constructor; [|constructor]. apply proper_node_iff. auto.
  - exact HPermLeaves.
  - intros o Ho.
    assert (Hbase : PiecesL new ([c0] ++ match F with [] => [] | _ => [Node KP F] end ++ [c1])).
    { unfold new. apply PiecesL_app; [exact Hpc0|]. apply PiecesL_app; [exact Hfpieces|exact Hpc1]. }
    assert (Ho2 : Ord (Node KP (E ++ [c0] ++ match F with [] => [] | _ => [Node KP F] end ++ [c1])) o).
    { apply Ref_P_regroup. revert o Ho. apply Ref_P_last. rewrite <- (new_node_many KQ new Hlen).
      apply Ref_Q_pieces; [|exact Hbase]. intros E0. rewrite E0 in Hlen. simpl in Hlen. lia. }
    destruct F as [|f F'].
    + simpl in Ho2. apply (Ord_P_perm (E ++ [c0; c1])); [|exact Ho2].
      apply Permutation_sym. simpl in HP. exact HP.
    + (* move the P-node of the full children to the end, dissolve it *)
      apply (Ord_P_perm ((E ++ [c0; c1]) ++ (f :: F'))).
      { apply Permutation_sym. etransitivity; [exact HP|]. apply Permutation_app_comm. }
      apply Ord_P_group. apply (Ord_P_perm (E ++ [c0] ++ [Node KP (f :: F')] ++ [c1])); [|exact Ho2].
      rewrite <- !app_assoc. apply Permutation_app_head. simpl. apply perm_skip. apply perm_swap.
Qed.

Lemma Forall2_len' {X Y} (R : X -> Y -> Prop) l1 l2 : Forall2 R l1 l2 -> length l1 = length l2.
Proof. induction 1; simpl; congruence. Qed.

Lemma SimpOK_PiecesL la v c L : SimpOK la v c L -> PiecesL L [c].
Proof. intros (_ & _ & _ & H). now apply PiecesL_of_Pieces. Qed.

Lemma SimpOK_nonempty la v c L : proper c = true -> SimpOK la v c L -> L <> [].
Proof.
  intros Hp (_ & _ & HP & _) E. subst L. simpl in HP. apply Permutation_sym, Permutation_nil in HP.
  now apply proper_leaves in HP.
Qed.

Lemma CasePost_weaken v k cs (h h' : Prop) t' st : (h' -> h) -> CasePost v k cs h t' st -> CasePost v k cs h' t' st.
Proof. intros Himp (H1 & H2 & H3 & H4 & H5). repeat split; auto. Qed.

Lemma all_full_count v cs seq :
  Forall2 (StOK v) cs seq -> Forall (fun c => proper c = true) cs -> Forall (PureF v) cs ->
  count_st SFull seq = length seq.
Proof.
  induction 1 as [|c st cs seq Hc H IH]; intros Hp HF; [reflexivity|].
  inversion Hp; subst. inversion HF; subst. rewrite count_st_cons.
  rewrite (StOK_F v c st) by assumption. simpl. f_equal. now apply IH.
Qed.

(* P.set_contiguous, after the two passes over the children *)
Theorem p_cases_post v cs seq t' st :
  2 <= length cs -> Forall (fun c => proper c = true) cs -> Forall2 (StOK v) cs seq ->
  p_cases v cs seq = Ok (t', st) ->
  CasePost v KP cs (pick_st SEmpty cs seq <> [] \/ Forall (PureF v) cs) t' st.
Proof.
  intros Hn Hp HS Hres. unfold p_cases in Hres.
  pose proof (Forall2_len' _ _ _ HS) as Hlen.
  pose proof (pick_st_length _ SFull _ _ HS) as HlF. pose proof (pick_st_length _ SEmpty _ _ HS) as HlE.
  pose proof (pick_st_length _ SPartA _ _ HS) as HlPA. pose proof (pick_st_length _ SPartU _ _ HS) as HlPU.
  pose proof (pick_st_perm _ _ _ HS) as HPerm. pose proof (count_st_total seq) as Htot.
  pose proof (StOK_pick_F _ _ _ HS) as HFF. pose proof (StOK_pick_E _ _ _ HS) as HEE.
  pose proof (StOK_pick_PA _ _ _ HS) as HPA.
  pose proof (pick_proper SFull cs seq Hp) as HpF. pose proof (pick_proper SEmpty cs seq Hp) as HpE.
  pose proof (pick_proper SPartA cs seq Hp) as HpPA.
  destruct (impossible _ _ _ _) eqn:Eimp; [discriminate|].
  unfold impossible in Eimp. apply orb_false_iff in Eimp. destruct Eimp as [E1 E2]. apply Nat.ltb_ge in E1.
  destruct (count_st SFull seq =? length cs) eqn:EF.
  { (* all full *)
    apply Nat.eqb_eq in EF. inversion Hres; subst. rewrite Hlen in EF.
    pose proof (count_st_all _ SFull _ _ HS EF) as Hall. simpl in Hall.
    split; [|split; [|split; [|split]]].
    - now apply Pure_node_F.
    - split; [destruct cs; [simpl in Hn; lia|discriminate]|exact Hp].
    - intros _. now apply proper_node_iff.
    - reflexivity.
    - apply Ref_refl. }
  destruct (count_st SEmpty seq =? length cs) eqn:EE.
  { apply Nat.eqb_eq in EE. inversion Hres; subst. rewrite Hlen in EE.
    pose proof (count_st_all _ SEmpty _ _ HS EE) as Hall. simpl in Hall.
    split; [|split; [|split; [|split]]].
    - now apply Pure_node_E.
    - split; [destruct cs; [simpl in Hn; lia|discriminate]|exact Hp].
    - intros _. now apply proper_node_iff.
    - reflexivity.
    - apply Ref_refl. }
  apply Nat.eqb_neq in EF, EE.
  destruct (count_st SPartU seq =? 1) eqn:EPU.
  { (* one unaligned partial child, the others empty *)
    apply Nat.eqb_eq in EPU. inversion Hres; subst.
    rewrite EPU in E2. change (1 <=? 1) with true in E2. cbn [andb] in E2. apply negb_false_iff, Nat.eqb_eq in E2.
    destruct (one_non_empty (StOK v) SPartU cs seq HS) as (es & c & es2 & -> & HE & Hc & _ & _);
      [discriminate|lia|exact EPU|].
    simpl in Hc. destruct Hc as [HcCF HcP]. simpl in HE.
    split; [|split; [|split; [|split]]].
    - split; [now apply CF_P|]. apply (Partial_child v KP _ c); [apply in_or_app; right; now left|exact HcP].
    - split; [now destruct es|exact Hp].
    - intros _. now apply proper_node_iff.
    - reflexivity.
    - apply Ref_refl. }
  apply Nat.eqb_neq in EPU.
  assert (HnoPU : count_st SPartU seq = 0).
  { destruct (count_st SPartU seq) as [|k] eqn:EK; [reflexivity|]. change (1 <=? S k) with true in E2.
    cbn [andb] in E2. apply negb_false_iff, Nat.eqb_eq in E2. lia. }
  assert (HPUnil : pick_st SPartU cs seq = []) by (apply length_zero_nil; lia).
  rewrite HPUnil, app_nil_r in HPerm.
  destruct ((count_st SPartA seq =? 1) && (S (count_st SEmpty seq) =? length cs)) eqn:Ei.
  { (* one aligned partial child, the others empty *)
    apply andb_true_iff in Ei. destruct Ei as [Ei1 Ei2]. apply Nat.eqb_eq in Ei1, Ei2. inversion Hres; subst.
    destruct (one_non_empty (StOK v) SPartA cs seq HS) as (es & c & es2 & -> & HE & Hc & HpkE & HpkA);
      [discriminate|lia|exact Ei1|].
    simpl in Hc. destruct Hc as [HcA HcP]. simpl in HE. rewrite HpkE, HpkA.
    assert (HPm : Permutation (es ++ c :: es2) ((es ++ es2) ++ [c])).
    { rewrite <- app_assoc. apply Permutation_app_head. apply Permutation_cons_append. }
    assert (Hp' : Forall (fun c => proper c = true) ((es ++ es2) ++ [c])) by (eapply Permutation_Forall; eassumption).
    split; [|split; [|split; [|split]]].
    - split.
      + apply (Al_PX false v (es ++ es2) c []); [now rewrite app_nil_r|exact HcA].
      + apply (Partial_child v KP _ c); [apply in_or_app; right; now left|exact HcP].
    - split; [intros E0; apply app_eq_nil in E0; destruct E0; discriminate|exact Hp'].
    - intros _. apply proper_node_iff. split; [|exact Hp']. rewrite <- (Permutation_length HPm). exact Hn.
    - simpl ordering. now apply flat_map_perm.
    - intros o Ho. apply (Ord_P_perm ((es ++ es2) ++ [c])); [now apply Permutation_sym|exact Ho]. }
  (* the "else" branch *)
  apply andb_false_iff in Ei.
  assert (HFne : count_st SPartA seq = 2 \/ pick_st SFull cs seq <> []).
  { destruct (count_st SFull seq) as [|k] eqn:EK; [|right; intros E0; rewrite E0 in HlF; simpl in HlF; lia].
    left. destruct Ei as [Ei|Ei]; [apply Nat.eqb_neq in Ei|apply Nat.eqb_neq in Ei]; lia. }
  assert (HhasE : pick_st SEmpty cs seq <> [] \/ Forall (PureF v) cs -> pick_st SEmpty cs seq <> []).
  { intros [H|H]; [exact H|]. exfalso. apply EF. rewrite Hlen. now apply (all_full_count v cs seq). }
  apply (CasePost_weaken v KP cs (pick_st SEmpty cs seq <> [])); [exact HhasE|]. clear HhasE.
  destruct (count_st SPartA seq <? 2) eqn:E2PA.
  - (* at most one aligned partial child *)
    apply Nat.ltb_lt in E2PA. destruct HFne as [HFne|HFne]; [lia|]. inversion Hres; subst. clear Hres.
    destruct (pick_st SFull cs seq) as [|f F'] eqn:EFl; [congruence|]. rewrite <- EFl in *.
    replace (match pick_st SFull cs seq with [] => [] | _ :: _ => [new_node KP (pick_st SFull cs seq)] end)
      with [new_node KP (pick_st SFull cs seq)] by (rewrite EFl; reflexivity).
    destruct (pick_st SPartA cs seq) as [|c [|c2 r]] eqn:EPA; [| |simpl in HlPA; lia].
    + (* none *)
      eapply (p_else_one v cs (pick_st SFull cs seq) (pick_st SEmpty cs seq) [] []); eauto.
      * exists [], []. repeat split; constructor.
      * apply PiecesL_refl.
      * intros E0. exfalso. rewrite E0 in HlE. simpl in HlE, HlPA. lia.
    + (* one *)
      inversion HPA as [|? ? [HcA HcP] _]; subst. inversion HpPA as [|? ? Hpc _]; subst.
      pose proof (simplify_spec false v c HcA Hpc) as HS0. simpl negb in HS0.
      destruct HS0 as (HPat & HLp & HLperm & HLpieces).
      eapply (p_else_one v cs (pick_st SFull cs seq) (pick_st SEmpty cs seq) [c] (simplify v true c)); eauto.
      * simpl. now rewrite app_nil_r.
      * now apply PiecesL_of_Pieces.
      * intros _. split.
        -- intros E0. rewrite E0 in HLperm. simpl in HLperm. apply Permutation_sym, Permutation_nil in HLperm.
           now apply proper_leaves in HLperm.
        -- intros Hall. destruct HcP as [_ HnF]. apply HnF. unfold PureF.
           eapply Permutation_Forall; [apply Permutation_sym; exact HLperm|].
           apply Forall_forall. intros s Hs. apply in_flat_map in Hs. destruct Hs as (x & Hx & Hs).
           rewrite Forall_forall in Hall. specialize (Hall x Hx). unfold PureF in Hall.
           rewrite Forall_forall in Hall. auto.
  - (* two aligned partial children *)
    apply Nat.ltb_ge in E2PA. inversion Hres; subst. clear Hres.
    destruct (pick_st SPartA cs seq) as [|c0 [|c1 [|c2 r]]] eqn:EPA; simpl in HlPA; try lia.
    inversion HPA as [|? ? [Hc0A Hc0P] HPA']; subst. inversion HPA' as [|? ? [Hc1A Hc1P] _]; subst.
    inversion HpPA as [|? ? Hpc0 HpPA']; subst. inversion HpPA' as [|? ? Hpc1 _]; subst.
    pose proof (simplify_spec false v c0 Hc0A Hpc0) as HS0. simpl negb in HS0.
    assert (Hpc1r : proper (reverse c1) = true) by now rewrite proper_reverse.
    pose proof (simplify_spec true v (reverse c1) (Al_reverse v c1 Hc1A) Hpc1r) as HS1. simpl negb in HS1.
    simpl nth.
    pose proof (SimpOK_nonempty _ _ _ _ Hpc0 HS0) as Hne0. pose proof (SimpOK_nonempty _ _ _ _ Hpc1r HS1) as Hne1.
    pose proof (SimpOK_PiecesL _ _ _ _ HS0) as HP0. pose proof (SimpOK_PiecesL _ _ _ _ HS1) as HP1.
    destruct HS0 as (HPat0 & HLp0 & HLperm0 & _). destruct HS1 as (HPat1 & HLp1 & HLperm1 & _).
    eapply (p_else_two v cs (pick_st SFull cs seq) (pick_st SEmpty cs seq) c0 c1); eauto.
    + apply (pick_st_incl SPartA cs seq). rewrite EPA. now left.
    + rewrite ordering_reverse in HLperm1. etransitivity; [apply Permutation_rev|exact HLperm1].
    + apply (PiecesL_trans _ [reverse c1]); [exact HP1|]. apply PiecesL_Ref. apply Ref_reverse.
Qed.

(* ------------------------------------------------------------------------------------------------ *)
(* Q.set_contiguous *)
Lemma count_st_app s a b : count_st s (a ++ b) = count_st s a + count_st s b.
Proof. unfold count_st. now rewrite filter_app, app_length. Qed.

Lemma count_st_rev s seq : count_st s (rev seq) = count_st s seq.
Proof.
  induction seq as [|st seq IH]; [reflexivity|]. simpl rev. rewrite count_st_app, IH, !count_st_cons.
  change (count_st s []) with 0. destruct (status_eqb s st); lia.
Qed.

Lemma last_all_E seq d : seq <> [] -> count_st SEmpty seq = length seq -> last seq d = SEmpty.
Proof.
  induction seq as [|st seq IH]; intros Hne Hc; [congruence|].
  rewrite count_st_cons in Hc. cbn [length] in Hc. pose proof (count_st_le SEmpty seq) as Hle.
  destruct (status_eqb SEmpty st) eqn:E; [|lia]. apply status_eqb_eq in E. subst st.
  destruct seq as [|st2 seq']; [reflexivity|]. change (last (SEmpty :: st2 :: seq') d) with (last (st2 :: seq') d).
  apply IH; [discriminate|lia].
Qed.

Lemma one_non_empty_last (R : pq -> status -> Prop) s cs seq :
  Forall2 R cs seq -> s <> SEmpty -> S (count_st SEmpty seq) = length seq -> count_st s seq = 1 ->
  exists es c es2, cs = es ++ c :: es2 /\ Forall (fun e => R e SEmpty) (es ++ es2) /\ R c s /\
                   (last seq SFull = s <-> es2 = []).
Proof.
  intros H Hs. induction H as [|c st cs seq Hc H IH]; intros HnE Hn1; [discriminate|].
  rewrite !count_st_cons in *. cbn [length] in HnE.
  pose proof (count_st_le SEmpty seq) as HleE.
  destruct (status_eqb SEmpty st) eqn:EE.
  - apply status_eqb_eq in EE. subst st.
    assert (Es : status_eqb s SEmpty = false) by (destruct s; simpl; congruence). rewrite Es in *.
    destruct IH as (es & c0 & es2 & -> & HE & Hc0 & Hlast); [lia|exact Hn1|].
    exists (c :: es), c0, es2. simpl app. split; [reflexivity|]. split; [now constructor|]. split; [exact Hc0|].
    destruct seq as [|st2 seq']; [inversion H; now destruct es|].
    change (last (SEmpty :: st2 :: seq') SFull) with (last (st2 :: seq') SFull). exact Hlast.
  - assert (HallE : count_st SEmpty seq = length seq) by lia.
    pose proof (count_st_all R SEmpty cs seq H HallE) as HE.
    pose proof (count_st_total seq) as Ht.
    assert (H0 : count_st s seq = 0) by (destruct s; try congruence; lia).
    destruct (status_eqb s st) eqn:Es; [|lia]. apply status_eqb_eq in Es. subst st.
    exists [], c, cs. simpl app. split; [reflexivity|]. split; [exact HE|]. split; [exact Hc|]. split.
    + destruct seq as [|st2 seq']; [inversion H; reflexivity|]. intros HL.
      change (last (s :: st2 :: seq') SFull) with (last (st2 :: seq') SFull) in HL.
      rewrite (last_all_E (st2 :: seq') SFull) in HL by (auto; discriminate). congruence.
    + intros ->. inversion H. reflexivity.
Qed.

(* the part of Q.set_contiguous after the possible reversal of the children *)
Definition q_body (v : nat) (cs : list pq) (seq : list status) : result (pq * status) :=
  let n := length cs in
  let nF := count_st SFull seq in
  let nE := count_st SEmpty seq in
  let nPA := count_st SPartA seq in
  let nPU := count_st SPartU seq in
  if impossible n nE nPA nPU then Err ValueErr
  else if nF =? n then Ok (Node KQ cs, SFull)
  else if nE =? n then Ok (Node KQ cs, SEmpty)
  else if nPU =? 1 then Ok (Node KQ cs, SPartU)
  else if (nPA =? 1) && (S nE =? n) then
    Ok (Node KQ cs, if status_eqb (last seq SFull) SPartA then SPartA else SPartU)
  else
    match q_scan v (combine cs seq) [] false false with
    | Err e => Err e
    | Ok (new_children, seen_right_end) => Ok (Node KQ new_children, if seen_right_end then SPartU else SPartA)
    end.

Lemma q_cases_body v cs0 seq0 :
  q_cases v cs0 seq0 =
  let flip := status_eqb (last seq0 SFull) SEmpty ||
              (status_eqb (last seq0 SFull) SPartA && (S (count_st SFull seq0) =? length cs0)) in
  q_body v (if flip then rev cs0 else cs0) (if flip then rev seq0 else seq0).
Proof.
  unfold q_cases, q_body. cbv zeta.
  destruct (status_eqb (last seq0 SFull) SEmpty || _); [|reflexivity].
  now rewrite rev_length, !count_st_rev.
Qed.

(* the state of the scan: acc = e1 ++ fs ++ e2 (blocks without v, with v, without v) made of pieces of the
   children done so far *)
Definition ScanInv (v : nat) (done acc : list pq) (sn sre : bool) : Prop :=
  Forall (fun c => proper c = true) acc /\ length done <= length acc /\
  Permutation (flat_map ordering done) (flat_map ordering acc) /\ PiecesL acc done /\
  exists e1 fs e2, acc = e1 ++ fs ++ e2 /\ Forall (PureE v) e1 /\ Forall (PureF v) fs /\ Forall (PureE v) e2 /\
                   (sn = false -> fs = [] /\ e2 = []) /\ (sre = false -> e2 = []).

Lemma ScanInv_step v done acc sn sre c L e' f' (front : bool) sn' sre' :
  ScanInv v done acc sn sre ->
  Forall (fun c => proper c = true) L -> L <> [] ->
  Permutation (ordering c) (flat_map ordering L) -> PiecesL L [c] ->
  Forall (PureE v) e' -> Forall (PureF v) f' ->
  (* front: the pieces are e' ++ f' and nothing with v was seen; otherwise f' ++ e' and the right end was not seen *)
  (if front then L = e' ++ f' /\ sn = false else L = f' ++ e' /\ (sre = false \/ f' = [])) ->
  (sn' = false -> f' = [] /\ front = true /\ sn = false) -> (sre' = false -> (front = true \/ e' = []) /\ sre = false) ->
  ScanInv v (done ++ [c]) (acc ++ L) sn' sre'.
Proof.
  intros (Hp & Hlen & Hperm & Hpieces & e1 & fs & e2 & -> & HE1 & HF & HE2 & Hsn & Hsre) HpL HneL HpermL HpiecesL HE' HF' Hfront Hsn' Hsre'.
  split; [|split; [|split; [|split]]].
  - apply Forall_app. auto.
  - rewrite !app_length in *. simpl. destruct L; [congruence|simpl; lia].
  - rewrite (flat_map_app ordering done [c]), (flat_map_app ordering (e1 ++ fs ++ e2) L).
    change (flat_map ordering [c]) with (ordering c ++ []). rewrite app_nil_r. apply Permutation_app; assumption.
  - now apply PiecesL_app.
  - destruct front.
    + destruct Hfront as [-> Hsnf]. destruct (Hsn Hsnf) as [-> ->]. rewrite !app_nil_r.
      exists (e1 ++ e'), f', []. rewrite app_nil_r, <- app_assoc.
      split; [reflexivity|]. split; [apply Forall_app; auto|]. split; [exact HF'|]. split; [constructor|]. split.
      * intros Hx. destruct (Hsn' Hx) as [-> _]. auto.
      * auto.
    + destruct Hfront as [-> Hsref].
      exists e1, (fs ++ f'), (e2 ++ e').
      split; [|split; [exact HE1|split; [apply Forall_app; auto|split; [apply Forall_app; auto|split]]]].
      * destruct Hsref as [Hsref| ->]; [rewrite (Hsre Hsref)|]; rewrite <- ?app_assoc, ?app_nil_r; reflexivity.
      * intros Hx. destruct (Hsn' Hx) as (_ & Hf & _). discriminate.
      * intros Hx. destruct (Hsre' Hx) as ([Hf|He] & Hs0); [discriminate|]. now rewrite He, (Hsre Hs0).
Qed.

Ltac scan_side :=
  try assumption; try (intros Hx; discriminate Hx); try discriminate;
  try (simpl; now rewrite app_nil_r); try apply PiecesL_refl; auto.

Lemma q_scan_post v cs seq :
  Forall2 (StOK v) cs seq -> Forall (fun c => proper c = true) cs ->
  forall done acc sn sre res,
    ScanInv v done acc sn sre -> q_scan v (combine cs seq) acc sn sre = Ok res ->
    exists sn', ScanInv v (done ++ cs) (fst res) sn' (snd res).
Proof.
  induction 1 as [|c st cs seq Hc H IH]; intros Hp done acc sn sre res Hinv Hres.
  - simpl in Hres. inversion Hres; subst. simpl. rewrite app_nil_r. eauto.
  - inversion Hp as [|? ? Hpc Hp']; subst.
    replace (done ++ c :: cs) with ((done ++ [c]) ++ cs) by (rewrite <- app_assoc; reflexivity).
    simpl in Hres. destruct st; simpl in Hc.
    + (* full *)
      destruct sre; [discriminate|]. eapply (IH Hp'); [|exact Hres].
      apply (ScanInv_step v done acc sn false c [c] [] [c] false true false); scan_side.
    + (* empty *)
      eapply (IH Hp'); [|exact Hres]. destruct sn.
      * apply (ScanInv_step v done acc true sre c [c] [c] [] false true true); scan_side.
      * apply (ScanInv_step v done acc false sre c [c] [c] [] true false sre); scan_side.
    + (* aligned partial *)
      destruct Hc as [HcA HcP]. destruct sre; [discriminate|]. destruct sn.
      * assert (Hpr : proper (reverse c) = true) by now rewrite proper_reverse.
        pose proof (simplify_spec true v (reverse c) (Al_reverse v c HcA) Hpr) as HS1. simpl negb in HS1.
        pose proof (SimpOK_nonempty _ _ _ _ Hpr HS1) as Hne. pose proof (SimpOK_PiecesL _ _ _ _ HS1) as HP1.
        destruct HS1 as ((e' & f' & HE' & HF' & HL) & HLp & HLperm & _). simpl in HL.
        eapply (IH Hp'); [|exact Hres].
        apply (ScanInv_step v done acc true false c _ e' f' false true true); scan_side.
        -- rewrite ordering_reverse in HLperm. etransitivity; [apply Permutation_rev|exact HLperm].
        -- apply (PiecesL_trans _ [reverse c]); [exact HP1|]. apply PiecesL_Ref, Ref_reverse.
      * pose proof (simplify_spec false v c HcA Hpc) as HS0. simpl negb in HS0.
        pose proof (SimpOK_nonempty _ _ _ _ Hpc HS0) as Hne. pose proof (SimpOK_PiecesL _ _ _ _ HS0) as HP0.
        destruct HS0 as ((e' & f' & HE' & HF' & HL) & HLp & HLperm & _). simpl in HL.
        eapply (IH Hp'); [|exact Hres].
        apply (ScanInv_step v done acc false false c _ e' f' true true false); scan_side.
    + discriminate.
Qed.

Lemma all_empty_count v cs seq :
  Forall2 (StOK v) cs seq -> Forall (fun c => proper c = true) cs -> Forall (PureE v) cs ->
  count_st SEmpty seq = length seq.
Proof.
  induction 1 as [|c st cs seq Hc H IH]; intros Hp HF; [reflexivity|].
  inversion Hp; subst. inversion HF; subst. rewrite count_st_cons.
  rewrite (StOK_E v c st) by assumption. simpl. f_equal. now apply IH.
Qed.

Lemma Partial_from_counts v k cs seq :
  Forall2 (StOK v) cs seq -> Forall (fun c => proper c = true) cs ->
  count_st SFull seq <> length seq -> count_st SEmpty seq <> length seq -> Partial v (Node k cs).
Proof.
  intros HS Hp HF HE. split; intros H.
  - apply Pure_node_E in H. apply HE. now apply (all_empty_count v cs seq).
  - apply Pure_node_F in H. apply HF. now apply (all_full_count v cs seq).
Qed.

Theorem q_body_post v cs seq t' st :
  2 <= length cs -> Forall (fun c => proper c = true) cs -> Forall2 (StOK v) cs seq ->
  q_body v cs seq = Ok (t', st) -> CasePost v KQ cs True t' st.
Proof.
  intros Hn Hp HS Hres. unfold q_body in Hres.
  pose proof (Forall2_len' _ _ _ HS) as Hlen. pose proof (count_st_total seq) as Htot.
  destruct (impossible _ _ _ _) eqn:Eimp; [discriminate|].
  unfold impossible in Eimp. apply orb_false_iff in Eimp. destruct Eimp as [E1 E2]. apply Nat.ltb_ge in E1.
  assert (Hsame : forall s0, StOK v (Node KQ cs) s0 -> CasePost v KQ cs True (Node KQ cs) s0).
  { intros s0 Hs0. split; [exact Hs0|]. split; [split; [destruct cs; [simpl in Hn; lia|discriminate]|exact Hp]|].
    split; [intros _; now apply proper_node_iff|]. split; [reflexivity|apply Ref_refl]. }
  destruct (count_st SFull seq =? length cs) eqn:EF.
  { apply Nat.eqb_eq in EF. inversion Hres; subst. rewrite Hlen in EF. apply Hsame. simpl.
    apply Pure_node_F. exact (count_st_all _ SFull _ _ HS EF). }
  destruct (count_st SEmpty seq =? length cs) eqn:EE.
  { apply Nat.eqb_eq in EE. inversion Hres; subst. rewrite Hlen in EE. apply Hsame. simpl.
    apply Pure_node_E. exact (count_st_all _ SEmpty _ _ HS EE). }
  apply Nat.eqb_neq in EF, EE.
  assert (HPart : Partial v (Node KQ cs)) by (apply (Partial_from_counts v KQ cs seq); auto; congruence).
  destruct (count_st SPartU seq =? 1) eqn:EPU.
  { apply Nat.eqb_eq in EPU. inversion Hres; subst.
    rewrite EPU in E2. change (1 <=? 1) with true in E2. cbn [andb] in E2. apply negb_false_iff, Nat.eqb_eq in E2.
    destruct (one_non_empty (StOK v) SPartU cs seq HS) as (es & c & es2 & -> & HE & Hc & _ & _);
      [discriminate|lia|exact EPU|].
    simpl in Hc. destruct Hc as [HcCF HcP]. simpl in HE. apply Forall_app in HE. destruct HE as [HE1 HE2].
    apply Hsame. simpl. split; [now apply CF_QX|exact HPart]. }
  apply Nat.eqb_neq in EPU.
  assert (HnoPU : count_st SPartU seq = 0).
  { destruct (count_st SPartU seq) as [|k] eqn:EK; [reflexivity|]. change (1 <=? S k) with true in E2.
    cbn [andb] in E2. apply negb_false_iff, Nat.eqb_eq in E2. lia. }
  destruct ((count_st SPartA seq =? 1) && (S (count_st SEmpty seq) =? length cs)) eqn:Ei.
  { apply andb_true_iff in Ei. destruct Ei as [Ei1 Ei2]. apply Nat.eqb_eq in Ei1, Ei2. inversion Hres; subst.
    destruct (one_non_empty_last (StOK v) SPartA cs seq HS) as (es & c & es2 & -> & HE & Hc & Hlast);
      [discriminate|lia|exact Ei1|].
    simpl in Hc. destruct Hc as [HcA HcP]. simpl in HE. apply Hsame.
    destruct (status_eqb (last seq SFull) SPartA) eqn:EL.
    - apply status_eqb_eq, Hlast in EL. subst es2. rewrite app_nil_r in HE. simpl. split; [|exact HPart].
      now apply (Al_QX false v es c).
    - simpl. split; [|exact HPart]. apply Forall_app in HE. destruct HE as [HE1 HE2].
      apply CF_QX; auto. now apply (Al_CF false). }
  (* the scan *)
  destruct (q_scan v (combine cs seq) [] false false) as [[acc' sre']|e] eqn:Escan; [|discriminate].
  inversion Hres; subst. clear Hres.
  assert (Hinv0 : ScanInv v [] [] false false).
  { split; [constructor|]. split; [simpl; lia|]. split; [constructor|]. split; [apply PiecesL_refl|].
    exists [], [], []. repeat split; constructor. }
  destruct (q_scan_post v cs seq HS Hp [] [] false false _ Hinv0 Escan) as (sn' & Hinv). simpl in Hinv.
  destruct Hinv as (Hpa & Hla & Hperma & Hpieces & e1 & fs & e2 & -> & HE1 & HF & HE2 & _ & Hsre).
  assert (HCF : CF v (Node KQ (e1 ++ fs ++ e2))) by now apply CF_QF.
  assert (HPart' : Partial v (Node KQ (e1 ++ fs ++ e2))) by (apply (Partial_perm v (Node KQ cs)); auto).
  split; [|split; [|split; [|split]]].
  - destruct sre'; simpl; split; auto.
    rewrite (Hsre eq_refl), app_nil_r in *. now apply (Al_QF false v e1 fs).
  - split; [|exact Hpa]. intros E0. rewrite E0 in Hla. simpl in Hla. lia.
  - intros _. apply proper_node_iff. split; [lia|exact Hpa].
  - exact Hperma.
  - intros o Ho. apply Ord_Q in Ho. apply Ord_Q. destruct Hpieces as [Hf Hb]. destruct Ho; [left|right]; auto.
Qed.

Theorem q_cases_post v cs0 seq0 t' st :
  2 <= length cs0 -> Forall (fun c => proper c = true) cs0 -> Forall2 (StOK v) cs0 seq0 ->
  q_cases v cs0 seq0 = Ok (t', st) -> CasePost v KQ cs0 True t' st.
Proof.
  intros Hn Hp HS Hres. rewrite q_cases_body in Hres. cbv zeta in Hres.
  destruct (status_eqb (last seq0 SFull) SEmpty || _) eqn:Eflip.
  - (* the children were reversed *)
    assert (HS' : Forall2 (StOK v) (rev cs0) (rev seq0)) by now apply Forall2_rev.
    assert (Hp' : Forall (fun c => proper c = true) (rev cs0)) by now apply Forall_rev.
    assert (Hn' : 2 <= length (rev cs0)) by now rewrite rev_length.
    destruct (q_body_post v (rev cs0) (rev seq0) t' st Hn' Hp' HS' Hres) as (H1 & H2 & H3 & H4 & H5).
    split; [exact H1|]. split; [exact H2|]. split; [exact H3|]. split.
    + etransitivity; [|exact H4]. apply flat_map_perm, Permutation_rev.
    + intros o Ho. apply H5 in Ho. apply Ord_Q in Ho. apply Ord_Q. rewrite rev_involutive in Ho. tauto.
  - now apply (q_body_post v cs0 seq0).
Qed.

(* ------------------------------------------------------------------------------------------------ *)
(* set_contiguous *)
Lemma mapM_ok {X Y} (g : X -> result Y) l ys : mapM g l = Ok ys -> Forall2 (fun x y => g x = Ok y) l ys.
Proof.
  revert ys. induction l as [|x t IH]; intros ys H; simpl in H.
  - inversion H. constructor.
  - destruct (g x) as [y|e] eqn:E; [|discriminate]. simpl in H.
    destruct (mapM g t) as [ys'|e] eqn:E2; [|discriminate]. simpl in H. inversion H; subst.
    constructor; auto.
Qed.

Lemma CF_perm_pure v a b : Permutation (ordering a) (ordering b) -> (PureE v a -> PureE v b) /\ (PureF v a -> PureF v b).
Proof. intros HP. unfold PureE, PureF. split; intros H; eapply Permutation_Forall; eassumption. Qed.

Lemma CF_flat_ret v t : CF v t -> CF v (flat_ret t).
Proof.
  assert (HE : forall t, PureE v t -> PureE v (flat_ret t)) by (intros t0; unfold PureE; now rewrite ordering_flat_ret).
  assert (HF : forall t, PureF v t -> PureF v (flat_ret t)) by (intros t0; unfold PureF; now rewrite ordering_flat_ret).
  assert (HEl : forall l, Forall (PureE v) l -> Forall (PureE v) (map flat_ret l))
    by (intros l Hl; apply Forall_map; eapply Forall_impl; [|exact Hl]; auto).
  assert (HFl : forall l, Forall (PureF v) l -> Forall (PureF v) (map flat_ret l))
    by (intros l Hl; apply Forall_map; eapply Forall_impl; [|exact Hl]; auto).
  induction 1 as [t H|t H|es c es2 H1 HC IH|e1 fs e2 H1 H2 H3|e1 x e2 H1 HX IH H3].
  - apply CF_E. auto.
  - apply CF_F. auto.
  - destruct es as [|e es]; [destruct es2 as [|e es2]|].
    + exact IH.
    + change (CF v (Node KP (map flat_ret ([] ++ c :: e :: es2)))). rewrite map_app. simpl map.
      apply (CF_P v [] (flat_ret c) (flat_ret e :: map flat_ret es2)); [|exact IH]. simpl. now apply (HEl (e :: es2)).
    + assert (E : flat_ret (Node KP ((e :: es) ++ c :: es2)) = Node KP (map flat_ret ((e :: es) ++ c :: es2))).
      { simpl. destruct (es ++ c :: es2) eqn:E0; [now destruct es|reflexivity]. }
      rewrite E, map_app. simpl map. apply (CF_P v (flat_ret e :: map flat_ret es) (flat_ret c) (map flat_ret es2)); [|exact IH].
      change ((flat_ret e :: map flat_ret es) ++ map flat_ret es2) with (map flat_ret (e :: es) ++ map flat_ret es2).
      rewrite <- map_app. apply HEl. exact H1.
  - destruct (e1 ++ fs ++ e2) as [|a [|b r]] eqn:E.
    + apply CF_E. constructor.
    + simpl. assert (Ha : PureE v a \/ PureF v a).
      { assert (Hin : In a (e1 ++ fs ++ e2)) by (rewrite E; now left).
        apply in_app_or in Hin. rewrite Forall_forall in *. destruct Hin as [Hin|Hin]; [left; auto|].
        apply in_app_or in Hin. destruct Hin; [right|left]; auto. }
      destruct Ha; [apply CF_E|apply CF_F]; auto.
    + change (CF v (Node KQ (map flat_ret (a :: b :: r)))). rewrite <- E, !map_app. apply CF_QF; auto.
  - destruct (e1 ++ x :: e2) as [|a [|b r]] eqn:E.
    + now destruct e1.
    + simpl. assert (a = x).
      { destruct e1 as [|e e1]; [inversion E; reflexivity|]. inversion E as [[E1 E2]]. now destruct e1. }
      subst a. exact IH.
    + change (CF v (Node KQ (map flat_ret (a :: b :: r)))). rewrite <- E, map_app. simpl map. apply CF_QX; auto.
Qed.

Definition Post (v : nat) (t t' : pq) (st : status) : Prop :=
  StOK v t' st /\ AlmostProper t' /\ (CF v t -> proper t' = true) /\
  Permutation (ordering t) (ordering t') /\ Ref t' t.

Lemma flat_map_perm2 (l l' : list pq) :
  Forall2 (fun c c' => Permutation (ordering c) (ordering c')) l l' ->
  Permutation (flat_map ordering l) (flat_map ordering l').
Proof. induction 1; simpl; [constructor|]. now apply Permutation_app. Qed.

Lemma pick_E_nonempty v cs seq c :
  Forall2 (StOK v) cs seq -> Forall (fun c => proper c = true) cs -> In c cs -> PureE v c ->
  pick_st SEmpty cs seq <> [].
Proof.
  induction 1 as [|c0 st cs seq Hc H IH]; intros Hp Hin HE; [destruct Hin|].
  inversion Hp; subst. rewrite pick_st_cons. destruct Hin as [->|Hin].
  - rewrite (StOK_E v c st) by assumption. simpl. discriminate.
  - destruct (status_eqb SEmpty st); [discriminate|]. now apply IH.
Qed.

Lemma Forall2_trans3 {X} (R1 R2 R3 R : X -> X -> Prop) a b c d :
  (forall x y z w, R1 x y -> R2 y z -> R3 z w -> R x w) ->
  Forall2 R1 a b -> Forall2 R2 b c -> Forall2 R3 c d -> Forall2 R a d.
Proof.
  intros HR H1. revert c d. induction H1; intros c d H2 H3; inversion H2; subst; inversion H3; subst; constructor; eauto.
Qed.

Lemma set_contiguous_leaf f v s : set_contiguous f v (Leaf s) = Ok (Leaf s, if memn v s then SFull else SEmpty).
Proof. destruct f; reflexivity. Qed.

Lemma set_contiguous_node f v k cs :
  set_contiguous (S f) v (Node k cs) =
  rbind (mapM (fun c => rmap fst (set_contiguous f v c)) cs) (fun cs1 =>
  let cs2 := match cs1 with [c] => [flat_inplace c] | _ => map flat_ret cs1 end in
  rbind (mapM (set_contiguous f v) cs2) (fun res =>
  match k with
  | KP => p_cases v (map fst res) (map snd res)
  | KQ => q_cases v (map fst res) (map snd res)
  end)).
Proof. reflexivity. Qed.

Theorem set_contiguous_post : forall f v t t' st,
  proper t = true -> set_contiguous f v t = Ok (t', st) -> Post v t t' st.
Proof.
  induction f as [|f IH]; intros v t t' st Hp Hres.
  - destruct t as [s|k cs]; [|discriminate]. rewrite set_contiguous_leaf in Hres. inversion Hres; subst.
    split; [|split; [constructor|split; [reflexivity|split; [reflexivity|apply Ref_refl]]]].
    destruct (memn v s) eqn:E; simpl; unfold PureF, PureE; simpl; constructor; auto.
    + now apply memn_iff.
    + intros H. apply memn_iff in H. congruence.
  - destruct t as [s|k cs].
    { rewrite set_contiguous_leaf in Hres. inversion Hres; subst.
      split; [|split; [constructor|split; [reflexivity|split; [reflexivity|apply Ref_refl]]]].
      destruct (memn v s) eqn:E; simpl; unfold PureF, PureE; simpl; constructor; auto.
      + now apply memn_iff.
      + intros H. apply memn_iff in H. congruence. }
    rewrite set_contiguous_node in Hres. apply proper_node_iff in Hp. destruct Hp as [Hn Hpc].
    destruct (mapM (fun c => rmap fst (set_contiguous f v c)) cs) as [cs1|e] eqn:E1; [|discriminate].
    simpl rbind in Hres. apply mapM_ok in E1.
    (* first pass *)
    assert (H1 : Forall2 (fun c c1 => exists st1, Post v c c1 st1) cs cs1).
    { clear Hres Hn. induction E1 as [|c c1 cs cs1 Hc E1 IH1]; [constructor|]. inversion Hpc; subst.
      constructor; [|now apply IH1].
      destruct (set_contiguous f v c) as [[c1' st1]|e] eqn:Ec; [|discriminate]. simpl in Hc. inversion Hc; subst.
      exists st1. now apply IH. }
    assert (Hlen1 : length cs1 = length cs) by (symmetry; exact (Forall2_len' _ _ _ E1)).
    assert (Ecs2 : match cs1 with [c] => [flat_inplace c] | _ => map flat_ret cs1 end = map flat_ret cs1).
    { destruct cs1 as [|a [|b r]]; try reflexivity. simpl in Hlen1. lia. }
    cbv zeta in Hres. rewrite Ecs2 in Hres. clear Ecs2.
    destruct (mapM (set_contiguous f v) (map flat_ret cs1)) as [res|e] eqn:E2; [|discriminate].
    simpl rbind in Hres. apply mapM_ok in E2.
    (* second pass: on flattened trees in v-contiguous form *)
    assert (H2 : Forall2 (fun c1 r => Post v (flat_ret c1) (fst r) (snd r) /\ proper (fst r) = true) cs1 res).
    { clear Hres. apply Forall2_map_l in E2. revert E2. clear - H1 IH.
      intros E2. revert cs H1. induction E2 as [|c1 r cs1 res Hr E2 IH2]; intros cs H1; [constructor|].
      inversion H1 as [|c ? cs' ? (st1 & HP1) H1']; subst. constructor; [|eapply IH2; eassumption].
      destruct HP1 as (HS1 & HA1 & _ & _ & _).
      assert (Hp2 : proper (flat_ret c1) = true) by now apply AlmostProper_flat.
      destruct r as [c3 st3]. pose proof (IH v (flat_ret c1) c3 st3 Hp2 Hr) as HP2. split; [exact HP2|].
      destruct HP2 as (_ & _ & HB & _ & _). apply HB. apply CF_flat_ret. now apply (StOK_CF v c1 st1). }
    set (cs3 := map fst res) in *. set (seq := map snd res) in *.
    assert (HS3 : Forall2 (StOK v) cs3 seq).
    { unfold cs3, seq. clear - H2. induction H2 as [|c1 r cs1 res [HP _] H2 IH2]; simpl; constructor; auto. apply HP. }
    assert (Hp3 : Forall (fun c => proper c = true) cs3).
    { unfold cs3. clear - H2. induction H2 as [|c1 r cs1 res [_ HP] H2 IH2]; simpl; constructor; auto. }
    assert (Hrel : Forall2 (fun c c3 => Permutation (ordering c) (ordering c3) /\ Ref c3 c) cs cs3).
    { unfold cs3. clear - H1 H2. revert res H2. induction H1 as [|c c1 cs cs1 (st1 & HP1) H1 IH1]; intros res H2;
        inversion H2 as [|? r ? res' [HP2 _] H2']; subst; simpl; constructor; [|now apply IH1].
      destruct HP1 as (_ & _ & _ & Hperm1 & Href1). destruct HP2 as (_ & _ & _ & Hperm2 & Href2).
      rewrite ordering_flat_ret in Hperm2. split; [etransitivity; eassumption|].
      intros o Ho. apply Href1, Ref_flat_ret, Href2, Ho. }
    assert (Hlen3 : length cs3 = length cs) by (symmetry; exact (Forall2_len' _ _ _ Hrel)).
    assert (Hn3 : 2 <= length cs3) by lia.
    assert (HpermAll : Permutation (flat_map ordering cs) (flat_map ordering cs3)).
    { apply flat_map_perm2. clear - Hrel. induction Hrel as [|c c3 cs cs3 [H _] _ IH]; constructor; auto. }
    assert (HrefAll : Ref (Node k cs3) (Node k cs)).
    { apply Ref_node. clear - Hrel. induction Hrel as [|c c3 cs cs3 [_ H] _ IH]; constructor; auto. }
    destruct k.
    + (* P *)
      destruct (p_cases_post v cs3 seq t' st Hn3 Hp3 HS3 Hres) as (HSt & HAl & HB & Hperm & Href).
      split; [exact HSt|]. split; [exact HAl|]. split; [|split].
      * intros HCF. apply HB.
        (* a child without v (or all children full of v) *)
        assert (Htransfer : forall c, In c cs -> exists c3, In c3 cs3 /\ Permutation (ordering c) (ordering c3)).
        { clear - Hrel. induction Hrel as [|c c3 cs cs3 [H _] _ IH]; intros x Hx; [destruct Hx|].
          destruct Hx as [->|Hx]; [exists c3; split; [now left|exact H]|].
          destruct (IH x Hx) as (y & Hy & HPy). exists y. split; [now right|exact HPy]. }
        inversion HCF as [? HE|? HF|es c es2 HE HC Heq| |]; subst.
        -- left. apply Pure_node_E in HE. destruct cs as [|c0 cs']; [simpl in Hn; lia|].
           destruct (Htransfer c0 (or_introl eq_refl)) as (c3 & Hc3 & HP3).
           apply (pick_E_nonempty v cs3 seq c3); auto.
           inversion HE; subst. now apply (proj1 (CF_perm_pure v c0 c3 HP3)).
        -- right. apply Pure_node_F in HF. apply Forall_forall. intros c3 Hc3.
           assert (Hback : exists c, In c cs /\ Permutation (ordering c) (ordering c3)).
           { clear - Hrel Hc3. induction Hrel as [|c c3' cs cs3 [H _] _ IH]; [destruct Hc3|].
             destruct Hc3 as [->|Hc3]; [exists c; split; [now left|exact H]|].
             destruct (IH Hc3) as (y & Hy & HPy). exists y. split; [now right|exact HPy]. }
           destruct Hback as (c & Hc & HPc). rewrite Forall_forall in HF.
           now apply (proj2 (CF_perm_pure v c c3 HPc)), HF.
        -- left. assert (Hex : exists e, In e (es ++ es2)).
           { destruct (es ++ es2) as [|e r] eqn:E0; [|exists e; now left]. exfalso.
             apply (f_equal (@length pq)) in E0. rewrite app_length in *. simpl in *. lia. }
           destruct Hex as (e & He). assert (HeE : PureE v e) by (rewrite Forall_forall in HE; auto).
           assert (Hein : In e (es ++ c :: es2)).
           { apply in_app_or in He. apply in_or_app. destruct He; [left|right; right]; auto. }
           destruct (Htransfer e Hein) as (c3 & Hc3 & HP3).
           apply (pick_E_nonempty v cs3 seq c3); auto. now apply (proj1 (CF_perm_pure v e c3 HP3)).
      * simpl ordering at 1. etransitivity; eassumption.
      * intros o Ho. apply HrefAll, Href, Ho.
    + (* Q *)
      destruct (q_cases_post v cs3 seq t' st Hn3 Hp3 HS3 Hres) as (HSt & HAl & HB & Hperm & Href).
      split; [exact HSt|]. split; [exact HAl|]. split; [intros _; now apply HB|]. split.
      * simpl ordering at 1. etransitivity; eassumption.
      * intros o Ho. apply HrefAll, Href, Ho.
Qed.

(* ------------------------------------------------------------------------------------------------ *)
(* reorder_sets *)
Lemma pq_loop_post fuel : forall elems t t_final,
  proper t = true -> pq_loop fuel elems t = Ok t_final ->
  proper t_final = true /\ Ref t_final t /\ Permutation (ordering t) (ordering t_final) /\
  forall w, In w elems -> forall o, Ord t_final o -> Interval (fun s => In w s) o.
Proof.
  induction elems as [|i rest IH]; intros t t_final Hp Hres; simpl in Hres.
  - inversion Hres; subst. repeat split; auto using Ref_refl. intros w [].
  - destruct t as [s|k cs]; [discriminate|].
    destruct (set_contiguous fuel i (Node k cs)) as [[t' st]|e] eqn:E; [|discriminate]. simpl in Hres.
    destruct (set_contiguous_post fuel i (Node k cs) t' st Hp E) as (HSt & HAl & _ & Hperm & Href).
    assert (Hp2 : proper (flat_ret t') = true) by now apply AlmostProper_flat.
    destruct (IH (flat_ret t') t_final Hp2 Hres) as (Hpf & Hreff & Hpermf & Hint).
    split; [exact Hpf|]. split; [|split].
    + intros o Ho. apply Href, Ref_flat_ret, Hreff, Ho.
    + etransitivity; [exact Hperm|]. rewrite ordering_flat_ret in Hpermf. exact Hpermf.
    + intros w [<-|Hw] o Ho.
      * apply (CF_sound i t' (StOK_CF i t' st HSt)). apply Ref_flat_ret, Hreff, Ho.
      * now apply (Hint w Hw).
Qed.

Lemma ordering_leaves F : flat_map ordering (map Leaf F) = F.
Proof. induction F as [|s F IH]; simpl; [reflexivity|]. now rewrite IH. Qed.

(* SOUNDNESS of the mirrored reorder_sets: an answer is a rearrangement of the family in which, for every element,
   the sets containing it are consecutive.  elems is the order in which the elements are visited; it has to
   cover the elements that occur in the sets. *)
Theorem pq_reorder_sound elems F res :
  incl (concat F) elems -> pq_reorder elems F = Ok res -> SetsOK F res.
Proof.
  intros Hcov Hres. unfold pq_reorder in Hres.
  destruct (Nat.leb_spec (length F) 2) as [Hl|Hl].
  - inversion Hres; subst. now apply small_family_ok.
  - destruct (pq_loop (length F) elems (Node KP (map Leaf F))) as [t|e] eqn:E; [|discriminate].
    assert (Hp : proper (Node KP (map Leaf F)) = true).
    { apply proper_node_iff. split; [rewrite map_length; lia|]. apply Forall_map, Forall_forall. reflexivity. }
    destruct (pq_loop_post _ _ _ _ Hp E) as (Hpf & Href & Hperm & Hint).
    destruct t as [s|k cs]; [discriminate|]. inversion Hres; subst. clear Hres.
    simpl ordering in Hperm at 1. rewrite ordering_leaves in Hperm.
    split; [exact Hperm|]. intros v.
    destruct (in_dec Nat.eq_dec v elems) as [Hv|Hv].
    + apply (Hint v Hv). apply Ord_ordering.
    + apply Interval_none. apply Forall_forall. intros s Hs Hvs. apply Hv, Hcov. apply in_concat.
      exists s. split; [|exact Hvs]. eapply Permutation_in; [apply Permutation_sym; exact Hperm|exact Hs].
Qed.

Corollary pq_reorder_perm elems F res : pq_reorder elems F = Ok res -> Permutation F res.
Proof.
  intros Hres. unfold pq_reorder in Hres.
  destruct (Nat.leb_spec (length F) 2) as [Hl|Hl]; [inversion Hres; reflexivity|].
  destruct (pq_loop (length F) elems (Node KP (map Leaf F))) as [t|e] eqn:E; [|discriminate].
  assert (Hp : proper (Node KP (map Leaf F)) = true).
  { apply proper_node_iff. split; [rewrite map_length; lia|]. apply Forall_map, Forall_forall. reflexivity. }
  destruct (pq_loop_post _ _ _ _ Hp E) as (_ & _ & Hperm & _).
  destruct t as [s|k cs]; [discriminate|]. inversion Hres; subst.
  simpl ordering in Hperm at 1. now rewrite ordering_leaves in Hperm.
Qed.

Corollary pq_reorder_sets_check elems F res :
  incl (concat F) elems -> pq_reorder elems F = Ok res -> sets_check F res = true.
Proof. intros H1 H2. apply sets_check_correct. now apply (pq_reorder_sound elems). Qed.

(* ------------------------------------------------------------------------------------------------ *)
(* the only error is ValueError: the fuel is never exhausted and no attribute error can occur *)
Lemma mapM_err {X Y} (g : X -> result Y) l e : mapM g l = Err e -> exists x, In x l /\ g x = Err e.
Proof.
  induction l as [|x t IH]; simpl; [discriminate|]. destruct (g x) as [y|e'] eqn:E; simpl.
  - destruct (mapM g t) as [ys|e''] eqn:E2; simpl; [discriminate|]. intros H. inversion H; subst.
    destruct (IH eq_refl) as (x0 & Hx0 & Hg). exists x0. split; [now right|exact Hg].
  - intros H. inversion H; subst. exists x. split; [now left|exact E].
Qed.

Lemma q_scan_err v l acc sn sre e : q_scan v l acc sn sre = Err e -> e = ValueErr.
Proof.
  revert acc sn sre. induction l as [|[c st] t IH]; intros acc sn sre H; simpl in H; [discriminate|].
  destruct st.
  - destruct sre; [now inversion H|eauto].
  - eauto.
  - destruct sre; [now inversion H|]. destruct sn; eauto.
  - now inversion H.
Qed.

Lemma p_cases_err v cs seq e : p_cases v cs seq = Err e -> e = ValueErr.
Proof.
  unfold p_cases. destruct (impossible _ _ _ _); [intros H; now inversion H|].
  repeat (match goal with |- context [if ?b then _ else _] => destruct b end; try discriminate).
Qed.

Lemma q_cases_err v cs seq e : q_cases v cs seq = Err e -> e = ValueErr.
Proof.
  unfold q_cases. cbv zeta. destruct (impossible _ _ _ _); [intros H; now inversion H|].
  repeat (match goal with |- context [if ?b then _ else _] => destruct b end; try discriminate);
    (destruct (q_scan _ _ _ _ _) as [[a b]|e'] eqn:E; [discriminate|]; intros H; inversion H; subst;
     now apply q_scan_err in E).
Qed.

Lemma set_contiguous_fuel : forall f v t e,
  proper t = true -> length (ordering t) <= f -> set_contiguous f v t = Err e -> e = ValueErr.
Proof.
  induction f as [|f IH]; intros v t e Hp Hlen Hres.
  - destruct t as [s|k cs]; [rewrite set_contiguous_leaf in Hres; discriminate|].
    exfalso. apply proper_leaves in Hp. destruct (ordering (Node k cs)); [congruence|simpl in Hlen; lia].
  - destruct t as [s|k cs]; [rewrite set_contiguous_leaf in Hres; discriminate|].
    rewrite set_contiguous_node in Hres. apply proper_node_iff in Hp. destruct Hp as [Hn Hpc].
    (* every child has fewer leaves than the node *)
    assert (Hchild : forall c, In c cs -> length (ordering c) <= f).
    { intros c Hc. simpl in Hlen. clear - Hn Hpc Hlen Hc.
      assert (Hsum : forall l : list pq, Forall (fun c => proper c = true) l -> length l <= length (flat_map ordering l)).
      { induction 1 as [|x l Hx Hl IHl]; simpl; [lia|]. rewrite app_length. apply proper_leaves in Hx.
        destruct (ordering x); [congruence|simpl; lia]. }
      apply in_split in Hc. destruct Hc as (l1 & l2 & ->). rewrite flat_map_app in Hlen. simpl in Hlen.
      rewrite !app_length in Hlen. apply Forall_app in Hpc. destruct Hpc as [Hp1 Hp2]. inversion Hp2; subst.
      pose proof (Hsum l1 Hp1). pose proof (Hsum l2 H2). rewrite app_length in Hn. simpl in Hn. lia. }
    destruct (mapM (fun c => rmap fst (set_contiguous f v c)) cs) as [cs1|e1] eqn:E1.
    + simpl rbind in Hres. pose proof (mapM_ok _ _ _ E1) as F1.
      assert (Hlen1 : length cs1 = length cs) by (symmetry; exact (Forall2_len' _ _ _ F1)).
      assert (Ecs2 : match cs1 with [c] => [flat_inplace c] | _ => map flat_ret cs1 end = map flat_ret cs1).
      { destruct cs1 as [|a [|b r]]; try reflexivity. simpl in Hlen1. lia. }
      cbv zeta in Hres. rewrite Ecs2 in Hres.
      destruct (mapM (set_contiguous f v) (map flat_ret cs1)) as [res|e2] eqn:E2.
      * simpl rbind in Hres. destruct k; [now apply p_cases_err in Hres|now apply q_cases_err in Hres].
      * simpl in Hres. inversion Hres; subst. apply mapM_err in E2. destruct E2 as (c2 & Hc2 & Herr).
        apply in_map_iff in Hc2. destruct Hc2 as (c1 & <- & Hc1).
        (* c1 is the result of the first pass on some child c *)
        assert (Hsrc : exists c st1, In c cs /\ set_contiguous f v c = Ok (c1, st1)).
        { clear - F1 Hc1. induction F1 as [|c c1' cs cs1 Hc F1 IH1]; [destruct Hc1|].
          destruct Hc1 as [->|Hc1].
          - destruct (set_contiguous f v c) as [[c1' st1]|e] eqn:Ec; [|discriminate]. simpl in Hc. inversion Hc; subst.
            exists c, st1. split; [now left|exact Ec].
          - destruct (IH1 Hc1) as (c0 & st1 & H0 & H1). exists c0, st1. split; [now right|exact H1]. }
        destruct Hsrc as (c & st1 & Hc & Hsc). rewrite Forall_forall in Hpc.
        destruct (set_contiguous_post f v c c1 st1 (Hpc c Hc) Hsc) as (_ & HAl & _ & Hperm & _).
        apply (IH v (flat_ret c1) e); [now apply AlmostProper_flat| |exact Herr].
        rewrite ordering_flat_ret, <- (Permutation_length Hperm). now apply Hchild.
    + simpl in Hres. inversion Hres; subst. apply mapM_err in E1. destruct E1 as (c & Hc & Herr).
      destruct (set_contiguous f v c) as [r|e'] eqn:Ec; [discriminate|]. simpl in Herr. inversion Herr; subst.
      rewrite Forall_forall in Hpc. apply (IH v c e); auto.
Qed.

Theorem pq_reorder_total elems F : (exists res, pq_reorder elems F = Ok res) \/ pq_reorder elems F = Err ValueErr.
Proof.
  unfold pq_reorder. destruct (Nat.leb_spec (length F) 2) as [Hl|Hl]; [left; eauto|].
  assert (Hp : proper (Node KP (map Leaf F)) = true).
  { apply proper_node_iff. split; [rewrite map_length; lia|]. apply Forall_map, Forall_forall. reflexivity. }
  assert (Hleaves : ordering (Node KP (map Leaf F)) = F) by (simpl; apply ordering_leaves).
  assert (Hloop : forall elems t, proper t = true -> length (ordering t) = length F ->
            match pq_loop (length F) elems t with
            | Ok t' => length (ordering t') = length F
            | Err e => e = ValueErr
            end).
  { induction elems0 as [|i rest IH]; intros t Hpt Hlt; simpl; [exact Hlt|].
    destruct t as [s|k cs]; [simpl in Hlt; lia|].
    destruct (set_contiguous (length F) i (Node k cs)) as [[t' st]|e] eqn:E; simpl.
    - destruct (set_contiguous_post _ _ _ _ _ Hpt E) as (_ & HAl & _ & Hperm & _).
      apply IH; [now apply AlmostProper_flat|]. now rewrite ordering_flat_ret, <- (Permutation_length Hperm).
    - apply (set_contiguous_fuel _ _ _ _ Hpt) in E; [exact E|lia]. }
  specialize (Hloop elems _ Hp). rewrite Hleaves in Hloop. specialize (Hloop eq_refl).
  destruct (pq_loop (length F) elems (Node KP (map Leaf F))) as [t|e]; [|right; now subst].
  destruct t as [s|k cs]; [simpl in Hloop; lia|]. left. eauto.
Qed.

(* ------------------------------------------------------------------------------------------------ *)
(* chaining down: the mirrored solver and recognisers on top of the mirrored PQ-tree *)
From PrefVerif Require Import Model.Approval Proofs.Approval.

(* reorder_sets as a function of the family alone: elems_of F = the order in which the elements are visited *)
Definition pq_reorder_fn (elems_of : list (list nat) -> list nat) (F : list (list nat)) : option (list (list nat)) :=
  match pq_reorder (elems_of F) F with Ok res => Some res | Err _ => None end.

Section MirrorChain.
Variable elems_of : list (list nat) -> list nat.
Hypothesis elems_cover : forall F, incl (concat F) (elems_of F).

(* first half of reorder_contract, now a theorem about the mirror *)
Theorem pq_reorder_fn_sound F res : pq_reorder_fn elems_of F = Some res -> SetsOK F res.
Proof.
  unfold pq_reorder_fn. destruct (pq_reorder (elems_of F) F) as [r|e] eqn:E; [|discriminate].
  intros [= <-]. apply (pq_reorder_sound (elems_of F)); [apply elems_cover|exact E].
Qed.

(* every True answer of the mirrored solve_consecutive_ones carries a valid column order (any matrix) *)
Theorem pq_solve_sound rows nc perm :
  solve_model (pq_reorder_fn elems_of) rows nc = Some perm -> c1p_check rows nc perm = true.
Proof.
  unfold solve_model. destruct (group_cols_spec rows nc) as [Hfam Hget].
  destruct (pq_reorder_fn elems_of (map fst (group_cols rows nc))) as [res|] eqn:E; [|discriminate].
  intros [= <-]. rewrite (flat_map_ext_in _ (cols_of rows nc)) by (intros k _; apply Hget).
  apply (family_witness rows nc _ res Hfam). now apply pq_reorder_fn_sound.
Qed.

(* every True answer of the mirrored isC1P is right *)
Theorem pq_isC1P_sound rows nc :
  isC1P_model (pq_reorder_fn elems_of) rows nc = true -> c1p_decide rows nc = true.
Proof.
  unfold isC1P_model. pose proof (dedup_sets_family rows nc) as Hfam.
  destruct (pq_reorder_fn elems_of (dedup_sets (map (col_set rows) (seq 0 nc)))) as [res|] eqn:E; [|discriminate].
  intros _. apply (c1p_check_decide rows nc (flat_map (cols_of rows nc) res)).
  apply (family_witness rows nc _ res Hfam). now apply pq_reorder_fn_sound.
Qed.

(* the witnesses of the six recognisers built on the mirrored solver are valid *)
Let solve := solve_model (pq_reorder_fn elems_of).

Theorem pq_ci_sound alts ballots order :
  is_candidate_interval solve alts ballots = Some order -> ci_check alts ballots order = true.
Proof.
  unfold is_candidate_interval. destruct (solve (ci_matrix alts ballots) (length alts)) as [perm|] eqn:E; [|discriminate].
  intros [= <-]. apply ci_witness. now apply pq_solve_sound.
Qed.

Theorem pq_cei_sound alts ballots order :
  is_candidate_extremal_interval solve alts ballots = Some order -> cei_check alts ballots order = true.
Proof.
  unfold is_candidate_extremal_interval.
  destruct (solve (cei_matrix alts ballots) (length alts)) as [perm|] eqn:E; [|discriminate].
  intros [= <-]. apply pq_solve_sound, cei_witness in E. destruct E as [-> E]. exact E.
Qed.

Theorem pq_vi_sound alts ballots border :
  is_voter_interval solve alts ballots = Some border -> vi_check alts ballots border = true.
Proof. unfold is_voter_interval. intros E. apply pq_solve_sound in E. now rewrite vi_check_c1p. Qed.

Theorem pq_vei_sound alts ballots border :
  is_voter_extremal_interval solve alts ballots = Some border -> vei_check alts ballots border = true.
Proof. unfold is_voter_extremal_interval. intros E. apply pq_solve_sound in E. now apply vei_check_c1p. Qed.

Theorem pq_wsc_sound alts ballots border :
  is_weakly_single_crossing solve alts ballots = Some border -> wsc_check alts ballots border = true.
Proof. unfold is_weakly_single_crossing. intros E. apply pq_solve_sound in E. now apply wsc_check_c1p. Qed.

Theorem pq_de_sound alts ballots w :
  Forall (fun b => incl b alts) ballots ->
  is_dichotomous_euclidean solve alts ballots = Some w -> de_check alts ballots (fst w) (snd w) = true.
Proof.
  intros Hwf. unfold is_dichotomous_euclidean.
  destruct (is_candidate_interval solve alts ballots) as [order|] eqn:E; [|discriminate].
  intros [= <-]. apply de_construct_accepted; [exact Hwf|]. now apply pq_ci_sound.
Qed.
End MirrorChain.
